// C13 part (d) -- malformed data files.  Engine E4 (fault enumeration), flavour `san`.
//
// The harness generates, at run time and under /verif/build/tmp/C13/<pid>/, valid miniature data sets
//   geoid    : 4x3 PGM raster                                 -> Geoid(name, path, cubic, threadsafe)
//   magnetic : .wmm metadata + .wmm.cof (N = M = 2, 2 models + secular + constants)  -> MagneticModel
//   gravity  : .egm metadata + .egm.cof (N = 3, M = 3; correction N = M = 1)         -> GravityModel
//   nn-text / nn-bin : NearestNeighbor::Save of a 5-point tree -> NearestNeighbor::Load
//   coeff-stream / array-stream : SphericalEngine::coeff::readcoeffs and Utility::readarray on string streams
// and enumerates EVERY fault of the stated classes (all truncation lengths, every header integer <- hostile
// values, every header byte <- 6 values, every metadata key deleted / duplicated / given a bad value, trailing
// bytes, ID mismatch).  Each (fault, constructor configuration) is one case, executed in a forked child with
// ASan+UBSan; the allowed outcomes are GeographicErr, bad_alloc, or a successful load followed by queries
// that neither crash nor throw anything but GeographicErr/bad_alloc.  For the functions with output
// arguments (readcoeffs, readarray, NearestNeighbor::Load "state unchanged if an exception is thrown") the
// outputs are compared bitwise with their pre-call sentinels when the call throws.
// 64 MiB: a NearestNeighbor file with a cyclic child pointer makes Search push nodes until memory is exhausted; with a
// larger cap that takes more than the 60 s hang limit on a loaded machine
#define FAULT_ALLOC_CAP_BYTES (64u << 20)
#include "mc/ctx.hpp"
#include "mc/fault.hpp"
#include "models/tiny_datasets.hpp"
#include <GeographicLib/Geoid.hpp>
#include <GeographicLib/MagneticModel.hpp>
#include <GeographicLib/MagneticCircle.hpp>
#include <GeographicLib/GravityModel.hpp>
#include <GeographicLib/GravityCircle.hpp>
#include <GeographicLib/NearestNeighbor.hpp>
#include <GeographicLib/SphericalEngine.hpp>
#include <GeographicLib/Utility.hpp>
#include <sstream>
#include <functional>

using namespace GeographicLib;
using mc::Ctx; using mc::fmt; using mc::fmti;
using namespace tiny;
using fault::FileFault; using fault::Report; using fault::Result;

static std::string g_dir;            // this process's private directory
static void FAIL(Ctx& ctx, const std::string& key, const std::string& msg, const mc::Fields& f) {
  if (getenv("C13_DEBUG")) { std::string s = "FAIL " + ctx.cur_sub + " " + key + " :: " + msg + " {"; for (auto& kv : f) s += kv.first + "=" + kv.second + ","; fprintf(stderr, "%s}\n", s.c_str()); }
  ctx.fail(key, msg, f);
}

// ------------------------------------------------------------------------------------------- data sets
struct DataFile { std::string suffix, image; };
struct Config { std::string name; int a = 0, b = 0; };
struct DataSet {
  std::string name;
  std::vector<DataFile> files;                   // written as <dir>/<stem><suffix>
  std::vector<Config> configs;
  // runs in the child: construct from <dir>/<stem>* and query; reports foreign exceptions etc. through rep.
  std::function<void(const Config&, Report&, const std::string& keybase, const mc::Fields& fields)> probe;
  std::vector<std::pair<size_t, FileFault>> faults;      // (file index, fault)
};

static const char* STEM = "tiny";

// every query of a loaded object goes through this: anything but ok/GeographicErr/bad_alloc is a violation
template <class F> static void query(Report& rep, const std::string& keybase, const mc::Fields& fields, const char* what, F&& f) {
  fault::Thrown t = fault::guarded(f);
  rep.sig(std::hash<std::string>()(std::string(what)) * 8 + t.oc);
  if (!fault::clean(t.oc)) {
    mc::Fields fl = fields; fl.push_back({"kind", "foreign-exception"}); fl.push_back({"call", what}); fl.push_back({"exception", t.what.substr(0, t.what.find(':'))});
    rep.fail(keybase + "|" + what, std::string(what) + " threw " + t.what, fl);
  }
}

// ---- geoid
static void geoid_probe(const Config& c, Report& rep, const std::string& kb, const mc::Fields& fl) {
  std::unique_ptr<Geoid> g;
  fault::Thrown t = fault::guarded([&] { g.reset(new Geoid(STEM, g_dir, c.a != 0, c.b != 0)); });
  rep.sig(100 + t.oc); rep.data(std::string("ctor=") + fault::name(t.oc));
  if (!fault::clean(t.oc)) { mc::Fields f2 = fl; f2.push_back({"kind", "foreign-exception"}); f2.push_back({"call", "Geoid::Geoid"}); rep.fail(kb + "|ctor", "Geoid constructor threw " + t.what, f2); return; }
  if (t.oc != fault::OK) return;
  volatile double sink = 0;
  const double lats[] = {-90, -89.9, -45, 0, 30.5, 89.9, 90, NAN}, lons[] = {-180, -90.5, 0, 0.1, 89.9, 179.9, 359.9, 540};
  query(rep, kb, fl, "Geoid::operator()", [&] { for (double la : lats) for (double lo : lons) sink = sink + (*g)(la, lo); });
  query(rep, kb, fl, "Geoid::ConvertHeight", [&] { sink = sink + g->ConvertHeight(10, 20, 30, Geoid::GEOIDTOELLIPSOID); });
  if (!c.b) {
    query(rep, kb, fl, "Geoid::CacheArea", [&] { g->CacheArea(-20, -30, 40, 50); for (double la : lats) for (double lo : lons) sink = sink + (*g)(la, lo); });
    query(rep, kb, fl, "Geoid::CacheArea-wrap", [&] { g->CacheArea(-90, 170, 90, 190); sink = sink + (*g)(0, 180); });
    query(rep, kb, fl, "Geoid::CacheAll", [&] { g->CacheAll(); for (double la : lats) for (double lo : lons) sink = sink + (*g)(la, lo); });
    query(rep, kb, fl, "Geoid::CacheClear", [&] { g->CacheClear(); sink = sink + (*g)(1, 2); });
  }
  query(rep, kb, fl, "Geoid::inspectors", [&] { sink = sink + g->MaxError() + g->RMSError() + g->Offset() + g->Scale() + g->CacheWest() + g->CacheEast() + g->CacheNorth() + g->CacheSouth() + g->Description().size() + g->DateTime().size(); });
}

// ---- magnetic
static void magnetic_probe(const Config& c, Report& rep, const std::string& kb, const mc::Fields& fl) {
  std::unique_ptr<MagneticModel> m;
  fault::Thrown t = fault::guarded([&] { m.reset(new MagneticModel(STEM, g_dir, Geocentric::WGS84(), c.a, c.b)); });
  rep.sig(200 + t.oc); rep.data(std::string("ctor=") + fault::name(t.oc));
  if (!fault::clean(t.oc)) { mc::Fields f2 = fl; f2.push_back({"kind", "foreign-exception"}); f2.push_back({"call", "MagneticModel::MagneticModel"}); f2.push_back({"exception", t.what.substr(0, t.what.find(':'))}); rep.fail(kb + "|ctor", "MagneticModel constructor threw " + t.what, f2); return; }
  if (t.oc != fault::OK) return;
  volatile double sink = 0; double bx, by, bz, bxt, byt, bzt;
  const double ts[] = {2019, 2020, 2022.5, 2025, 2027.5, 2030, 2100};
  query(rep, kb, fl, "MagneticModel::operator()", [&] { for (double tt : ts) { (*m)(tt, 30, 40, 1000, bx, by, bz); sink = sink + bx + by + bz; (*m)(tt, -89, 179, -500, bx, by, bz, bxt, byt, bzt); sink = sink + bxt; } });
  query(rep, kb, fl, "MagneticModel::Circle", [&] { for (double tt : ts) { MagneticCircle ci = m->Circle(tt, 20, 300); ci(33, bx, by, bz); sink = sink + bx; ci(33, bx, by, bz, bxt, byt, bzt); sink = sink + bzt; } });
  query(rep, kb, fl, "MagneticModel::inspectors", [&] { sink = sink + m->MinHeight() + m->MaxHeight() + m->MinTime() + m->MaxTime() + m->Degree() + m->Order() + m->Description().size() + m->DateTime().size(); });
}

// ---- gravity
static void gravity_probe(const Config& c, Report& rep, const std::string& kb, const mc::Fields& fl) {
  std::unique_ptr<GravityModel> g;
  fault::Thrown t = fault::guarded([&] { g.reset(new GravityModel(STEM, g_dir, c.a, c.b)); });
  rep.sig(300 + t.oc); rep.data(std::string("ctor=") + fault::name(t.oc));
  if (!fault::clean(t.oc)) { mc::Fields f2 = fl; f2.push_back({"kind", "foreign-exception"}); f2.push_back({"call", "GravityModel::GravityModel"}); f2.push_back({"exception", t.what.substr(0, t.what.find(':'))}); rep.fail(kb + "|ctor", "GravityModel constructor threw " + t.what, f2); return; }
  if (t.oc != fault::OK) return;
  volatile double sink = 0; double x, y, z;
  query(rep, kb, fl, "GravityModel::Gravity", [&] { sink = sink + g->Gravity(30, 40, 1000, x, y, z) + x + y + z; sink = sink + g->Gravity(-90, 0, 0, x, y, z); });
  query(rep, kb, fl, "GravityModel::Disturbance", [&] { sink = sink + g->Disturbance(30, 40, 1000, x, y, z) + x; });
  query(rep, kb, fl, "GravityModel::GeoidHeight", [&] { sink = sink + g->GeoidHeight(30, 40) + g->GeoidHeight(90, 0); });
  query(rep, kb, fl, "GravityModel::SphericalAnomaly", [&] { g->SphericalAnomaly(30, 40, 1000, x, y, z); sink = sink + x + y + z; });
  query(rep, kb, fl, "GravityModel::WVTUPhi", [&] { sink = sink + g->W(6.4e6, 1e5, 2e5, x, y, z) + g->V(6.4e6, 1e5, 2e5, x, y, z) + g->T(6.4e6, 1e5, 2e5, x, y, z) + g->T(6.4e6, 1e5, 2e5) + g->U(6.4e6, 1e5, 2e5, x, y, z) + g->Phi(6.4e6, 1e5, x, y); });
  query(rep, kb, fl, "GravityModel::Circle", [&] { GravityCircle ci = g->Circle(20, 300, GravityModel::ALL); sink = sink + ci.Gravity(33, x, y, z) + ci.Disturbance(33, x, y, z) + ci.GeoidHeight(33) + ci.W(33, x, y, z) + ci.V(33, x, y, z) + ci.T(33, x, y, z) + ci.T(33); ci.SphericalAnomaly(33, x, y, z); });
  query(rep, kb, fl, "GravityModel::inspectors", [&] { sink = sink + g->MassConstant() + g->ReferenceMassConstant() + g->AngularVelocity() + g->EquatorialRadius() + g->Flattening() + g->Degree() + g->Order() + g->Description().size(); });
}

// ---- nearest neighbour
struct Dist1 { double operator()(double a, double b) const { return std::fabs(a - b); } };
typedef NearestNeighbor<double, double, Dist1> NN;
static const std::vector<double>& nn_pts() { static const std::vector<double> p = {0.5, 3.25, 7, 1.5, 9.75}; return p; }
static std::string nn_image(bool bin) { NN t(nn_pts(), Dist1(), 2); std::ostringstream os; t.Save(os, bin); return os.str(); }
static void nn_probe(bool bin, Report& rep, const std::string& kb, const mc::Fields& fl) {
  std::string img = fault::read_file(g_dir + "/" + STEM + (bin ? ".nnb" : ".nnt"));
  // the object holds a different valid tree (bucket 1) before Load: on throw its state must not change
  std::vector<double> pts0 = {1, 2, 4, 8, 16, 32};
  NN t(pts0, Dist1(), 1);
  std::ostringstream b0; t.Save(b0, false); std::string before = b0.str();
  std::istringstream is(img);
  fault::Thrown th = fault::guarded([&] { t.Load(is, bin); });
  rep.sig(400 + th.oc); rep.data(std::string("ctor=") + fault::name(th.oc));
  if (!fault::clean(th.oc)) { mc::Fields f2 = fl; f2.push_back({"kind", "foreign-exception"}); f2.push_back({"call", "NearestNeighbor::Load"}); f2.push_back({"exception", th.what.substr(0, th.what.find(':'))}); rep.fail(kb + "|load", "NearestNeighbor::Load threw " + th.what, f2); return; }
  if (th.threw()) {
    std::ostringstream b1; t.Save(b1, false);
    if (b1.str() != before || t.NumPoints() != 6) { mc::Fields f2 = fl; f2.push_back({"kind", "state-changed-on-throw"}); f2.push_back({"call", "NearestNeighbor::Load"}); rep.fail(kb + "|state", "NearestNeighbor::Load threw (" + th.what + ") but the object's state changed", f2); }
    return;
  }
  volatile double sink = 0; std::vector<int> ind;
  std::vector<double> pts(nn_pts()); pts.shrink_to_fit();
  query(rep, kb, fl, "NearestNeighbor::Search", [&] {
    if (t.NumPoints() != (int)pts.size()) {          // a different point count was accepted: Search must refuse our points
      sink = sink + t.Search(pts, Dist1(), 1.0, ind, 1);
      return;
    }
    for (double q : {-1.0, 0.5, 4.0, 7.0, 20.0}) for (int k : {1, 3, 5, 6}) for (int ex = 0; ex < 2; ++ex) {
      sink = sink + t.Search(pts, Dist1(), q, ind, k, 1e300, -1, ex != 0, 0.0);
      for (int i : ind) if (i < 0 || i >= (int)pts.size()) { mc::Fields f2 = fl; f2.push_back({"kind", "bad-index-returned"}); rep.fail(kb + "|ind", "Search returned index " + fmti(i), f2); return; }
    }
    sink = sink + t.Search(pts, Dist1(), 4.0, ind, 2, 3.0, 0.5, true, 0.1);
  });
  query(rep, kb, fl, "NearestNeighbor::Statistics", [&] { int a, b, c, d, e; double m, s; t.Statistics(a, b, c, d, e, m, s); t.ResetStatistics(); std::ostringstream os; t.Save(os, true); sink = sink + os.str().size(); });
}

// ---- readcoeffs / readarray on streams (public functions with output arguments)
static const double DS = -12345.678; static const int IS = -777;
static void coeff_stream_probe(const std::string& img, const Config& c, Report& rep, const std::string& kb, const mc::Fields& fl) {
  // c.name: "read" (truncate = false) or "trunc" with requested (a, b)
  bool trunc = c.name != "read";
  int N = trunc ? c.a : IS, M = trunc ? c.b : IS; const int N0 = N, M0 = M;
  std::vector<double> C(3, DS), S(2, DS); const std::vector<double> C0 = C, S0 = S;
  std::istringstream is(img);
  fault::Thrown t = fault::guarded([&] { SphericalEngine::coeff::readcoeffs(is, N, M, C, S, trunc); });
  rep.sig(500 + t.oc); rep.data(std::string("ctor=") + fault::name(t.oc));
  if (!fault::clean(t.oc)) { mc::Fields f2 = fl; f2.push_back({"kind", "foreign-exception"}); f2.push_back({"call", "readcoeffs"}); f2.push_back({"exception", t.what.substr(0, t.what.find(':'))}); rep.fail(kb + "|exc", "readcoeffs threw " + t.what, f2); return; }
  if (t.threw()) {
    bool same = N == N0 && M == M0 && C.size() == C0.size() && S.size() == S0.size() &&
                (C.empty() || !memcmp(C.data(), C0.data(), 8 * C.size())) && (S.empty() || !memcmp(S.data(), S0.data(), 8 * S.size()));
    if (!same) { mc::Fields f2 = fl; f2.push_back({"kind", "outputs-changed-on-throw"}); f2.push_back({"call", "readcoeffs"});
      rep.fail(kb + "|out", "readcoeffs threw (" + t.what + ") after changing its outputs: N " + fmti(N0) + "->" + fmti(N) + " M " + fmti(M0) + "->" + fmti(M) +
               " C.size " + fmti(C0.size()) + "->" + fmti(C.size()) + " S.size " + fmti(S0.size()) + "->" + fmti(S.size()), f2); }
    return;
  }
  // success: sizes must be consistent with N, M (else a later SphericalHarmonic would read out of bounds)
  if (!((N >= M && M >= 0) || (N == -1 && M == -1)) || (long long)C.size() != Csz(N, M) || (long long)S.size() != Csz(N, M) - (N + 1)) {
    mc::Fields f2 = fl; f2.push_back({"kind", "inconsistent-result"}); rep.fail(kb + "|res", "readcoeffs returned N=" + fmti(N) + " M=" + fmti(M) + " C.size=" + fmti(C.size()) + " S.size=" + fmti(S.size()), f2);
  }
}
template <class ExtT, class IntT, bool big> static void array_probe_t(const std::string& img, size_t num, Report& rep, const std::string& kb, const mc::Fields& fl) {
  std::vector<IntT> arr(num); std::vector<unsigned char> sent(num * sizeof(IntT), 0xA5);
  memcpy((void*)arr.data(), sent.data(), sent.size());
  std::istringstream is(img);
  fault::Thrown t = fault::guarded([&] { Utility::readarray<ExtT, IntT, big>(is, arr.data(), num); });
  rep.sig(600 + t.oc); rep.data(std::string("ctor=") + fault::name(t.oc));
  if (!fault::clean(t.oc)) { mc::Fields f2 = fl; f2.push_back({"kind", "foreign-exception"}); f2.push_back({"call", "readarray"}); rep.fail(kb + "|exc", "readarray threw " + t.what, f2); return; }
  if (t.threw() && memcmp(arr.data(), sent.data(), sent.size()) != 0) {
    mc::Fields f2 = fl; f2.push_back({"kind", "outputs-changed-on-throw"}); f2.push_back({"call", "readarray"});
    rep.fail(kb + "|out", "readarray threw (" + t.what + ") after overwriting part of the output array", f2);
  }
}

// ------------------------------------------------------------------------------------------- fault lists
static size_t find_or_die(const std::string& img, const std::string& needle) {
  size_t p = img.find(needle); if (p == std::string::npos) { fprintf(stderr, "internal: needle not found\n"); exit(2); } return p;
}
// pairs (N, M) jointly hostile: reaches (N+1)(N+2)/2 overflow which no single-field fault does
static void pair_faults(const std::string& img, size_t off, const std::string& field, std::vector<FileFault>& out) {
  for (long long v : {46340LL, 46341LL, 65535LL, 1LL << 30, (long long)INT_MAX, 1000LL, 0LL, -1LL}) {
    std::string t = img; int32_t w = (int32_t)v; memcpy(&t[off], &w, 4); memcpy(&t[off + 4], &w, 4);
    if (t != img) out.push_back({"int-pair", field, std::to_string(v), t});
  }
}

static std::vector<DataSet> make_sets(bool T) {
  std::vector<DataSet> sets;
  auto add = [&](DataSet& d, size_t fi, std::vector<FileFault>& fs) { for (auto& f : fs) d.faults.push_back({fi, f}); fs.clear(); };
  std::vector<FileFault> fs;
  { // ---------------- geoid
    DataSet d; d.name = "geoid"; d.files = {{".pgm", geoid_image()}};
    d.configs = {{"bilinear", 0, 0}, {"cubic", 1, 0}, {"bilinear-threadsafe", 0, 1}, {"cubic-threadsafe", 1, 1}};
    d.probe = geoid_probe;
    const std::string& img = d.files[0].image; size_t hdr = img.size() - 24;
    fault::truncations(img, fs);
    size_t pw = find_or_die(img, "\n4 3\n") + 1;
    fault::text_int_faults(img, pw, 1, "width", fs); fault::text_int_faults(img, pw + 2, 1, "height", fs);
    fault::text_int_faults(img, pw + 4, 5, "maxval", fs);
    for (long long v : {6LL, 8LL, 3LL, 5LL, 12LL, 65536LL, 3037000500LL, 4294967296LL, 4294967300LL}) {     // plausible sizes that do not match the data
      fs.push_back({"int-field", "width", std::to_string(v), img.substr(0, pw) + std::to_string(v) + img.substr(pw + 1)});
      fs.push_back({"int-field", "height", std::to_string(v), img.substr(0, pw + 2) + std::to_string(v) + img.substr(pw + 3)});
    }
    { size_t nl = 0; for (size_t i = 0; i < hdr; ++i) nl += img[i] == '\n'; fault::metadata_faults(img, 1, nl - 2, "#", fs); }
    fault::append_faults(img, fs);
    if (T) fault::byte_faults(img, 0, hdr, fs); else fault::byte_faults(img, hdr - 12, hdr, fs);
    add(d, 0, fs); sets.push_back(d);
  }
  { // ---------------- magnetic
    DataSet d; d.name = "magnetic"; d.files = {{".wmm", wmm_meta()}, {".wmm.cof", wmm_cof()}};
    d.configs = {{"full", -1, -1}, {"N1M1", 1, 1}, {"N1M0", 1, 0}, {"N9M-1", 9, -1}};
    d.probe = magnetic_probe;
    { const std::string& img = d.files[0].image;
      fault::truncations(img, fs);
      size_t nl = 0; for (char c : img) nl += c == '\n';
      fault::metadata_faults(img, 0, nl, "", fs);
      fault::append_faults(img, fs);
      if (T) fault::byte_faults(img, 0, img.size(), fs); else fault::byte_faults(img, 0, 8, fs);
      add(d, 0, fs); }
    { const std::string& img = d.files[1].image;
      fault::truncations(img, fs);
      for (int i = 0; i < 4; ++i) { size_t off = 8 + 80 * i; std::string n = "set" + std::to_string(i);
        fault::int_field_faults(img, off, n + ".N", fs); fault::int_field_faults(img, off + 4, n + ".M", fs); pair_faults(img, off, n + ".NM", fs); }
      fault::append_faults(img, fs);
      fs.push_back({"replace", "ID", "TINYWMM2", "TINYWMM2" + img.substr(8)});
      if (T) { fault::byte_faults(img, 0, 16, fs); fault::byte_faults(img, 88, 96, fs); } else fault::byte_faults(img, 0, 8, fs);
      add(d, 1, fs); }
    sets.push_back(d);
  }
  { // ---------------- gravity
    DataSet d; d.name = "gravity"; d.files = {{".egm", egm_meta()}, {".egm.cof", egm_cof()}};
    d.configs = {{"full", -1, -1}, {"N2M1", 2, 1}, {"N0M0", 0, 0}, {"N9M-1", 9, -1}};
    d.probe = gravity_probe;
    { const std::string& img = d.files[0].image;
      fault::truncations(img, fs);
      size_t nl = 0; for (char c : img) nl += c == '\n';
      fault::metadata_faults(img, 0, nl, "", fs);
      fault::append_faults(img, fs);
      // both f and J2 / neither
      fs.push_back({"key-add", "DynamicalFormFactor", "1.08e-3", img + "DynamicalFormFactor 1.08263e-3\n"});
      if (T) fault::byte_faults(img, 0, img.size(), fs); else fault::byte_faults(img, 0, 8, fs);
      add(d, 0, fs); }
    { const std::string& img = d.files[1].image;
      size_t off2 = 8 + 8 + 8 * (Csz(3, 3) + Csz(3, 3) - 4);
      fault::truncations(img, fs);
      fault::int_field_faults(img, 8, "set0.N", fs); fault::int_field_faults(img, 12, "set0.M", fs); pair_faults(img, 8, "set0.NM", fs);
      fault::int_field_faults(img, off2, "set1.N", fs); fault::int_field_faults(img, off2 + 4, "set1.M", fs); pair_faults(img, off2, "set1.NM", fs);
      fs.push_back({"replace", "C00", "1", img.substr(0, 16) + le64(1.0) + img.substr(24)});
      fs.push_back({"replace", "C00", "nan", img.substr(0, 16) + le64(NAN) + img.substr(24)});
      fs.push_back({"replace", "ID", "TINYEGM2", "TINYEGM2" + img.substr(8)});
      fault::append_faults(img, fs);
      if (T) { fault::byte_faults(img, 0, 16, fs); fault::byte_faults(img, off2, off2 + 8, fs); } else fault::byte_faults(img, 0, 8, fs);
      add(d, 1, fs); }
    sets.push_back(d);
  }
  for (int bin = 0; bin < 2; ++bin) { // ---------------- nearest neighbour
    DataSet d; d.name = bin ? "nn-bin" : "nn-text"; d.files = {{bin ? ".nnb" : ".nnt", nn_image(bin != 0)}};
    d.configs = {{"load", 0, 0}};
    d.probe = [bin](const Config&, Report& rep, const std::string& kb, const mc::Fields& fl) { nn_probe(bin != 0, rep, kb, fl); };
    const std::string& img = d.files[0].image;
    fault::truncations(img, fs);
    fault::append_faults(img, fs);
    if (bin) {
      static const char* hn[] = {"version", "realspec", "bucket", "numpoints", "treesize", "cost"};
      for (int i = 0; i < 6; ++i) fault::int_field_faults(img, 16 + 4 * i, hn[i], fs);
      int bucket, treesize; memcpy(&bucket, &img[24], 4); memcpy(&treesize, &img[32], 4);
      size_t p = 40;
      for (int n = 0; n < treesize; ++n) {
        int idx; memcpy(&idx, &img[p], 4); std::string nm = "node" + std::to_string(n);
        std::vector<long long> iv = fault::header_int_values(); for (long long v : {3LL, 4LL, 5LL, 6LL, (long long)n}) iv.push_back(v);
        fault::int_field_faults(img, p, nm + ".index", fs, iv); p += 4;
        if (idx >= 0) {
          for (int k = 0; k < 4; ++k) { for (double v : {(double)NAN, (double)INFINITY, -1.0, 0.0, 1e308}) { std::string t = img; memcpy(&t[p + 8 * k], &v, 8); if (t != img) fs.push_back({"double-field", nm + ".bound" + std::to_string(k), fmt(v), t}); } }
          p += 32;
          for (int k = 0; k < 2; ++k) fault::int_field_faults(img, p + 4 * k, nm + ".child" + std::to_string(k), fs, iv);
          p += 8;
        } else { for (int k = 0; k < bucket; ++k) fault::int_field_faults(img, p + 4 * k, nm + ".leaf" + std::to_string(k), fs, iv); p += 4 * bucket; }
      }
      fault::byte_faults(img, 0, T ? img.size() : 40, fs);
    } else {
      // every whitespace-separated token replaced by hostile tokens
      size_t p = 0; int tok = 0;
      while (p < img.size()) {
        while (p < img.size() && isspace((unsigned char)img[p])) ++p;
        size_t q = p; while (q < img.size() && !isspace((unsigned char)img[q])) ++q;
        if (q == p) break;
        for (const char* v : {"-1", "0", "1", "2", "3", "4", "5", "6", "65535", "1073741824", "2147483647", "-2147483648", "2147483648", "99999999999999999999", "nan", "inf", "-inf", "1e999", "abc", "", "0x10", "1.5"}) {
          std::string t = img.substr(0, p) + v + img.substr(q);
          if (t != img) fs.push_back({"token", "tok" + std::to_string(tok), *v ? v : "<empty>", t});
        }
        ++tok; p = q;
      }
      fault::byte_faults(img, 0, T ? img.size() : std::min<size_t>(img.size(), 24), fs);
    }
    add(d, 0, fs); sets.push_back(d);
  }
  { // ---------------- readcoeffs on a stream
    DataSet d; d.name = "coeff-stream"; d.files = {{".blk", coeff_block(3, 2, 1.0, false)}};
    d.configs = {{"read", 0, 0}, {"trunc", 3, 2}, {"trunc", 2, 1}, {"trunc", 5, 5}, {"trunc", -1, -1}, {"trunc", 2, 3}, {"trunc", 0, 0}, {"trunc", INT_MAX, INT_MAX}};
    for (auto& c : d.configs) if (c.name == "trunc") c.name = "trunc(" + std::to_string(c.a) + "," + std::to_string(c.b) + ")";
    d.probe = [](const Config& c, Report& rep, const std::string& kb, const mc::Fields& fl) { coeff_stream_probe(fault::read_file(g_dir + "/" + STEM + ".blk"), c, rep, kb, fl); };
    const std::string& img = d.files[0].image;
    fault::truncations(img, fs);
    fault::int_field_faults(img, 0, "N", fs); fault::int_field_faults(img, 4, "M", fs); pair_faults(img, 0, "NM", fs);
    fault::append_faults(img, fs);
    fault::byte_faults(img, 0, 8, fs);
    add(d, 0, fs); sets.push_back(d);
  }
  { // ---------------- readarray on a stream
    DataSet d; d.name = "array-stream";
    std::string img; for (int i = 0; i < 6; ++i) img += le64(1.5 * i - 2);
    d.files = {{".arr", img}};
    d.configs = {{"double-double-le", 0, 0}, {"double-double-be", 1, 0}, {"int-int-le", 2, 0}, {"float-double-le", 3, 0}, {"short-int-be", 4, 0}};
    d.probe = [](const Config& c, Report& rep, const std::string& kb, const mc::Fields& fl) {
      std::string im = fault::read_file(g_dir + "/" + STEM + ".arr");
      switch (c.a) {
      case 0: array_probe_t<double, double, false>(im, 6, rep, kb, fl); break;
      case 1: array_probe_t<double, double, true>(im, 6, rep, kb, fl); break;
      case 2: array_probe_t<int, int, false>(im, 12, rep, kb, fl); break;
      case 3: array_probe_t<float, double, false>(im, 12, rep, kb, fl); break;
      default: array_probe_t<short, int, true>(im, 24, rep, kb, fl); break;
      }
    };
    fault::truncations(d.files[0].image, fs);
    add(d, 0, fs); sets.push_back(d);
  }
  return sets;
}

// ------------------------------------------------------------------------------------------- fault x history (Geoid)
// Geoid is the only class that keeps reading its file after construction.  Space: interpolation {bilinear, cubic} x every
// truncation length of the data region (and 3 lengths inside the header) applied AFTER a successful construction, after
// t = 0 .. L-1 operations of a sequence x every operation sequence of length L <= 3 over
//   { evaluate at q1..q4 (q1,q2 share a cell, q3,q4 share another cell; thorough: + q5, q6), CacheArea (covers the q1 cell only),
//     CacheAll, CacheClear }.
// Oracle: every evaluation either throws GeographicErr or returns EXACTLY (bitwise) the value a fresh object gives on the
// intact file; cache operations either succeed or throw GeographicErr; nothing else (foreign exception, crash) ever.
// In particular, after a throwing read the same query must not silently return a different number, and a CacheArea /
// CacheAll that throws midway must leave an object whose later answers are still right (or throw).
namespace geoidhist {
static const int W = 8, H = 5;
struct Q { double lat, lon; };
static const Q QS[] = {{60.5, 10.5}, {60.25, 10.75}, {-60.5, 100.5}, {-60.25, 100.75}, {10.5, 200.5}, {80.0, 300.0}};
static const char* FILE_STEM = "hist";
// op codes: 0..nq-1 evaluate QS[k]; nq = CacheArea; nq+1 = CacheAll; nq+2 = CacheClear
static std::string opname(int op, int nq) { if (op < nq) return "q" + std::to_string(op + 1); return op == nq ? "CacheArea" : op == nq + 1 ? "CacheAll" : "CacheClear"; }
static double refval(bool cubic, int k, const std::string& intact) {        // fresh object on an intact private copy
  static double tab[2][6]; static bool have[2][6] = {{false}};
  if (!have[cubic][k]) {
    fault::write_file(g_dir + "/histref.pgm", intact);
    Geoid g("histref", g_dir, cubic, false);
    tab[cubic][k] = g(QS[k].lat, QS[k].lon); have[cubic][k] = true;
  }
  return tab[cubic][k];
}
// runs one sequence; reports through rep
static void run(bool cubic, size_t trunc_len, int t_fault, const std::vector<int>& ops, int nq, const std::string& intact, Report& rep, const std::string& key) {
  std::vector<double> ref(nq); for (int k = 0; k < nq; ++k) ref[k] = refval(cubic, k, intact);
  const std::string path = g_dir + "/" + FILE_STEM + ".pgm";
  fault::write_file(path, intact);
  Geoid g(FILE_STEM, g_dir, cubic, false);
  mc::Fields F = {{"dataset", "geoid-history"}, {"config", cubic ? "cubic" : "bilinear"}};
  uint64_t sig = 0;
  for (size_t i = 0; i < ops.size(); ++i) {
    if ((int)i == t_fault) { if (truncate(path.c_str(), (off_t)trunc_len) != 0) { rep.fail(key + "|truncate", "harness: truncate failed", {{"kind", "baseline"}}); return; } }
    int op = ops[i]; double v = 0;
    fault::Thrown th = fault::guarded([&] {
      if (op < nq) v = g(QS[op].lat, QS[op].lon);
      else if (op == nq) g.CacheArea(40, 0, 80, 50);
      else if (op == nq + 1) g.CacheAll();
      else g.CacheClear();
    });
    sig = sig * 5 + th.oc + 1;
    if (!fault::clean(th.oc)) { mc::Fields f = F; f.push_back({"kind", "foreign-exception"}); f.push_back({"call", opname(op, nq)}); rep.fail(key + "|exc" + std::to_string(i), "step " + std::to_string(i + 1) + " " + opname(op, nq) + " threw " + th.what, f); return; }
    if (op < nq && !th.threw()) {
      if (!mc::same_bits(v, ref[op])) { mc::Fields f = F; f.push_back({"kind", "wrong-value-after-fault"}); f.push_back({"call", opname(op, nq)});
        rep.fail(key + "|val" + std::to_string(i), "Geoid(" + std::string(cubic ? "cubic" : "bilinear") + "): file truncated to " + std::to_string(trunc_len) + " bytes before step " + std::to_string(t_fault + 1) + "; step " + std::to_string(i + 1) + " g(" + fmt(QS[op].lat) + ", " + fmt(QS[op].lon) + ") returned " + mc::fx(v) + " without an exception, the intact file gives " + mc::fx(ref[op]), f); return; }
    }
  }
  rep.sig(sig);
}
}  // namespace geoidhist

// ------------------------------------------------------------------------------------------- main
int main(int argc, char** argv) {
  Ctx ctx(argc, argv);
  const bool T = ctx.thorough();
  g_dir = fault::tmp_dir("C13");
  std::vector<DataSet> sets = make_sets(T);
  const size_t CHUNK = 8;        // faults per unit

  for (auto& d : sets) {
    ctx.sub("files-" + d.name);
    { std::string b = std::to_string(d.faults.size()) + " faults x " + std::to_string(d.configs.size()) + " configurations (";
      for (auto& c : d.configs) b += c.name + " ";
      b += "); files:"; for (auto& f : d.files) b += " " + f.suffix + "=" + std::to_string(f.image.size()) + "B";
      ctx.bound("files-" + d.name, b); }
    fault::Isolator iso(g_dir, "files");
    auto write_set = [&](long fault_index) {
      for (size_t fi = 0; fi < d.files.size(); ++fi) {
        const std::string* img = &d.files[fi].image;
        if (fault_index >= 0 && d.faults[fault_index].first == fi) img = &d.faults[fault_index].second.image;
        fault::write_file(g_dir + "/" + STEM + d.files[fi].suffix, *img);
      }
    };
    const size_t nc = d.configs.size();
    // unit 0: the valid data set must load and answer under every configuration (harness self-check)
    if (ctx.take()) {
      iso.run(nc, [&](size_t i, Report& rep) { write_set(-1); d.probe(d.configs[i], rep, d.name + "|valid|" + d.configs[i].name, {{"dataset", d.name}, {"fault", "none"}, {"config", d.configs[i].name}}); },
        [&](size_t i, const Result& r) {
          Ctx::Case cs(ctx); ctx.sig(r.oc); for (auto s : r.sigs) ctx.sig(s);
          bool loaded = false; for (auto& s : r.data) if (s == "ctor=ok") loaded = true;
          bool expect_load = !(d.name == "coeff-stream" && d.configs[i].name == "trunc(2,3)");
          for (auto& f : r.fails) FAIL(ctx, f.key, f.msg, f.fields);
          if (r.fatal() || loaded != expect_load)
            ctx.fail(d.name + "|valid|" + d.configs[i].name, "valid data set: " + r.describe() + (loaded ? " loaded" : " not loaded"), {{"kind", "baseline"}, {"dataset", d.name}, {"config", d.configs[i].name}});
        });
    }
    for (size_t f0 = 0; f0 < d.faults.size(); f0 += CHUNK) {
      if (!ctx.take()) continue;
      size_t f1 = std::min(d.faults.size(), f0 + CHUNK);
      auto fields_of = [&](size_t i) {
        const FileFault& ff = d.faults[f0 + i / nc].second; const Config& c = d.configs[i % nc];
        return mc::Fields{{"dataset", d.name}, {"file", d.files[d.faults[f0 + i / nc].first].suffix}, {"fault", ff.kind}, {"field", ff.field}, {"detail", ff.detail}, {"config", c.name}};
      };
      auto key_of = [&](size_t i) { const FileFault& ff = d.faults[f0 + i / nc].second; return d.name + "|" + d.files[d.faults[f0 + i / nc].first].suffix + "|" + ff.id() + "|" + d.configs[i % nc].name; };
      iso.run((f1 - f0) * nc,
        [&](size_t i, Report& rep) { write_set((long)(f0 + i / nc)); d.probe(d.configs[i % nc], rep, key_of(i), fields_of(i)); },
        [&](size_t i, const Result& r) {
          Ctx::Case cs(ctx);
          const FileFault& ff = d.faults[f0 + i / nc].second;
          ctx.sig(r.oc); ctx.sig(std::hash<std::string>()(ff.kind)); for (auto s : r.sigs) ctx.sig(s);
          for (auto& s : r.data) if (s == "ctor=ok") ctx.count("accepted:" + d.name + ":" + ff.kind); else if (s.compare(0, 5, "ctor=") == 0) ctx.count("rejected:" + d.name + ":" + s.substr(5));
          if (r.slow) { ctx.count("slow-cases"); ctx.list("slow-cases (exceeded the 2 s watchdog, finished when re-run alone)", key_of(i)); }
          if (r.overflow) ctx.note("report slot overflow in " + key_of(i));
          for (auto& f : r.fails) FAIL(ctx, f.key, f.msg, f.fields);
          if (r.fatal()) {
            mc::Fields fl = fields_of(i);
            fl.push_back({"kind", r.oc == fault::SANITIZER ? "sanitizer" : r.oc == fault::HANG ? "hang" : r.oc == fault::FOREIGN ? "foreign-exception" : "crash"});
            fl.push_back({"check", r.check}); fl.push_back({"func", r.func}); fl.push_back({"where", r.where});
            FAIL(ctx, key_of(i) + "|fatal", "malformed file -> " + r.describe(), fl);
          }
          if (ctx.want_sample()) ctx.sample(key_of(i) + " -> " + r.describe() + (r.data.empty() ? "" : " " + r.data[0]));
        });
    }
    ctx.count("forks", iso.forks);
  }
  { // ---------------- fault x history on a Geoid that stays open
    using namespace geoidhist;
    ctx.sub("files-geoid-history");
    const std::string intact = tiny::geoid_image_wh(W, H);
    const size_t hdr = intact.size() - 2 * W * H;
    const int nq = T ? 6 : 4, nops = nq + 3;
    std::vector<size_t> lens;
    for (size_t l : {size_t(0), hdr / 2, hdr - 1}) lens.push_back(l);
    for (size_t l = hdr; l < intact.size(); ++l) if (T || (l - hdr) % 2 == 0 || l + 4 >= intact.size()) lens.push_back(l);
    // sequences with the position of the fault: (ops, t) with 0 <= t < |ops| <= 3
    struct Sq { std::vector<int> ops; int t; };
    std::vector<Sq> seqs;
    for (int L = 1; L <= 3; ++L) { int n = 1; for (int i = 0; i < L; ++i) n *= nops;
      for (int c = 0; c < n; ++c) { std::vector<int> ops(L); int x = c; for (int i = L - 1; i >= 0; --i) { ops[i] = x % nops; x /= nops; } for (int t = 0; t < L; ++t) seqs.push_back({ops, t}); } }
    ctx.bound("files-geoid-history", std::to_string(W) + "x" + std::to_string(H) + " raster, {bilinear, cubic} x " + std::to_string(lens.size()) + " truncation lengths applied after construction x " + std::to_string(seqs.size()) +
              " (operation sequence of length <= 3 over " + std::to_string(nq) + " query points in " + std::to_string(nq / 2) + "+ cells + CacheArea + CacheAll + CacheClear, position of the fault)");
    fault::Isolator iso(g_dir, "hist"); iso.batch = 1024; iso.slot_bytes = 1024;
    for (int cubic = 0; cubic < 2; ++cubic) for (size_t li = 0; li < lens.size(); ++li) {
      if (!ctx.take()) continue;
      auto key_of = [&](size_t i) { std::string k = std::string("geoid-history|") + (cubic ? "cubic" : "bilinear") + "|len" + std::to_string(lens[li]) + "|t" + std::to_string(seqs[i].t) + "|"; for (int op : seqs[i].ops) k += opname(op, nq) + ","; return k; };
      iso.run(seqs.size(),
        [&](size_t i, Report& rep) { geoidhist::run(cubic != 0, lens[li], seqs[i].t, seqs[i].ops, nq, intact, rep, key_of(i)); },
        [&](size_t i, const Result& r) {
          Ctx::Case cs(ctx); ctx.sig(r.oc); for (auto sg : r.sigs) ctx.sig(sg);
          for (auto& f : r.fails) FAIL(ctx, f.key, f.msg, f.fields);
          if (r.slow) ctx.count("slow-cases");
          if (r.fatal()) {
            mc::Fields fl = {{"dataset", "geoid-history"}, {"config", cubic ? "cubic" : "bilinear"}, {"kind", r.oc == fault::SANITIZER ? "sanitizer" : r.oc == fault::HANG ? "hang" : r.oc == fault::FOREIGN ? "foreign-exception" : "crash"}, {"check", r.check}, {"func", r.func}, {"where", r.where}};
            FAIL(ctx, key_of(i) + "|fatal", "geoid history -> " + r.describe(), fl);
          }
          if (ctx.want_sample() && i == 777) ctx.sample(key_of(i) + " -> " + r.describe());
        });
    }
    ctx.count("forks", iso.forks);
  }
  ctx.note("allocation requests above 64 MiB fail with std::bad_alloc (operator new replaced in the harness); sanitizer = clang ASan+UBSan, -fno-sanitize-recover=undefined");
  fault::rm_tmp_dir(g_dir);
  return ctx.finish();
}
