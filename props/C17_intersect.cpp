// C17 (part 2 of 3) -- Intersect: Closest / Next / Segment / All return true intersections, the documented
// L1-minimal ones, with the documented segment and coincidence indicators; All is complete, duplicate-free and sorted.
//
// Engine E1: full Cartesian products  ellipsoid x ordered line pair x offset p0 (x maxdist)  for Closest/All,
// ellipsoid x start point x ordered azimuth pair for Next, ellipsoid x ordered pair of directed segments for Segment.
// Oracles (all written here; nothing of Intersect.cpp is reused):
//  (i)   soundness, every ellipsoid: a returned (x,y) is an intersection -- the two points X(x), Y(y), evaluated
//        with freshly constructed GeodesicLine objects and own geodetic->Cartesian formulas, coincide in 3-D;
//  (ii)  sphere, COMPLETE: two great circles meet exactly at (x0 + i pi R, y0 + j pi R), i+j even (closed form in
//        __float128 from the defining lat/lon/azi); coincident circles meet along y = c x + b + 2 k pi R.  So the
//        minimal L1 distance, the set within maxdist, and whether two segments cross are known exactly;
//  (iii) ellipsoids, SOUND and practically complete: the (x,y) diamond |x-p0x|+|y-p0y| <= rho is covered by cells of
//        size h; a cell whose centre separation |X(xc)-Y(yc)| exceeds h cannot contain a root (curves have unit
//        speed), every other cell starts a Gauss-Newton iteration on X(x)-Y(y); a converged root with crossing
//        angle > 1e-6 is a verified intersection.  A verified root strictly closer than the returned one, or
//        inside maxdist and absent from All, is a violation.  The same scan is run on the sphere as a self-check of
//        the oracle against (ii).
#include "mc/ctx.hpp"
#include <GeographicLib/Geodesic.hpp>
#include <GeographicLib/GeodesicLine.hpp>
#include <GeographicLib/Intersect.hpp>
#include <quadmath.h>
#include <algorithm>
#include <string>
#include <vector>
#include <cmath>
#include <type_traits>

using namespace GeographicLib;
using mc::Ctx; using mc::fx; using mc::fmt; using mc::fmti;
typedef long double ld;
typedef __float128 Q;

static const Q QPI = M_PIq;
static const ld LPI = 3.141592653589793238462643383279502884L;

// ------------------------------------------------------------------ small vector helpers
struct D3 { double x, y, z; };
static inline D3 sub(D3 a, D3 b) { return {a.x - b.x, a.y - b.y, a.z - b.z}; }
static inline double dot(D3 a, D3 b) { return a.x * b.x + a.y * b.y + a.z * b.z; }
static inline double nrm(D3 a) { return std::sqrt(dot(a, a)); }
struct Q3 { Q x, y, z; };
static inline Q qdot(Q3 a, Q3 b) { return a.x * b.x + a.y * b.y + a.z * b.z; }
static inline Q3 qcross(Q3 a, Q3 b) { return {a.y * b.z - a.z * b.y, a.z * b.x - a.x * b.z, a.x * b.y - a.y * b.x}; }
static inline Q qnorm(Q3 a) { return sqrtq(qdot(a, a)); }

// sine/cosine of an angle in degrees, argument reduced exactly first
template <class T> static void sincosd_t(double d, T& s, T& c) {
  int q; double r = std::remquo(d, 90.0, &q);          // exact
  T sr, cr;
  if (std::is_same<T, Q>::value) { Q a = (Q)r * QPI / 180; sr = (T)sinq(a); cr = (T)cosq(a); }
  else { ld a = (ld)r * LPI / 180; sr = (T)sinl(a); cr = (T)cosl(a); }
  switch (q & 3) { case 0: s = sr; c = cr; break; case 1: s = cr; c = -sr; break; case 2: s = -sr; c = -cr; break; default: s = -cr; c = sr; }
}

struct Ell { const char* name; double a, f; bool exact; double gdoc; };

static D3 pos3(const Ell& E, double lat, double lon) {
  ld sp, cp, sl, cl; sincosd_t(lat, sp, cp); sincosd_t(lon, sl, cl);
  ld e2 = (ld)E.f * (2 - (ld)E.f), N = E.a / sqrtl(1 - e2 * sp * sp);
  return {(double)(N * cp * cl), (double)(N * cp * sl), (double)(N * (1 - e2) * sp)};
}
static D3 dir3(double lat, double lon, double azi) {
  ld sp, cp, sl, cl, sa, ca; sincosd_t(lat, sp, cp); sincosd_t(lon, sl, cl); sincosd_t(azi, sa, ca);
  return {(double)(ca * (-sp * cl) + sa * (-sl)), (double)(ca * (-sp * sl) + sa * cl), (double)(ca * cp)};
}
static inline void evalline(const Ell& E, const GeodesicLine& l, double s, D3& P, D3& t) {
  double lat, lon, azi; l.Position(s, lat, lon, azi); P = pos3(E, lat, lon); t = dir3(lat, lon, azi);
}

// ------------------------------------------------------------------ sphere: closed-form intersection lattice
struct SphLine { Q3 p, t; };
static SphLine sph_line(double lat, double lon, double azi) {
  Q sp, cp, sl, cl, sa, ca; sincosd_t(lat, sp, cp); sincosd_t(lon, sl, cl); sincosd_t(azi, sa, ca);
  SphLine L; L.p = {cp * cl, cp * sl, sp};
  L.t = {ca * (-sp * cl) + sa * (-sl), ca * (-sp * sl) + sa * cl, ca * cp};
  return L;
}
// great circle through two points (unique shortest arc), start at the first
static SphLine sph_line2(double lat1, double lon1, double lat2, double lon2, Q R, Q& len) {
  SphLine A = sph_line(lat1, lon1, 0), B = sph_line(lat2, lon2, 0);
  Q c = qdot(A.p, B.p);
  Q3 t = {B.p.x - c * A.p.x, B.p.y - c * A.p.y, B.p.z - c * A.p.z};
  Q n = qnorm(t); A.t = {t.x / n, t.y / n, t.z / n};
  len = R * atan2q(n, c);
  return A;
}
struct SphPair {
  bool coincident; int c;      // c = +-1 for coincident circles
  Q x0, y0;                    // one intersection (non-coincident)
  Q b;                         // coincident: y = c x + b + 2 k pi R
  Q sinth;                     // sine of the crossing angle
  Q R;
};
static SphPair sph_pair(const SphLine& X, const SphLine& Y, Q R) {
  SphPair S; S.R = R;
  Q3 nX = qcross(X.p, X.t), nY = qcross(Y.p, Y.t), w = qcross(nX, nY);
  S.sinth = qnorm(w);
  if (S.sinth < 1e-25Q) {
    S.coincident = true; S.c = qdot(nX, nY) > 0 ? 1 : -1;
    Q xs = R * atan2q(qdot(Y.p, X.t), qdot(Y.p, X.p));    // Y's start point as a parameter on X
    S.b = S.c > 0 ? -xs : xs; S.x0 = S.y0 = 0;
  } else {
    S.coincident = false; S.c = 0; S.b = 0;
    Q3 u = {w.x / S.sinth, w.y / S.sinth, w.z / S.sinth};
    S.x0 = R * atan2q(qdot(u, X.t), qdot(u, X.p));
    S.y0 = R * atan2q(qdot(u, Y.t), qdot(u, Y.p));
  }
  return S;
}

struct Root { ld x, y; double sinth; double poserr = 0; };   // poserr: L1 position uncertainty of a scanned root (0 for the closed form)
static inline ld l1(ld ax, ld ay, ld bx, ld by) { return fabsl(ax - bx) + fabsl(ay - by); }

// all lattice points within L1 distance rho of p0
static std::vector<Root> sph_lattice(const SphPair& S, ld p0x, ld p0y, ld rho) {
  std::vector<Root> out;
  Q d = QPI * S.R;
  long long i0 = (long long)floorq(((Q)(p0x - rho) - S.x0) / d) - 1, i1 = (long long)ceilq(((Q)(p0x + rho) - S.x0) / d) + 1;
  long long j0 = (long long)floorq(((Q)(p0y - rho) - S.y0) / d) - 1, j1 = (long long)ceilq(((Q)(p0y + rho) - S.y0) / d) + 1;
  for (long long i = i0; i <= i1; ++i) for (long long j = j0; j <= j1; ++j) {
    if ((i + j) & 1) continue;
    Q x = S.x0 + i * d, y = S.y0 + j * d;
    if (fabsq(x - (Q)p0x) + fabsq(y - (Q)p0y) <= (Q)rho) out.push_back({(ld)x, (ld)y, (double)S.sinth});
  }
  return out;
}
// coincident circles: minimal L1 distance from p0 to the family of lines y = c x + b + 2 k pi R, and that line's offset
static ld sph_coinc_mindist(const SphPair& S, ld p0x, ld p0y, ld* bk = nullptr) {
  Q v = (Q)p0y - S.c * (Q)p0x - S.b, per = 2 * QPI * S.R;
  Q k = roundq(v / per);
  if (bk) *bk = (ld)(S.b + k * per);
  return (ld)fabsq(v - k * per);
}

// ------------------------------------------------------------------ ellipsoid: exclusion scan + Gauss-Newton
struct LineCache {
  GeodesicLine line; double h; int K; std::vector<D3> P;
  void build(const Ell& E, const GeodesicLine& l, double h_, int K_) {
    line = l; h = h_; K = K_; P.resize(2 * K + 1);
    for (int k = -K; k <= K; ++k) { double lat, lon; line.Position(k * h, lat, lon); P[k + K] = pos3(E, lat, lon); }
  }
};
struct ScanStat { uint64_t cells = 0, candidates = 0, parallel = 0, wandered = 0, unconverged = 0, roots = 0, clipped = 0; };

static bool newton(const Ell& E, const GeodesicLine& lx, const GeodesicLine& ly, double& x, double& y, double h, double resv,
                   double& sinth, ScanStat& st, double* poserr = nullptr) {
  const double xs = x, ys = y;
  for (int it = 0; it < 30; ++it) {
    D3 PX, tX, PY, tY; evalline(E, lx, x, PX, tX); evalline(E, ly, y, PY, tY);
    D3 D = sub(PX, PY);
    double c = dot(tX, tY), det = 1 - c * c;
    if (!(det >= 1e-12)) { ++st.parallel; return false; }
    double a = dot(tX, D), b = dot(tY, D);
    double dx = (-a + c * b) / det, dy = (-c * a + b) / det;
    double r = nrm(D);
    if (r <= resv && std::fabs(dx) + std::fabs(dy) <= resv / std::sqrt(det) * 4 + 1e-9) {
      // converged to the verification bound; polish to the round-off floor so that small-angle roots are located as well
      // as the data allow, and report the remaining position uncertainty
      double bx = x, by = y, br = r, bstep = std::fabs(dx) + std::fabs(dy), bdet = det;
      for (int k = 0; k < 6; ++k) {
        double nx = bx + dx, ny = by + dy;
        evalline(E, lx, nx, PX, tX); evalline(E, ly, ny, PY, tY);
        D = sub(PX, PY); c = dot(tX, tY); det = 1 - c * c;
        if (!(det >= 1e-12)) break;
        double nr = nrm(D);
        if (!(nr < br)) break;
        a = dot(tX, D); b = dot(tY, D);
        dx = (-a + c * b) / det; dy = (-c * a + b) / det;
        bx = nx; by = ny; br = nr; bdet = det; bstep = std::fabs(dx) + std::fabs(dy);
      }
      x = bx; y = by; sinth = std::sqrt(bdet);
      if (poserr) *poserr = 2 * br / sinth + bstep;
      return true;
    }
    double lim = 2 * h;
    dx = std::max(-lim, std::min(lim, dx)); dy = std::max(-lim, std::min(lim, dy));
    x += dx; y += dy;
    if (std::fabs(x - xs) > 3 * h || std::fabs(y - ys) > 3 * h) { ++st.wandered; return false; }
  }
  ++st.unconverged; return false;
}

static std::vector<Root> scan_roots(const Ell& E, const LineCache& cx, const LineCache& cy, double p0x, double p0y, double rho,
                                    double resv, ScanStat& st) {
  std::vector<Root> roots;
  const double h = cx.h; const int K = cx.K;
  const double h2 = (h * 1.001) * (h * 1.001);
  for (int k = -K; k <= K; ++k) {
    double xk = k * h, rem = rho + h - std::fabs(xk - p0x);
    if (rem < 0) continue;
    long long l0 = (long long)std::ceil((p0y - rem) / h), l1_ = (long long)std::floor((p0y + rem) / h);
    if (l0 < -K) { l0 = -K; ++st.clipped; } if (l1_ > K) { l1_ = K; ++st.clipped; }
    const D3 PX = cx.P[k + K];
    for (long long l = l0; l <= l1_; ++l) {
      ++st.cells;
      D3 D = sub(PX, cy.P[l + K]);
      if (dot(D, D) > h2) continue;                     // no root in this cell: |X(x)-Y(y)| >= |D| - |x-xc| - |y-yc| > 0
      ++st.candidates;
      double x = xk, y = l * h, sinth, perr = 0;
      if (!newton(E, cx.line, cy.line, x, y, h, resv, sinth, st, &perr)) continue;
      if (std::fabs(x - p0x) + std::fabs(y - p0y) > rho + h) continue;
      bool dup = false;
      for (auto& r : roots) if (l1(r.x, r.y, x, y) <= 1e-3 + 8 * resv / std::min(r.sinth, sinth)) { dup = true; if (perr < r.poserr) { r.x = x; r.y = y; r.sinth = sinth; r.poserr = perr; } break; }
      if (!dup) { roots.push_back({(ld)x, (ld)y, sinth, perr}); ++st.roots; }
    }
  }
  return roots;
}

// ------------------------------------------------------------------ the line alphabet
struct LDef { const char* name; double lat, lon, azi; int group, dir; };
static const LDef LINES[] = {
  {"equator", 0, 0, 90, 1, +1},
  {"meridian10", 0, 10, 0, 2, +1},
  {"genA", 20, -30, 35, 3, +1},
  {"genB", -35, 60, -110, 0, 0},
  {"genC", 50, 100, 160, 0, 0},
  {"genD", -10, -150, 80, 0, 0},
  {"equator@40", 0, 40, 90, 1, +1},
  {"meridian10-rev@30", 30, 10, 180, 2, -1},
  {"equator-rev@-70", 0, -70, -90, 1, -1},
  {"genA+1e-9deg", 20, -30, 35 + 1e-9, 0, 0},
  {"meridian10@-25", -25, 10, 0, 2, +1},
  {"genA-rev", 20, -30, -145, 3, -1},
  {"nearEquator", 0, 20, 89.9, 0, 0},          // crosses the equator at 0.1 deg
  {"nearPole", 60, -120, 1e-5, 0, 0},          // passes a few metres from the pole
  {"genE", 75, 33, -70, 0, 0},
  {"gen30", 0, 0, 30, 0, 0},
  {"gen60N", 60, 45, 60, 0, 0},
  {"polarW", -80, -45, -100, 0, 0},
  {"eqish", 5, 130, 95, 0, 0},
  {"steep", -20, 170, 10, 0, 0},
  {"genS", -55, -60, 140, 0, 0},
  {"lat45", 45, -135, -45, 0, 0},
  {"meridian-100", 10, -100, 180, 0, 0},       // meets meridian 10E exactly at the poles
  {"nearMeridian10", 0, 10.0000001, 0, 0, 0},  // 1 cm east of meridian 10E at the equator: crossing angle 1.7e-9 rad at the poles
  // ---- thorough tier only (the quick tier uses the 24 lines above)
  {"genA+1e-12deg", 20, -30, 35 + 1e-12, 0, 0},   // nearly parallel family through the start of genA: 1e-12 .. 1e-5 deg
  {"genA+1e-7deg", 20, -30, 35 + 1e-7, 0, 0},
  {"genA+1e-5deg", 20, -30, 35 + 1e-5, 0, 0},
  {"genA-rev+3e-7deg", 20, -30, -145 + 3e-7, 0, 0},
  {"fromNorthPole", 90, 0, 0, 0, 0},              // lines through the poles (meridians other than 10E and 100W)
  {"fromSouthPole", -90, 30, 45, 0, 0},
  {"nearNorthPoleStart", 89.9999, 60, 120, 0, 0},
  {"meridian-55", -12, -55, 0, 0, 0},
  {"a15", 10, 20, 15, 0, 0}, {"a105", 10, 20, 105, 0, 0}, {"a-60", 10, 20, -60, 0, 0}, {"a-160", 10, 20, -160, 0, 0},
  {"b15", -40, -110, 15, 0, 0}, {"b75", -40, -110, 75, 0, 0}, {"b-60", -40, -110, -60, 0, 0}, {"b-160", -40, -110, -160, 0, 0},
  {"c15", 65, 150, 15, 0, 0}, {"c75", 65, 150, 75, 0, 0}, {"c105", 65, 150, 105, 0, 0}, {"c-160", 65, 150, -160, 0, 0},
  {"d75", -70, 25, 75, 0, 0}, {"d-60", -70, 25, -60, 0, 0}, {"d-160", -70, 25, -160, 0, 0},
  {"eqIncl0.001", 0, -50, 90.001, 0, 0},          // inclination 0.001 deg and 0.5 deg
  {"eqIncl0.5W", 0, 70, -89.5, 0, 0},
  {"almostMeridian", 0, 40, 0.01, 0, 0},
  {"almostMeridianS", 0, -130, 179.9, 0, 0},
};
static const int NLALL = sizeof(LINES) / sizeof(LINES[0]);
static int NL = 12;
static int expected_c(const LDef& a, const LDef& b) { return &a == &b ? 1 : ((a.group && a.group == b.group) ? a.dir * b.dir : 0); }

struct PDef { const char* name; double lat, lon; };
static const PDef ENDS[] = {
  {"E1", 0, -80}, {"E2", 0, 0}, {"E3", 0, 60}, {"E4", 0, 50},
  {"M1", 40, 10}, {"M2", -30, 10}, {"M3", 5, 10},
  {"G1", 20, -30}, {"G2", 50, 70}, {"G3", -45, 120},
  // thorough tier only
  {"G4", -60, -120}, {"G5", 10, 179}, {"G6", 75, -165}, {"G7", 89.9, 0},
  {"G8", -10, -60}, {"G9", 35, 140}, {"GA", -75, 100}, {"GB", 60, -35}, {"M4", -60, 10}, {"GC", 20.5, -29.5},
};
static const int NEALL = sizeof(ENDS) / sizeof(ENDS[0]);
static int NE = 10;

// ------------------------------------------------------------------ coincidence lines of constructed-coincident pairs
struct CoLine {
  int c = 0; ld b = 0; std::vector<ld> pers;            // y = c x + b + k per for any listed period (0 = no period)
  bool on(double x, double y, double tol) const {
    if (c == 0) return false;
    ld off = (ld)y - c * (ld)x - b;
    for (ld per : pers) { ld r = per > 0 ? off - per * roundl(off / per) : off; if (fabsl(r) <= tol) return true; }
    return false;
  }
};
// signed meridian distance from the equator (Geodesic::Inverse, verified by C02)
static ld merid(const Geodesic& g, double lat, double lon) { double s; g.Inverse(0, lon, lat, lon, s); return lat < 0 ? -(ld)s : (ld)s; }

// ------------------------------------------------------------------ the judge
struct Judge {
  Ctx& ctx; const Ell& E; const Geodesic& g; double sc;
  double RES;                  // intersection residual tolerance (before the multi-circuit factor)
  std::string where;
  mc::Fields F;
  bool softpair = false;       // lines constructed distinct but within 1e-10 deg of coincidence: see "nearly-coincident" below
  void failk(const char* kind, const std::string& msg) { F[0].second = kind; { std::string rel; for (auto& f : F) if (f.first == "relation") rel = "." + f.second;
#ifdef C17_DEBUG
      for (auto& f : F) if (f.first == "pair") rel += "." + f.second;
#endif
      ctx.count(std::string("failclass.") + kind + "." + E.name + rel); } ctx.fail(where + " " + kind, msg, F); }
  double restol(double x, double y) const { return RES * std::max(1.0, std::max(std::fabs(x), std::fabs(y)) / (2e7 * sc)); }
  // (i) soundness: independent evaluation of both lines; returns residual, sets crossing sine
  double residual(const GeodesicLine& ix, const GeodesicLine& iy, double x, double y, double& sinth) const {
    D3 PX, tX, PY, tY; evalline(E, ix, x, PX, tX); evalline(E, iy, y, PY, tY);
    double c = dot(tX, tY); sinth = std::sqrt(std::max(0.0, 1 - c * c));
    return nrm(sub(PX, PY));
  }
  bool check_point(const char* api, const GeodesicLine& ix, const GeodesicLine& iy, double x, double y, double& sinth, const struct CoLine* CL = nullptr) {
    if (!(std::isfinite(x) && std::isfinite(y))) { failk("not-finite", std::string(api) + " returned (" + fmt(x) + "," + fmt(y) + ")"); sinth = 1; return false; }
    double r = residual(ix, iy, x, y, sinth), tol = softpair ? coinctol(x, y) : restol(x, y);
    if (CL && on_line(*CL, x, y)) {
      // a point of the line along which the two geodesics coincide: X(x) and Y(y) both lie on the common curve whatever
      // x and y are; the residual is the ALONG-LINE mismatch of the two displacements.  The library stops iterating as
      // soon as it recognises coincidence, so this mismatch is not driven to the Newton limit; documentation gives no
      // figure.  Calibrated (DESIGN Appendix B): COINC_CAL x eps x max(|x|,|y|,a), 4 x the worst observed.
      tol = coinctol(x, y);
      ctx.worstf(std::string("ix.") + api + ".coincident_alongline_mismatch_over_tol", r / tol, [&] { return where + " (x,y)=(" + fx(x) + "," + fx(y) + ") residual " + fmt(r); });
      if (!(r <= tol)) { failk("coincident-mismatch", std::string(api) + " returned (" + fx(x) + "," + fx(y) + ") on the coincidence line but X(x) and Y(y) are " + fmt(r) + " m apart along it (tol " + fmt(tol) + ")"); return false; }
      return true;
    }
    ctx.worstf(std::string("ix.") + api + ".residual_over_tol", r / tol, [&] { return where + " (x,y)=(" + fx(x) + "," + fx(y) + ") residual " + fmt(r); });
    if (!(r <= tol)) { failk("not-an-intersection", std::string(api) + " returned (" + fx(x) + "," + fx(y) + ") but X(x) and Y(y) are " + fmt(r) + " m apart (tol " + fmt(tol) + ")"); return false; }
    return true;
  }
  // documented meaning of c: +-1 iff the geodesics lie on top of one another AT the intersection.  Lines constructed
  // coincident (ec != 0) coincide exactly along y = ec x + b (+ k per): there c must be ec.  Away from that line a
  // non-closed geodesic can still cross itself transversally on an ellipsoid: there c = 0 is right.  Lines constructed
  // distinct have c = 0 everywhere (also the 1e-9 deg pair).
  int expect_c(const struct CoLine& L, double x, double y, const GeodesicLine& ix, const GeodesicLine& iy) const;
  bool on_line(const struct CoLine& L, double x, double y) const;
  static constexpr double COINC_CAL = 432;     // worst observed 107 (401 nm at |x| = 1.68e7 m: WGS84, genB with itself, p0 = (2e7,0))
  double coinctol(double x, double y) const { return std::max(restol(x, y), COINC_CAL * std::numeric_limits<double>::epsilon() * std::max(std::max(std::fabs(x), std::fabs(y)), E.a)); }
  double postol(double sinth, double x, double y) const { return 2 * restol(x, y) / std::max(sinth, 1e-300) + restol(x, y); }
  double postol(const Root& r) const { return std::max(postol(r.sinth, (double)r.x, (double)r.y), r.poserr); }
};

bool Judge::on_line(const CoLine& L, double x, double y) const { return L.on(x, y, 1e-3 * sc + 4 * restol(x, y)); }
// construct the object under test; a constructor exception inside the validated range is a violation of every unit that needs it
static Intersect* make_intersect(Ctx& ctx, const Ell& E, const Geodesic& g, const std::string& unitdesc) {
  try { return new Intersect(g); }
  catch (const std::exception& e) {
    Ctx::Case cs(ctx);
    ctx.fail("ctor " + unitdesc, std::string("Intersect constructor threw inside the validated range: ") + e.what(), {{"kind", "ctor-threw"}, {"ellipsoid", E.name}});
    return nullptr;
  }
}
int Judge::expect_c(const CoLine& L, double x, double y, const GeodesicLine& ix, const GeodesicLine& iy) const {
  if (!L.on(x, y, 1e-3 * sc + 4 * restol(x, y))) return 0;
  // the offset y - c x can also agree with b + k per by accident at a genuine self-crossing of a nearly closed geodesic
  // (e.g. inclination 0.001 deg: the geodesic meets itself after one circuit at an angle of 1e-4 deg with y - x within
  // 0.1 mm of 2 pi a): such a point is a transversal crossing, c = 0 is right there
  double sinth; residual(ix, iy, x, y, sinth);
  return sinth < 1e-7 ? L.c : 0;
}

// periods of the coincidence lines y = c x + k per of a line with itself / its reverse: only CLOSED geodesics have k != 0
// (every great circle; on an ellipsoid the meridians and the equator)
static std::vector<ld> closed_periods(const Ell& E, double lat, double azi, double qm) {
  if (E.f == 0) return {2 * LPI * E.a};
  std::vector<ld> p = {0};
  if (azi == 0 || std::fabs(azi) == 180 || std::fabs(lat) == 90) p.push_back(4 * (ld)qm);
  if (lat == 0 && std::fabs(azi) == 90) p.push_back(2 * LPI * E.a);
  return p;
}
// ------------------------------------------------------------------ Next on coincident geodesics: conjugate points
// reduced length m12 from the start of a line to displacement s (GeodesicLine::Position, independent of Intersect)
static double m12_at(const GeodesicLine& l, double s) { double lat, lon, azi, m; l.Position(s, lat, lon, azi, m); return m; }
// first zero of m12 in direction dir (+1/-1) beyond the start: bracket on a 2e5 m grid, then bisect.  NaN if none below 5e7 m.
static double conjugate_dist(const GeodesicLine& l, int dir, double sc) {
  const double h = 2e5 * sc;
  double s0 = 1e6 * sc, m0 = m12_at(l, dir * s0);
  for (double s1 = s0 + h; s1 <= 5e7 * sc; s1 += h) {
    double m1 = m12_at(l, dir * s1);
    if ((m0 > 0) != (m1 > 0)) {
      double a = s0, b = s1, ma = m0;
      for (int k = 0; k < 80 && b - a > 1e-7 * sc; ++k) { double c = (a + b) / 2, mc_ = m12_at(l, dir * c); if ((mc_ > 0) == (ma > 0)) { a = c; ma = mc_; } else b = c; }
      return (a + b) / 2;
    }
    s0 = s1; m0 = m1;
  }
  return NAN;
}
// predicates for Next(lineX, lineY) when the two lines were constructed coincident (Y = X or Y = X reversed):
//  * a result flagged c = +-1 is a conjugate point of the start: m12(start -> x along X) = 0;
//  * whatever is returned, its L1 distance does not exceed that of the nearest conjugate point (s, c s), found here by
//    bracketing and bisection of m12 in both directions (a closer genuine self-crossing with c = 0 is a legitimate answer).
static void conjugate_checks(Judge& J, const GeodesicLine& ix, double x, double y, int c1, double sc) {
  const double dlib = std::fabs(x) + std::fabs(y);
  // a flagged point on the principal line y = c x is reported as (s, c s) with s a conjugate distance; a flagged point on
  // another coincidence line y = c x + k per of a CLOSED geodesic (meridian, equator, great circle) is the centre of that
  // line and need not be conjugate
  if (c1 != 0 && std::fabs(y - c1 * x) <= 1e-3 * sc + J.coinctol(x, y)) {
    double m = m12_at(ix, x), tol = 4 * J.restol(x, y);
    J.ctx.worstf("ix.next.conjugate_m12_over_tol", std::fabs(m) / tol, [&] { return J.where + " x=" + fx(x) + " m12=" + fmt(m); });
    if (!(std::fabs(m) <= tol)) J.failk("next-not-conjugate", "flagged coincident (c = " + fmti(c1) + ") but the reduced length from the start to x = " + fx(x) + " is m12 = " + fmt(m) + " m: not a conjugate point");
  }
  double sp = conjugate_dist(ix, +1, sc), sm = conjugate_dist(ix, -1, sc);
  double smin = std::fmin(sp, sm);                       // fmin ignores a NaN
  if (smin == smin) {
    double tol = 1e-3 * sc + 4 * J.restol(x, y);
    J.ctx.worstf("ix.next.coincident_excess_over_nearest_conjugate_m", dlib - 2 * smin, [&] { return J.where; });
    if (!(dlib <= 2 * smin + tol))
      J.failk("next-coincident-not-minimal", "returned (" + fx(x) + "," + fx(y) + ") at L1 distance " + fx(dlib) + " but the conjugate points of the start lie at +" + fmt(sp) + " / -" + fmt(sm) +
              " along the line, i.e. (s, c s) at L1 distance " + fmt(2 * smin));
  } else J.ctx.count("ix.next.no-conjugate-point-bracketed");
}

int main(int argc, char** argv) {
  Ctx ctx(argc, argv);
  const bool T = ctx.thorough();
  NL = T ? NLALL : 24; NE = T ? NEALL : 10;
  const double aW = Constants::WGS84_a(), fW = Constants::WGS84_f();
  std::vector<Ell> ells = {{"sphere", aW, 0, false, 15e-9}, {"WGS84", aW, fW, false, 15e-9}};
  if (T) {
    ells.push_back({"f=+1/50", aW, 0.02, false, 30e-9});
    ells.push_back({"f=-1/50", aW, -0.02, false, 30e-9});
    ells.push_back({"f=+1/5 exact", aW, 0.2, true, 40e-9});
    ells.push_back({"f=-1/4 exact", aW, -0.25, true, 40e-9});
    ells.push_back({"f=+1/10 exact", aW, 0.1, true, 40e-9});
    ells.push_back({"f=-1/10 exact", aW, -0.1, true, 40e-9});
  }
#ifdef C17_DEBUG
  if (getenv("C17_ELLS")) { std::vector<Ell> sel; std::string want = getenv("C17_ELLS"); for (size_t k = 0; k < ells.size(); ++k) if (want.find('0' + (char)k) != std::string::npos) sel.push_back(ells[k]); ells = sel; }
#endif
  ctx.bound("ix.ellipsoids", T ? "sphere (f=0), WGS84, f=+-1/50 (series), f=1/5 and f=-1/4 (ends of the validated range) and f=+-1/10 with Geodesic(exact=true)" : "sphere (f=0), WGS84");
  { std::string s; for (int i = 0; i < NL; ++i) s += std::string(i ? "; " : "") + LINES[i].name + "=(" + fmt(LINES[i].lat) + "," + fmt(LINES[i].lon) + "," + fmt(LINES[i].azi) + ")";
    ctx.bound("ix.lines", fmti(NL) + " lines, all " + fmti(NL * NL) + " ordered pairs incl. self pairs: " + s); }
  std::vector<std::pair<double, double>> P0 = {{0, 0}, {1e7, -2e7}};
  {
    for (double u : {-2e7, -1e7, 0.0, 1e7, 2e7}) for (double v : {-2e7, -1e7, 0.0, 1e7, 2e7})
      if (!((u == 0 && v == 0) || (u == 1e7 && v == -2e7))) P0.push_back({u, v});
    P0.push_back({-2.5e7, -4e6});
  }
  if (T) {
    for (int u = -3; u <= 3; ++u) for (int v = -3; v <= 3; ++v) if ((std::abs(u) == 3 || std::abs(v) == 3) && ((u + v) & 1) == 0) P0.push_back({u * 1e7, v * 1e7});
    P0.push_back({3.3e6, 1.7e7}); P0.push_back({-1.234e7, 2.9e7}); P0.push_back({5e6, -5e6});
  }
  ctx.bound("ix.p0", T ? "the 5 x 5 grid {-2e7..2e7 step 1e7}^2, the 12 points (u,v) x 1e7 of the ring max(|u|,|v|) = 3 with u+v even, and (-2.5e7,-4e6), (3.3e6,1.7e7), (-1.234e7,2.9e7), (5e6,-5e6) m x a/6378137 (41 offsets)"
                       : "the 5 x 5 grid {-2e7,-1e7,0,1e7,2e7}^2 and (-2.5e7,-4e6) m x a/6378137 (26 offsets)");
  const std::vector<double> MAXD = T ? std::vector<double>{0, 1e5, 5e6, 2.5e7, 6e7} : std::vector<double>{1e5, 2.5e7, 6e7};
  ctx.bound("ix.all.maxdist", T ? "{0, 1e5, 5e6, 2.5e7, 6e7} m" : "{1e5, 2.5e7, 6e7} m");
  ctx.bound("ix.scan", "ellipsoid oracle: cells h = 2.5e5 m (lines) / 2e5 m (segments) over the whole L1 diamond; exclusion |X(xc)-Y(yc)| > h, else Gauss-Newton; roots verified by residual, crossing angle > 1e-6");
  ctx.note("residual tolerance: 20 nm (DESIGN Appendix B: eps-level, _eps*R ~ 4 nm) x gdoc/15nm for the solver used x max(1, max(|x|,|y|)/2e7) for multi-circuit displacements; "
           "a position on the (x,y) plane is matched within 2*tol/sin(crossing angle) + tol");

  // ================================================================ constructor
  ctx.sub("ix-ctor");
  ctx.bound("ix-ctor", "Intersect(Geodesic(a,f,exact)) for the ellipsoids used must construct; f = 0.5 and f = -0.5 (exact) must throw GeographicErr (documented: far outside the validated range an exception is thrown)");
  if (ctx.take()) {
    for (const Ell& E : ells) {
      Ctx::Case cs(ctx);
      try { Geodesic g(E.a, E.f, E.exact); Intersect in(g);
        if (in.NumInverse() != 0 || in.NumBasic() != 0) ctx.count("ix-ctor.counters-nonzero-after-construction"); }
      catch (const std::exception& e) { ctx.fail(std::string("ctor ") + E.name, std::string("constructor threw inside the validated range: ") + e.what(), {{"kind", "ctor-threw"}, {"ellipsoid", E.name}}); }
    }
    for (double f : {0.5, -0.5}) {
      Ctx::Case cs(ctx);
      std::string out = "no exception";
      try { Geodesic g(aW, f, true); Intersect in(g); } catch (const GeographicErr& e) { out = "E"; } catch (const std::exception& e) { out = std::string("X:") + e.what(); }
      ctx.sig(out == "E");
      if (out != "E") ctx.fail("ctor f=" + fmt(f), "Intersect for f = " + fmt(f) + ": " + out + " (GeographicErr documented for excessive eccentricity)", {{"kind", "ctor-accepts-eccentric"}});
    }
  }

  // ================================================================ Closest + All over line pairs
  ctx.sub("ix-closest-all");
  {
    ScanStat st; uint64_t sphere_lattice_pts = 0, sphere_lattice_found = 0, all_unmatched_returned = 0, all_illconditioned_returned = 0, calls = 0;
    for (const Ell& E : ells) {
      const double sc = E.a / aW;
      const double hline = 2.5e5 * sc; const int Kline = T ? 490 : 410;    // |x| <= 1.225e8 / 1.025e8: covers |p0|_1 + maxdist + margin
      const double rhobig = (T ? 1.2e8 : 1e8) * sc;                            // one root set per pair: L1 diamond about the origin, >= max |p0|_1 + max maxdist
      // per ellipsoid objects are built lazily (only if this shard owns a unit)
      Geodesic* g = nullptr; Intersect* in = nullptr; std::vector<LineCache> cache; std::vector<GeodesicLine> lines;
      for (int i = 0; i < NL; ++i) for (int j = 0; j < NL; ++j) {
        if (!ctx.take()) continue;
        if (!g) {
          g = new Geodesic(E.a, E.f, E.exact); in = make_intersect(ctx, E, *g, std::string(E.name) + " pair " + fmti(i) + "," + fmti(j));
          if (!in) { delete g; g = nullptr; continue; }
          cache.resize(NL); lines.resize(NL);
          for (int k = 0; k < NL; ++k) { lines[k] = g->Line(LINES[k].lat, LINES[k].lon, LINES[k].azi); if (E.f != 0 || true) cache[k].build(E, lines[k], hline, Kline); }
        }
        const LDef &A = LINES[i], &B = LINES[j];
        const int ec = expected_c(A, B);
        const GeodesicLine lx = g->Line(A.lat, A.lon, A.azi, Intersect::LineCaps), ly = g->Line(B.lat, B.lon, B.azi, Intersect::LineCaps);
        const GeodesicLine &ix = lines[i], &iy = lines[j];
        Judge J{ctx, E, *g, sc, 20e-9 * sc * (E.gdoc / 15e-9)};
        // "nearly-coincident": same start, azimuths (or azimuth and reversed azimuth) within 1e-10 deg but not equal: the
        // lines are distinct (up to 1e-7 m apart) yet inside the library's own coincidence threshold for part of their
        // length; the documentation does not say which c applies nor which of the ill-conditioned crossings are listed.
        // Only soundness (true intersection up to the along-line tolerance, maxdist, order) is demanded there.
        const bool soft = ec == 0 && A.lat == B.lat && A.lon == B.lon && A.azi != B.azi &&
                          (std::fabs(A.azi - B.azi) <= 1e-10 || std::fabs(std::fabs(A.azi - B.azi) - 180) <= 1e-10);
        J.softpair = soft;
        J.F = {{"kind", ""}, {"ellipsoid", E.name}, {"pair", std::string(A.name) + "/" + B.name}, {"coincident", fmti(ec)},
               {"relation", i == j ? "identical" : (ec ? "coincident" : (soft ? "nearly-coincident" : "distinct"))}, {"c", ""}};
        SphPair S; if (E.f == 0) S = sph_pair(sph_line(A.lat, A.lon, A.azi), sph_line(B.lat, B.lon, B.azi), (Q)E.a);
        if (E.f == 0 && S.coincident != (ec != 0)) { fprintf(stderr, "oracle self-check: coincidence of %s/%s\n", A.name, B.name); return 2; }
        CoLine CL; CL.c = ec;
        if (ec != 0) {
          double qm; g->Inverse(0, 0, 90, 0, qm);
          if (E.f == 0) { CL.b = (ld)S.b; CL.pers = {2 * LPI * E.a}; if (S.c != ec) { fprintf(stderr, "oracle self-check: orientation of %s/%s\n", A.name, B.name); return 2; } }
          else if (A.group == 1) { CL.b = B.dir * (ld)E.a * (A.lon - B.lon) * LPI / 180; CL.pers = {2 * LPI * E.a}; }          // equator (closed)
          else if (A.group == 2) { CL.b = B.dir * (merid(*g, A.lat, A.lon) - merid(*g, B.lat, B.lon)); CL.pers = {4 * (ld)qm}; }  // meridian 10E (closed)
          else { CL.b = 0; CL.pers = {0};                                                                 // same start point
            if (A.azi == 0 || std::fabs(A.azi) == 180 || std::fabs(A.lat) == 90) CL.pers.push_back(4 * (ld)qm);   // a meridian is closed
            if (A.lat == 0 && std::fabs(A.azi) == 90) CL.pers.push_back(2 * LPI * E.a); }
        }
        // ---- reference root set within the big diamond (once per pair)
        std::vector<Root> roots; bool complete = false, have = false;
        if (ec == 0) {
          std::vector<Root> sroots;
          if (E.f == 0) { roots = sph_lattice(S, 0, 0, rhobig + 1e3); complete = true; have = true; }
          // scan (the oracle on ellipsoids; a self-check of the scan on the sphere)
          if ((double)(E.f == 0 ? (double)S.sinth : 1.0) > 1e-6) {
            sroots = scan_roots(E, cache[i], cache[j], 0, 0, rhobig, 4 * J.restol(1e8 * sc, 0), st);   // (verification residual bound kept at its quick-tier value)
            if (E.f == 0) {
              for (auto& r : roots) { if (l1(r.x, r.y, 0, 0) > rhobig) continue; ++sphere_lattice_pts;
                for (auto& s : sroots) if (l1(r.x, r.y, s.x, s.y) <= 1e-3) { ++sphere_lattice_found; break; } }
            } else { roots = sroots; have = true; }
          }
        }
        for (auto p0s : P0) {
          const double p0x = p0s.first * sc, p0y = p0s.second * sc;
          const Intersect::Point p0(p0x, p0y);
          const std::string base = std::string(E.name) + " X=" + A.name + " Y=" + B.name + " p0=(" + fmt(p0x) + "," + fmt(p0y) + ")";
          // ---- Closest
          {
            Ctx::Case cs(ctx); ++calls;
            J.where = "closest " + base;
            int c1 = -9, c2 = -9;
            Intersect::Point p = in->Closest(lx, ly, p0, &c1);
            Intersect::Point p2 = in->Closest(A.lat, A.lon, A.azi, B.lat, B.lon, B.azi, p0, &c2);
            Intersect::Point p3 = in->Closest(lx, ly, p0);
            ctx.sig((uint64_t)(c1 + 2) * 5 + (ec + 1));
            if (!mc::same_bits(p.first, p2.first) || !mc::same_bits(p.second, p2.second) || c1 != c2 || !mc::same_bits(p.first, p3.first) || !mc::same_bits(p.second, p3.second))
              J.failk("overloads-differ", "Closest(lat,lon,azi,...) / Closest(lines) / without c give different results");
            double sinth;
            if (J.check_point("closest", ix, iy, p.first, p.second, sinth, &CL)) {
              const int lc = J.expect_c(CL, p.first, p.second, ix, iy);
              J.F[5].second = fmti(c1);
              if (soft) { ctx.count(c1 ? "ix.nearly-coincident.c_nonzero" : "ix.nearly-coincident.c_zero"); }
              else if (c1 != lc) J.failk("coincidence-indicator", "c = " + fmti(c1) + " at (" + fx(p.first) + "," + fx(p.second) + "), expected " + fmti(lc) + " (lines constructed with c = " + fmti(ec) + ")");
              if (E.f == 0 && ec == 0) sinth = (double)S.sinth;                        // exact crossing angle on the sphere
              const double dlib = std::fabs(p.first - p0x) + std::fabs(p.second - p0y);
              if (soft) {
                // nothing further is decidable
              } else if (ec != 0 && E.f == 0) {
                // coincident great circles: the L1 distance to the nearest coincidence line is the minimum
                ld dmin = sph_coinc_mindist(S, p0x, p0y);
                double tol = 4 * J.coinctol(p.first, p.second);
                if (std::fabs(dlib - (double)dmin) <= tol)      // failing cases are reported as violations / known findings, not as a "worst error"
                  ctx.worstf("ix.closest.coincident_dist_err_over_tol", std::fabs(dlib - (double)dmin) / tol, [&] { return J.where; });
                if (!(std::fabs(dlib - (double)dmin) <= tol)) J.failk("coincident-closest-not-minimal", "coincident lines: returned L1 distance " + fx(dlib) + ", minimal " + fmt((double)dmin));
              } else if (have) {
                const double pt = J.postol(sinth, p.first, p.second);
                ld dmin = 1e30L, dmatch = 1e30L; const Root* rmin = nullptr;
                for (auto& r : roots) { ld d = l1(r.x, r.y, p0x, p0y); if (d < dmin) { dmin = d; rmin = &r; } dmatch = std::min(dmatch, l1(r.x, r.y, p.first, p.second)); }
                if (complete) {
                  ctx.worstf("ix.closest.sphere_position_err_over_tol", (double)dmatch / pt, [&] { return J.where; });
                  if (!(dmatch <= pt)) J.failk("closest-not-on-lattice", "sphere: returned (" + fx(p.first) + "," + fx(p.second) + ") is " + fmt((double)dmatch) + " from the nearest true intersection");
                }
                if (rmin) {
                  double margin = 1e-3 + pt + J.postol(*rmin);
                  if (complete) ctx.worstf("ix.closest.sphere_excess_dist_over_tol", (dlib - (double)dmin) / (2 * pt), [&] { return J.where; });
                  if (complete ? !(dlib <= (double)dmin + 2 * pt) : !(dlib <= (double)dmin + margin))
                    J.failk("closest-not-minimal", "returned (" + fx(p.first) + "," + fx(p.second) + ") at L1 distance " + fx(dlib) + " but (" + fmt((double)rmin->x) + "," + fmt((double)rmin->y) +
                            ") is an intersection at distance " + fmt((double)dmin));
                }
              }
            }
            if (ctx.want_sample()) ctx.sample(J.where + " -> (" + fmt(p.first) + "," + fmt(p.second) + ") c=" + fmti(c1));
          }
          // ---- All
          for (double md0 : MAXD) {
            Ctx::Case cs(ctx); ++calls;
            const double md = md0 * sc;
            J.where = "all " + base + " maxdist=" + fmt(md);
            std::vector<int> cv = {7, 7, 7};
            std::vector<Intersect::Point> v = in->All(lx, ly, md, cv, p0);
            std::vector<Intersect::Point> v2 = in->All(A.lat, A.lon, A.azi, B.lat, B.lon, B.azi, md, p0);
            ctx.sig(100 + v.size() * 3 + (ec + 1));
            bool same = v.size() == v2.size() && cv.size() == v.size();
            for (size_t k = 0; same && k < v.size(); ++k) same = mc::same_bits(v[k].first, v2[k].first) && mc::same_bits(v[k].second, v2[k].second);
            if (!same) J.failk("overloads-differ", "All with / without coincidence vector or with lat/lon/azi arguments differ (sizes " + fmti(v.size()) + "," + fmti(v2.size()) + "," + fmti(cv.size()) + ")");
            bool ok = true; double prev = -1;
            std::vector<double> sth(v.size(), 1);
            for (size_t k = 0; k < v.size(); ++k) {
              if (!J.check_point("all", ix, iy, v[k].first, v[k].second, sth[k], &CL)) { ok = false; continue; }
              double d = std::fabs(v[k].first - p0x) + std::fabs(v[k].second - p0y);
              if (!(d <= md * (1 + 4e-16) + 1e-9)) J.failk("all-beyond-maxdist", "point " + fmti(k) + " at L1 distance " + fx(d) + " > maxdist");
              if (d < prev) J.failk("all-not-sorted", "point " + fmti(k) + " at distance " + fx(d) + " after a point at " + fx(prev));
              prev = d;
              { const int lc = J.expect_c(CL, v[k].first, v[k].second, ix, iy);
                J.F[5].second = k < cv.size() ? fmti(cv[k]) : "";
                if (!soft && k < cv.size() && cv[k] != lc) J.failk("coincidence-indicator", "c[" + fmti(k) + "] = " + fmti(cv[k]) + ", expected " + fmti(lc) + " (lines constructed with c = " + fmti(ec) + ")"); }
              if (E.f == 0 && ec == 0) sth[k] = (double)S.sinth;
              for (size_t m = 0; m < k; ++m)
                if (!soft && l1(v[k].first, v[k].second, v[m].first, v[m].second) <= 1.0) J.failk("all-duplicate", "points " + fmti(m) + " and " + fmti(k) + " are the same intersection");
            }
            if (!ok || soft) continue;
            if (ec != 0) {
              // coincident lines: a continuum of intersections; documented nowhere which are listed.  Sound part only:
              // the closest one must be present when it is within maxdist
              if (E.f == 0) { ld dmin = sph_coinc_mindist(S, p0x, p0y);
                if (dmin <= md - 1e-3 && v.empty()) J.failk("coincident-all-missed", "coincident lines at L1 distance " + fmt((double)dmin) + " <= maxdist but nothing returned"); }
              continue;
            }
            if (!have) continue;
            std::vector<char> used(roots.size(), 0);
            for (size_t k = 0; k < v.size(); ++k) {
              if (!complete && sth[k] < 1e-6) { ++all_illconditioned_returned; continue; }     // nearly tangent crossing: position not comparable
              const double pt = 1e-3 + J.postol(sth[k], v[k].first, v[k].second);
              int best = -1; ld bd = 1e30L;
              for (size_t m = 0; m < roots.size(); ++m) { ld d = l1(roots[m].x, roots[m].y, v[k].first, v[k].second); if (d < bd) { bd = d; best = (int)m; } }
              if (best >= 0 && bd <= pt + J.postol(roots[best])) {
                if (used[best]) J.failk("all-duplicate", "two returned points match the same intersection");
                used[best] = 1;
                if (complete) ctx.worstf("ix.all.sphere_position_err_over_tol", (double)bd / (pt - 1e-3), [&] { return J.where; });
              } else if (complete) J.failk("all-not-on-lattice", "sphere: returned (" + fx(v[k].first) + "," + fx(v[k].second) + ") is " + fmt((double)bd) + " from the nearest true intersection");
              else ++all_unmatched_returned;
            }
            for (size_t m = 0; m < roots.size(); ++m) {
              if (used[m]) continue;
              ld d = l1(roots[m].x, roots[m].y, p0x, p0y);
              double pt = 1e-3 + 2 * J.postol(roots[m]);
              if (d <= md - pt)
                J.failk("all-missed", "intersection (" + fmt((double)roots[m].x) + "," + fmt((double)roots[m].y) + ") at L1 distance " + fmt((double)d) + " <= maxdist is not in the list of " + fmti(v.size()));
            }
          }
        }
      }
      delete in; delete g;
    }
    ctx.count("calls", calls);
    ctx.count("ix.scan.cells", st.cells); ctx.count("ix.scan.candidate_cells", st.candidates); ctx.count("ix.scan.roots", st.roots);
    ctx.count("ix.scan.newton_parallel", st.parallel); ctx.count("ix.scan.newton_wandered", st.wandered); ctx.count("ix.scan.newton_unconverged", st.unconverged);
    ctx.count("ix.scan.clipped", st.clipped);
    ctx.count("ix.scan.selfcheck_sphere_lattice_points", sphere_lattice_pts); ctx.count("ix.scan.selfcheck_sphere_lattice_found_by_scan", sphere_lattice_found);
    ctx.count("ix.all.returned_not_found_by_scan", all_unmatched_returned);
    ctx.count("ix.all.returned_nearly_tangent_not_matched", all_illconditioned_returned);
  }

  // ================================================================ Closest at the ties between neighbouring intersections
  // Closest must pick the L1-nearest intersection.  Which of two intersections is nearer flips across their L1 bisector;
  // the tiling constants of ClosestInt (_d1, _t1, _t2) decide whether the nearer one is found at all, and a wrong constant
  // only shows for offsets p0 near such a tie, on very eccentric ellipsoids.  So: both lines start at one point ([0,0] is
  // an intersection by construction), the reference set is the root scan over the diamond |x|+|y| <= 8e7, and p0 runs over
  // a FINE lattice (step t/512, t = 2.2e7 m) restricted to the tie neighbourhoods computed from the reference set itself
  // (the two nearest reference intersections differ by < 1 % in L1 distance) plus a coarse sub-lattice (step t/32).
  ctx.sub("ix-closest-ties");
  {
    const std::vector<Ell> te = {{"f=+1/5 exact", aW, 0.2, true, 40e-9}, {"f=-1/4 exact", aW, -0.25, true, 40e-9}, {"f=+1/10 exact", aW, 0.1, true, 40e-9}};
    std::vector<PDef> starts = {{"(-12,0)", -12, 0}, {"(35,60)", 35, 60}};
    std::vector<double> axs = {98, 53, 8}, ays = {-107, -62, -17};
    if (T) { starts.push_back({"(-50,-120)", -50, -120}); starts.push_back({"(0.5,10)", 0.5, 10}); axs.push_back(143); ays.push_back(28); }
    const double tt = 2.2e7, fine = tt / 512, band = 0.01;
    const int NF = 614;                                   // fine lattice indices |i|+|j| <= NF: L1 ball of radius 1.2 t
    ctx.bound("ix-closest-ties", std::string("ellipsoids f=1/5, -1/4, 1/10 (exact) x starts ") + (T ? "(-12,0), (35,60), (-50,-120), (0.5,10) x aziX {98,53,8,143} x aziY {-107,-62,-17,28}" : "(-12,0), (35,60) x aziX {98,53,8} x aziY {-107,-62,-17}") + " (both lines through the start); "
              "p0 = (i,j) t/512, t = 2.2e7 m, |i|+|j| <= 614 (L1 ball 1.2 t): every lattice point whose two nearest reference intersections differ by < 1 % in L1 distance, "
              "plus the sub-lattice i,j = 0 mod 16; predicate: Closest(p0) is a true intersection and not farther (L1) than the nearest reference intersection");
    ScanStat st; uint64_t calls = 0, tiepts = 0, coarsepts = 0;
    for (const Ell& E : te) for (const PDef& s0 : starts) for (double ax : axs) for (double ay : ays) {
      if (!ctx.take()) continue;
      const double sc = E.a / aW;
      Geodesic g(E.a, E.f, E.exact);
      Intersect* inp = make_intersect(ctx, E, g, std::string(E.name) + " ties " + s0.name);
      if (!inp) continue;
      Judge J{ctx, E, g, sc, 20e-9 * sc * (E.gdoc / 15e-9)};
      J.F = {{"kind", ""}, {"ellipsoid", E.name}, {"relation", "distinct"}};
      const GeodesicLine lx = g.Line(s0.lat, s0.lon, ax, Intersect::LineCaps), ly = g.Line(s0.lat, s0.lon, ay, Intersect::LineCaps);
      const GeodesicLine ix = g.Line(s0.lat, s0.lon, ax), iy = g.Line(s0.lat, s0.lon, ay);
      LineCache cx, cy; cx.build(E, ix, 2.5e5 * sc, 330); cy.build(E, iy, 2.5e5 * sc, 330);
      std::vector<Root> roots = scan_roots(E, cx, cy, 0, 0, 8e7 * sc, 4 * J.restol(1e8 * sc, 0), st);
      { bool have0 = false; for (auto& r : roots) if (l1(r.x, r.y, 0, 0) <= 1.0) have0 = true;
        if (!have0) { D3 P, tX, tY; evalline(E, ix, 0, P, tX); evalline(E, iy, 0, P, tY); double c = dot(tX, tY); roots.push_back({0, 0, std::sqrt(std::max(0.0, 1 - c * c)), 0}); } }
      const std::string base = std::string(E.name) + " start=" + s0.name + " aziX=" + fmt(ax) + " aziY=" + fmt(ay);
      for (int i = -NF; i <= NF; ++i) for (int j = -(NF - std::abs(i)); j <= NF - std::abs(i); ++j) {
        const double p0x = i * fine * sc, p0y = j * fine * sc;
        // the two nearest reference intersections
        ld d1 = 1e30L, d2 = 1e30L; const Root* r1 = nullptr;
        for (auto& r : roots) { ld d = l1(r.x, r.y, p0x, p0y); if (d < d1) { d2 = d1; d1 = d; r1 = &r; } else if (d < d2) d2 = d; }
        const bool tie = d2 - d1 < band * d1, coarse = (i % 16 == 0 && j % 16 == 0);
        if (!tie && !coarse) continue;
        Ctx::Case cs(ctx); ++calls; if (tie) ++tiepts; else ++coarsepts;
        J.where = "closest-ties " + base + " p0=(" + fmt(p0x) + "," + fmt(p0y) + ")";
        int c1 = -9;
        Intersect::Point p = inp->Closest(lx, ly, Intersect::Point(p0x, p0y), &c1);
        ctx.sig(500 + tie);
        double sinth;
        if (!J.check_point("closest", ix, iy, p.first, p.second, sinth)) continue;
        if (c1 != 0) J.failk("coincidence-indicator", "c = " + fmti(c1) + " for two distinct lines");
        const double dlib = std::fabs(p.first - p0x) + std::fabs(p.second - p0y);
        const double margin = 1e-3 + J.postol(sinth, p.first, p.second) + J.postol(*r1);
        if (!(dlib <= (double)d1 + margin))
          J.failk("closest-not-minimal", "returned (" + fx(p.first) + "," + fx(p.second) + ") at L1 distance " + fx(dlib) + " but (" + fmt((double)r1->x) + "," + fmt((double)r1->y) +
                  ") is an intersection at distance " + fmt((double)d1) + " (" + fmt(dlib - (double)d1) + " m closer)");
      }
      delete inp;
    }
    ctx.count("calls", calls); ctx.count("ix-closest-ties.tie_neighbourhood_offsets", tiepts); ctx.count("ix-closest-ties.coarse_offsets", coarsepts);
    ctx.count("ix.scan.cells", st.cells); ctx.count("ix.scan.candidate_cells", st.candidates); ctx.count("ix.scan.roots", st.roots);
    ctx.count("ix.scan.newton_parallel", st.parallel); ctx.count("ix.scan.newton_wandered", st.wandered); ctx.count("ix.scan.newton_unconverged", st.unconverged);
  }

  // ================================================================ Next
  ctx.sub("ix-next");
  {
    std::vector<PDef> starts = {{"(0,0)", 0, 0}, {"(20,-30)", 20, -30}, {"(-60,100)", -60, 100}, {"(90,0)", 90, 0}};
    std::vector<double> azis = {0, 35, 90, 135, 180, -145, -90, -35.5, 35 + 1e-9};
    if (T) { starts.push_back({"(45,45)", 45, 45}); starts.push_back({"(-5,-170)", -5, -170}); azis.push_back(60); azis.push_back(-120); azis.push_back(1);
      starts.push_back({"(0,90)", 0, 90}); starts.push_back({"(-89.9,0)", -89.9, 0}); starts.push_back({"(30,179.9)", 30, 179.9}); starts.push_back({"(-45,-45)", -45, -45});
      for (double a : {10.0, 170.0, -10.0, -170.0, 89.999, 45.0, 120.5, 35 + 1e-12, 35 + 1e-5}) azis.push_back(a); }
    ctx.bound("ix-next", T ? "start points (0,0) (20,-30) (-60,100) (90,0) (45,45) (-5,-170) (0,90) (-89.9,0) (30,179.9) (-45,-45) x all 441 ordered pairs of azimuths {0,35,90,135,180,-145,-90,-35.5,35+1e-9,60,-120,1,10,170,-10,-170,89.999,45,120.5,35+1e-12,35+1e-5}"
                           : "start points (0,0) (20,-30) (-60,100) (90,0) x all 81 ordered pairs of azimuths {0,35,90,135,180,-145,-90,-35.5,35+1e-9}");
    ScanStat st; uint64_t calls = 0;
    for (const Ell& E : ells) for (const PDef& s0 : starts) {
      if (!ctx.take()) continue;
      const double sc = E.a / aW;
      Geodesic g(E.a, E.f, E.exact);
      Intersect* inp = make_intersect(ctx, E, g, std::string(E.name) + " start " + s0.name);
      if (!inp) continue;
      Intersect& in = *inp;
      Judge J{ctx, E, g, sc, 20e-9 * sc * (E.gdoc / 15e-9)};
      std::vector<LineCache> cache(azis.size());
      const double h = 2.5e5 * sc; const int K = 200;
      if (E.f != 0) for (size_t k = 0; k < azis.size(); ++k) cache[k].build(E, g.Line(s0.lat, s0.lon, azis[k]), h, K);
      for (size_t i = 0; i < azis.size(); ++i) for (size_t j = 0; j < azis.size(); ++j) {
        Ctx::Case cs(ctx); ++calls;
        const double ax = azis[i], ay = azis[j];
        // constructed coincidence: identical azimuth, or exactly opposite
        int ec = ax == ay ? 1 : (std::fabs(std::fabs(ax - ay) - 180) == 0 ? -1 : 0);
        J.where = std::string("next ") + E.name + " start=" + s0.name + " aziX=" + fx(ax) + " aziY=" + fx(ay);
        J.F = {{"kind", ""}, {"ellipsoid", E.name}, {"coincident", fmti(ec)}};
        const GeodesicLine lx = g.Line(s0.lat, s0.lon, ax, Intersect::LineCaps), ly = g.Line(s0.lat, s0.lon, ay, Intersect::LineCaps);
        const GeodesicLine ix = g.Line(s0.lat, s0.lon, ax), iy = g.Line(s0.lat, s0.lon, ay);
        int c1 = -9, c2 = -9;
        Intersect::Point p = in.Next(lx, ly, &c1), p2 = in.Next(s0.lat, s0.lon, ax, ay, &c2);
        ctx.sig(200 + (c1 + 2) * 5 + (ec + 1));
        if (!mc::same_bits(p.first, p2.first) || !mc::same_bits(p.second, p2.second) || c1 != c2) J.failk("overloads-differ", "Next(lat,lon,aziX,aziY) and Next(lines) differ");
        double sinth;
        CoLine CL; CL.c = ec; CL.b = 0;
        if (ec != 0) { double qm; g.Inverse(0, 0, 90, 0, qm); CL.pers = closed_periods(E, s0.lat, ax, qm); }
        if (!J.check_point("next", ix, iy, p.first, p.second, sinth, &CL)) continue;
        const int lc = J.expect_c(CL, p.first, p.second, ix, iy);
        J.F.push_back({"relation", ax == ay ? "identical" : (ec ? "coincident" : "distinct")}); J.F.push_back({"c", fmti(c1)});
        if (c1 != lc) J.failk("coincidence-indicator", "c = " + fmti(c1) + ", expected " + fmti(lc) + " (lines constructed with c = " + fmti(ec) + ")");
        const double dlib = std::fabs(p.first) + std::fabs(p.second);
        if (!(dlib > 1.0 * sc)) { J.failk("next-is-origin", "Next returned the starting intersection itself: (" + fx(p.first) + "," + fx(p.second) + ")"); continue; }
        if (ec != 0) {
          // coincident: the library reports the conjugate point (s, c s); only soundness is documented.  On the sphere
          // the conjugate distance is pi R: check that as the natural reading of "next".
          // (the limit of the lattice (i pi R, j pi R), i+j even, for vanishing crossing angle: L1 distance 2 pi R)
          if (E.f == 0 && !(std::fabs(dlib - (double)(2 * LPI * E.a)) <= 1e-6)) J.failk("next-coincident-distance", "sphere, coincident lines: L1 distance " + fx(dlib) + " is not 2 pi R (conjugate point)");
          conjugate_checks(J, ix, p.first, p.second, c1, sc);
          continue;
        }
        if (E.f == 0) {
          SphPair S = sph_pair(sph_line(s0.lat, s0.lon, ax), sph_line(s0.lat, s0.lon, ay), (Q)E.a);
          std::vector<Root> roots = sph_lattice(S, 0, 0, dlib + 1e6);
          const double pt = J.postol((double)S.sinth, p.first, p.second);
          ld dmin = 1e30L, dmatch = 1e30L;
          for (auto& r : roots) { ld d = l1(r.x, r.y, 0, 0); if (d > 1.0 && d < dmin) dmin = d; dmatch = std::min(dmatch, l1(r.x, r.y, p.first, p.second)); }
          ctx.worstf("ix.next.sphere_position_err_over_tol", (double)dmatch / pt, [&] { return J.where; });
          if (!(dmatch <= pt)) J.failk("next-not-on-lattice", "sphere: returned (" + fx(p.first) + "," + fx(p.second) + ") is " + fmt((double)dmatch) + " from the nearest true intersection");
          if (!(dlib <= (double)dmin + 2 * pt)) J.failk("next-not-minimal", "returned L1 distance " + fx(dlib) + " but an intersection at " + fmt((double)dmin) + " exists");
        } else if (std::fabs(Math::AngDiff(ax, ay)) > 1e-4 && std::fabs(std::fabs(Math::AngDiff(ax, ay)) - 180) > 1e-4) {
          std::vector<Root> roots = scan_roots(E, cache[i], cache[j], 0, 0, std::min(dlib, 4.5e7 * sc), 4 * J.restol(5e7 * sc, 0), st);
          for (auto& r : roots) {
            ld d = l1(r.x, r.y, 0, 0);
            double margin = 1e-3 + J.postol(sinth, p.first, p.second) + J.postol(r);
            if (d > 1.0 * sc && d < dlib - margin) { J.failk("next-not-minimal", "returned (" + fx(p.first) + "," + fx(p.second) + ") at L1 distance " + fx(dlib) + " but (" + fmt((double)r.x) + "," + fmt((double)r.y) + ") is an intersection at " + fmt((double)d)); break; }
          }
        }
        if (ctx.want_sample()) ctx.sample(J.where + " -> (" + fmt(p.first) + "," + fmt(p.second) + ") c=" + fmti(c1));
      }
      delete inp;
    }
    ctx.count("calls", calls);
    ctx.count("ix.scan.cells", st.cells); ctx.count("ix.scan.candidate_cells", st.candidates); ctx.count("ix.scan.roots", st.roots);
    ctx.count("ix.scan.newton_parallel", st.parallel); ctx.count("ix.scan.newton_wandered", st.wandered); ctx.count("ix.scan.newton_unconverged", st.unconverged);
    ctx.count("ix.scan.clipped", st.clipped);
  }

  // ================================================================ Next on coincident geodesics, starts off the equator
  ctx.sub("ix-next-coincident");
  {
    std::vector<Ell> ce = {{"WGS84", aW, fW, false, 15e-9}, {"f=+1/50", aW, 0.02, false, 30e-9}, {"f=-1/50", aW, -0.02, false, 30e-9},
                           {"f=+1/5 exact", aW, 0.2, true, 40e-9}, {"f=-1/4 exact", aW, -0.25, true, 40e-9}, {"sphere", aW, 0, false, 15e-9}};
    std::vector<PDef> starts = {{"(-25,10)", -25, 10}, {"(40,-75)", 40, -75}, {"(20,-30)", 20, -30}, {"(-60,100)", -60, 100}, {"(5,130)", 5, 130}, {"(75,33)", 75, 33}};
    std::vector<double> azis = {70, 30, 0, 90, 135, -110, -20, 179};
    if (T) { ce.push_back({"f=+1/10 exact", aW, 0.1, true, 40e-9}); ce.push_back({"f=-1/10 exact", aW, -0.1, true, 40e-9});
      for (PDef s : {PDef{"(-1,0)", -1, 0}, PDef{"(-45,-45)", -45, -45}, PDef{"(89,60)", 89, 60}, PDef{"(-80,-150)", -80, -150}, PDef{"(12,179)", 12, 179}, PDef{"(33,5)", 33, 5}}) starts.push_back(s);
      for (double a : {10.0, 45.0, 60.0, 89.0, 100.0, 150.0, -45.0, -70.0, -135.0, -160.0, 1e-3, 120.5}) azis.push_back(a); }
    ctx.bound("ix-next-coincident", std::string("Next(lineX, lineY) with aziY = aziX and aziY = aziX + 180 (and the (lat,lon,aziX,aziY) overload): ellipsoids WGS84, f=+-1/50, f=1/5 and -1/4 exact, sphere") +
              (T ? ", f=+-1/10 exact; 12 start points off the equator x 20 azimuths" : "; start points (-25,10) (40,-75) (20,-30) (-60,100) (5,130) (75,33) x azimuths {70,30,0,90,135,-110,-20,179}") +
              "; predicates: common point; c as constructed on the coincidence line; a result flagged c = +-1 has m12(start -> x) = 0 (conjugate point, GeodesicLine::Position); "
              "L1 distance <= that of the nearest conjugate point found by bracketing + bisection of m12 in both directions");
    uint64_t calls = 0, flagged = 0, crossing = 0;
    for (const Ell& E : ce) for (const PDef& s0 : starts) {
      if (!ctx.take()) continue;
      const double sc = E.a / aW;
      Geodesic g(E.a, E.f, E.exact);
      Intersect* inp = make_intersect(ctx, E, g, std::string(E.name) + " start " + s0.name);
      if (!inp) continue;
      Judge J{ctx, E, g, sc, 20e-9 * sc * (E.gdoc / 15e-9)};
      double qm; g.Inverse(0, 0, 90, 0, qm);
      for (double ax : azis) for (int rev = 0; rev < 2; ++rev) {
        Ctx::Case cs(ctx); ++calls;
        const double ay = rev ? (ax > 0 ? ax - 180 : ax + 180) : ax;         // exact in double for these azimuths
        const int ec = rev ? -1 : 1;
        J.where = std::string("next-coincident ") + E.name + " start=" + s0.name + " aziX=" + fx(ax) + " aziY=" + fx(ay);
        J.F = {{"kind", ""}, {"ellipsoid", E.name}, {"coincident", fmti(ec)}, {"relation", rev ? "coincident" : "identical"}, {"c", ""}};
        const GeodesicLine lx = g.Line(s0.lat, s0.lon, ax, Intersect::LineCaps), ly = g.Line(s0.lat, s0.lon, ay, Intersect::LineCaps);
        const GeodesicLine ix = g.Line(s0.lat, s0.lon, ax), iy = g.Line(s0.lat, s0.lon, ay);
        int c1 = -9, c2 = -9;
        Intersect::Point p = inp->Next(lx, ly, &c1), p2 = inp->Next(s0.lat, s0.lon, ax, ay, &c2);
        J.F[4].second = fmti(c1);
        ctx.sig(400 + (c1 + 2) * 5 + rev);
        if (!mc::same_bits(p.first, p2.first) || !mc::same_bits(p.second, p2.second) || c1 != c2) J.failk("overloads-differ", "Next(lat,lon,aziX,aziY) and Next(lines) differ");
        CoLine CL; CL.c = ec; CL.b = 0;
        CL.pers = closed_periods(E, s0.lat, ax, qm);
        double sinth;
        if (!J.check_point("next", ix, iy, p.first, p.second, sinth, &CL)) continue;
        const int lc = J.expect_c(CL, p.first, p.second, ix, iy);
        if (c1 != lc) J.failk("coincidence-indicator", "c = " + fmti(c1) + ", expected " + fmti(lc) + " (lines constructed with c = " + fmti(ec) + ")");
        if (!(std::fabs(p.first) + std::fabs(p.second) > 1.0 * sc)) { J.failk("next-is-origin", "Next returned the starting intersection itself"); continue; }
        if (c1 != 0) ++flagged; else ++crossing;
        conjugate_checks(J, ix, p.first, p.second, c1, sc);
        if (ctx.want_sample()) ctx.sample(J.where + " -> (" + fmt(p.first) + "," + fmt(p.second) + ") c=" + fmti(c1));
      }
      delete inp;
    }
    ctx.count("calls", calls); ctx.count("ix-next-coincident.flagged_conjugate", flagged); ctx.count("ix-next-coincident.self_crossing_c0", crossing);
  }

  // ================================================================ Segment
  ctx.sub("ix-segment");
  {
    // directed segments between all ordered pairs of distinct end points
    struct Seg { int p, q; };
    std::vector<Seg> segs;
    for (int p = 0; p < NE; ++p) for (int q = 0; q < NE; ++q) if (p != q) segs.push_back({p, q});
    { std::string s; for (int i = 0; i < NE; ++i) s += std::string(i ? " " : "") + ENDS[i].name + "=(" + fmt(ENDS[i].lat) + "," + fmt(ENDS[i].lon) + ")";
      ctx.bound("ix-segment.endpoints", s + " (4 on the equator, 3 on meridian 10E, the rest generic)"); }
    ctx.bound("ix-segment.pairs", T ? "all 380 x 380 ordered pairs of directed segments" : "all 90 directed segments X x the 45 segments Y with first end point index < second");
    ScanStat st; uint64_t calls = 0, borderline = 0, crossing = 0, disjoint = 0, reversed_unrecognised = 0, reversed_unrecognised_disjoint = 0;
    for (const Ell& E : ells) {
      const double sc = E.a / aW;
      Geodesic* g = nullptr; Intersect* in = nullptr;
      std::vector<GeodesicLine> sl, il; std::vector<LineCache> cache; std::vector<SphLine> sph; std::vector<Q> slen;
      const double h = 2e5 * sc; const int K = 260;           // |x| <= 5.2e7
      for (size_t i = 0; i < segs.size(); ++i) {
        if (!ctx.take()) continue;
        if (!g) {
          g = new Geodesic(E.a, E.f, E.exact); in = make_intersect(ctx, E, *g, std::string(E.name) + " segment " + fmti((long long)i));
          if (!in) { delete g; g = nullptr; continue; }
          sl.resize(segs.size()); il.resize(segs.size()); cache.resize(segs.size()); sph.resize(segs.size()); slen.resize(segs.size());
          for (size_t k = 0; k < segs.size(); ++k) {
            const PDef &a = ENDS[segs[k].p], &b = ENDS[segs[k].q];
            sl[k] = g->InverseLine(a.lat, a.lon, b.lat, b.lon, Intersect::LineCaps);
            il[k] = g->Line(sl[k].Latitude(), sl[k].Longitude(), sl[k].Azimuth());
            if (E.f == 0) sph[k] = sph_line2(a.lat, a.lon, b.lat, b.lon, (Q)E.a, slen[k]); else cache[k].build(E, il[k], h, K);
          }
        }
        Judge J{ctx, E, *g, sc, 20e-9 * sc * (E.gdoc / 15e-9)};
        const PDef &a1 = ENDS[segs[i].p], &a2 = ENDS[segs[i].q];
        for (size_t j = 0; j < segs.size(); ++j) {
          if (!T && !(segs[j].p < segs[j].q)) continue;
          Ctx::Case cs(ctx); ++calls;
          const PDef &b1 = ENDS[segs[j].p], &b2 = ENDS[segs[j].q];
          J.where = std::string("segment ") + E.name + " X=" + a1.name + "-" + a2.name + " Y=" + b1.name + "-" + b2.name;
          // constructed coincidence: both segments on the equator or both on meridian 10E
          auto fam = [](const PDef& p) { return p.name[0]; };
          int ec = 0; bool soft = false;
          if (fam(a1) == fam(a2) && fam(b1) == fam(b2) && fam(a1) == fam(b1) && fam(a1) != 'G') {
            double da = fam(a1) == 'E' ? a2.lon - a1.lon : a2.lat - a1.lat, db = fam(a1) == 'E' ? b2.lon - b1.lon : b2.lat - b1.lat;
            ec = (da > 0) == (db > 0) ? 1 : -1;
          } else if (segs[i].p == segs[j].p && segs[i].q == segs[j].q) ec = 1;          // the same segment
          else if (segs[i].p == segs[j].q && segs[i].q == segs[j].p) { ec = -1; soft = true; }   // the same segment reversed
          // "soft": the two lines come from two separate inverse solutions (A->B and B->A); they are the same geodesic only
          // up to round-off (azimuths agree to ~1e-15 rad), not bitwise, so "lie on top of one another" is not decidable:
          // c = -1 or c = 0 are both accepted and the not-recognised cases are counted.
          J.F = {{"kind", ""}, {"ellipsoid", E.name}, {"coincident", fmti(ec)}};
          int sm = -99, sm2 = -99, c1 = -9, c2 = -9;
          Intersect::Point p = in->Segment(sl[i], sl[j], sm, &c1);
          Intersect::Point p2 = in->Segment(a1.lat, a1.lon, a2.lat, a2.lon, b1.lat, b1.lon, b2.lat, b2.lon, sm2, &c2);
          ctx.sig(300 + (sm + 4) * 7 + (c1 + 1));
          if (!mc::same_bits(p.first, p2.first) || !mc::same_bits(p.second, p2.second) || sm != sm2 || c1 != c2) J.failk("overloads-differ", "Segment(8 coordinates) and Segment(lines) differ");
          double sinth;
          CoLine CL; CL.c = ec;
          if (ec != 0) {
            double qm; g->Inverse(0, 0, 90, 0, qm);
            if (segs[i].p == segs[j].p && segs[i].q == segs[j].q) { CL.b = 0; CL.pers = {0}; }
            else if (segs[i].p == segs[j].q && segs[i].q == segs[j].p) { CL.b = sl[i].Distance(); CL.pers = {0}; }
            else if (fam(a1) == 'E') { int dB = b2.lon > b1.lon ? 1 : -1; CL.b = dB * (ld)E.a * (a1.lon - b1.lon) * LPI / 180; CL.pers = {2 * LPI * E.a}; }
            else { int dB = b2.lat > b1.lat ? 1 : -1; CL.b = dB * (merid(*g, a1.lat, a1.lon) - merid(*g, b1.lat, b1.lon)); CL.pers = {4 * (ld)qm}; }
            if (E.f == 0) CL.pers.push_back(2 * LPI * E.a);
          }
          if (!J.check_point("segment", il[i], il[j], p.first, p.second, sinth, &CL)) continue;
          if (soft && c1 == 0) {
            ++reversed_unrecognised;
            int kx = p.first < 0 ? -1 : (p.first <= sl[i].Distance() ? 0 : 1), ky = p.second < 0 ? -1 : (p.second <= sl[j].Distance() ? 0 : 1);
            if (sm != 3 * kx + ky) J.failk("segmode-formula", "segmode = " + fmti(sm) + " inconsistent with the returned point");
            if (sm != 0) ++reversed_unrecognised_disjoint;
            continue;
          }
          { const int lc = J.expect_c(CL, p.first, p.second, il[i], il[j]);
            if (c1 != lc) J.failk("coincidence-indicator", "c = " + fmti(c1) + ", expected " + fmti(lc) + " (segments constructed with c = " + fmti(ec) + ")"); }
          const double sx = sl[i].Distance(), sy = sl[j].Distance();
          // documented definition of segmode from the returned point
          int kx = p.first < 0 ? -1 : (p.first <= sx ? 0 : 1), ky = p.second < 0 ? -1 : (p.second <= sy ? 0 : 1);
          if (sm != 3 * kx + ky) J.failk("segmode-formula", "segmode = " + fmti(sm) + " but x=" + fx(p.first) + " (x12=" + fx(sx) + "), y=" + fx(p.second) + " (y12=" + fx(sy) + ") give " + fmti(3 * kx + ky));
          const double mx = sx / 2, my = sy / 2;
          const double dlib = std::fabs(p.first - mx) + std::fabs(p.second - my);
          const double pt = J.postol(sinth, p.first, p.second);
          if (E.f == 0) {
            SphPair S = sph_pair(sph[i], sph[j], (Q)E.a);
            if (S.coincident != (ec != 0)) { fprintf(stderr, "oracle self-check: segment coincidence %s\n", J.where.c_str()); return 2; }
            if (std::fabs((double)slen[i] - sx) > 1e-6 || std::fabs((double)slen[j] - sy) > 1e-6) J.failk("segment-length", "sphere: InverseLine lengths " + fx(sx) + "," + fx(sy) + " differ from the great-circle arcs");
            if (ec == 0) {
              const double pt = J.postol((double)S.sinth, p.first, p.second);
              std::vector<Root> roots = sph_lattice(S, mx, my, std::max(dlib, (sx + sy) / 2) + 1e6);
              // classify: a lattice point definitely inside / definitely outside the rectangle, or borderline
              const Root* inside = nullptr; bool anyborder = false;
              ld dmin = 1e30L, dmatch = 1e30L;
              for (auto& r : roots) {
                ld ox = std::max<ld>(std::max<ld>(-r.x, r.x - sx), 0), oy = std::max<ld>(std::max<ld>(-r.y, r.y - sy), 0);   // how far outside
                ld ins = std::min(std::min(r.x, (ld)sx - r.x), std::min(r.y, (ld)sy - r.y));                                       // how far inside
                if (ins > pt) inside = &r; else if (ox <= pt && oy <= pt) anyborder = true;
                dmin = std::min(dmin, l1(r.x, r.y, mx, my)); dmatch = std::min(dmatch, l1(r.x, r.y, p.first, p.second));
              }
              ctx.worstf("ix.segment.sphere_position_err_over_tol", (double)dmatch / pt, [&] { return J.where; });
              if (!(dmatch <= pt)) { J.failk("segment-not-on-lattice", "sphere: returned (" + fx(p.first) + "," + fx(p.second) + ") is " + fmt((double)dmatch) + " from the nearest true intersection"); continue; }
              if (inside) { ++crossing;
                if (sm != 0) J.failk("segment-crossing-missed", "the segments cross at (" + fmt((double)inside->x) + "," + fmt((double)inside->y) + ") but segmode = " + fmti(sm) + ", returned (" + fx(p.first) + "," + fx(p.second) + ")");
                else if (!(l1(inside->x, inside->y, p.first, p.second) <= pt)) J.failk("segment-wrong-crossing", "segmode 0 but the returned point is not the crossing");
              } else if (!anyborder) { ++disjoint;
                if (sm == 0) J.failk("segment-spurious-crossing", "the segments do not cross but segmode = 0");
                if (!(dlib <= (double)dmin + 2 * pt)) J.failk("segment-not-closest", "segments do not cross; returned L1 distance from the midpoints " + fx(dlib) + " but an intersection at " + fmt((double)dmin) + " exists");
              } else { ++borderline;
                // an intersection within tolerance of an end point: either verdict, but the point must be a closest or the borderline one
                if (sm != 0 && !(dlib <= (double)dmin + 2 * pt)) J.failk("segment-not-closest", "borderline crossing; returned point is neither the crossing nor the closest intersection");
              }
            } else {
              // coincident arcs of one great circle: X covers [0,sx]; Y covers [xs, xs+sy] (c=+1) or [xs-sy, xs] (c=-1), modulo 2 pi R
              ld bk; ld dm = sph_coinc_mindist(S, mx, my, &bk);
              ld per = 2 * LPI * E.a; bool overlap = false, border = false;
              for (int k = -1; k <= 1; ++k) {
                ld b = (ld)S.b + k * per;                 // y = c x + b
                ld lo, hi;                                // x-interval of Y's arc on X
                if (ec > 0) { lo = -b; hi = -b + sy; } else { lo = b - sy; hi = b; }
                ld ov = std::min<ld>(hi, sx) - std::max<ld>(lo, 0);
                if (ov > 4 * pt) overlap = true; else if (ov >= -4 * pt) border = true;
              }
              // the returned point lies on a coincidence line
              ld off = (ld)p.second - ec * (ld)p.first; ld k = roundl((off - (ld)S.b) / per);
              if (!(fabsl(off - ((ld)S.b + k * per)) <= 4 * J.coinctol(p.first, p.second))) J.failk("segment-coincident-off-line", "returned point is not on a coincidence line y = c x + b");
              if (overlap) { ++crossing; if (sm != 0) J.failk("segment-overlap-missed", "coincident segments overlap but segmode = " + fmti(sm) + ", returned (" + fx(p.first) + "," + fx(p.second) + ")"); }
              else if (!border) { ++disjoint; if (sm == 0) J.failk("segment-spurious-crossing", "coincident segments are disjoint but segmode = 0");
                if (!(dlib <= (double)dm + 4 * J.coinctol(p.first, p.second))) J.failk("segment-not-closest", "coincident disjoint segments: L1 distance from the midpoints " + fx(dlib) + ", minimal " + fmt((double)dm)); }
              else ++borderline;
            }
          } else if (ec == 0) {
            const double rho = std::max(dlib, (sx + sy) / 2) + h;
            if (rho > 4.8e7 * sc) { ctx.count("ix-segment.scan-skipped-far"); continue; }
            std::vector<Root> roots = scan_roots(E, cache[i], cache[j], mx, my, rho, 4 * J.restol(5e7 * sc, 0), st);
            for (auto& r : roots) {
              double rp = J.postol(r);
              ld ins = std::min(std::min(r.x, (ld)sx - r.x), std::min(r.y, (ld)sy - r.y));
              if (ins > 1e-3 + rp + pt && sm != 0) { J.failk("segment-crossing-missed", "the segments cross at (" + fmt((double)r.x) + "," + fmt((double)r.y) + ") but segmode = " + fmti(sm) + ", returned (" + fx(p.first) + "," + fx(p.second) + ")"); break; }
              ld d = l1(r.x, r.y, mx, my);
              if (sm != 0 && d < dlib - (1e-3 + rp + pt)) { J.failk("segment-not-closest", "segments reported not to cross; returned L1 distance from the midpoints " + fx(dlib) + " but (" + fmt((double)r.x) + "," + fmt((double)r.y) + ") is an intersection at " + fmt((double)d)); break; }
            }
          }
          if (ctx.want_sample()) ctx.sample(J.where + " -> (" + fmt(p.first) + "," + fmt(p.second) + ") segmode=" + fmti(sm) + " c=" + fmti(c1));
        }
      }
      delete in; delete g;
    }
    ctx.count("calls", calls);
    ctx.count("ix-segment.reversed_generic_segment_c0", reversed_unrecognised); ctx.count("ix-segment.reversed_generic_segment_c0_and_segmode_nonzero", reversed_unrecognised_disjoint);
    if (reversed_unrecognised) ctx.list("documentation-silent", "Segment(A->B, B->A) for generic end points: the two InverseLine solutions agree only to round-off, the library reports c = 0 (not -1) in the counted cases "
                                         "(ix-segment.reversed_generic_segment_c0; with segmode != 0 in ix-segment.reversed_generic_segment_c0_and_segmode_nonzero); accepted, since bitwise coincidence is not given");
    ctx.count("ix-segment.sphere.crossing", crossing); ctx.count("ix-segment.sphere.disjoint", disjoint); ctx.count("ix-segment.sphere.borderline", borderline);
    ctx.count("ix.scan.cells", st.cells); ctx.count("ix.scan.candidate_cells", st.candidates); ctx.count("ix.scan.roots", st.roots);
    ctx.count("ix.scan.newton_parallel", st.parallel); ctx.count("ix.scan.newton_wandered", st.wandered); ctx.count("ix.scan.newton_unconverged", st.unconverged);
    ctx.count("ix.scan.clipped", st.clipped);
  }
  return ctx.finish();
}
