// C16 -- angle arithmetic and exact-summation primitives keep their guarantees.
// Engines: E1 (exhaustive: all 2^32 floats per one-argument function; structured float/double/long double
// lattices and pair lattices) + E2 (explicit-state BFS over Accumulator operation histories).
// Built twice by bin/check:  -DC16_SWEEP (flavour fast): the 2^32-float sweep;  otherwise (flavour cov): pair
// lattices, double / long double lattices, tauf/taupf, Accumulator BFS.
// References: oracle/c16_ref.hpp (integer-exact argument reduction, exact dyadic arithmetic, long double /
// __float128 evaluation of the reduced angle).  Nothing is sampled.
#include "mc/ctx.hpp"
#include "oracle/c16_ref.hpp"
#include <GeographicLib/Math.hpp>
#include <GeographicLib/Accumulator.hpp>
#include <vector>
#include <string>
#include <map>
#include <unordered_set>
#include <algorithm>

using namespace GeographicLib;
using namespace c16;
using mc::Ctx; using mc::fmt; using mc::fmti;

// ------------------------------------------------------------------ tolerances (DESIGN.md Appendix B)
static const double TOL_SINCOS = 2.5;   // ulp; "a couple of ulp", probe 1.55 / 1.58
static const double TOL_TAND = 4.0;     // ulp; probe 2.92
static const double TOL_ATAN = 2.5;     // ulp
// sincosde: no documented figure.  err <= K * (ulp(ref) + (pi/180) * (ulp(r + t)/2 + g/2)); calibrated (see report), frozen
static const double TOL_SINCOSDE = 5.0;   // worst observed 1.23 units (thorough tier, f32 x = 29, t = -1.0e-6), x 4, frozen
// tauf/taupf: no documented figure ("high relative accuracy"): K eps * max(1, 1/(1 - e^2)); calibrated, frozen
static const double TOL_TAU_EPS = 16.0;   // worst observed 2.75 (f80 round trip, es = 0.9); floor of 16 eps applies
static const double TOL_EATANHE_EPS = 16.0;   // worst observed 1.62 eps x cond

// ------------------------------------------------------------------ type traits
template <class T> struct Tr;
template <> struct Tr<float> { typedef long double R; static const int idx = 0; static const char* name() { return "f32"; } static const int bytes = 4; };
template <> struct Tr<double> { typedef f128 R; static const int idx = 1; static const char* name() { return "f64"; } static const int bytes = 8; };
template <> struct Tr<long double> { typedef f128 R; static const int idx = 2; static const char* name() { return "f80"; } static const int bytes = 10; };

template <class T> static inline bool same(T a, T b) {
  if (a != a && b != b) return true;
  return memcmp(&a, &b, Tr<T>::bytes) == 0;
}
template <class T> static inline std::string rawbits(T a) { return std::string((const char*)&a, Tr<T>::bytes); }
template <class T> static inline T eps() { return std::numeric_limits<T>::epsilon(); }

// ------------------------------------------------------------------ throttled failure reporting + worst-case tracking
struct Rep {
  Ctx& ctx; unsigned limit; std::map<std::string, unsigned> cnt;
  Rep(Ctx& c, unsigned lim) : ctx(c), limit(lim) {}
  // at most `limit` failures per (subcheck, kind) and process are formatted; the rest are only counted
  bool ok(const char* kind) {
    unsigned& c = cnt[ctx.cur_sub + "/" + kind];
    if (c >= limit) { ctx.count(std::string("fails_suppressed:") + ctx.cur_sub + "/" + kind); return false; }
    ++c; return true;
  }
};
enum { W_SIND, W_COSD, W_SINCOSD, W_TAND, W_ATAND, W_ATAN2D, W_SINCOSDE, W_TAUPF, W_TAUF, W_TAURT, W_EATANHE,
       W_ACC, W_ACCVAL, W_ACCSUM, W_ACCNORM, W_N };
static const char* WNAME[W_N] = {"sind.err_ulp(tol2.5)", "cosd.err_ulp(tol2.5)", "sincosd.err_ulp(tol2.5)", "tand.err_ulp(tol4)",
  "atand.err_ulp(tol2.5)", "atan2d.err_ulp(tol2.5)", "sincosde.err_over_unit(tol5)", "taupf.err_eps_over_cond(tol16)",
  "tauf.err_eps_over_cond(tol16)", "tauf(taupf).err_eps_over_cond(tol16)", "eatanhe.err_eps_over_cond(tol16)",
  "accumulator.err_over_2^-2p_sumabs(tol8)", "accumulator.value_err_beyond_bound_ulp_normalised_states(tol2)", "accumulator.Sum(y)_err_beyond_bound_ulp(tol2)",
  "accumulator.lowword_over_ulp_of_highword(documented1,tol2)"};
struct Worst { double v = -1; long double a = 0, b = 0; };
static Worst WW[3][W_N];
static inline void track(int ti, int k, double v, long double a, long double b = 0) {
  if (v > WW[ti][k].v) { WW[ti][k].v = v; WW[ti][k].a = a; WW[ti][k].b = b; }
}
static void flush_worst(Ctx& ctx) {
  static const char* TN[3] = {"f32", "f64", "f80"};
  for (int t = 0; t < 3; ++t) for (int k = 0; k < W_N; ++k) if (WW[t][k].v >= 0)
    ctx.worst(std::string(TN[t]) + "." + WNAME[k], WW[t][k].v, "at " + hxd(WW[t][k].a) + (WW[t][k].b != 0 ? ", " + hxd(WW[t][k].b) : std::string()));
}

// correctly rounded sqrt(1/2) and sqrt(3)/2 in T, from f128, verified exactly with dyadic arithmetic at start-up
template <class T> struct Consts { static T S2, S3; };
template <class T> T Consts<T>::S2;
template <class T> T Consts<T>::S3;
template <class T> static bool init_consts() {
  T s2 = (T)sqrtq(0.5Q), s3 = (T)(sqrtq(3.0Q) / 2);
  Consts<T>::S2 = s2; Consts<T>::S3 = s3;
  // nearest: (c - h)^2 < v < (c + h)^2 with h = half the gap, all exact
  auto nearest = [](T c, const Dy& v) {
    T up = std::nextafter(c, T(2)), dn = std::nextafter(c, T(0));
    Dy C = Dy::of(c), hu = (Dy::of(up) - C).scale2(-1), hd = (C - Dy::of(dn)).scale2(-1);
    Dy lo = C - hd, hi = C + hu;
    return cmp(lo * lo, v) < 0 && cmp(v, hi * hi) < 0;
  };
  return nearest(s2, Dy::ofi(1).scale2(-1)) && nearest(s3, Dy::ofi(3).scale2(-2));
}

// ------------------------------------------------------------------ one-argument functions
// Every predicate of spaces (a), (c), (c') for one argument x of type T.
template <class T> static void check_one(Ctx& ctx, Rep& rep, T x) {
  typedef typename Tr<T>::R R; const int ti = Tr<T>::idx;
  auto FAIL = [&](const char* kind, const std::string& msg) {
    if (rep.ok(kind)) ctx.fail(std::string(Tr<T>::name()) + "." + kind + "@" + hx(x), msg + " [x = " + hxd(x) + "]",
                               {{"kind", kind}, {"type", Tr<T>::name()}, {"x", hx(x)}});
  };
  auto V = [](T v) { return hxd(v); };
  T an = Math::AngNormalize<T>(x), ar = Math::AngRound<T>(x), lf = Math::LatFix<T>(x);
  T sd = Math::sind<T>(x), cd = Math::cosd<T>(x), td = Math::tand<T>(x), ss, cc;
  Math::sincosd<T>(x, ss, cc);
  T at = Math::atand<T>(x);
  if (x != x) {
    if (an == an || ar == ar || lf == lf || sd == sd || cd == cd || td == td || ss == ss || cc == cc || at == at)
      FAIL("nan-propagation", "a function of NaN returned a number");
    ctx.sig(1); return;
  }
  // (c') AngRound and LatFix against their specification (valid for +-inf too)
  T are = anground_spec<T>(x);
  if (!same(ar, are)) FAIL("anground", "AngRound = " + V(ar) + " specification " + V(are));
  if (latfix_in<T>(x)) { if (!same(lf, x)) FAIL("latfix", "LatFix changed an in-range latitude to " + V(lf)); }
  else if (lf == lf) FAIL("latfix", "LatFix of an out-of-range latitude is " + V(lf) + " not NaN");
  if (std::isinf(x)) {
    if (an == an || sd == sd || cd == cd || td == td || ss == ss || cc == cc) FAIL("inf-argument", "trig/normalize of infinity is not NaN");
    if (!same(at, std::copysign(T(90), x))) FAIL("atand-exact", "atand(inf) = " + V(at));
    ctx.sig(2); return;
  }
  Red q = reduce(x, 90), q3 = reduce(x, 360);
  // AngNormalize: the exact representative in [-180, 180]; sign of x at 0 and +-180
  T ane = (T)q3.r; if (std::fabs(ane) == T(180)) ane = std::copysign(T(180), x);
  if (!same(an, ane)) FAIL("angnormalize", "AngNormalize = " + V(an) + " exact reduction " + V(ane));
  // reference
  R sR, cR; sincosd_ref<R>(x, q, sR, cR);
  int spec = 0; { long double a = fabsl(q.r); if (a == 0) spec = 1; else if (a == 30) spec = 2; else if (a == 45) spec = 3; }
  if (spec) {
    T s0, c0;
    if (spec == 1) { s0 = 0; c0 = 1; } else if (spec == 2) { s0 = T(0.5); c0 = Consts<T>::S3; } else { s0 = c0 = Consts<T>::S2; }
    s0 = std::copysign(s0, (T)q.r);
    T es, ec;
    switch (q.n & 3) { case 0: es = s0; ec = c0; break; case 1: es = c0; ec = -s0; break; case 2: es = -s0; ec = -c0; break; default: es = -c0; ec = s0; }
    if (es == 0) es = std::copysign(T(0), x);     // documented: sign of x at multiples of 180
    if (ec == 0) ec = T(0);                       // documented: +0 at odd multiples of 90
    if (!same(sd, es)) FAIL("exact-sind", "sind = " + V(sd) + " correctly rounded value " + V(es));
    if (!same(cd, ec)) FAIL("exact-cosd", "cosd = " + V(cd) + " correctly rounded value " + V(ec));
    if (!same(ss, es) || !same(cc, ec)) FAIL("exact-sincosd", "sincosd = (" + V(ss) + "," + V(cc) + ") correctly rounded (" + V(es) + "," + V(ec) + ")");
    if (ec == 0) {
      if (!(std::isfinite(td) && std::fabs(td) >= 1 / eps<T>())) FAIL("tand-pole", "tand at an odd multiple of 90 is " + V(td) + ", not large and finite");
    } else if (spec == 3) {
      if (!same(td, es / ec)) FAIL("exact-tand", "tand at an odd multiple of 45 is " + V(td) + " not +-1");
    } else if (spec == 1) {
      if (td != 0) FAIL("exact-tand", "tand at a multiple of 180 is " + V(td) + " not 0");
    } else {
      // multiples of 30: the documentation special-cases only sine and cosine; tangent is held to the general
      // tolerance and the number of not correctly rounded results is reported
      T tr = (T)(sR / cR);
      if (!same(td, tr)) ctx.count(std::string(Tr<T>::name()) + ".tand_at_multiple_of_30_not_correctly_rounded");
    }
  }
  // accuracy
  { double e = err_ulp<T, R>(sd, sR); track(ti, W_SIND, e, x); if (!(e <= TOL_SINCOS)) FAIL("sind-accuracy", "sind = " + V(sd) + " reference " + q2s(sR) + " error " + fmt(e) + " ulp"); }
  { double e = err_ulp<T, R>(cd, cR); track(ti, W_COSD, e, x); if (!(e <= TOL_SINCOS)) FAIL("cosd-accuracy", "cosd = " + V(cd) + " reference " + q2s(cR) + " error " + fmt(e) + " ulp"); }
  { double e = std::max(err_ulp<T, R>(ss, sR), err_ulp<T, R>(cc, cR)); track(ti, W_SINCOSD, e, x);
    if (!(e <= TOL_SINCOS)) FAIL("sincosd-accuracy", "sincosd = (" + V(ss) + "," + V(cc) + ") reference (" + q2s(sR) + "," + q2s(cR) + ") error " + fmt(e) + " ulp"); }
  if (cR != 0) { R tR = sR / cR; double e = err_ulp<T, R>(td, tR); track(ti, W_TAND, e, x);
    if (!(e <= TOL_TAND)) FAIL("tand-accuracy", "tand = " + V(td) + " reference " + q2s(tR) + " error " + fmt(e) + " ulp"); }
  if (!same(ss, sd) || !same(cc, cd)) ctx.count(std::string(Tr<T>::name()) + ".sincosd_differs_bitwise_from_sind_cosd");
  // signed zeros
  if ((sd == 0 && std::signbit(sd) != std::signbit(x)) || (ss == 0 && std::signbit(ss) != std::signbit(x))) FAIL("sin-zero-sign", "zero sine does not carry the sign of x");
  if ((cd == 0 && std::signbit(cd)) || (cc == 0 && std::signbit(cc))) FAIL("cos-zero-sign", "zero cosine is -0");
  // odd / even (bitwise: the statement says odd/even and negation is exact)
  { T sn = Math::sind<T>(-x), cn = Math::cosd<T>(-x), tn = Math::tand<T>(-x);
    if (!same(sn, -sd)) FAIL("sind-odd", "sind(-x) = " + V(sn) + " but -sind(x) = " + V(-sd));
    if (!same(cn, cd)) FAIL("cosd-even", "cosd(-x) = " + V(cn) + " but cosd(x) = " + V(cd));
    if (!same(tn, -td)) FAIL("tand-odd", "tand(-x) = " + V(tn) + " but -tand(x) = " + V(-td)); }
  // dependence on x mod 360 only: y = x - 360 N exactly representable; f(y) == f(x) (zero signs follow the argument)
  if (std::fabs(x) > T(180)) {
    T y = (T)q3.r;
    T s2 = Math::sind<T>(y), c2 = Math::cosd<T>(y), t2 = Math::tand<T>(y), n2 = Math::AngNormalize<T>(y), s3, c3;
    Math::sincosd<T>(y, s3, c3);
    if (!(s2 == sd && c2 == cd && t2 == td && s3 == ss && c3 == cc)) FAIL("period-360", "value at x differs from value at x - 360 N = " + V(y));
    if (!(n2 == an || (std::fabs(n2) == T(180) && std::fabs(an) == T(180)))) FAIL("period-360", "AngNormalize at x differs from AngNormalize at x - 360 N = " + V(y));
  }
  // atand
  { R aR = r_atan((R)x) * ((R)180 / r_pi<R>()); double e = err_ulp<T, R>(at, aR); track(ti, W_ATAND, e, x);
    if (!(e <= TOL_ATAN)) FAIL("atand-accuracy", "atand = " + V(at) + " reference " + q2s(aR) + " error " + fmt(e) + " ulp");
    if (x == 0 && !same(at, x)) FAIL("atand-exact", "atand(+-0) = " + V(at));
    if (!(std::fabs(at) <= T(90))) FAIL("atand-range", "atand = " + V(at) + " outside [-90, 90]"); }
  // outcome class (harness-defined signature where the library is not coverage-instrumented)
  { int ex; frexpl((long double)x, &ex); if (x == 0) ex = -20000;
    ctx.sig(3 + 4 * (uint64_t)(ex + 20000) + ((uint64_t)std::signbit(x) << 20) + ((uint64_t)(q.n & 3) << 21) + ((uint64_t)spec << 23) +
            ((uint64_t)(std::fabs(x) < T(1) / T(16)) << 25) + ((uint64_t)latfix_in<T>(x) << 26) + ((uint64_t)(sd == 0) << 27) + ((uint64_t)(cd == 0) << 28)); }
}

// oracle self-test: the integer-exact reduction against libm remquo / remainder (independent derivations)
static void selftest_reduce(Ctx& ctx, Rep& rep, long double x) {
  if (!std::isfinite(x)) return;
  int qq = 0; long double r = remquol(x, 90.0L, &qq); Red q = reduce(x, 90);
  long double r3 = remainderl(x, 360.0L); Red q3 = reduce(x, 360);
  if (!(r == q.r && std::signbit(r) == std::signbit(q.r) && ((unsigned)qq & 3u) == (unsigned)(q.n & 3)) || !(r3 == q3.r))
    if (rep.ok("oracle-selftest")) ctx.fail("oracle-selftest@" + hx(x), "integer-exact reduction disagrees with remquo/remainder at " + hxd(x), {{"kind", "oracle-selftest"}, {"x", hx(x)}});
}

#ifndef C16_SWEEP
// ------------------------------------------------------------------ two-argument functions (space (b), pairs of (c))
template <class T> static void check_pair(Ctx& ctx, Rep& rep, T a, T b) {
  typedef typename Tr<T>::R R; const int ti = Tr<T>::idx;
  auto FAIL = [&](const char* kind, const std::string& msg) {
    if (rep.ok(kind)) ctx.fail(std::string(Tr<T>::name()) + "." + kind + "@" + hx(a) + "," + hx(b), msg + " [args " + hxd(a) + ", " + hxd(b) + "]",
                               {{"kind", kind}, {"type", Tr<T>::name()}, {"a", hx(a)}, {"b", hx(b)}});
  };
  auto V = [](T v) { return hxd(v); };
  const bool fin = std::isfinite(a) && std::isfinite(b), nan = a != a || b != b;
  // ---- Math::sum: s = RN(u + v), s + t == u + v exactly
  {
    T t = T(7); T s = Math::sum<T>(a, b, t);
    volatile T hw0 = a; hw0 = hw0 + b; T hw = hw0;
    if (!same(s, hw)) FAIL("sum-rounded", "sum = " + V(s) + " but the IEEE sum is " + V(hw));
    if (fin && std::isfinite(s)) {
      if (!std::isfinite(t)) FAIL("sum-exact", "error term " + V(t) + " is not finite");
      else {
        if (!(Dy::of(s) + Dy::of(t) == Dy::of(a) + Dy::of(b))) FAIL("sum-exact", "s + t != u + v exactly: s = " + V(s) + " t = " + V(t));
        if (!is_rn<T>(s, t)) FAIL("sum-not-nearest", "s = " + V(s) + " is not the nearest number to s + t, t = " + V(t));
        if (s == 0 && !(t == 0 && std::signbit(t) == std::signbit(s))) FAIL("sum-zero-sign", "s = " + V(s) + " but t = " + V(t) + " (must be a zero of the same sign)");
      }
    } else if (fin) ctx.count("sum_overflow_error_term_not_checked");
  }
  // ---- Math::AngDiff: d + e == (y - x) mod 360 exactly, d nearest, sign rules
  {
    T e = T(7); T d = Math::AngDiff<T>(a, b, e); T d1 = Math::AngDiff<T>(a, b);
    if (!same(d, d1)) FAIL("angdiff-overloads", "AngDiff(x,y) = " + V(d1) + " but AngDiff(x,y,e) = " + V(d));
    if (!fin) { if (d == d) FAIL("angdiff-nonfinite", "AngDiff of a non-finite angle is " + V(d) + " not NaN"); }
    else if (!std::isfinite(d) || !std::isfinite(e)) FAIL("angdiff-exact", "d = " + V(d) + " e = " + V(e) + " not finite");
    else {
      Dy D = Dy::of(b) - Dy::of(a); bool tie; Dy z = mod360(D, tie);
      Dy H = Dy::of(d) + Dy::of(e);
      if (!(H == z || (tie && H == -z))) FAIL("angdiff-exact", "d + e = " + hxd(H.approx()) + " but (y - x) mod 360 = " + hxd(z.approx()) + " (d = " + V(d) + ", e = " + V(e) + ")");
      if (!(std::fabs(d) <= T(180))) FAIL("angdiff-range", "d = " + V(d) + " outside [-180, 180]");
      if (!is_rn<T>(d, e)) FAIL("angdiff-not-nearest", "d = " + V(d) + " is not the nearest number to d + e, e = " + V(e));
      if (z.zero() || tie) {
        volatile T df0 = b; df0 = df0 - a; T df = df0;
        bool neg = D.sgn() != 0 ? D.sgn() < 0 : std::signbit(df);
        if (e != 0 || std::signbit(d) != neg) FAIL("angdiff-sign", "difference is exactly 0 or 180 (mod 360): d = " + V(d) + " e = " + V(e) + " but the sign of y - x is " + (neg ? "-" : "+"));
      }
    }
  }
  // ---- Math::atan2d(y = a, x = b)
  {
    T y = a, x = b; T r = Math::atan2d<T>(y, x);
    if (nan) { if (r == r) FAIL("atan2d-nan", "atan2d with a NaN argument = " + V(r)); }
    else {
      bool yaxis = false, xaxis = false;
      if (y == 0 || (std::isinf(x) && std::isfinite(y))) xaxis = true;
      else if (x == 0 || (std::isinf(y) && std::isfinite(x))) yaxis = true;
      if (xaxis) { T ex = std::signbit(x) ? std::copysign(T(180), y) : std::copysign(T(0), y);
        if (!same(r, ex)) FAIL("atan2d-axis", "atan2d on the x axis = " + V(r) + " want " + V(ex)); }
      else if (yaxis) { T ex = std::copysign(T(90), y);
        if (!same(r, ex)) FAIL("atan2d-axis", "atan2d on the y axis = " + V(r) + " want " + V(ex)); }
      else {
        R ref = r_atan2((R)y, (R)x) * ((R)180 / r_pi<R>());
        R tiny = r_scalbn((R)1, std::numeric_limits<T>::min_exponent - 1 + 8);
        double e = err_ulp<T, R>(r, ref);
        if (r_abs(ref) >= tiny) { track(ti, W_ATAN2D, e, y, x); if (!(e <= TOL_ATAN)) FAIL("atan2d-accuracy", "atan2d = " + V(r) + " reference " + q2s(ref) + " error " + fmt(e) + " ulp"); }
        else {   // gradual-underflow region of atan2 followed by the conversion to degrees: absolute floor
          ctx.count("atan2d_underflow_region_absolute_floor");
          R ae = r_abs((R)r - ref), fl = (R)64 * (R)std::numeric_limits<T>::denorm_min();
          if (!(r == r) || !(ae <= fl || e <= TOL_ATAN)) FAIL("atan2d-accuracy", "atan2d = " + V(r) + " reference " + q2s(ref) + " (underflow region)");
        }
        if (std::fabs(y) == std::fabs(x)) { T ex = std::copysign(std::signbit(x) ? T(135) : T(45), y); ctx.count(same(r, ex) ? "atan2d_diagonal_exact" : "atan2d_diagonal_inexact"); }
      }
      if (!(std::fabs(r) <= T(180))) FAIL("atan2d-range", "atan2d = " + V(r) + " outside [-180, 180]");
    }
  }
  // ---- Math::sincosde(x = a in [-180, 180], t = b small)
  if (fin && std::fabs(a) <= T(180) && std::fabs(b) <= T(1)) {
    T x = a, t = b, s, c; Math::sincosde<T>(x, t, s, c);
    Red q = reduce(x, 90);
    R th = (R)q.r + (R)t;                                 // reduced angle + correction
    R rr = th * (r_pi<R>() / (R)180), s0 = r_sin(rr), c0 = r_cos(rr), sR, cR;
    switch (q.n & 3) { case 0: sR = s0; cR = c0; break; case 1: sR = c0; cR = -s0; break; case 2: sR = -s0; cR = -c0; break; default: sR = -c0; cR = s0; }
    const int p = std::numeric_limits<T>::digits;
    R dth = (ulp_at<T, R>(th) / 2 + r_scalbn((R)1, -5 - p)) * (r_pi<R>() / (R)180);   // rounding of r + t, AngRound snap g/2
    double es = (double)(r_abs((R)s - sR) / (ulp_at<T, R>(sR) + dth)), ec = (double)(r_abs((R)c - cR) / (ulp_at<T, R>(cR) + dth));
    if (!(s == s)) es = INFINITY; if (!(c == c)) ec = INFINITY;
    double e = std::max(es, ec); track(ti, W_SINCOSDE, e, x, t);
    if (!(e <= TOL_SINCOSDE)) FAIL("sincosde-accuracy", "sincosde = (" + V(s) + "," + V(c) + ") reference (" + q2s(sR) + "," + q2s(cR) + ") error " + fmt(e) + " units");
    if (t == 0) {
      T s1, c1; Math::sincosd<T>(x, s1, c1);
      long double ar = fabsl(q.r);
      // numerically equal (a zero sine takes the sign of x + t, which is +0 for x = -0, t = +0)
      if ((ar == 0 || ar == 30 || ar == 45) && !(s == s1 && c == c1)) FAIL("sincosde-exact", "sincosde(x, 0) = (" + V(s) + "," + V(c) + ") differs from sincosd(x) at a multiple of 30/45");
    }
  }
}

// ------------------------------------------------------------------ tauf / taupf / eatanhe (space (d))
template <class T> static void check_tau(Ctx& ctx, T tau, T es) {
  const int ti = Tr<T>::idx;
  const bool prolate = es < 0;
  auto FAIL = [&](const std::string& kind0, const std::string& msg, bool inverse) {
    // failures of the INVERSE for es < 0 form their own class (found here: tauf used 1 - es^2 for e^2 < 0; fixed in /repo abbb27b)
    std::string kind = kind0 + (inverse && prolate ? "-prolate" : "");
    ctx.fail(std::string(Tr<T>::name()) + "." + kind + "@" + hx(tau) + "," + hx(es), msg + " [tau = " + hxd(tau) + ", es = " + hxd(es) + "]",
             {{"kind", kind}, {"type", Tr<T>::name()}, {"tau", hx(tau)}, {"es", hx(es)}, {"es_sign", prolate ? "negative" : "nonnegative"}});
  };
  auto V = [](T v) { return hxd(v); };
  T tp = Math::taupf<T>(tau, es);
  if (tau != tau) { if (tp == tp || Math::tauf<T>(tau, es) == Math::tauf<T>(tau, es)) FAIL("tau-nan", "NaN does not pass through", false); return; }
  if (std::isinf(tau)) {
    if (!same(tp, tau)) FAIL("tau-inf", "taupf(inf) = " + V(tp), false);
    T tf = Math::tauf<T>(tau, es); if (!same(tf, tau)) FAIL("tau-inf", "tauf(inf) = " + V(tf), false);
    return;
  }
  f128 E = (f128)es, e2 = E * fabsq(E);
  double cond = (double)fmaxq(1, 1 / (1 - e2));           // conditioning of the difference in taupf for e -> 1
  f128 ep = (f128)eps<T>();
  // eatanhe at sin(phi)
  { T x = tau / std::hypot(T(1), tau); T v = Math::eatanhe<T>(x, es); f128 r = eatanhe_ref((f128)x, E);
    double e = r == 0 ? (v == 0 ? 0 : INFINITY) : (double)(fabsq((f128)v - r) / fabsq(r) / ep);
    if (fabsq(r) < (f128)std::numeric_limits<T>::min() * 256) e = (double)fminq(e, fabsq((f128)v - r) / ((f128)std::numeric_limits<T>::denorm_min() * 64));
    e /= cond;                                            // atanh(e x) near e x -> 1 amplifies the rounding of e x by ~1/(1 - e^2)
    track(ti, W_EATANHE, e, x, es);
    if (!(e <= TOL_EATANHE_EPS)) FAIL("eatanhe-accuracy", "eatanhe = " + V(v) + " reference " + q2s(r) + " error " + fmt(e) + " eps x cond " + fmt(cond), false); }
  f128 minn = (f128)std::numeric_limits<T>::min() * 1024;   // relative accuracy is not demanded of subnormal results
  // taupf value
  f128 tpR = taupf_ref((f128)tau, E);
  if (tau == 0) { if (tp != 0) FAIL("taupf-accuracy", "taupf(0) = " + V(tp), false); }
  else if (fabsq(tpR) >= minn) {
    double e = (double)(fabsq((f128)tp - tpR) / fabsq(tpR) / ep) / cond; if (!(tp == tp)) e = INFINITY;
    track(ti, W_TAUPF, e, tau, es);
    if (!(e <= TOL_TAU_EPS)) FAIL("taupf-accuracy", "taupf = " + V(tp) + " reference " + q2s(tpR) + " error " + fmt(e) + " eps x cond " + fmt(cond), false);
  }
  // round trip tauf(taupf(tau)) == tau
  if (tau != 0 && std::isfinite(tp) && fabsq((f128)tp) >= minn && std::fabs(tau) >= std::numeric_limits<T>::min() * 1024) {
    T back = Math::tauf<T>(tp, es);
    double e = (double)(fabsq((f128)back - (f128)tau) / fabsq((f128)tau) / ep) / cond; if (!(back == back)) e = INFINITY;
    track(ti, W_TAURT, e, tau, es);
    if (!(e <= TOL_TAU_EPS)) FAIL("tauf-roundtrip", "tauf(taupf(tau)) = " + V(back) + " error " + fmt(e) + " eps x cond " + fmt(cond), true);
  }
  // tauf value at the lattice point itself
  if (tau == 0) { T tf = Math::tauf<T>(tau, es); if (tf != 0) FAIL("tauf-accuracy", "tauf(0) = " + V(tf), true); }
  else if (std::fabs(tau) >= std::numeric_limits<T>::min() * 1024) {
    T tf = Math::tauf<T>(tau, es); f128 tfR = tauf_ref((f128)tau, E);
    if (isnanq(tfR)) ctx.count("tauf_reference_newton_did_not_converge");
    else {
      double e = (double)(fabsq((f128)tf - tfR) / fabsq(tfR) / ep) / cond; if (!(tf == tf)) e = INFINITY;
      track(ti, W_TAUF, e, tau, es);
      if (!(e <= TOL_TAU_EPS)) FAIL("tauf-accuracy", "tauf = " + V(tf) + " reference " + q2s(tfR) + " error " + fmt(e) + " eps x cond " + fmt(cond), true);
    }
  }
}

// ------------------------------------------------------------------ Accumulator: E2 BFS over operation histories (space (e))
enum { OP_ADD, OP_SUB, OP_MULI, OP_MULT, OP_REM, OP_SET };
struct Op { int kind; long double v; std::string name; };
template <class T> static std::vector<Op> acc_ops() {
  const int p = std::numeric_limits<T>::digits;
  std::vector<Op> o;
  auto add = [&](int k, long double v, const char* what) { o.push_back({k, v, std::string(what) + hx(v)}); };
  // ten addends spanning 3p+5 binades (beyond the 2p bits the accumulator holds), few-bit and full-significand
  add(OP_ADD, 1, "+="); add(OP_ADD, -1, "+="); add(OP_ADD, (T)0.1L, "+="); add(OP_ADD, -(T)(1 / 3.0L), "+=");
  add(OP_ADD, ldexpl(3, p + 1), "+="); add(OP_ADD, -ldexpl(3, p + 1), "+=");
  add(OP_ADD, ldexpl(3, -p - 2), "+="); add(OP_ADD, -ldexpl(7, -2 * p - 1), "+=");
  add(OP_ADD, 400, "+="); add(OP_ADD, -(ldexpl(1, p) - 1), "+=");
  add(OP_SUB, (T)0.1L, "-=");
  add(OP_MULI, -1, "*=int"); add(OP_MULI, 2, "*=int");
  add(OP_MULT, 3, "*=T"); add(OP_MULT, (T)0.7L, "*=T");
  add(OP_REM, 360, "remainder");
  add(OP_SET, 0, "="); add(OP_SET, (T)0.1L, "=");
  return o;
}
template <class T> struct AccM { Accumulator<T> a; Dy E, A; };   // implementation state + exact sum + sum of |terms|

template <class T> struct AccCheck {
  Ctx& ctx; Rep& rep; std::vector<Op> ops; std::vector<T> queries;
  const int p = std::numeric_limits<T>::digits;
  std::string hist;                                  // current history, for messages
  AccCheck(Ctx& c, Rep& r) : ctx(c), rep(r), ops(acc_ops<T>()) {
    for (auto& op : ops) if (op.kind == OP_ADD) queries.push_back((T)op.v);
    queries.push_back(T(0));
  }
  void FAIL(const char* kind, const std::string& msg, const mc::Fields& extra = {}) {
    if (!rep.ok(kind)) return;
    mc::Fields f = {{"kind", kind}, {"type", Tr<T>::name()}, {"history", hist}};
    for (auto& e : extra) f.push_back(e);
    ctx.fail(std::string(Tr<T>::name()) + "." + kind + "@" + hist, msg + " [history " + hist + "]", f);
  }
  static std::string V(T v) { return hxd(v); }
  std::string key(const AccM<T>& m) const { return rawbits(m.a._s) + rawbits(m.a._t) + m.E.key() + "|" + m.A.key(); }
  Dy bound(const Dy& A) const { return A.scale2(-2 * p + 3); }
  static bool normalised(const Accumulator<T>& a) {
    if (a._s == 0) return a._t == 0;
    return cmp(Dy::of(a._t).abs(), ulp_of(a._s).scale2(1)) <= 0;
  }
  static Dy ulp_of(T v) { T a = std::fabs(v); T g = std::nextafter(a, std::numeric_limits<T>::infinity()) - a; return Dy::of(g); }

  // apply one operation to implementation and reference
  void apply(AccM<T>& m, const Op& op) {
    ctx.count("transitions");
    T v = (T)op.v; Dy dv = Dy::of(v);
    switch (op.kind) {
    case OP_ADD: m.a += v; m.E = m.E + dv; m.A = m.A + dv.abs(); break;
    case OP_SUB: m.a -= v; m.E = m.E - dv; m.A = m.A + dv.abs(); break;
    case OP_MULI: m.a *= (int)op.v; m.E = m.E * dv; m.A = m.A * dv.abs(); break;
    case OP_MULT: m.a *= v; m.E = m.E * dv; m.A = m.A * dv.abs(); break;
    case OP_SET: m.a = v; m.E = dv; m.A = dv.abs(); break;
    case OP_REM: {
      T t_before = m.a._t;
      m.a.remainder(v);
      if (!std::isfinite(m.a._s) || !std::isfinite(m.a._t)) { FAIL("acc-nonfinite", "remainder produced a non-finite state"); break; }
      Dy H = Dy::of(m.a._s) + Dy::of(m.a._t);
      // the reference keeps the representative of E mod v nearest to the held value; the error predicate in
      // check_state then demands congruence to twice working precision
      long double kq = rintl(((m.E - H).approx()) / (long double)v);
      m.E = m.E - Dy::of(kq) * dv;
      // documented: "Reduce accumulator to the range [-y/2, y/2]" (rounding slack: 2 ulp of y/2 + the error bound)
      Dy lim = dv.abs().scale2(-1) + ulp_of(v / 2).scale2(1) + bound(m.A);
      if (cmp(H.abs(), lim) > 0) {
        bool lowword = std::fabs(t_before) > std::nextafter(std::fabs(v) / 2, std::numeric_limits<T>::infinity()) - std::fabs(v) / 2;
        FAIL(lowword ? "acc-remainder-range-lowword" : "acc-remainder-range", "after remainder(" + V(v) + ") the accumulator holds " + hxd(H.approx()) + ", outside [-y/2, y/2]; low word before the call " + V(t_before));
      }
      break; }
    }
  }
  void check_state(const AccM<T>& m) {
    const int ti = Tr<T>::idx;
    Ctx::Case cs(ctx);
    const Accumulator<T>& a = m.a;
    if (!std::isfinite(a._s) || !std::isfinite(a._t)) { FAIL("acc-nonfinite", "state (" + V(a._s) + "," + V(a._t) + ") not finite"); return; }
    Dy H = Dy::of(a._s) + Dy::of(a._t), err = (H - m.E).abs(), B = bound(m.A);
    if (!m.A.zero()) track(ti, W_ACC, (double)(err.approx() / m.A.scale2(-2 * p).approx()), a._s, a._t);
    if (cmp(err, B) > 0) FAIL("acc-error-bound", "held " + hxd(H.approx()) + " (s = " + V(a._s) + ", t = " + V(a._t) + ") exact " + hxd(m.E.approx()) + " error " + hxd(err.approx()) + " > 2^(-2p+3) sum|terms| = " + hxd(B.approx()));
    // operator()() is the high word.  Documented (Accumulator.hpp, comment in Add): the reported sum carries "an
    // additional possible error of 1 ulp", i.e. the low word stays below ~1 ulp of the high word.  States where
    // |_t| > 2 ulp(_s) are reported as class acc-unnormalised (the held value s + t is still judged above).
    T v = a();
    if (!same(v, a._s)) FAIL("acc-value", "operator() = " + V(v) + " but the high word is " + V(a._s));
    bool normal = normalised(a);
    { Dy u = ulp_of(a._s); if (!u.zero()) track(ti, W_ACCNORM, (double)(Dy::of(a._t).abs().approx() / u.approx()), a._s, a._t); }
    // A zero high word with a non-zero low word is not the documented "1 ulp" looseness (Add: "if (_s == 0) _s = u"): the
    // reported sum would be 0 although something is held.  Never on the unchanged tree; kept apart from acc-unnormalised so
    // that the known finding for that class cannot hide it.
    if (a._s == 0 && a._t != 0) { FAIL("acc-high-word-zero", "state s = " + V(a._s) + ", t = " + V(a._t) + ": operator() reports 0 while " + hxd(m.E.approx()) + " is held"); normal = true; }
    if (!normal) ctx.count("acc_unnormalised_states");
    if (!normal) FAIL("acc-unnormalised", "state s = " + V(a._s) + ", t = " + V(a._t) + ": the low word exceeds 2 ulp of the high word, operator() = " + V(v) + " but the exact sum is " + hxd(m.E.approx()));
    else { Dy ev = (Dy::of(v) - m.E).abs(), u = ulp_of(v);
      if (!u.zero()) track(ti, W_ACCVAL, cmp(ev, B) > 0 ? (double)((ev - B).approx() / u.approx()) : 0.0, a._s, a._t);
      if (cmp(ev, u.scale2(1) + B) > 0) FAIL("acc-value", "operator() = " + V(v) + " differs from the exact sum " + hxd(m.E.approx()) + " by more than 2 ulp"); }
    // Sum(y) == (copy += y)(), does not change the state, is the rounded exact sum
    for (T y : queries) {
      Accumulator<T> before(a);
      T r = a(y);
      if (!same(before._s, a._s) || !same(before._t, a._t)) FAIL("acc-sum-const", "operator()(y) changed the state");
      Accumulator<T> c(a); c += y;
      if (!same(r, c())) FAIL("acc-sum-consistent", "a(" + V(y) + ") = " + V(r) + " but (a += y)() = " + V(c()));
      if (std::isfinite(r) && std::isfinite(c._t)) {
        Dy Ey = m.E + Dy::of(y), ev = (Dy::of(r) - Ey).abs(), u = ulp_of(r);
        if (c._s == 0 && c._t != 0) FAIL("acc-high-word-zero", "a(" + V(y) + ") = " + V(r) + ": after the addition s = 0 but t = " + V(c._t));
        else if (!normalised(c)) FAIL("acc-unnormalised", "a(" + V(y) + ") = " + V(r) + " while the exact sum is " + hxd(Ey.approx()) + ": after the addition s = " + V(c._s) + ", t = " + V(c._t) + " (low word exceeds 2 ulp of the high word)");
        else {
          Dy By = bound(m.A + Dy::of(y).abs());
          if (!u.zero()) track(ti, W_ACCSUM, cmp(ev, By) > 0 ? (double)((ev - By).approx() / u.approx()) : 0.0, a._s, y);
          if (cmp(ev, u.scale2(1) + By) > 0) FAIL("acc-sum-value", "a(" + V(y) + ") = " + V(r) + " differs from the exact sum " + hxd(Ey.approx()) + " by more than 2 ulp");
        }
      }
    }
    // comparison operators: mutually consistent and (for normalised states) consistent with the exact sum
    std::vector<T> ys(queries); ys.push_back(v); ys.push_back(std::nextafter(v, std::numeric_limits<T>::infinity())); ys.push_back(std::nextafter(v, -std::numeric_limits<T>::infinity()));
    for (T y : ys) {
      bool eq = a == y, ne = a != y, lt = a < y, le = a <= y, gt = a > y, ge = a >= y;
      if (int(eq) + int(lt) + int(gt) != 1 || ne == eq || le != (lt || eq) || ge != (gt || eq)) FAIL("acc-compare", "comparison operators inconsistent against " + V(y));
      Dy dy = Dy::of(y); Dy gap = (m.E - dy).abs();
      if (normal && cmp(gap, ulp_of(v).scale2(1) + B) > 0) { int c = cmp(m.E, dy); if (lt != (c < 0) || gt != (c > 0)) FAIL("acc-compare", "comparison with " + V(y) + " contradicts the exact sum " + hxd(m.E.approx())); }
    }
    if (ctx.want_sample()) ctx.sample(std::string(Tr<T>::name()) + " history " + hist + " -> s = " + V(a._s) + " t = " + V(a._t));
  }
  AccM<T> materialise(const std::vector<int>& h) {
    AccM<T> m; hist.clear();
    for (int i : h) { hist += (hist.empty() ? "" : " ; ") + ops[i].name; apply(m, ops[i]); }
    return m;
  }
  // BFS below the prefix h to total depth `depth`; de-duplicated on (bits of _s, bits of _t, exact sum, sum|terms|):
  // identical implementation AND reference state => identical futures (nothing abstracted)
  void bfs(const std::vector<int>& h, int depth) {
    AccM<T> m0 = materialise(h);
    { AccM<T> again = materialise(h); if (key(again) != key(m0)) FAIL("harness-replay-nondeterminism", "same history, different state"); }
    struct Node { AccM<T> m; std::string hist; };
    std::unordered_set<std::string> seen; std::vector<Node> cur, next;
    seen.insert(key(m0)); cur.push_back({m0, hist}); ctx.count("states");
    hist = cur[0].hist; check_state(m0);
    for (int d = (int)h.size(); d < depth; ++d) {
      next.clear();
      for (auto& nd : cur) for (auto& op : ops) {
        AccM<T> m = nd.m; hist = nd.hist + (nd.hist.empty() ? "" : " ; ") + op.name;
        apply(m, op);
        if (!seen.insert(key(m)).second) { ctx.count("transitions_to_known_state"); continue; }
        ctx.count("states"); check_state(m);
        if (d + 1 < depth) next.push_back({m, hist});
      }
      cur.swap(next);
    }
  }
};
template <class T> static void acc_run(Ctx& ctx, Rep& rep, int depth) {
  AccCheck<T> ac(ctx, rep);
  int n = (int)ac.ops.size();
  ctx.bound(std::string("accumulator.") + Tr<T>::name(), fmti(n) + " operations (10 addends spanning 3p+5 binades, -=, *=-1, *=2, *=T(3), *=T(0.7), remainder(360), =0, =0.1), all histories to depth " + fmti(depth) +
            "; " + fmti((long long)ac.queries.size()) + " Sum(y) and " + fmti((long long)ac.queries.size() + 3) + " comparison queries at every state");
  if (ctx.take()) ac.bfs({}, 0);                                                  // the empty history
  for (int i = 0; i < n; ++i) if (ctx.take()) ac.bfs({i}, 1);                      // one operation (checked, not expanded)
  for (int i = 0; i < n; ++i) for (int j = 0; j < n; ++j) if (ctx.take()) ac.bfs({i, j}, depth);   // one unit per two-operation prefix
}
#endif  // !C16_SWEEP

// ------------------------------------------------------------------ alphabets
static float f32_from(uint32_t b) { float f; memcpy(&f, &b, 4); return f; }
static double f64_from(uint64_t b) { double f; memcpy(&f, &b, 8); return f; }
static long double f80_from(uint64_t mant, unsigned se) { long double f = 0; memcpy(&f, &mant, 8); uint16_t s = (uint16_t)se; memcpy((char*)&f + 8, &s, 2); return f; }
template <class T> static void push_nbrs(std::vector<T>& v, T x, int n) {
  const T inf = std::numeric_limits<T>::infinity();
  v.push_back(x); T u = x, d = x;
  for (int i = 0; i < n; ++i) { u = std::nextafter(u, inf); d = std::nextafter(d, -inf); v.push_back(u); v.push_back(d); }
}
// float pair lattice: every sign x every exponent field (zero/subnormal, inf/NaN included) x top mb mantissa bits,
// plus +-{30,45,90,180,360,540} with +-1 ulp
static std::vector<float> f32_pair_alphabet(int mb) {
  std::vector<float> v;
  for (uint32_t e = 0; e < 256; ++e) for (uint32_t j = 0; j < (1u << mb); ++j) for (uint32_t s = 0; s < 2; ++s)
    v.push_back(f32_from((s << 31) | (e << 23) | (j << (23 - mb))));
  for (float m : {30.f, 45.f, 90.f, 180.f, 360.f, 540.f}) { push_nbrs<float>(v, m, 1); push_nbrs<float>(v, -m, 1); }
  return v;
}
// structured one-argument extras for T: neighbours of 15 k 2^j, AngRound grid/ties, extremes
template <class T> static std::vector<T> extras_alphabet() {
  const int p = std::numeric_limits<T>::digits; std::vector<T> v;
  for (int k = 1; k <= 24; ++k) for (int j = 0; j <= p + 8; ++j) { T m = std::ldexp(T(15 * k), j); push_nbrs<T>(v, m, 3); push_nbrs<T>(v, -m, 3); }
  T g = std::ldexp(T(1), -4 - p);
  std::vector<T> ar;
  for (int h4 : {1, 2, 3, 4, 5, 6, 7, 8, 10, 14, 18}) ar.push_back(g * h4 / 4);
  ar.push_back(std::ldexp(T(1), -5) - g / 2); ar.push_back(std::ldexp(T(1), -5)); ar.push_back(std::ldexp(T(1), -5) + g);
  ar.push_back(std::ldexp(T(1), -4) - g); ar.push_back(std::ldexp(T(1), -4)); ar.push_back(std::ldexp(T(1), -4) + 2 * g);
  for (T a : ar) { push_nbrs<T>(v, a, 1); push_nbrs<T>(v, -a, 1); }
  for (T a : {T(0), std::numeric_limits<T>::denorm_min(), std::numeric_limits<T>::min(), std::numeric_limits<T>::max(), std::numeric_limits<T>::infinity(), T(1), T(0.1L), T(179.9999L)}) { v.push_back(a); v.push_back(-a); }
  v.push_back(std::numeric_limits<T>::quiet_NaN());
  return v;
}
// pair sub-alphabet for double / long double
template <class T> static std::vector<T> pair_alphabet(bool thorough) {
  std::vector<T> v;
  std::vector<T> mant = thorough ? std::vector<T>{T(1), T(1.25), T(1.5), T(1.75)} : std::vector<T>{T(1), T(1.5)};
  int er = thorough ? 70 : 36;
  std::vector<int> ex; for (int e = -er; e <= er; ++e) ex.push_back(e);
  for (int e = std::numeric_limits<T>::min_exponent - std::numeric_limits<T>::digits; e <= std::numeric_limits<T>::max_exponent - 1; e += (std::numeric_limits<T>::max_exponent > 2000 ? 1021 : 97)) if (std::abs(e) > er) ex.push_back(e);
  ex.push_back(std::numeric_limits<T>::max_exponent - 1);
  for (int e : ex) for (T m : mant) { T x = std::ldexp(m, e); if (x == 0 || std::isinf(x)) continue; v.push_back(x); v.push_back(-x); }
  for (int k = 1; k <= (thorough ? 36 : 12); ++k) { push_nbrs<T>(v, T(15 * k), 1); push_nbrs<T>(v, T(-15 * k), 1); }
  for (T a : {T(0), std::numeric_limits<T>::denorm_min(), std::numeric_limits<T>::min(), std::numeric_limits<T>::max(), std::numeric_limits<T>::infinity(),
              T(0.1L), T(1 / 3.0L), T(3.14159265358979323846264338327950288L), T(179.9999L), T(1e-5L), T(89.99999999L)}) { v.push_back(a); v.push_back(-a); }
  v.push_back(std::numeric_limits<T>::quiet_NaN());
  return v;
}

// ------------------------------------------------------------------ main
int main(int argc, char** argv) {
  Ctx ctx(argc, argv);
  const bool T_ = ctx.thorough();
  if (!init_consts<float>() || !init_consts<double>() || !init_consts<long double>()) { fprintf(stderr, "C16: sqrt constants are not correctly rounded (harness error)\n"); return 2; }
  ctx.note("tangent at multiples of 30 deg (not 45): the documentation (NEWS 2.4, Math.hpp) special-cases only sine and cosine; tand is held to the 4-ulp tolerance there and the not-correctly-rounded results are counted (f64: tand(30) is 1 ulp off)");
  ctx.note("atan2d: exactness demanded on the axes only (statement); diagonals are counted (all exact on the unchanged tree); results below 2^8 x min-normal are judged with an absolute floor of 64 denorm_min (gradual underflow of atan2 before the conversion to degrees)");
#ifdef C16_SWEEP
  Rep rep(ctx, 16);
  // ---- (a) all floats
  ctx.sub("f32-sweep");
  ctx.bound("f32.sweep", T_ ? "all 2^32 float bit patterns through AngNormalize, AngRound, LatFix, sind, cosd, tand, sincosd, atand (+ the same at -x and at x - 360 N)"
                            : "the 2^24 float bit patterns whose low 8 mantissa bits are zero (exhaustive sub-lattice of the thorough tier), same functions");
  for (uint32_t hi = 0; hi < 65536; ++hi) {
    if (!ctx.take()) continue;
    for (uint32_t lo = 0; lo < 65536; lo += (T_ ? 1 : 256)) {
      float x = f32_from((hi << 16) | lo);
      Ctx::Case cs(ctx);
      check_one<float>(ctx, rep, x);
      selftest_reduce(ctx, rep, x);
    }
  }
  // ---- +-1 ulp neighbours of every multiple of 30 and 45 up to 2^24
  ctx.sub("f32-multiples");
  ctx.bound("f32.multiples", "30 k and 45 k for all k with value <= 2^24, each with its +-1 ulp neighbours, both signs");
  for (int step : {30, 45}) {
    long kmax = (1L << 24) / step;
    for (long k0 = 0; k0 <= kmax; k0 += 4096) {
      if (!ctx.take()) continue;
      for (long k = k0; k < k0 + 4096 && k <= kmax; ++k) {
        std::vector<float> v; push_nbrs<float>(v, (float)(k * step), 1);
        for (float a : v) for (float x : {a, -a}) { Ctx::Case cs(ctx); check_one<float>(ctx, rep, x); }
      }
    }
  }
#else
  Rep rep(ctx, 64);
  // ---- (b) float pairs
  {
    ctx.sub("f32-pairs");
    std::vector<float> al = f32_pair_alphabet(T_ ? 4 : 3);
    ctx.bound("f32.pairs", "all ordered pairs of " + fmti((long long)al.size()) + " floats (every sign x exponent field x top " + (T_ ? "4" : "3") + " mantissa bits, +-{30,45,90,180,360,540} +-1 ulp) through sum, AngDiff, atan2d, sincosde (|x| <= 180, |t| <= 1)");
    for (float a : al) { if (!ctx.take()) continue; for (float b : al) { Ctx::Case cs(ctx); check_pair<float>(ctx, rep, a, b); } }
  }
  // ---- (c) doubles
  {
    ctx.sub("f64-one");
    const int mb = T_ ? 7 : 5; const uint64_t nj = 1ull << mb, total = 2ull * 2048 * nj;
    std::vector<double> ex = extras_alphabet<double>();
    ctx.bound("f64.one", "every double with <= " + fmti(mb + 1) + " significant bits at every exponent field incl. subnormal/inf/NaN (" + fmti((long long)total) + ") + " + fmti((long long)ex.size()) + " structured values (15 k 2^j +-0..3 ulp, AngRound grid and ties, extremes)");
    for (uint64_t i0 = 0; i0 < total; i0 += 1024) { if (!ctx.take()) continue;
      for (uint64_t i = i0; i < i0 + 1024; ++i) { uint64_t j = i % nj, r = i / nj; double x = f64_from(((r & 1) << 63) | ((r >> 1) << 52) | (j << (52 - mb))); Ctx::Case cs(ctx); check_one<double>(ctx, rep, x); selftest_reduce(ctx, rep, x); } }
    for (size_t i0 = 0; i0 < ex.size(); i0 += 1024) { if (!ctx.take()) continue; for (size_t i = i0; i < std::min(ex.size(), i0 + 1024); ++i) { Ctx::Case cs(ctx); check_one<double>(ctx, rep, ex[i]); selftest_reduce(ctx, rep, ex[i]); } }
  }
  {
    ctx.sub("f80-one");
    const int mb = T_ ? 6 : 4; const uint64_t nj = 1ull << mb, total = 2ull * 32768 * nj;
    std::vector<long double> ex = extras_alphabet<long double>();
    ctx.bound("f80.one", "every x87 long double with <= " + fmti(mb + 1) + " significant bits at every exponent field (" + fmti((long long)total) + ") + " + fmti((long long)ex.size()) + " structured values");
    for (uint64_t i0 = 0; i0 < total; i0 += 4096) { if (!ctx.take()) continue;
      for (uint64_t i = i0; i < i0 + 4096; ++i) { uint64_t j = i % nj, r = i / nj; unsigned e = (unsigned)(r >> 1), s = (unsigned)(r & 1);
        uint64_t mant = e == 0 ? (j << (63 - mb)) : e == 32767 ? ((1ull << 63) | (j ? (1ull << 62) | j : 0)) : ((1ull << 63) | (j << (63 - mb)));
        long double x = f80_from(mant, (s << 15) | e); Ctx::Case cs(ctx); check_one<long double>(ctx, rep, x); selftest_reduce(ctx, rep, x); } }
    for (size_t i0 = 0; i0 < ex.size(); i0 += 1024) { if (!ctx.take()) continue; for (size_t i = i0; i < std::min(ex.size(), i0 + 1024); ++i) { Ctx::Case cs(ctx); check_one<long double>(ctx, rep, ex[i]); selftest_reduce(ctx, rep, ex[i]); } }
  }
  {
    ctx.sub("f64-pairs");
    std::vector<double> al = pair_alphabet<double>(T_);
    ctx.bound("f64.pairs", "all ordered pairs of " + fmti((long long)al.size()) + " doubles (binades -N..N x few mantissas, sparse binades to the extremes, 15 k +-1 ulp, full-significand values, 0, inf, NaN)");
    for (double a : al) { if (!ctx.take()) continue; for (double b : al) { Ctx::Case cs(ctx); check_pair<double>(ctx, rep, a, b); } }
  }
  {
    ctx.sub("f80-pairs");
    std::vector<long double> al = pair_alphabet<long double>(T_);
    ctx.bound("f80.pairs", "all ordered pairs of " + fmti((long long)al.size()) + " long doubles (same construction)");
    for (long double a : al) { if (!ctx.take()) continue; for (long double b : al) { Ctx::Case cs(ctx); check_pair<long double>(ctx, rep, a, b); } }
  }
  // ---- (d) tauf / taupf
  {
    ctx.sub("tau");
    std::vector<long double> es = {0, 0.01L, 0.0818191908426215L, 0.2L, 0.5L, 0.9L, 0.99L};
    std::vector<long double> ms = T_ ? std::vector<long double>{1, 1.1875L, 1.3125L, 1.71875L} : std::vector<long double>{1, 1.3125L};
    ctx.bound("tau", "es in +-{0, 0.01, 0.08182 (WGS84), 0.2, 0.5, 0.9, 0.99} x tau = +-m 2^k, k = -60..60" + std::string(T_ ? "" : " step 2") + ", m in " + fmti((long long)ms.size()) +
              " mantissas, + {69, 70, 71, taumax/2, taumax, 2 taumax, 2^100, 0, inf, NaN}; float, double, long double");
    auto run = [&](auto tag) {
      typedef decltype(tag) T;
      std::vector<T> taus;
      for (int k = -60; k <= 60; k += (T_ ? 1 : 2)) for (long double m : ms) taus.push_back((T)ldexpl(m, k));
      T tm = 2 / std::sqrt(eps<T>());
      for (T a : {T(69), T(70), T(71), tm / 2, tm, std::nextafter(tm, T(0)), 2 * tm, (T)ldexpl(1, 100), T(0), std::numeric_limits<T>::infinity()}) taus.push_back(a);
      for (long double e0 : es) for (int sg : {1, -1}) {
        if (e0 == 0 && sg < 0) continue;
        if (!ctx.take()) continue;
        T e = (T)(sg * e0);
        for (T tau : taus) for (int s2 : {1, -1}) { Ctx::Case cs(ctx); check_tau<T>(ctx, s2 * tau, e); }
        { Ctx::Case cs(ctx); check_tau<T>(ctx, std::numeric_limits<T>::quiet_NaN(), e); }
      }
    };
    run(float()); run(double()); run((long double)0);
  }
  // ---- (e) Accumulator
  { ctx.sub("acc-f32"); acc_run<float>(ctx, rep, T_ ? 5 : 4); }
  { ctx.sub("acc-f64"); acc_run<double>(ctx, rep, T_ ? 5 : 4); }
  { ctx.sub("acc-f80"); acc_run<long double>(ctx, rep, T_ ? 5 : 4); }
#endif
  flush_worst(ctx);
  return ctx.finish();
}
