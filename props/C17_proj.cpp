// C17 (part 1 of 3) -- azimuthal-equidistant, gnomonic and Cassini-Soldner projections satisfy their defining
// geodesic geometry.
//
// Engine E1: full Cartesian product  ellipsoid x centre x bearing x range  (az-eq, gnomonic) and
// ellipsoid x centre x easting x northing (Cassini-Soldner), every cell run on the real library.
// Reference model: the DEFINITIONS in the class documentation, evaluated with Geodesic::Direct / GenDirect
// (direct problem from the centre along the generating bearing and range; verified by C01-C03) -- the library's
// Forward methods use the INVERSE problem, so the forward checks compare two different solvers; the reverse checks
// compare the library's composition (atan2d/hypot/Newton/GeodesicLine) with the plain definition.
// Distances between positions and between directions are measured in 3-D (own geodetic->Cartesian formulas in
// long double), so nothing degenerates at the poles.
#include "mc/ctx.hpp"
#include <GeographicLib/Geodesic.hpp>
#include <GeographicLib/GeodesicLine.hpp>
#include <GeographicLib/AzimuthalEquidistant.hpp>
#include <GeographicLib/Gnomonic.hpp>
#include <GeographicLib/CassiniSoldner.hpp>
#include <string>
#include <vector>
#include <cmath>

using namespace GeographicLib;
using mc::Ctx; using mc::fx; using mc::fmt; using mc::fmti;
typedef long double ld;

static const ld PI = 3.141592653589793238462643383279502884L;
static const ld DEG = PI / 180;
static const double SENT = -12345.678;

struct V3 { ld x, y, z; };
static V3 operator-(V3 a, V3 b) { return {a.x - b.x, a.y - b.y, a.z - b.z}; }
static ld norm(V3 a) { return sqrtl(a.x * a.x + a.y * a.y + a.z * a.z); }
// exact-argument sine / cosine in degrees (reduce first so that multiples of 90 are exact)
static void sincosd_l(ld d, ld& s, ld& c) {
  ld r = remainderl(d, 360.0L); int q = (int)lrintl(r / 90); r -= 90 * q;
  ld sr = sinl(r * DEG), cr = cosl(r * DEG);
  switch (q & 3) { case 0: s = sr; c = cr; break; case 1: s = cr; c = -sr; break; case 2: s = -sr; c = -cr; break; default: s = -cr; c = sr; }
}
struct Ell { const char* name; double a, f; bool exact; double gdoc; /* documented geodesic error, metres */ };
static V3 pos3(const Ell& E, double lat, double lon) {
  ld sp, cp, sl, cl; sincosd_l(lat, sp, cp); sincosd_l(lon, sl, cl);
  ld e2 = (ld)E.f * (2 - (ld)E.f), N = E.a / sqrtl(1 - e2 * sp * sp);
  return {N * cp * cl, N * cp * sl, N * (1 - e2) * sp};
}
// unit tangent of a curve with azimuth azi at (lat, lon)
static V3 dir3(double lat, double lon, double azi) {
  ld sp, cp, sl, cl, sa, ca; sincosd_l(lat, sp, cp); sincosd_l(lon, sl, cl); sincosd_l(azi, sa, ca);
  V3 n = {-sp * cl, -sp * sl, cp}, e = {-sl, cl, 0};
  return {ca * n.x + sa * e.x, ca * n.y + sa * e.y, ca * n.z + sa * e.z};
}

struct Centre { double lat, lon; };

int main(int argc, char** argv) {
  Ctx ctx(argc, argv);
  const bool T = ctx.thorough();
  const double aW = Constants::WGS84_a(), fW = Constants::WGS84_f();
  // gdoc: documented accuracy of the geodesic solver used (Geodesic.hpp: 15 nm WGS84, table 25/30 nm for |f| = 0.01/0.02;
  // GeodesicExact.hpp: 40 nm), scaled with a
  std::vector<Ell> ells = {{"sphere", aW, 0, false, 15e-9}, {"WGS84", aW, fW, false, 15e-9}};
  if (T) {
    ells.push_back({"f=+0.1 exact", aW, 0.1, true, 40e-9});
    ells.push_back({"f=-0.1 exact", aW, -0.1, true, 40e-9});
    ells.push_back({"f=+1/50", aW, 0.02, false, 30e-9});
    ells.push_back({"f=-1/50", aW, -0.02, false, 30e-9});
    ells.push_back({"a=1 f=1/150", 1.0, 1 / 150.0, false, 25e-9 / aW});
    ells.push_back({"f=+0.01", aW, 0.01, false, 25e-9});
    ells.push_back({"f=-0.01", aW, -0.01, false, 25e-9});
    ells.push_back({"f=+0.2 exact", aW, 0.2, true, 40e-9});
    ells.push_back({"f=-0.25 exact", aW, -0.25, true, 40e-9});
    ells.push_back({"a=1e9 f=-1/150", 1e9, -1 / 150.0, false, 25e-9 * (1e9 / aW)});
  }
  std::vector<Centre> centres = {{0, 0}, {40, -75}, {90, 0}, {-89.9, 123}, {30, 0}, {-35, 179.5}};
  if (T) { centres.push_back({-90, 50}); centres.push_back({1e-10, -179.9}); centres.push_back({89.99999, 45}); centres.push_back({60, 100});
    for (Centre c : {Centre{90, 180}, Centre{-90, -180}, Centre{-90, 0}, Centre{0, 180}, Centre{0, -180}, Centre{45, 180}, Centre{-30, -180}, Centre{-60, -20}, Centre{15, 90}}) centres.push_back(c); }
  std::vector<double> bearings; for (int k = -7; k <= 8; ++k) bearings.push_back(22.5 * k);
  bearings.push_back(1e-9); bearings.push_back(90 - 1e-7); bearings.push_back(-135.3);
  // ranges in units of a/6378137 m
  std::vector<double> ranges = {0, 1e-6, 1, 1e3, 1e6, 5e6, 6.4e6, 9e6, 9.9e6, 1.1e7, 1.5e7, 1.9e7, 1.99e7};
  if (T) { ranges.push_back(1e-3); ranges.push_back(3e6); ranges.push_back(9.99e6); ranges.push_back(2.5e7); ranges.push_back(4.5e7);
    // dense around the gnomonic horizon (quarter circumference ~ 1.0002e7 m) ...
    for (double r : {9.5e6, 9.8e6, 9.95e6, 9.995e6, 1.0e7, 1.0005e7, 1.001e7, 1.002e7, 1.005e7, 1.01e7, 1.05e7}) ranges.push_back(r);
    // ... and around the antipode (pi b = 1.99703e7, pi a = 2.00375e7 m on WGS84) for the azimuthal equidistant
    for (double r : {1.95e7, 1.995e7, 1.9969e7, 1.998e7, 2.0e7, 2.003e7, 2.0037e7, 2.005e7, 2.01e7, 2.1e7}) ranges.push_back(r); }
  ctx.bound("proj.ellipsoids", T ? "sphere, WGS84, f=+-0.1, +0.2, -0.25 (Geodesic exact=true), f=+-1/50, +-0.01, (a=1,f=1/150), (a=1e9,f=-1/150)" : "sphere, WGS84");
  ctx.bound("proj.centres", T ? "(0,0) (40,-75) (90,0) (-89.9,123) (30,0) (-35,179.5) (-90,50) (1e-10,-179.9) (89.99999,45) (60,100) (90,180) (-90,-180) (-90,0) (0,180) (0,-180) (45,180) (-30,-180) (-60,-20) (15,90)" : "(0,0) (40,-75) (90,0) (-89.9,123) (30,0) (-35,179.5)");
  ctx.bound("proj.bearings", "k*22.5 deg for k=-7..8, 1e-9, 90-1e-7, -135.3 (19 values)");
  ctx.bound("proj.ranges", std::string("{0,1e-6,1,1e3,1e6,5e6,6.4e6,9e6,9.9e6,1.1e7,1.5e7,1.9e7,1.99e7") + (T ? ",1e-3,3e6,9.99e6,2.5e7,4.5e7,9.5e6,9.8e6,9.95e6,9.995e6,1e7,1.0005e7,1.001e7,1.002e7,1.005e7,1.01e7,1.05e7,1.95e7,1.995e7,1.9969e7,1.998e7,2e7,2.003e7,2.0037e7,2.005e7,2.01e7,2.1e7" : "") + "} m x a/6378137 (1.1e7.. lie beyond the gnomonic horizon; 2.5e7, 4.5e7 are not shortest paths)");
  ctx.bound("proj.cassini-grid", T ? "easting {0,+-1e-6,+-10,+-1e3,+-1e6,+-3e6,+-5e6,+-7e6,+-8.5e6,+-9e6} x northing {0,+-10,+-1e3,+-1e6,+-3e6,+-5e6,+-9.9e6,+-1e7,+-1.0002e7,+-1.1e7,+-1.5e7,+-1.9e7} m x a/6378137 (19 x 23)"
                                     : "easting {0,+-1e-6,+-1e3,+-1e6,+-5e6,+-9e6} x northing {0,+-1e3,+-1e6,+-5e6,+-1.1e7,+-1.9e7} m x a/6378137 (11 x 11)");
  ctx.note("tolerances: 2 x documented geodesic accuracy (15 nm series WGS84/sphere, 30 nm |f|=1/50, 40 nm exact) per geodesic leg compared "
           "(reference + library: 2 legs az-eq/gnomonic, 4 legs Cassini), amplified by the derivative of the map where the map is not an isometry "
           "(1/M12^2 for the gnomonic radius, 1/M12 for the Cassini northing)");

  // ================================================================ azimuthal equidistant
  ctx.sub("azeq");
  for (const Ell& E : ells) for (const Centre& C : centres) {
    if (!ctx.take()) continue;
    const Geodesic g(E.a, E.f, E.exact);
    const AzimuthalEquidistant az(g);
    const double sc = E.a / aW;
    const double tol = 2 * 2 * E.gdoc;                     // two geodesic solutions compared, 2 x documented each
    const double b = E.a * (1 - E.f);
    // below this every geodesic is the unique shortest one: the injectivity radius is >= pi / sqrt(Kmax) (Klingenberg; the shortest
    // closed geodesic is longer), Kmax = 1/b^2 (oblate, equator) or b^2/a^4 (prolate, poles), i.e. pi * min(b, a^2/b)
    const double rshort = 0.98 * (double)PI * std::min(b, E.a * E.a / b);
    for (double bear : bearings) for (double r0 : ranges) {
      Ctx::Case cs(ctx);
      const double r = r0 * sc;
      std::string id = std::string(E.name) + " c=(" + fmt(C.lat) + "," + fmt(C.lon) + ") bearing=" + fx(bear) + " range=" + fx(r);
      mc::Fields F = {{"kind", ""}, {"ellipsoid", E.name}};
      auto failk = [&](const char* kind, const std::string& msg) { F[0].second = kind; ctx.count(std::string("failclass.") + kind + "." + E.name + "." + F.back().second); ctx.fail("azeq " + id + " " + kind, msg, F); };
      double lat2, lon2, azi2, m12, M12, M21;
      g.Direct(C.lat, C.lon, bear, r, lat2, lon2, azi2, m12, M12, M21);
      // regime label (only used to key known findings): nearly equatorial, nearly antipodal geodesic on a prolate ellipsoid
      F.push_back({"regime", (E.f < 0 && std::fabs(C.lat) <= 1e-6 && std::fabs(lat2) <= 1e-6 && r > rshort) ? "prolate-equatorial-antipodal" : "general"});
      ld sb, cb; sincosd_l(bear, sb, cb);
      const double xr = (double)(r * sb), yr = (double)(r * cb);
      const V3 P = pos3(E, lat2, lon2), tP = dir3(lat2, lon2, azi2);
      // ---- Reverse: the point at distance hypot(x,y) and azimuth atan2(x,y) from the centre
      double lat = SENT, lon = SENT, azi = SENT, rk = SENT;
      az.Reverse(C.lat, C.lon, xr, yr, lat, lon, azi, rk);
      {
        double e = (double)norm(pos3(E, lat, lon) - P);
        ctx.worstf("azeq.reverse.position_err_over_tol", e / tol, [&] { return id; });
        if (!(e <= tol)) failk("reverse-position", "Reverse lands " + fmt(e) + " m from the point at the given distance and azimuth (tol " + fmt(tol) + ")");
        // at x = y = 0 the direction is arbitrary (atan2d of signed zeros); everywhere else it is the geodesic's
        if (r > 0) {
          double ed = (double)norm(dir3(lat, lon, azi) - tP) * E.a;
          ctx.worstf("azeq.reverse.azi_err_over_tol", ed / tol, [&] { return id; });
          if (!(ed <= tol)) failk("reverse-azi", "Reverse azi " + fx(azi) + " differs from the geodesic's azimuth " + fx(azi2) + " by " + fmt(ed) + " m (angle x a)");
          double ek = std::fabs(rk * r - m12);
          ctx.worstf("azeq.reverse.rk_err_over_tol", ek / tol, [&] { return id; });
          if (!(ek <= tol)) failk("reverse-rk", "Reverse rk " + fx(rk) + " is not m12/s12 = " + fx(m12 / r) + " (error " + fmt(ek) + " m)");
        } else {
          // the centre itself: the azimuthal scale of the projection is 1 there (limit of m12/s12)
          ctx.sig(7 + (rk == 1));
          if (!(std::fabs(rk - 1) <= 1e-9)) failk("reverse-rk-origin", "Reverse(lat0,lon0,x=" + fmt(xr) + ",y=" + fmt(yr) + ") returns rk = " + fx(rk) + "; the reciprocal scale at the centre of the projection is 1");
        }
        if (!(lat >= -90 && lat <= 90 && lon >= -180 && lon <= 180)) failk("reverse-range", "lat/lon outside the documented ranges: " + fx(lat) + " " + fx(lon));
      }
      // ---- Forward: distance and azimuth of the point as seen from the centre
      double x = SENT, y = SENT, azf = SENT, rkf = SENT;
      az.Forward(C.lat, C.lon, lat2, lon2, x, y, azf, rkf);
      const bool shortest = r <= rshort;
      ctx.sig(shortest);
      {
        double s = std::hypot(x, y);
        if (shortest) {
          double e = std::fabs(s - r);
          ctx.worstf("azeq.forward.distance_err_over_tol", e / tol, [&] { return id; });
          if (!(e <= tol)) failk("forward-distance", "hypot(x,y) = " + fx(s) + " but the point was placed at geodesic distance " + fx(r));
          // direction error measured as the displacement it causes at the point: angle x |m12|
          ld cross = (ld)x * cb - (ld)y * sb, dot = (ld)x * sb + (ld)y * cb;
          double ea = r > 0 ? (double)(fabsl(atan2l(cross, dot)) * fabsl((ld)m12)) : std::fabs(s);
          ctx.worstf("azeq.forward.azimuth_err_over_tol", ea / tol, [&] { return id; });
          if (!(ea <= tol)) failk("forward-azimuth", "atan2(x,y) differs from the generating bearing by " + fmt(ea) + " m (angle x m12); x=" + fx(x) + " y=" + fx(y));
          double ed = (double)norm(dir3(lat2, lon2, azf) - tP) * E.a;
          // at (near) zero distance the direction at the point is arbitrary (documented for coincident points)
          if (r0 >= 1) { ctx.worstf("azeq.forward.azi_err_over_tol", ed / tol * std::min(1.0, std::fabs(m12) / E.a), [&] { return id; });
            if (!(ed * std::min(1.0, std::fabs(m12) / E.a) <= tol)) failk("forward-azi", "Forward azi " + fx(azf) + " differs from the geodesic's azimuth " + fx(azi2)); }
          // r = 0: Direct may move the point by an ulp, so rk is the quotient of two round-off-size numbers; its
          // effect as a length, |rk - 1| * s, is what is bounded
          double ek = r > 0 ? std::fabs(rkf * r - m12) : std::fabs(rkf - 1) * s;
          ctx.worstf("azeq.forward.rk_err_over_tol", ek / tol, [&] { return id; });
          if (r == 0 && !std::isfinite(rkf))
            failk("forward-rk-near-origin", "Forward(lat0,lon0," + fx(lat2) + "," + fx(lon2) + ") (the centre moved by at most an ulp) returns rk = " + fmt(rkf) + "; the reciprocal scale at the centre is 1");
          else if (!(ek <= tol)) failk("forward-rk", "Forward rk " + fx(rkf) + " is not m12/s12 = " + fx(r > 0 ? m12 / r : 1.0));
        } else {
          // not (necessarily) a shortest path: the shortest distance cannot exceed the generating one
          if (!(s <= r + tol)) failk("forward-longer", "hypot(x,y) = " + fx(s) + " exceeds the length " + fx(r) + " of a geodesic joining the points");
        }
        // Forward then Reverse returns the original point (always)
        double la = SENT, lo = SENT, a3, k3;
        az.Reverse(C.lat, C.lon, x, y, la, lo, a3, k3);
        double e = (double)norm(pos3(E, la, lo) - P);
        ctx.worstf("azeq.roundtrip_FR_err_over_tol", e / tol, [&] { return id; });
        if (!(e <= tol)) failk("roundtrip-FR", "Reverse(Forward(P)) is " + fmt(e) + " m from P");
        // Reverse then Forward returns (x,y) if the geodesic is a shortest path
        if (shortest) {
          double x2, y2; az.Forward(C.lat, C.lon, lat, lon, x2, y2);
          ld cr = (ld)x2 * yr - (ld)y2 * xr, dt = (ld)x2 * xr + (ld)y2 * yr;
          double e1 = std::fabs(std::hypot(x2, y2) - r), e2 = r > 0 ? (double)(fabsl(atan2l(cr, dt)) * fabsl((ld)m12)) : 0;
          ctx.worstf("azeq.roundtrip_RF_err_over_tol", std::max(e1, e2) / tol, [&] { return id; });
          if (!(std::max(e1, e2) <= tol)) failk("roundtrip-RF", "Forward(Reverse(x,y)) = (" + fx(x2) + "," + fx(y2) + ") for (x,y) = (" + fx(xr) + "," + fx(yr) + ")");
        }
      }
      if (ctx.want_sample()) ctx.sample("azeq " + id + " -> Forward (" + fmt(x) + "," + fmt(y) + ") azi " + fmt(azf) + " rk " + fmt(rkf));
    }
  }

  // ================================================================ gnomonic
  ctx.sub("gnomonic");
  ctx.bound("gnomonic.horizon-points", "sphere only, explicit points with M12 = 0 exactly: (30,0)->(-60,0), (0,0)->(45,90), (0,0)->(0,90), (0,0)->(-30,-90), (40,-75)->(-50,-75)");
  for (const Ell& E : ells) for (const Centre& C : centres) {
    if (!ctx.take()) continue;
    const Geodesic g(E.a, E.f, E.exact);
    const Gnomonic gn(g);
    const double sc = E.a / aW;
    const double tol = 2 * 2 * E.gdoc;
    const double b = E.a * (1 - E.f);
    const double rshort = 0.98 * (double)PI * std::min(b, E.a * E.a / b);
    for (double bear : bearings) for (double r0 : ranges) {
      Ctx::Case cs(ctx);
      const double r = r0 * sc;
      std::string id = std::string(E.name) + " c=(" + fmt(C.lat) + "," + fmt(C.lon) + ") bearing=" + fx(bear) + " range=" + fx(r);
      mc::Fields F = {{"kind", ""}, {"ellipsoid", E.name}};
      auto failk = [&](const char* kind, const std::string& msg) { F[0].second = kind; ctx.fail("gnomonic " + id + " " + kind, msg, F); };
      double lat2, lon2, azi2, m12, M12, M21;
      g.Direct(C.lat, C.lon, bear, r, lat2, lon2, azi2, m12, M12, M21);
      ld sb, cb; sincosd_l(bear, sb, cb);
      const V3 P = pos3(E, lat2, lon2), tP = dir3(lat2, lon2, azi2);
      const bool shortest = r <= rshort;
      // ---- Forward
      double x = SENT, y = SENT, azf = SENT, rkf = SENT;
      gn.Forward(C.lat, C.lon, lat2, lon2, x, y, azf, rkf);
      const bool nan2 = std::isnan(x) && std::isnan(y);
      ctx.sig((rkf <= 0) * 2 + nan2);
      // documented: NaNs for x and y iff the point is over the horizon, i.e. rk <= 0; correct azi and rk in any case
      if ((rkf <= 0) != nan2 || (std::isnan(x) != std::isnan(y)))
        failk("horizon-nan", "rk = " + fx(rkf) + " but x = " + fmt(x) + ", y = " + fmt(y) + " (NaN for both iff rk <= 0 documented)");
      if (shortest) {
        double ek = std::fabs(rkf - M12) * E.a;
        ctx.worstf("gnomonic.forward.rk_err_over_tol", ek / tol, [&] { return id; });
        if (!(ek <= tol)) failk("forward-rk", "rk " + fx(rkf) + " is not M12 = " + fx(M12) + " of the geodesic");
        if (r0 >= 1) {
          double ed = (double)norm(dir3(lat2, lon2, azf) - tP) * std::min((double)E.a, std::fabs(m12));
          ctx.worstf("gnomonic.forward.azi_err_over_tol", ed / tol, [&] { return id; });
          if (!(ed <= tol)) failk("forward-azi", "azi " + fx(azf) + " differs from the geodesic's azimuth " + fx(azi2));
        }
        const double margin = tol / E.a;
        if (M12 < -margin && !nan2) failk("horizon-missed", "M12 = " + fx(M12) + " < 0 (over the horizon) but x,y = " + fmt(x) + "," + fmt(y));
        if (M12 > margin && nan2) failk("horizon-spurious", "M12 = " + fx(M12) + " > 0 but NaNs returned");
        if (M12 > margin && !nan2) {
          // rho = m12/M12; d rho / ds = 1/M12^2
          double rho = m12 / M12, amp = 1 / (M12 * M12);
          double e = std::fabs(std::hypot(x, y) - rho);
          double tolr = tol * amp + 4 * std::numeric_limits<double>::epsilon() * std::fabs(rho);
          ctx.worstf("gnomonic.forward.rho_err_over_tol", e / tolr, [&] { return id; });
          if (!(e <= tolr)) failk("forward-rho", "hypot(x,y) = " + fx(std::hypot(x, y)) + " is not m12/M12 = " + fx(rho) + " (tol " + fmt(tolr) + ")");
          ld cross = (ld)x * cb - (ld)y * sb, dot = (ld)x * sb + (ld)y * cb;
          double ea = r > 0 ? (double)(fabsl(atan2l(cross, dot)) * fabsl((ld)m12)) : std::hypot(x, y);
          ctx.worstf("gnomonic.forward.azimuth_err_over_tol", ea / tol, [&] { return id; });
          if (!(ea <= tol)) failk("forward-azimuth", "atan2(x,y) differs from the generating bearing by " + fmt(ea) + " m (angle x m12)");
          if (E.f == 0) {
            // documented closed form on the sphere: rho = a tan(s12/a)
            ld rs = (ld)E.a * tanl((ld)r / E.a);
            double es = (double)fabsl(std::hypot(x, y) - rs);
            ctx.worstf("gnomonic.sphere.rho_closed_form_err_over_tol", es / tolr, [&] { return id; });
            if (!(es <= tolr)) failk("sphere-rho", "sphere: hypot(x,y) = " + fx(std::hypot(x, y)) + " is not a tan(s12/a) = " + fmt((double)rs));
          }
          // Forward then Reverse returns the point
          double la = SENT, lo = SENT, a3, k3;
          gn.Reverse(C.lat, C.lon, x, y, la, lo, a3, k3);
          double e3 = (double)norm(pos3(E, la, lo) - P);
          ctx.worstf("gnomonic.roundtrip_FR_err_over_tol", e3 / tol, [&] { return id; });
          if (!(e3 <= tol)) failk("roundtrip-FR", "Reverse(Forward(P)) is " + fmt(e3) + " m from P (lat,lon = " + fmt(la) + "," + fmt(lo) + ")");
        }
      }
      // ---- Reverse from the defining radius (inside the horizon only)
      if (shortest && M12 > 1e-3) {
        double rho = m12 / M12;
        const double xr = (double)(rho * sb), yr = (double)(rho * cb);
        double lat = SENT, lon = SENT, azi = SENT, rk = SENT;
        gn.Reverse(C.lat, C.lon, xr, yr, lat, lon, azi, rk);
        ctx.sig(16 + (rho <= E.a));
        if (std::isnan(lat) && std::isnan(lon) && std::isnan(azi) && std::isnan(rk)) {
          // documented escape for very large x, y only
          if (rho <= 1000 * E.a) failk("reverse-nonconverged", "Reverse returned NaNs (documented only for very large x or y) at rho = " + fx(rho));
          else ctx.count("gnomonic.reverse-nonconverged-large-rho");
        } else {
          double e = (double)norm(pos3(E, lat, lon) - P);
          ctx.worstf("gnomonic.reverse.position_err_over_tol", e / tol, [&] { return id; });
          if (!(e <= tol)) failk("reverse-position", "Reverse lands " + fmt(e) + " m from the point with m12/M12 = rho on the given azimuth (rho = " + fx(rho) + ")");
          double ed = r > 0 ? (double)norm(dir3(lat, lon, azi) - tP) * E.a : 0;     // direction arbitrary at x = y = 0
          ctx.worstf("gnomonic.reverse.azi_err_over_tol", ed / tol, [&] { return id; });
          if (!(ed <= tol)) failk("reverse-azi", "Reverse azi " + fx(azi) + " differs from " + fx(azi2));
          double ek = std::fabs(rk - M12) * E.a;
          ctx.worstf("gnomonic.reverse.rk_err_over_tol", ek / tol, [&] { return id; });
          if (!(ek <= tol)) failk("reverse-rk", "Reverse rk " + fx(rk) + " is not M12 = " + fx(M12));
          if (!(lat >= -90 && lat <= 90 && lon >= -180 && lon <= 180)) failk("reverse-range", "lat/lon outside the documented ranges");
          // Reverse then Forward returns (x,y)
          double x2, y2; gn.Forward(C.lat, C.lon, lat, lon, x2, y2);
          double tolr = tol / (M12 * M12) + 8 * std::numeric_limits<double>::epsilon() * std::fabs(rho);
          double e1 = std::fabs(std::hypot(x2, y2) - rho);
          ld cr = (ld)x2 * yr - (ld)y2 * xr, dt = (ld)x2 * xr + (ld)y2 * yr;
          double e2 = r > 0 ? (double)(fabsl(atan2l(cr, dt)) * fabsl((ld)m12)) : 0;
          ctx.worstf("gnomonic.roundtrip_RF_err_over_tol", std::max(e1 / tolr, e2 / tol), [&] { return id; });
          if (!(e1 <= tolr && e2 <= tol)) failk("roundtrip-RF", "Forward(Reverse(x,y)) = (" + fx(x2) + "," + fx(y2) + ") for (x,y) = (" + fx(xr) + "," + fx(yr) + ")");
        }
      }
      if (ctx.want_sample()) ctx.sample("gnomonic " + id + " -> Forward (" + fmt(x) + "," + fmt(y) + ") azi " + fmt(azf) + " rk " + fmt(rkf));
    }
    // explicit horizon points (sphere): M12 = 0 exactly, so x,y must be NaN (rk <= 0)
    if (E.f == 0 && C.lat == 0 && C.lon == 0) {
      struct HP { double lat0, lon0, lat, lon; };
      for (HP h : {HP{30, 0, -60, 0}, HP{0, 0, 45, 90}, HP{0, 0, 0, 90}, HP{0, 0, -30, -90}, HP{40, -75, -50, -75}}) {
        Ctx::Case cs(ctx);
        double x = SENT, y = SENT, azf = SENT, rkf = SENT;
        gn.Forward(h.lat0, h.lon0, h.lat, h.lon, x, y, azf, rkf);
        std::string id = "sphere horizon (" + fmt(h.lat0) + "," + fmt(h.lon0) + ")->(" + fmt(h.lat) + "," + fmt(h.lon) + ")";
        const bool nan2 = std::isnan(x) && std::isnan(y);
        ctx.sig(100 + (rkf <= 0) * 2 + nan2); ctx.count(rkf == 0 ? "gnomonic.horizon.rk_exactly_zero" : "gnomonic.horizon.rk_nonzero");
        if ((rkf <= 0) != nan2 || (std::isnan(x) != std::isnan(y)))
          ctx.fail("gnomonic " + id, "rk = " + fx(rkf) + " but x = " + fmt(x) + ", y = " + fmt(y) + " (NaN for both iff rk <= 0 documented)", {{"kind", "horizon-nan"}, {"ellipsoid", E.name}});
        if (!(std::fabs(rkf) <= 1e-15)) ctx.fail("gnomonic " + id + " rk", "rk = " + fx(rkf) + " at 90 deg from the centre of a sphere (cos 90 = 0 expected)", {{"kind", "horizon-rk"}, {"ellipsoid", E.name}});
      }
    }
  }

  // ================================================================ Cassini-Soldner
  ctx.sub("cassini");
  std::vector<double> xs = {0, 1e-6, -1e-6, 1e3, -1e3, 1e6, -1e6, 5e6, -5e6, 9e6, -9e6};
  std::vector<double> ys = {0, 1e3, -1e3, 1e6, -1e6, 5e6, -5e6, 1.1e7, -1.1e7, 1.9e7, -1.9e7};
  if (T) { for (double v : {10.0, 3e6, 7e6, 8.5e6}) { xs.push_back(v); xs.push_back(-v); }
           for (double v : {10.0, 3e6, 9.9e6, 1.0e7, 1.0002e7, 1.5e7}) { ys.push_back(v); ys.push_back(-v); } }
  for (const Ell& E : ells) for (const Centre& C : centres) {
    if (!ctx.take()) continue;
    const Geodesic g(E.a, E.f, E.exact);
    const CassiniSoldner cs0(C.lat, C.lon, g);
    const double sc = E.a / aW;
    const double tol = 4 * 2 * E.gdoc;                     // two legs in the reference + two in the library
    const double b = E.a * (1 - E.f);
    double qm; g.Inverse(0, 0, 90, 0, qm);                 // quarter meridian
    // the foot of the perpendicular is the closest meridian point while |x| is below the focal distance >= (pi/2) / sqrt(Kmax)
    const double xlim = 0.9 * (double)PI / 2 * std::min(b, E.a * E.a / b), ylim = 0.98 * 2 * qm;
    {
      Ctx::Case cs(ctx);
      // accessors and the uninitialised object (documented: the routines do nothing)
      mc::Fields F = {{"kind", "accessors"}, {"ellipsoid", E.name}};
      if (!cs0.Init() || cs0.LatitudeOrigin() != C.lat || cs0.LongitudeOrigin() != C.lon || cs0.EquatorialRadius() != E.a || cs0.Flattening() != E.f)
        ctx.fail(std::string("cassini accessors ") + E.name + " " + fmt(C.lat) + "," + fmt(C.lon), "Init/LatitudeOrigin/LongitudeOrigin/EquatorialRadius/Flattening do not return the constructor arguments", F);
      CassiniSoldner un(g);
      double p = SENT, q = SENT, r = SENT, s = SENT;
      un.Forward(10, 20, p, q, r, s); un.Reverse(1e5, 2e5, p, q, r, s);
      if (un.Init() || p != SENT || q != SENT || r != SENT || s != SENT) { F[0].second = "uninitialised"; ctx.fail(std::string("cassini uninit ") + E.name, "an object without origin wrote its outputs", F); }
      CassiniSoldner re(g); re.Reset(C.lat, C.lon);
      double x1, y1, x2, y2; re.Forward(12, C.lon + 7, x1, y1); cs0.Forward(12, C.lon + 7, x2, y2);
      if (!mc::same_bits(x1, x2) || !mc::same_bits(y1, y2)) { F[0].second = "reset"; ctx.fail(std::string("cassini reset ") + E.name + " " + fmt(C.lat) + "," + fmt(C.lon), "Reset(lat0,lon0) differs from the constructor with the same origin", F); }
    }
    for (double x0 : xs) for (double y0 : ys) {
      Ctx::Case cs(ctx);
      const double x = x0 * sc, y = y0 * sc;
      std::string id = std::string(E.name) + " c=(" + fmt(C.lat) + "," + fmt(C.lon) + ") x=" + fx(x) + " y=" + fx(y);
      mc::Fields F = {{"kind", ""}, {"ellipsoid", E.name}};
      auto failk = [&](const char* kind, const std::string& msg) { F[0].second = kind; ctx.fail("cassini " + id + " " + kind, msg, F); };
      // the definition: north y along the central meridian, turn clockwise 90 deg, x along that geodesic
      auto construct = [&](double xx, double yy, double& lat, double& lon, double& azi, double& M) {
        double lat1, lon1, azi1, M21;
        g.Direct(C.lat, C.lon, 0.0, yy, lat1, lon1, azi1);
        g.Direct(lat1, lon1, azi1 + 90, xx, lat, lon, azi, M, M21);
      };
      double latr, lonr, azir, Mr;
      construct(x, y, latr, lonr, azir, Mr);
      const V3 P = pos3(E, latr, lonr), tP = dir3(latr, lonr, azir);
      // ---- Reverse
      double lat = SENT, lon = SENT, azi = SENT, rk = SENT;
      cs0.Reverse(x, y, lat, lon, azi, rk);
      {
        double e = (double)norm(pos3(E, lat, lon) - P);
        ctx.worstf("cassini.reverse.position_err_over_tol", e / tol, [&] { return id; });
        if (!(e <= tol)) failk("reverse-position", "Reverse lands " + fmt(e) + " m from the point reached by 'north y, east x'");
        double ed = (double)norm(dir3(lat, lon, azi) - tP) * E.a;
        ctx.worstf("cassini.reverse.azi_err_over_tol", ed / tol, [&] { return id; });
        if (!(ed <= tol)) failk("reverse-azi", "Reverse azi " + fx(azi) + " is not the arrival azimuth " + fx(azir) + " of the easting geodesic");
        double ek = std::fabs(rk - Mr) * E.a;
        ctx.worstf("cassini.reverse.rk_err_over_tol", ek / tol, [&] { return id; });
        if (!(ek <= tol)) failk("reverse-rk", "Reverse rk " + fx(rk) + " is not the geodesic scale M12 = " + fx(Mr) + " of the easting geodesic");
      }
      // ---- Forward of the constructed point
      double xf = SENT, yf = SENT, azf = SENT, rkf = SENT;
      cs0.Forward(latr, lonr, xf, yf, azf, rkf);
      const bool inside = std::fabs(x) <= xlim && std::fabs(y) <= ylim;
      ctx.sig(inside * 2 + (std::fabs(Math::AngDiff(C.lon, lonr)) <= 90));
      {
        // (a) the returned (x,y), followed through the definition, arrives at the point; azi and rk are those of that geodesic
        double la, lo, az2, M2;
        construct(xf, yf, la, lo, az2, M2);
        double e = (double)norm(pos3(E, la, lo) - P);
        ctx.worstf("cassini.forward.construction_err_over_tol", e / tol, [&] { return id; });
        if (!(e <= tol)) failk("forward-construction", "going north y=" + fx(yf) + " then east x=" + fx(xf) + " arrives " + fmt(e) + " m from (" + fmt(latr) + "," + fmt(lonr) + ")");
        double ed = (double)norm(dir3(latr, lonr, azf) - dir3(la, lo, az2)) * E.a;
        // documented exception ("a small class of points for which there may be two equally short routes"): a point on the
        // equator beyond the focal distance has a northern and a southern route of equal length; the azimuth returned may
        // belong to either
        if (std::fabs(latr) <= 1e-9 && !inside && !(ed <= tol)) { ctx.count("cassini.two-equal-routes-azi-not-compared"); ed = 0; }
        ctx.worstf("cassini.forward.azi_err_over_tol", ed / tol, [&] { return id; });
        if (!(ed <= tol)) failk("forward-azi", "Forward azi " + fx(azf) + " is not the arrival azimuth " + fx(az2) + " of the easting geodesic");
        double ek = std::fabs(rkf - M2) * E.a;
        ctx.worstf("cassini.forward.rk_err_over_tol", ek / tol, [&] { return id; });
        if (!(ek <= tol)) failk("forward-rk", "Forward rk " + fx(rkf) + " is not M12 = " + fx(M2) + " of the easting geodesic");
        // (b) x is the distance to the closest point of the meridian: |x| is the geodesic distance foot->point
        //     and nearby meridian points are not closer
        if (inside) {
          double latf, lonf, s12;
          g.Direct(C.lat, C.lon, 0.0, yf, latf, lonf);
          g.Inverse(latf, lonf, latr, lonr, s12);
          double e2 = std::fabs(s12 - std::fabs(xf));
          ctx.worstf("cassini.forward.x_is_distance_err_over_tol", e2 / tol, [&] { return id; });
          if (!(e2 <= tol)) failk("forward-x-distance", "|x| = " + fx(std::fabs(xf)) + " but the geodesic distance from the foot is " + fx(s12));
          for (double dy : {-1e3 * sc, 1e3 * sc}) {
            g.Direct(C.lat, C.lon, 0.0, yf + dy, latf, lonf);
            double s2; g.Inverse(latf, lonf, latr, lonr, s2);
            if (!(s2 >= s12 - tol)) failk("forward-not-closest", "a meridian point 1 km from the foot is closer (" + fx(s2) + ") than the foot (" + fx(s12) + ")");
          }
          // (c) inverse of Reverse inside the documented region ("x and y sufficiently small not to wrap around")
          double amp = 1 / std::max(std::fabs(Mr), 1e-3);
          double ex = std::fabs(xf - x), ey = std::fabs(yf - y);
          ctx.worstf("cassini.roundtrip_RF_err_over_tol", std::max(ex, ey / amp) / tol, [&] { return id; });
          if (!(ex <= tol && ey <= tol * amp)) failk("roundtrip-RF", "Forward(Reverse(x,y)) = (" + fx(xf) + "," + fx(yf) + ")");
        }
        // (d) Forward then Reverse returns the point (always)
        double l4 = SENT, o4 = SENT; cs0.Reverse(xf, yf, l4, o4);
        double e4 = (double)norm(pos3(E, l4, o4) - P);
        ctx.worstf("cassini.roundtrip_FR_err_over_tol", e4 / tol, [&] { return id; });
        if (!(e4 <= tol)) failk("roundtrip-FR", "Reverse(Forward(P)) is " + fmt(e4) + " m from P");
      }
      if (ctx.want_sample()) ctx.sample("cassini " + id + " -> (" + fmt(latr) + "," + fmt(lonr) + ") Forward (" + fmt(xf) + "," + fmt(yf) + ") azi " + fmt(azf) + " rk " + fmt(rkf));
    }
  }
  return ctx.finish();
}
