// C15 -- auxiliary latitudes, ellipsoid measures, elliptic integrals/functions match their definitions.
// Engine E1: exhaustive enumeration of the stated lattices on the real library; references oracle/merid.hpp (latitudes and
// measures from defining integrals/closed forms in __float128) and oracle/ellf.hpp (Legendre and Carlson integrals by
// quadrature of the DEFINING integrals, Jacobi functions by inversion of F).  Nothing is sampled.  DESIGN.md section 3 "C15".
#include "mc/ctx.hpp"
#include "oracle/merid.hpp"
#include "oracle/ellf.hpp"
#include <GeographicLib/AuxLatitude.hpp>
#include <GeographicLib/AuxAngle.hpp>
#include <GeographicLib/DAuxLatitude.hpp>
#include <GeographicLib/Ellipsoid.hpp>
#include <GeographicLib/EllipticFunction.hpp>
#include <GeographicLib/Geodesic.hpp>
#include <GeographicLib/GeodesicExact.hpp>
#include <GeographicLib/Rhumb.hpp>
#include <GeographicLib/TransverseMercator.hpp>
#include <GeographicLib/TransverseMercatorExact.hpp>
#include <GeographicLib/LambertConformalConic.hpp>
#include <GeographicLib/AlbersEqualArea.hpp>
#include <map>
#include <vector>
#include <string>
#include <algorithm>

using namespace GeographicLib;
using mc::Ctx; using mc::fx; using mc::fmt; using mc::fmti;
typedef q128::Q Q;

static const double EPS = std::numeric_limits<double>::epsilon();
static const double DMIN = std::numeric_limits<double>::denorm_min();
static const double INF = std::numeric_limits<double>::infinity();
static std::string qs(Q x) { return q128::str(x, 22); }
// worst-case bookkeeping: only finite ratios (a NaN/inf result is a failure, reported as such)
template <class F> static void cworst(Ctx& ctx, const std::string& name, double v, F where) { if (std::isfinite(v)) ctx.worstf(name, v, where); }
// every failure goes through here (C15_DEBUG=1 lists them all on stderr: ctx keeps only 4 examples per class)
static void cfail(Ctx& ctx, const std::string& key, const std::string& msg, const mc::Fields& f = {}) {
  if (getenv("C15_DEBUG")) { std::string t; for (auto& kv : f) t += " " + kv.first + "=" + kv.second; fprintf(stderr, "DBG %s ::%s :: %s\n", key.c_str(), t.c_str(), msg.c_str()); }
  ctx.fail(key, msg, f);
}
static double dmax(double a, double b) { return a > b ? a : b; }

// ---- tolerances, in units of eps (Appendix B; where no figure is documented: 4 x worst observed on the unchanged tree, >= 16)
#include "models/C15_tol.hpp"
// regime of an ellipsoid / of an elliptic-function object / of a Carlson tuple: tolerances are scheduled per regime so that the
// bound used for terrestrial ellipsoids and moderate parameters is not diluted by the extreme corners of the lattices
// ellipsoids: small |f| <= 1/150; extreme b/a <= 0.1 or b/a > 2; moderate otherwise (0.1 < b/a <= 2)
static const char* ell_regime(double f) { double af = std::fabs(f); return af <= 1 / 150.0 * (1 + 1e-12) ? "small" : (f >= 0.9 - 1e-9 || f < -1.0 ? "extreme" : "moderate"); }

static const char* AUXN[6] = {"phi", "beta", "theta", "mu", "chi", "xi"};
// closed-form conversions into the conformal / isometric latitude, relative accuracy of the tangent, all b/a in [0.01, 100]:
// worst on the unchanged tree 40 eps (phi -> chi, b/a = 0.01); see the subcheck auxlat-conformal
// schedule (4 x the worst of the unchanged tree over the thorough lattice, floor 64):
//   |lat| <= 45: 64 for b/a >= 0.05 (observed 10), 1024 below (observed 50 at b/a = 0.01 and 0.02, 161 at b/a = 0.015);
//   |lat| > 45 (the divided-difference branch): 64 for b/a >= 0.3 (observed 3), 128 for b/a >= 0.1 (observed 25),
//                4096 below (observed 53 at 0.05, 239 at 0.01, 230 at 0.02, 830 at b/a = 0.015, lat 89.9);
//   prolate: 64 x the conditioning in b/a (observed 6.6)
static double tol_conformal(double ba, double lat) {
  if (ba >= 1) return 64;
  if (std::fabs(lat) <= 45) return ba >= 0.05 ? 64 : 1024;
  return ba >= 0.3 ? 64 : (ba >= 0.1 ? 128 : 4096);
}

// ------------------------------------------------------------------ ellipsoids
struct ED { const char* name; double ba; };
static const ED ELLD[22] = {{"WGS84", 1 - 1 / 298.257223563}, {"b/a=1-1/150", 1 - 1 / 150.0}, {"sphere", 1.0}, {"b/a=1+1/150", 1 + 1 / 150.0},
                           {"b/a=1/2", 0.5}, {"b/a=2", 2.0}, {"b/a=0.01", 0.01}, {"b/a=100", 100.0},
                           // deep thorough tier: shapes between the above
                           {"b/a=0.9", 0.9}, {"b/a=1.1", 1.1}, {"b/a=0.75", 0.75}, {"b/a=1.5", 1.5}, {"b/a=1/4", 0.25}, {"b/a=4", 4.0},
                           {"b/a=0.1", 0.1}, {"b/a=10", 10.0}, {"b/a=0.03", 0.03}, {"b/a=30", 30.0},
                           {"b/a=1-1/1000", 1 - 1 / 1000.0}, {"b/a=1+1/1000", 1 + 1 / 1000.0}, {"b/a=1-1/200", 1 - 1 / 200.0}, {"b/a=1+1/200", 1 + 1 / 200.0}};
static const double A0 = 6378137.0;
struct EnvE {
  const ED* d; double a, f; merid::Ell E; AuxLatitude aux; Ellipsoid ell;
  bool small;                                   // |f| <= 1/150: the documented domain of the series method
  const char* reg;                              // small / moderate / extreme
  std::map<std::pair<int, uint64_t>, Q> inv;    // (from, tan bits) -> tan phi
  std::map<std::pair<std::pair<int, uint64_t>, int>, Q> fwd;
  EnvE(const ED& dd) : d(&dd), a(A0), f(1 - dd.ba), E(merid::ell(A0, 1 - dd.ba)), aux(A0, 1 - dd.ba), ell(A0, 1 - dd.ba), small(std::fabs(1 - dd.ba) <= 1 / 150.0 * (1 + 1e-12)), reg(dd.ba == 0.01 || dd.ba == 100 ? "extreme" : ell_regime(1 - dd.ba)) {}
  // tan(phi) for tan(from) = t, and tan(to) for tan(from) = t, in __float128 from the definitions (cached)
  Q tphi(int from, double t) {
    if (from == 0) return t;
    auto k1 = std::make_pair(from, mc::bits(t));
    auto it = inv.find(k1); if (it != inv.end()) return it->second;
    Q r = merid::from_aux(E, from, (Q)t); inv[k1] = r; return r;
  }
  Q conv(int from, int to, double t) {
    if (from == to) return t;
    auto k2 = std::make_pair(std::make_pair(from, mc::bits(t)), to);
    auto jt = fwd.find(k2); if (jt != fwd.end()) return jt->second;
    Q r = merid::to_aux(E, to, tphi(from, t)); fwd[k2] = r; return r;
  }
  // conditioning of a conversion with respect to the shape parameter: the library holds 1-f, e^2, e, ... each rounded to
  // relative eps, so a result with d log(result)/d log(1-f) = kappa cannot be better than ~kappa eps.  kappa is O(1) for all
  // conversions except those INTO the conformal latitude on very eccentric prolate ellipsoids (tan chi = sinh(psi), psi ~ 157
  // for b/a = 100); it is evaluated numerically from the closed form of psi on two perturbed ellipsoids.
  double kappa(int from, int to, double t) {
    if (to != merid::CHI || !std::isfinite(t) || t == 0) return 0;
    Q tp = fabsq(tphi(from, t)), d = 1e-9Q;
    merid::Ell Ep = E, Em = E;
    Ep.fm1 = E.fm1 * (1 + d); Ep.f = 1 - Ep.fm1; Ep.e2 = Ep.f * (2 - Ep.f); Ep.e2m = Ep.fm1 * Ep.fm1;
    Em.fm1 = E.fm1 * (1 - d); Em.f = 1 - Em.fm1; Em.e2 = Em.f * (2 - Em.f); Em.e2m = Em.fm1 * Em.fm1;
    return (double)(fabsq(logq(merid::tan_chi(Ep, tp)) - logq(merid::tan_chi(Em, tp))) / (2 * d));
  }
};

// relative error of a tangent, with the absolute floor a denormal result needs
static double tan_err(double got, Q ref, Q floor_abs = 0) {
  const Q DMAX = 1.7976931348623157e308;
  if (fabsq(ref) > DMAX) ref = ref > 0 ? HUGE_VALQ : -HUGE_VALQ;              // beyond the double range: the tangent of 90 deg
  if (isinfq(ref) || std::isinf(got)) return (isinfq(ref) && std::isinf(got) && ((ref > 0) == (got > 0))) ? 0 : ((isinfq(ref) && std::fabs(got) > 1e308) || (std::isinf(got) && fabsq(ref) > (Q)8e307) ? 0 : INF);
  if (ref == 0) return got == 0 ? 0 : INF;
  if (got != 0 && (got > 0) != (ref > 0)) return INF;
  Q d = fabsq((Q)got - ref) - 8 * (Q)DMIN - floor_abs; if (d < 0) d = 0;        // denormal results are quantised to DMIN (several operations)
  return (double)(d / fabsq(ref));
}
// error of an angle (radians) between an AuxAngle (y, x) and a reference tangent in the same half plane x >= 0; relative for
// small angles, absolute otherwise:  |delta| / min(1, |ref angle|)
static double ang_err(double y, double x, Q tref) {
  Q ar = atanq(tref), ag = atan2q((Q)y, (Q)x);
  Q d = fabsq(ag - ar) - 8 * (Q)DMIN; if (d < 0) d = 0;      // a denormal angle is quantised (several operations)
  Q den = fabsq(ar) < 1 ? fabsq(ar) : 1;
  if (den == 0) return d == 0 ? 0 : INF;
  return (double)(d / den);
}

static std::vector<double> tan_alphabet(bool thorough) {
  // 1.5e-321 (300 denorm_min) and 1e-310: denormal tangents below / above 2^-1022 * eps, i.e. on both sides of the point
  // where the Newton iterate of FromAuxiliary leaves the normal range (bracket initialisation)
  // 1e155 ... max double: finite tangents whose SQUARE overflows (a normalisation by sqrt(y^2 + x^2) instead of hypot fails there)
  std::vector<double> pos{1.5e-321, 1e-310, 1e-20, 1e-3, 0.57735026918962573, 1.0, 57295.77950726455 /* tan 89.999 */, 1e20,
                          1e155, 1e160, 1e200, 1e300, 1.7976931348623157e308};
  if (thorough) for (double x : {4.9406564584124654e-324, 2.2250738585072014e-308, 1e-160, 1e-8, 0.1, 0.41421356237309503, 2.4142135623730949, 10.0, 1e3, 1e8, 1e15}) pos.push_back(x);
  if (thorough) {   // deep tier: every 10th decade, and the tangents of a ladder of angles up to 89.99999999 degrees
    for (int k = -300; k <= 300; k += 10) { double x = std::pow(10.0, k); if (std::find(pos.begin(), pos.end(), x) == pos.end()) pos.push_back(x); }
    for (double d : {1e-6, 0.01, 1.0, 5.0, 10.0, 15.0, 20.0, 25.0, 35.0, 40.0, 50.0, 55.0, 60.0, 65.0, 70.0, 75.0, 80.0, 85.0, 88.0, 89.0, 89.9, 89.99, 89.9999, 89.999999, 89.99999999}) {
      double x = std::tan(d * 0.017453292519943295); if (std::find(pos.begin(), pos.end(), x) == pos.end()) pos.push_back(x); }
  }
  std::sort(pos.begin(), pos.end());
  std::vector<double> al;
  al.push_back(-INF); for (size_t i = pos.size(); i-- > 0;) al.push_back(-pos[i]);
  al.push_back(0.0); for (double p : pos) al.push_back(p); al.push_back(INF);
  return al;                                   // ordered, odd-symmetric
}
static const char* tan_class(double t) {
  double a = std::fabs(t);
  if (a > 0 && a != DMIN && a < 1e-315) return "deep_denormal";
  return a == DMIN ? "denorm_min" : (a >= 1e308 && std::isfinite(a) ? "dbl_max" : (a >= 1e170 && std::isfinite(a) ? "ge-1e170" : "normal"));
}
// The known-finding classes denorm_min / dbl_max / ge-1e170 are genuine only for conversions that run the Newton inverse
// (from mu, chi, xi) or the conformal formula (to chi); every other conversion of such a tangent gets the suffix "-direct" and is
// not excused.  `inverse` = the predicate also runs the reverse conversion to -> from.
static std::string tan_class_for(double t, int from, int to, bool inverse) {
  std::string c = tan_class(t);
  if (c == "normal" || c == "deep_denormal") return c;
  bool fragile = from >= 3 || to == merid::CHI || (inverse && to >= 3);
  if (c == "ge-1e170") fragile = from == merid::CHI || (inverse && to == merid::CHI);      // NaN of the chi -> phi Newton iteration only
  return fragile ? c : c + "-direct";
}
static AuxAngle mk(double t) { return std::isinf(t) ? AuxAngle(t > 0 ? 1.0 : -1.0, 0.0) : AuxAngle(t, 1.0); }

// ------------------------------------------------------------------ auxiliary latitudes
static void check_aux(Ctx& ctx, EnvE& v, int from, const std::vector<double>& al) {
  const AuxLatitude& A = v.aux;
  mc::Fields F0{{"ellipsoid", v.d->name}, {"ell_regime", v.reg}, {"from", AUXN[from]}};
  for (int to = 0; to < 6; ++to) for (int ex = 1; ex >= 0; --ex) {
    if (!ex && !v.small) continue;                              // series method: documented for |f| <= 1/150
    const char* meth = ex ? "exact" : "series";
    std::string base = std::string("aux ") + v.d->name + " " + AUXN[from] + "->" + AUXN[to] + " " + meth;
    const char* tcls = "normal"; double tcur = 0;
    auto FF = [&](const std::string& kind) { mc::Fields F = F0; F.push_back({"to", AUXN[to]}); F.push_back({"method", meth});
      F.push_back({"tan_class", tan_class_for(tcur, from, to, kind == "inverse-composition" || kind == "series-vs-exact")}); F.push_back({"kind", kind}); return F; };
    double prev = -INF; bool havep = false;
    std::vector<double> outs;
    for (double t : al) {
      Ctx::Case cs(ctx);
      std::string key = base + " tan " + fx(t);
      tcls = tan_class(t); tcur = t;
      AuxAngle z = mk(t), r;
      int sg = mc::crashed([&] { r = A.Convert(from, to, z, ex); });
      if (sg) { cfail(ctx, key, "Convert crashed with signal " + fmti(sg), FF("crash")); continue; }
      double rt = r.tan();
      outs.push_back(rt);
      Q ref = v.conv(from, to, t);
      if (r.x() < 0 || std::isnan(rt)) { cfail(ctx, key, "result (" + fx(r.y()) + "," + fx(r.x()) + ") is not a latitude in [-90,90]", FF("range")); continue; }
      // a denormal tan(phi) in the middle of the chain from -> phi -> to is quantised to DMIN, which the second step magnifies
      Q tph = v.tphi(from, t), chain = (ref != 0 && tph != 0 && !isinfq(ref) && !isinfq(tph)) ? 2 * (Q)DMIN * fabsq(ref / tph) : (Q)0;
      double cond = 1 + v.kappa(from, to, t) / 8;
      const bool nrm = !strcmp(tcls, "normal");
      if (ex) {
        const char* cls = from < 3 && to < 3 ? "closed" : "newton";
        double e = tan_err(rt, ref, chain), tol = C15tol(std::string("aux.exact.") + cls, v.reg) * EPS * cond;
        if (nrm) cworst(ctx, std::string("aux.exact_tan_relerr_over_tol.") + cls + "." + v.reg, e / tol, [&] { return key; });
        if (!(e <= tol)) cfail(ctx, key, "tan = " + fx(rt) + " differs from the definition " + qs(ref) + " by " + fmt(e / EPS) + " eps (relative)", FF("exact-value"));
      } else {
        // series: accuracy of the ANGLE (the series adds a correction in radians to the normalized angle)
        double e = std::isinf(t) || t == 0 ? tan_err(rt, ref) : ang_err(r.y(), r.x(), ref), tol = C15tol("aux.series", v.reg) * EPS;
        if (nrm) cworst(ctx, "aux.series_angle_err_over_tol", e / tol, [&] { return key; });
        if (!(e <= tol)) cfail(ctx, key, "series result tan = " + fx(rt) + " differs from the definition " + qs(ref) + " by " + fmt(e / EPS) + " eps in the angle", FF("series-value"));
        // series <-> exact agreement
        AuxAngle rx = A.Convert(from, to, z, true);
        double e2 = std::isinf(t) || t == 0 ? (mc::same_bits(rx.tan(), rt) || rx.tan() == rt ? 0 : INF) : ang_err(r.y(), r.x(), (Q)rx.tan()), tol2 = C15tol("aux.series_vs_exact", v.reg) * EPS;
        if (nrm) cworst(ctx, "aux.series_vs_exact_over_tol", e2 / tol2, [&] { return key; });
        if (!(e2 <= tol2)) cfail(ctx, key + " sx", "series and exact methods differ by " + fmt(e2 / EPS) + " eps in the angle", FF("series-vs-exact"));
      }
      // fixed points
      if (t == 0 && !(rt == 0 && std::signbit(rt) == std::signbit(t))) cfail(ctx, key + " fix0", "0 is not fixed: tan = " + fx(rt), FF("fix-0"));
      if (std::isinf(t) && !(std::isinf(rt) && (rt > 0) == (t > 0))) cfail(ctx, key + " fix90", "+-90 is not fixed: tan = " + fx(rt), FF("fix-90"));
      // monotone along the ordered axis
      if (havep && !(rt >= prev)) cfail(ctx, key + " mono", "not monotonic: tan " + fx(rt) + " after " + fx(prev), FF("monotone"));
      prev = rt; havep = true;
      // inverse composition (exact method): to -> from brings the tangent back
      if (ex && from != to && std::isfinite(t) && t != 0 && std::isfinite(rt)) {      // (a result that overflowed to +-inf cannot be brought back)
        AuxAngle b = A.Convert(to, from, r, true);
        Q fl = 2 * (Q)DMIN * (1 + fabsq((Q)t / (Q)rt) + (tph != 0 ? fabsq((Q)t / tph) : (Q)0));
        double condrt = 1 + (v.kappa(from, to, t) + (from == merid::CHI ? v.kappa(to, from, (double)ref) : 0)) / 8;
        double e = tan_err(b.tan(), (Q)t, fl), tol = C15tol("aux.roundtrip", v.reg) * EPS * condrt;
        if (nrm) cworst(ctx, std::string("aux.roundtrip_tan_relerr_over_tol.") + v.reg, e / tol, [&] { return key; });
        if (!(e <= tol)) cfail(ctx, key + " inv", "conversion composed with its inverse gives tan " + fx(b.tan()) + " (" + fmt(e / EPS) + " eps from the input)", FF("inverse-composition"));
      }
      if (ctx.want_sample()) ctx.sample(key + " -> " + fmt(rt));
    }
    // odd: the alphabet is symmetric, outputs must mirror exactly (sign symmetry is exact in IEEE arithmetic)
    {
      Ctx::Case cs(ctx);
      for (size_t i = 0; i < outs.size(); ++i) {
        double p = outs[i], m = outs[outs.size() - 1 - i];
        if (std::isnan(p) && std::isnan(m)) continue;                 // reported by the range predicate
        tcls = tan_class(al[i]); tcur = al[i];
        if (!(p == -m)) { cfail(ctx, base + " odd " + fx(al[i]), "not odd: f(" + fx(al[i]) + ") = " + fx(p) + ", f(-x) = " + fx(m), FF("odd")); break; }
      }
    }
  }
}

// degrees interface
static void check_aux_degrees(Ctx& ctx, EnvE& v, int from) {
  const double degs[] = {0, 1e-300, 1e-9, 30, 45, 60, 89.999, 90, 90 - 360.0, 90 + 360.0, 30 + 360.0, 30 - 720.0, 89.999 + 360, 45 - 360.0};
  for (int to = 0; to < 6; ++to) for (int ex = 1; ex >= 0; --ex) {
    if (!ex && !v.small) continue;
    const char* meth = ex ? "exact" : "series";
    for (double d0 : degs) for (int s = 1; s >= -1; s -= 2) {
      Ctx::Case cs(ctx);
      double d = s * d0; if (s < 0 && d0 == 0) continue;
      std::string key = std::string("auxdeg ") + v.d->name + " " + AUXN[from] + "->" + AUXN[to] + " " + meth + " " + fx(d);
      mc::Fields F{{"ellipsoid", v.d->name}, {"from", AUXN[from]}, {"to", AUXN[to]}, {"method", meth}};
      double r = v.aux.Convert(from, to, d, ex);
      double m = std::round(d / 360.0), red = d - 360.0 * m;           // exact for this alphabet; |red| <= 90
      Q tr = v.conv(from, to, (double)merid::tand(red));               // tand(red) rounded to double is the argument the oracle sees:
      // use the exact tangent instead
      { Q tz = merid::tand(red); tr = from == to ? tz : merid::to_aux(v.E, to, merid::from_aux(v.E, from, tz)); }
      Q want = 360 * (Q)m + merid::atand(tr);
      if (std::fabs(red) == 90 || red == 0) {
        F.push_back({"kind", "degrees-fixed-point"});
        if (!(r == d)) cfail(ctx, key, "Convert(" + fmt(d) + " deg) = " + fx(r) + ": 0 and +-90 (+ 360 n) must be fixed", F);
        continue;
      }
      Q e = fabsq((Q)r - want);
      // the reduced angle carries the accuracy; the addition of 360 m rounds once more
      Q den = fabsq(merid::atand(tr));                 // relative to the (reduced) angle in degrees
      double rel = (double)(e / den), tol = C15tol(ex ? "aux.degrees.exact" : "aux.degrees.series", v.reg) * EPS + (m != 0 ? 4 * EPS * std::fabs(d) / (double)den : 0);
      cworst(ctx, std::string("aux.degrees_err_over_tol.") + meth + "." + v.reg, rel / tol, [&] { return key; });
      F.push_back({"kind", "degrees-value"});
      if (!(rel <= tol)) cfail(ctx, key, "Convert(" + fmt(d) + " deg) = " + fx(r) + " but the definition gives " + qs(want) + " (" + fmt(rel / EPS) + " eps)", F);
    }
  }
}

// ToAuxiliary / FromAuxiliary, derivative, radii
static void check_aux_misc(Ctx& ctx, EnvE& v, const std::vector<double>& al) {
  mc::Fields F0{{"ellipsoid", v.d->name}, {"ell_regime", v.reg}};
  auto FF = [&](const std::string& kind) { mc::Fields F = F0; F.push_back({"kind", kind}); return F; };
  for (int aux = 0; aux < 6; ++aux) for (double t : al) {
    Ctx::Case cs(ctx);
    std::string key = std::string("auxmisc ") + v.d->name + " " + AUXN[aux] + " tan " + fx(t);
    const char* tcls = tan_class(t);
    auto FF = [&](const std::string& kind) { mc::Fields F = F0; F.push_back({"aux", AUXN[aux]});
      F.push_back({"tan_class", kind == "toaux-consistency" || kind == "derivative" ? tan_class_for(t, 0, aux, false) : tan_class_for(t, aux, 0, false)}); F.push_back({"kind", kind}); return F; };
    double diff = -777; int niter = -777;
    AuxAngle r = v.aux.ToAuxiliary(aux, mk(t), &diff), r0 = v.aux.ToAuxiliary(aux, mk(t)), c = v.aux.Convert(0, aux, mk(t), true);
    if (!mc::same_bits(r.tan(), r0.tan()) || !(r.tan() == c.tan() || (std::isnan(r.tan()) && std::isnan(c.tan()))))
      cfail(ctx, key + " toaux", "ToAuxiliary with/without diff and Convert(phi->aux, exact) disagree", FF("toaux-consistency"));
    AuxAngle b = v.aux.FromAuxiliary(aux, mk(t), &niter), b0 = v.aux.FromAuxiliary(aux, mk(t));
    if (!mc::same_bits(b.tan(), b0.tan())) cfail(ctx, key + " fromaux", "FromAuxiliary with/without niter disagree", FF("fromaux-consistency"));
    Q ref = v.conv(aux, 0, t);
    double e = tan_err(b.tan(), ref), tol = C15tol("aux.exact.newton", v.reg) * EPS;
    if (!strcmp(tcls, "normal")) cworst(ctx, std::string("aux.fromauxiliary_relerr_over_tol.") + v.reg, e / tol, [&] { return key; });
    if (!(e <= tol)) cfail(ctx, key + " fromaux-value", "FromAuxiliary tan = " + fx(b.tan()) + " differs from the definition " + qs(ref) + " by " + fmt(e / EPS) + " eps", FF("fromaux-value"));
    if (!(niter >= 0 && niter < 1000)) cfail(ctx, key + " niter", "FromAuxiliary did not converge (" + fmti(niter) + " iterations)", FF("newton-iterations"));
    ctx.worst("aux.newton_iterations(reported)", niter, key);
    // derivative d tan(aux)/d tan(phi) against a symmetric difference of the definition in __float128
    if (std::isfinite(t) && t > 0 && t >= 1e-300 && t <= 1e300 && std::isfinite(r.tan())) {
      Q hq = 1e-9Q, tp = (Q)t * (1 + hq), tm = (Q)t * (1 - hq);
      Q dref = (merid::to_aux(v.E, aux, tp) - merid::to_aux(v.E, aux, tm)) / (tp - tm);
      double ed = (double)(fabsq((Q)diff - dref) / fabsq(dref));
      cworst(ctx, "aux.derivative_relerr(reported)", ed, [&] { return key; });
      if (!(ed <= 1e-6)) cfail(ctx, key + " diff", "d tan(aux)/d tan(phi) = " + fx(diff) + " but the definition gives " + qs(dref), FF("derivative"));
    }
  }
  {
    Ctx::Case cs(ctx);
    std::string key = std::string("radii ") + v.d->name;
    double rr = v.aux.RectifyingRadius(true), c2 = v.aux.AuthalicRadiusSquared(true);
    double e1 = (double)(fabsq((Q)rr - merid::rectifying_radius(v.E)) / merid::rectifying_radius(v.E)), e2 = (double)(fabsq((Q)c2 - merid::authalic_radius2(v.E)) / merid::authalic_radius2(v.E));
    ctx.worst("aux.rectifying_radius_relerr_over_tol", e1 / (C15tol("aux.radii", v.reg) * EPS), key); ctx.worst("aux.authalic_radius2_relerr_over_tol", e2 / (C15tol("aux.radii", v.reg) * EPS), key);
    if (!(e1 <= C15tol("aux.radii", v.reg) * EPS)) cfail(ctx, key + " rr", "RectifyingRadius(exact) = " + fx(rr) + " vs " + qs(merid::rectifying_radius(v.E)) + ": " + fmt(e1 / EPS) + " eps", FF("rectifying-radius"));
    if (!(e2 <= C15tol("aux.radii", v.reg) * EPS)) cfail(ctx, key + " c2", "AuthalicRadiusSquared(exact) = " + fx(c2) + " vs " + qs(merid::authalic_radius2(v.E)) + ": " + fmt(e2 / EPS) + " eps", FF("authalic-radius"));
    if (v.small) {
      double rs = v.aux.RectifyingRadius(false), cs2 = v.aux.AuthalicRadiusSquared(false);
      e1 = (double)(fabsq((Q)rs - merid::rectifying_radius(v.E)) / merid::rectifying_radius(v.E)); e2 = (double)(fabsq((Q)cs2 - merid::authalic_radius2(v.E)) / merid::authalic_radius2(v.E));
      ctx.worst("aux.rectifying_radius_series_relerr_over_tol", e1 / (C15tol("aux.radii", v.reg) * EPS), key); ctx.worst("aux.authalic_radius2_series_relerr_over_tol", e2 / (C15tol("aux.radii", v.reg) * EPS), key);
      if (!(e1 <= C15tol("aux.radii", v.reg) * EPS)) cfail(ctx, key + " rrs", "RectifyingRadius(series) = " + fx(rs) + ": " + fmt(e1 / EPS) + " eps from the definition", FF("rectifying-radius-series"));
      if (!(e2 <= C15tol("aux.radii", v.reg) * EPS)) cfail(ctx, key + " c2s", "AuthalicRadiusSquared(series) = " + fx(cs2) + ": " + fmt(e2 / EPS) + " eps from the definition", FF("authalic-radius-series"));
    }
    // the alternative constructor from the semi-axes describes the same ellipsoid
    AuxLatitude B = AuxLatitude::axes(v.a, v.a * (1 - v.f));
    double t1 = v.aux.Convert(0, 3, AuxAngle(1.0, 1.0), true).tan(), t2 = B.Convert(0, 3, AuxAngle(1.0, 1.0), true).tan();
    if (!(std::fabs(t1 - t2) <= 64 * EPS * t1 * dmax(1, 1 / (1 - v.f)))) cfail(ctx, key + " axes", "AuxLatitude::axes(a,b) and AuxLatitude(a,f) disagree: " + fx(t1) + " vs " + fx(t2), FF("axes-constructor"));
    if (v.aux.EquatorialRadius() != v.a || v.aux.Flattening() != v.f || v.aux.PolarSemiAxis() != v.a * (1 - v.f)) cfail(ctx, key + " insp", "AuxLatitude inspectors", FF("inspectors"));
  }
}
// dense monotonicity sweep in degrees (no oracle): strictly increasing on a 0.25 degree grid, all pairs, both methods
static void check_aux_monotone(Ctx& ctx, EnvE& v) {
  for (int from = 0; from < 6; ++from) for (int to = 0; to < 6; ++to) for (int ex = 1; ex >= 0; --ex) {
    if (!ex && !v.small) continue;
    Ctx::Case cs(ctx);
    double prev = -91; int bad = 0; double where = 0;
    for (int k = -360; k <= 360; ++k) {
      double d = 0.25 * k, r = v.aux.Convert(from, to, d, ex);
      if (!(r >= prev) || !(std::fabs(r) <= 90) || (k == 0 && r != 0) || (std::abs(k) == 360 && r != d)) { if (!bad) where = d; ++bad; }
      prev = r;
    }
    if (bad) cfail(ctx, std::string("mono ") + v.d->name + " " + AUXN[from] + "->" + AUXN[to] + (ex ? " exact" : " series"), "decreasing / out of range / fixed points moved on the 0.25 degree grid, first at " + fmt(where) + " (" + fmti(bad) + " places)",
                      {{"ellipsoid", v.d->name}, {"from", AUXN[from]}, {"to", AUXN[to]}, {"method", ex ? "exact" : "series"}, {"kind", "monotone-grid"}});
  }
}


// ------------------------------------------------------------------ AuxAngle::normalized() and un-normalised inputs
// (y, x) pairs whose components are both tiny / both huge / of wildly different magnitude: normalized() must return a point of the
// unit circle with the same tangent and quadrant (documented: "the point lying on the unit circle"; NaN only for (0,0), (inf,inf),
// NaN or both components above max/2)
static const double SCALED[][2] = {{3e-170, 4e-170}, {1e-200, 1e-200}, {1.5e-323, 2e-323} /* 3, 4 denorm_min */, {3e200, 4e200}, {5e153, 12e153}, {1e-160, 1e-155},
                                   {1e200, 1e-100}, {1e-300, 1e10}, {1e155, 1.0}, {1e160, 1.0}, {1e200, 1.0}, {1e300, 1.0}, {1.7976931348623157e308, 1.0}, {1.0, 1e160}, {1.0, 1e300},
                                   {1e-200, 1e-30}, {2e-160, 1e-160}, {8e307, 6e307}, {8e300, 6e300}, {0.6, 0.8}};
static void check_auxangle(Ctx& ctx) {
  for (auto& p : SCALED) for (int sy = 1; sy >= -1; sy -= 2) for (int sx = 1; sx >= -1; sx -= 2) {
    Ctx::Case cs(ctx);
    double y = sy * p[0], x = sx * p[1];
    AuxAngle a(y, x), n = a.normalized();
    std::string key = "AuxAngle(" + fx(y) + "," + fx(x) + ").normalized()";
    Q hq = hypotq((Q)n.y(), (Q)n.x()), t0 = (Q)y / (Q)x, t1 = (Q)n.y() / (Q)n.x();
    bool quad = std::signbit(n.y()) == std::signbit(y) && std::signbit(n.x()) == std::signbit(x);
    // the tangent can only be compared where it is representable as the ratio of two numbers <= 1 in magnitude (>= denorm)
    double et = (fabsq(t0) > (Q)1e300 || fabsq(t0) < (Q)1e-300) ? 0 : (double)(fabsq(t1 - t0) / fabsq(t0));
    double eh = (double)fabsq(hq - 1);
    cworst(ctx, "auxangle.normalized_err_over_tol", dmax(et, eh) / (4 * EPS), [&] { return key; });
    if (std::isnan(n.y()) || std::isnan(n.x()) || !(eh <= 4 * EPS) || !(et <= 4 * EPS) || !quad)
      cfail(ctx, key, "normalized() = (" + fx(n.y()) + "," + fx(n.x()) + "): hypot - 1 = " + fmt(eh) + ", relative change of the tangent " + fmt(et) + (quad ? "" : ", quadrant changed"), {{"kind", "normalized"}});
    // radians()/degrees() of the un-normalised pair
    Q ar = atan2q((Q)y, (Q)x);
    if (!(std::fabs(a.radians() - (double)ar) <= 4 * EPS * (double)fabsq(ar) + 8 * DMIN) || !(std::fabs(a.degrees() - (double)(ar * 180 / q128::pi())) <= 4 * EPS * (double)fabsq(ar * 180 / q128::pi()) + 512 * DMIN))
      cfail(ctx, key + " angle", "radians() = " + fx(a.radians()) + ", degrees() = " + fx(a.degrees()) + " but atan2(y,x) = " + qs(ar), {{"kind", "auxangle-angle"}});
  }
}
// conversions of un-normalised AuxAngle inputs in the first/fourth quadrant: the result depends on the tangent only
static void check_aux_scaled(Ctx& ctx, EnvE& v, int from) {
  mc::Fields F0{{"ellipsoid", v.d->name}, {"ell_regime", v.reg}, {"from", AUXN[from]}};
  for (int to = 0; to < 6; ++to) for (int ex = 1; ex >= 0; --ex) {
    if (!ex && !v.small) continue;
    const char* meth = ex ? "exact" : "series";
    for (auto& p : SCALED) for (int sy = 1; sy >= -1; sy -= 2) {
      double y = sy * p[0], x = p[1], t = y / x;
      if (!(std::fabs(t) >= 1e-300 && std::fabs(t) <= 1e300)) continue;              // the extreme tangents proper are in the main lattice
      if (std::fabs(y) < 1e-305 || std::fabs(x) < 1e-305) continue;                  // denormal components are quantised: the tangent itself is not representable
      if (std::fabs(y) > 1e303 && std::fabs(x) > 1e303) continue;                    // both components within (a/b)^2 of max double: y/(1-f)^2 overflows (reported, not demanded)
      Ctx::Case cs(ctx);
      std::string key = std::string("auxscaled ") + v.d->name + " " + AUXN[from] + "->" + AUXN[to] + " " + meth + " (y,x) = (" + fx(y) + "," + fx(x) + ")";
      auto FF = [&](const std::string& kind) { mc::Fields F = F0; F.push_back({"to", AUXN[to]}); F.push_back({"method", meth}); F.push_back({"tan_class", tan_class_for(t, from, to, false)}); F.push_back({"kind", kind}); return F; };
      AuxAngle r = v.aux.Convert(from, to, AuxAngle(y, x), ex);
      double rt = r.tan();
      if (r.x() < 0 || std::isnan(rt)) { cfail(ctx, key, "result (" + fx(r.y()) + "," + fx(r.x()) + ") is not a latitude in [-90,90]", FF("scaled-range")); continue; }
      Q ref = v.conv(from, to, t);
      double cond = 1 + v.kappa(from, to, t) / 8;
      if (ex) {
        const char* cls = from < 3 && to < 3 ? "closed" : "newton";
        double e = tan_err(rt, ref), tol = C15tol(std::string("aux.exact.") + cls, v.reg) * EPS * cond;
        cworst(ctx, std::string("aux.scaled_exact_relerr_over_tol.") + v.reg, e / tol, [&] { return key; });
        if (!(e <= tol)) cfail(ctx, key, "tan = " + fx(rt) + " differs from the definition " + qs(ref) + " by " + fmt(e / EPS) + " eps (relative)", FF("scaled-exact-value"));
      } else {
        double e = ang_err(r.y(), r.x(), ref), tol = C15tol("aux.series", v.reg) * EPS;
        cworst(ctx, "aux.scaled_series_angle_err_over_tol", e / tol, [&] { return key; });
        if (!(e <= tol)) cfail(ctx, key, "series result tan = " + fx(rt) + " differs from the definition " + qs(ref) + " by " + fmt(e / EPS) + " eps in the angle", FF("scaled-series-value"));
      }
    }
  }
}


// ------------------------------------------------------------------ the optional derivative output d tan(aux)/d tan(phi)
// Closed forms in __float128 (t = tan phi, T = tan aux from the oracle, w = 1 - e^2 sin^2 phi = (1-e^2) + e^2/(1+t^2)):
//   beta: 1-f;  theta: (1-f)^2;  in general  d tan(eta)/d tan(phi) = (d eta/d phi) (1+T^2)/(1+t^2)  with
//   d mu/d phi = (pi/2) rho/M,  d chi/d phi = (1-e^2) cos(chi)/(w cos(phi)),  d xi/d phi = 2 cos(phi)/(w^2 A(1) cos(xi)).
// At the poles the derivative is the limit of tan(aux)/tan(phi), evaluated from the same formulas at t = 1e1000 (and cross-checked
// against that ratio).  Also returns the angle derivative d eta/d phi (for the divided differences with coinciding arguments).
static Q w_of_t(const merid::Ell& E, Q t) { Q c2 = 1 / (1 + t * t); return E.e2 > 0 ? E.e2m + E.e2 * c2 : 1 - E.e2 * (t * t * c2); }
static Q deriv_tan(const merid::Ell& E, int aux, Q t, Q* dangle = nullptr) {
  t = fabsq(t); if (isinfq(t)) t = 1e1000Q;
  Q T = t == 0 ? (Q)0 : merid::to_aux(E, aux, t), w = w_of_t(E, t), r2 = (1 + T * T) / (1 + t * t), da;
  switch (aux) {
  case merid::PHI: da = 1; break;
  case merid::BETA: da = E.fm1 / r2; break;
  case merid::THETA: da = E.e2m / r2; break;
  case merid::MU: da = q128::pi() / 2 * (E.a * E.e2m / (w * sqrtq(w))) / E.M; break;
  case merid::CHI: da = E.e2m / (w * sqrtq(r2)); break;                       // (1-e^2) cos(chi) / (w cos(phi))
  default: da = 2 * sqrtq(r2) / (w * w * E.A1); break;                        // 2 cos(phi) / (w^2 A(1) cos(xi)),  cos(phi)/cos(xi) = sqrt((1+T^2)/(1+t^2))
  }
  if (dangle) *dangle = da;
  return da * r2;
}
// input classes of the derivative subcheck (own field name, so that the value-related known findings do not apply to it)
static const char* dtan_class(double t) {
  double a = std::fabs(t);
  return std::isinf(a) ? "pole" : (a >= 1e308 ? "top" : (a >= 1.3e154 ? "sq-overflow" : (a == DMIN ? "denorm_min" : "normal")));
}
static const double DERIV_TANS[] = {0, 1e-310, 1e-10, 0.1, 1, 10, 1e10, 1e155, 1.7976931348623157e308, INFINITY};
static void check_aux_derivative(Ctx& ctx, EnvE& v, bool thorough) {
  std::vector<double> ts(std::begin(DERIV_TANS), std::end(DERIV_TANS));
  if (thorough) for (double x : {4.9406564584124654e-324, 2.2250738585072014e-308, 1e-300, 1e-160, 1e-3, 0.57735026918962573, 57295.77950726455, 1e12, 1e20, 1e100, 1e160, 1e300}) ts.push_back(x);
  mc::Fields F0{{"ellipsoid", v.d->name}, {"ell_regime", v.reg}};
  for (int aux = 0; aux < 6; ++aux) for (double t0 : ts) for (int sg = 1; sg >= -1; sg -= 2) {
    Ctx::Case cs(ctx);
    double t = sg * t0;
    std::string key = std::string("auxdiff ") + v.d->name + " " + AUXN[aux] + " tan " + fx(t);
    bool valnan = false;
    auto FF = [&](const std::string& kind) { mc::Fields F = F0; F.push_back({"aux", AUXN[aux]}); F.push_back({"dtan_class", dtan_class(t)});
      if (valnan) F.push_back({"tan_class", tan_class_for(t, 0, aux, false)});        // the latitude itself is NaN: the value-related finding applies
      F.push_back({"kind", valnan ? kind + "-of-nan-value" : kind}); return F; };
    AuxAngle z = mk(t);
    double diff = -777, d2 = -777;
    AuxAngle r = v.aux.ToAuxiliary(aux, z, &diff), r2;
    // the individual members return the same value and the same derivative
    switch (aux) {
    case 0: r2 = z; d2 = 1; break;
    case 1: r2 = v.aux.Parametric(z, &d2); break;
    case 2: r2 = v.aux.Geocentric(z, &d2); break;
    case 3: r2 = v.aux.Rectifying(z, &d2); break;
    case 4: r2 = v.aux.Conformal(z, &d2); break;
    default: r2 = v.aux.Authalic(z, &d2); break;
    }
    if (!(mc::same_bits(diff, d2) || (std::isnan(diff) && std::isnan(d2))) || !(mc::same_bits(r.tan(), r2.tan()) || (std::isnan(r.tan()) && std::isnan(r2.tan()))))
      cfail(ctx, key + " member", "ToAuxiliary and the individual member function disagree: diff " + fx(diff) + " vs " + fx(d2), FF("derivative-member"));
    valnan = std::isnan(r.tan());
    if (std::isfinite(t) && std::isinf(r.tan())) {     // tan(aux) itself left the double range (chi on very prolate ellipsoids): as in auxlat-misc, not compared
      ctx.count("derivative_at_overflowed_tangent_not_compared"); ctx.list("doc_silent", "derivative output where tan(aux) overflows for a finite tan(phi)"); continue; }
    Q ref = deriv_tan(v.E, aux, (Q)t);
    // conditioning in the shape parameter (prolate chi), as for the value
    double tk = std::isfinite(t) ? (t == 0 ? 1e-300 : t) : 1e300;
    double cond = 1 + v.kappa(0, aux, tk) / 8;
    double e = std::isnan(diff) ? INF : (double)(fabsq((Q)diff - ref) / ref), tol = C15tol("aux.derivative", v.reg) * EPS * cond;
    if (ref > (Q)1.7976931348623157e308) e = (std::isinf(diff) && diff > 0) ? 0 : INF;          // overflows with the tangent itself
    const bool dn = !strcmp(dtan_class(t), "normal") || !strcmp(dtan_class(t), "sq-overflow");       // (the known-defect input classes are not tallied)
    if (dn) cworst(ctx, std::string("aux.derivative_relerr_over_tol.") + v.reg + "." + AUXN[aux], e / tol, [&] { return key; });
    if (!(e <= tol)) cfail(ctx, key, "d tan(" + std::string(AUXN[aux]) + ")/d tan(phi) = " + fx(diff) + " but the definition gives " + qs(ref) + " (" + fmt(e / EPS) + " eps relative)", FF("derivative-value"));
    if (ctx.want_sample()) ctx.sample(key + " -> " + fmt(diff));
  }
  // harness self-check of the polar limit: formula at 1e1000 = ratio tan(aux)/tan(phi) there, and ~ the value at 1e12
  for (int aux = 1; aux < 6; ++aux) {
    Q big = 1e1000Q, lim = deriv_tan(v.E, aux, big), ratio = merid::to_aux(v.E, aux, big) / big, at12 = deriv_tan(v.E, aux, (Q)1e12);
    if (!(fabsq(lim - ratio) <= 1e-25Q * lim) || !(fabsq(lim - at12) <= 1e-20Q * lim * (1 + fabsq(v.E.e2) * 10)))
      cfail(ctx, std::string("auxdiff ") + v.d->name + " " + AUXN[aux] + " polar-limit", "reference inconsistent: limit " + qs(lim) + ", ratio " + qs(ratio) + ", at 1e12 " + qs(at12), {{"kind", "harness"}});
  }
}
// DAuxLatitude: the divided differences with COINCIDING arguments are the angle derivatives d(beta, mu, psi)/d phi; DConvert (series,
// |f| <= 1/150) is d eta/d zeta = (d eta/d phi)/(d zeta/d phi)
static void check_daux_coincident(Ctx& ctx, EnvE& v, bool thorough) {
  DAuxLatitude D(v.a, v.f);
  std::vector<double> ts{0, 1e-310, 1e-10, 0.1, 1, 10, 1e10, 1e155, 1.7976931348623157e308, INFINITY};
  if (thorough) for (double x : {1e-300, 1e-3, 0.57735026918962573, 57295.77950726455, 1e20, 1e100, 1e300}) ts.push_back(x);
  mc::Fields F0{{"ellipsoid", v.d->name}, {"ell_regime", v.reg}};
  for (double t0 : ts) for (int sg = 1; sg >= -1; sg -= 2) {
    Ctx::Case cs(ctx);
    double t = sg * t0; AuxAngle z = mk(t);
    std::string key = std::string("daux ") + v.d->name + " tan " + fx(t);
    Q dbeta, dmu, dchi; deriv_tan(v.E, merid::BETA, (Q)t, &dbeta); deriv_tan(v.E, merid::MU, (Q)t, &dmu); deriv_tan(v.E, merid::CHI, (Q)t, &dchi);
    Q tq = isinfq((Q)t) ? 1e1000Q : fabsq((Q)t), Tc = tq == 0 ? (Q)0 : merid::to_aux(v.E, merid::CHI, tq);
    Q dpsi = dchi * sqrtq(1 + Tc * Tc);                    // d psi/d chi = sec(chi)
    struct { const char* fn; double got; Q ref; } cs3[3] = {{"DParametric", D.DParametric(z, z), dbeta}, {"DRectifying", D.DRectifying(z, z), dmu}, {"DIsometric", D.DIsometric(z, z), dpsi}};
    for (auto& c : cs3) {
      double e;
      if (c.ref > (Q)1.7976931348623157e308) e = (std::isinf(c.got) && c.got > 0) ? 0 : INF;        // d psi/d phi -> infinity at the pole
      else e = std::isnan(c.got) ? INF : (double)(fabsq((Q)c.got - c.ref) / c.ref);
      double tol = C15tol("daux.coincident", v.reg) * EPS;
      if (!strcmp(dtan_class(t), "normal")) cworst(ctx, std::string("daux.coincident_relerr_over_tol.") + v.reg + "." + c.fn + (strcmp(v.reg, "extreme") ? "" : std::string(".") + v.d->name), e / tol, [&] { return key; });
      if (!(e <= tol)) { mc::Fields F = F0; F.push_back({"fn", c.fn}); F.push_back({"dtan_class", dtan_class(t)}); F.push_back({"shape", v.f > 0 ? "oblate" : (v.f < 0 ? "prolate" : "sphere")}); F.push_back({"kind", "daux-coincident"});
        cfail(ctx, key + " " + c.fn, std::string(c.fn) + "(phi, phi) = " + fx(c.got) + " but the derivative is " + qs(c.ref) + " (" + fmt(e / EPS) + " eps relative)", F); }
    }
    if (v.small && std::isfinite(t)) for (int in = 0; in < 6; ++in) for (int out = 0; out < 6; ++out) {
      if (in == out) continue;
      Q tphi = t == 0 ? (Q)0 : fabsq(v.tphi(in, std::fabs(t))), di, dout; deriv_tan(v.E, in, tphi, &di); deriv_tan(v.E, out, tphi, &dout);
      Q ref = dout / di; double got = D.DConvert(in, out, z, z);
      double e = std::isnan(got) ? INF : (double)(fabsq((Q)got - ref) / ref), tol = C15tol("daux.dconvert", v.reg) * EPS;
      cworst(ctx, "daux.dconvert_coincident_relerr_over_tol", e / tol, [&] { return key + " " + AUXN[in] + "->" + AUXN[out]; });
      if (!(e <= tol)) { mc::Fields F = F0; F.push_back({"fn", "DConvert"}); F.push_back({"from", AUXN[in]}); F.push_back({"to", AUXN[out]}); F.push_back({"dtan_class", dtan_class(t)}); F.push_back({"kind", "dconvert-coincident"});
        cfail(ctx, key + " DConvert " + AUXN[in] + "->" + AUXN[out], "DConvert(zeta, zeta) = " + fx(got) + " but d eta/d zeta = " + qs(ref) + " (" + fmt(e / EPS) + " eps relative)", F); }
    }
  }
}

// ------------------------------------------------------------------ conformal / isometric latitude on strongly eccentric ellipsoids
// tan(chi) = sinh(asinh(tan phi) - e atanh(e sin phi)) is a closed form; the library evaluates it without Newton iteration, with a
// cancellation-free rearrangement for f > 0.  It is therefore held to a tight relative tolerance on the whole documented range
// b/a in [0.01, 100] at low and middle latitudes (where a cancelling evaluation loses eps/(1-e^2)^1.5), not to the calibrated
// tolerance of the Newton-based conversions of the "extreme" regime.
static void check_conformal(Ctx& ctx, double ba, bool thorough) {
  const double a = A0, f = 1 - ba;
  merid::Ell E = merid::ell(a, f); AuxLatitude A(a, f); Ellipsoid L(a, f);
  char nm[40]; snprintf(nm, sizeof nm, "b/a=%g", ba);
  mc::Fields F0{{"ellipsoid", nm}};
  std::vector<double> lats{0.01, 0.1, 1, 1.93, 5, 10, 12.43, 20, 30, 40, 45, 60, 75, 85, 89};
  if (thorough) for (double x : {1e-6, 0.03, 0.3, 0.5, 2.0, 3.0, 7.5, 15.0, 19.3, 25.0, 27.4, 35.0, 50.0, 70.0, 80.0, 88.0, 89.9}) lats.push_back(x);
  // conditioning with respect to the shape parameter (as in EnvE::kappa): only prolate ellipsoids have kappa >> 1
  auto kappa = [&](Q tp) {
    Q d = 1e-9Q; merid::Ell Ep = E, Em = E;
    Ep.fm1 = E.fm1 * (1 + d); Ep.f = 1 - Ep.fm1; Ep.e2 = Ep.f * (2 - Ep.f); Ep.e2m = Ep.fm1 * Ep.fm1;
    Em.fm1 = E.fm1 * (1 - d); Em.f = 1 - Em.fm1; Em.e2 = Em.f * (2 - Em.f); Em.e2m = Em.fm1 * Em.fm1;
    return (double)(fabsq(logq(merid::tan_chi(Ep, tp)) - logq(merid::tan_chi(Em, tp))) / (2 * d)); };
  for (double l0 : lats) for (int sg = 1; sg >= -1; sg -= 2) {
    Ctx::Case cs(ctx);
    double lat = sg * l0;
    std::string key = std::string("conformal ") + nm + " lat " + fx(lat);
    Q tq = merid::tand(lat); double t = (double)tq;
    Q tphi = (Q)t;                                   // the AuxAngle input carries the rounded tangent
    double cond = 1 + kappa(fabsq(tphi)) / 8, tol = tol_conformal(ba, lat) * EPS * cond;
    auto chk = [&](const char* what, double got, Q ref) {
      double e = (double)(fabsq((Q)got - ref) / fabsq(ref));
      if (std::isnan(got)) e = INF;
      cworst(ctx, std::string("conformal.") + what + "_relerr_over_tol." + (l0 <= 45 ? "lat<=45." : "lat>45.") + nm, e / tol, [&] { return key; });
      if (!(e <= tol)) { mc::Fields F = F0; F.push_back({"kind", std::string("conformal-") + what}); cfail(ctx, key + " " + what, std::string(what) + " = " + fx(got) + " but the closed form gives " + qs(ref) + " (" + fmt(e / EPS) + " eps relative)", F); } };
    // phi, beta, theta -> chi (exact method, closed forms all the way)
    for (int from = 0; from < 3; ++from) {
      double tin = from == 0 ? t : (double)((from == 1 ? E.fm1 : E.e2m) * tphi);            // tangent of beta / theta for this phi, rounded
      Q tph = from == 0 ? (Q)tin : (Q)tin / (from == 1 ? E.fm1 : E.e2m);
      Q ref = merid::tan_chi(E, fabsq(tph)); if (tin < 0) ref = -ref;
      chk((std::string(AUXN[from]) + "->chi").c_str(), A.Convert(from, merid::CHI, AuxAngle(tin, 1.0), true).tan(), ref);
    }
    { Q ref = merid::tan_chi(E, fabsq(tphi)); if (t < 0) ref = -ref;
      chk("ToAuxiliary(chi)", A.ToAuxiliary(merid::CHI, AuxAngle(t, 1.0)).tan(), ref); }
    // Ellipsoid (degree interface): conformal latitude as an angle, isometric latitude
    { Q tc = merid::tan_chi(E, fabsq(tq)); if (lat < 0) tc = -tc;
      chk("Ellipsoid::ConformalLatitude", L.ConformalLatitude(lat), merid::atand(tc));
      Q psi = merid::psi_iso(E, fabsq(tq)) * 180 / q128::pi(); if (lat < 0) psi = -psi;
      chk("Ellipsoid::IsometricLatitude", L.IsometricLatitude(lat), psi); }
    if (ctx.want_sample()) ctx.sample(key);
  }
}

// ------------------------------------------------------------------ Ellipsoid inspectors
static const char* g_reg = "";          // regime of the ellipsoid being checked (suffix of the worst{} keys)
static void rel_check(Ctx& ctx, const std::string& key, const char* what, double got, Q ref, double tol_eps, const mc::Fields& F0, Q absfloor = 0) {
  Q d = fabsq((Q)got - ref) - absfloor; if (d < 0) d = 0;
  double e = ref == 0 ? (double)d : (double)(d / fabsq(ref));
  if (isinfq(ref) || std::isinf(got)) e = (isinfq(ref) && std::isinf(got) && (ref > 0) == (got > 0)) ? 0 : INF;
  if (std::isnan(got)) e = INF;
  cworst(ctx, std::string("ellipsoid.") + what + "_relerr_over_tol" + (*g_reg ? "." : "") + g_reg, e / (tol_eps * EPS), [&] { return key; });
  if (!(e <= tol_eps * EPS)) { mc::Fields F = F0; F.push_back({"kind", what}); cfail(ctx, key + " " + what, std::string(what) + " = " + fx(got) + " but the definition gives " + qs(ref) + " (" + fmt(e / EPS) + " eps)", F); }
}
static void check_ellipsoid(Ctx& ctx, EnvE& v, bool thorough) {
  const Ellipsoid& L = v.ell; const merid::Ell& E = v.E;
  g_reg = v.reg;
  const double TOL_ELL = C15tol("ellipsoid.measure", v.reg), TOL_ELL_LAT = C15tol("ellipsoid.latitude", v.reg), TOL_ELL_CURV = C15tol("ellipsoid.curvature", v.reg),
    TOL_XCLASS = C15tol("ellipsoid.crossclass", v.reg);
  mc::Fields F0{{"ellipsoid", v.d->name}};
  std::string ek = std::string("ellipsoid ") + v.d->name;
  {
    Ctx::Case cs(ctx);
    rel_check(ctx, ek, "QuarterMeridian", L.QuarterMeridian(), E.M, TOL_ELL, F0);
    rel_check(ctx, ek, "Area", L.Area(), merid::area(E), TOL_ELL, F0);
    rel_check(ctx, ek, "Area-closed-form", L.Area(), merid::area_closed_form(E), TOL_ELL, F0);
    rel_check(ctx, ek, "Volume", L.Volume(), merid::volume(E), TOL_ELL, F0);
    Q a = E.a, b = E.b;
    rel_check(ctx, ek, "PolarRadius", L.PolarRadius(), b, TOL_ELL, F0);
    rel_check(ctx, ek, "Flattening", L.Flattening(), (a - b) / a, TOL_ELL, F0);
    rel_check(ctx, ek, "SecondFlattening", L.SecondFlattening(), (a - b) / b, TOL_ELL, F0);
    rel_check(ctx, ek, "ThirdFlattening", L.ThirdFlattening(), (a - b) / (a + b), TOL_ELL, F0);
    rel_check(ctx, ek, "EccentricitySq", L.EccentricitySq(), (a * a - b * b) / (a * a), TOL_ELL, F0);
    rel_check(ctx, ek, "SecondEccentricitySq", L.SecondEccentricitySq(), (a * a - b * b) / (b * b), TOL_ELL, F0);
    rel_check(ctx, ek, "ThirdEccentricitySq", L.ThirdEccentricitySq(), (a * a - b * b) / (a * a + b * b), TOL_ELL, F0);
    if (L.EquatorialRadius() != v.a) cfail(ctx, ek + " a", "EquatorialRadius", {{"kind", "inspectors"}});
  }
  // the same quantities from the other classes
  {
    Ctx::Case cs(ctx);
    const double a = v.a, f = v.f;
    GeodesicExact GE(a, f);
    rel_check(ctx, ek, "GeodesicExact::EllipsoidArea", GE.EllipsoidArea(), merid::area(E), TOL_XCLASS, F0);
    { // GeodesicExact.hpp documents its maximum error by b/a for a quarter meridian of 10 000 km (387 nm at 1/128 ... 15 nm at 1 ...
      // 19024 nm at 128): bound = 2 x the next table row, scaled by the size of this ellipsoid
      static const double tobl[8] = {15, 36, 69, 115, 210, 269, 345, 387}, tpro[8] = {15, 25, 96, 318, 985, 2352, 6008, 19024};   // b/a = 2^-k, 2^k
      double lb = std::log2(1 - f); int kk = (int)std::ceil(std::fabs(lb) - 1e-9); if (kk > 7) kk = 7;
      double nm = lb < 0 ? tobl[kk] : tpro[kk];
      Q fl = 2 * (Q)nm * 1e-9Q * E.M / 1e7Q;
      double s12; GE.Inverse(0, 0, 90, 0, s12); rel_check(ctx, ek, "GeodesicExact::Inverse(0,0,90,0)", s12, E.M, TOL_XCLASS, F0, fl);
      rel_check(ctx, ek, "GeodesicExact-vs-Ellipsoid-quarter-meridian", s12, L.QuarterMeridian(), TOL_XCLASS, F0, fl);
      rel_check(ctx, ek, "GeodesicExact-vs-Ellipsoid-area", GE.EllipsoidArea(), L.Area(), TOL_XCLASS, F0); }
    Rhumb RE(a, f, true);
    rel_check(ctx, ek, "Rhumb(exact)::EllipsoidArea", RE.EllipsoidArea(), L.Area(), TOL_XCLASS, F0);
    if (v.small) {
      Geodesic G(a, f); Rhumb R(a, f, false);
      rel_check(ctx, ek, "Geodesic::EllipsoidArea", G.EllipsoidArea(), L.Area(), TOL_XCLASS, F0);
      rel_check(ctx, ek, "Rhumb(series)::EllipsoidArea", R.EllipsoidArea(), L.Area(), TOL_XCLASS, F0);
      double s12; G.Inverse(0, 0, 90, 0, s12); rel_check(ctx, ek, "Geodesic::Inverse(0,0,90,0)", s12, L.QuarterMeridian(), TOL_XCLASS, F0);
    } else ctx.list("cross_class_skipped", std::string(v.d->name) + ": series classes Geodesic, Rhumb(series), TransverseMercator (documented for small flattening only)");
  }
  std::vector<double> lats{0, 1e-10, 15, 30, 45, 60, 89, 89.99999, 90};
  if (thorough) { for (double x : {1e-300, 1e-5, 5.0, 75.0, 85.0, 89.9, 89.999999999}) lats.push_back(x);
                  for (double x : {1e-100, 1e-3, 0.1, 1.0, 10.0, 20.0, 25.0, 35.0, 40.0, 50.0, 55.0, 65.0, 70.0, 80.0, 87.0, 88.0, 89.5, 89.99, 89.999, 89.9999999}) lats.push_back(x); }
  const double azis[] = {0, 30, 45, 90, -120};
  const double a = v.a, f = v.f;
  TransverseMercator* tm = v.small ? new TransverseMercator(a, f, 1.0) : nullptr;
  TransverseMercatorExact* tme = (f > 0 && f <= 0.1) ? new TransverseMercatorExact(a, f, 1.0) : nullptr;
  LambertConformalConic* merc = nullptr; AlbersEqualArea* cea = nullptr;
  if (strcmp(v.reg, "extreme")) {
    try { merc = new LambertConformalConic(a, f, 0.0, 1.0); } catch (const std::exception&) {}
    try { cea = new AlbersEqualArea(a, f, 0.0, 1.0); } catch (const std::exception&) {}
  } else ctx.list("cross_class_skipped", std::string(v.d->name) + ": LambertConformalConic / AlbersEqualArea (their accuracy is documented for terrestrial ellipsoids)");
  for (double l0 : lats) for (int s = 1; s >= -1; s -= 2) {
    if (s < 0 && l0 == 0) continue;
    Ctx::Case cs(ctx);
    double lat = s * l0;
    std::string key = ek + " lat " + fx(lat);
    Q t = merid::tand(lat), sp, cp; merid::sincosd(lat, sp, cp);
    // latitude conversions in degrees (accuracy of the angle, relative for small angles)
    struct { const char* name; int aux; double got, back; } cv[5] = {
      {"ParametricLatitude", merid::BETA, L.ParametricLatitude(lat), 0}, {"GeocentricLatitude", merid::THETA, L.GeocentricLatitude(lat), 0},
      {"RectifyingLatitude", merid::MU, L.RectifyingLatitude(lat), 0}, {"AuthalicLatitude", merid::XI, L.AuthalicLatitude(lat), 0},
      {"ConformalLatitude", merid::CHI, L.ConformalLatitude(lat), 0}};
    cv[0].back = L.InverseParametricLatitude(cv[0].got); cv[1].back = L.InverseGeocentricLatitude(cv[1].got); cv[2].back = L.InverseRectifyingLatitude(cv[2].got);
    cv[3].back = L.InverseAuthalicLatitude(cv[3].got); cv[4].back = L.InverseConformalLatitude(cv[4].got);
    for (auto& c : cv) {
      Q ref = merid::atand(merid::to_aux(E, c.aux, t));
      if (std::fabs(lat) == 90) ref = lat;
      Q fl = 2 * (Q)DMIN;
      // forward: an angle in degrees near 90 cannot carry more than an absolute eps*90; the tolerance is relative to the angle
      rel_check(ctx, key, c.name, c.got, ref, TOL_ELL_LAT, F0, fl);
      // inverse applied to the library's own forward value: the rounding of that value (relative eps of an angle in degrees)
      // is magnified by d lat/d aux = 1/D; D from a symmetric difference of the definition.  Where the forward value has
      // saturated (D -> 0, e.g. the conformal latitude of a b/a = 100 ellipsoid is 90 deg to working precision) nothing
      // can be recovered and the comparison is skipped
      if (lat != 0 && std::fabs(lat) != 90) {
        Q h = 1e-7Q, tp = merid::tand(lat) * (1 + h), tm = merid::tand(lat) * (1 - h);
        Q D = (merid::atand(merid::to_aux(E, c.aux, tp)) - merid::atand(merid::to_aux(E, c.aux, tm))) / (merid::atand(tp) - merid::atand(tm));
        Q amp = fabsq(ref) / fabsq(D) / fabsq((Q)lat);           // relative magnification
        if (!(amp < 1e6Q)) { ctx.count("inverse_latitude_saturated_not_compared"); continue; }
        rel_check(ctx, key, (std::string("Inverse") + c.name).c_str(), c.back, (Q)lat, TOL_ELL_LAT * (1 + (double)amp), F0, fl);
      } else if (!(c.back == lat)) { mc::Fields F = F0; F.push_back({"kind", std::string("Inverse") + c.name}); cfail(ctx, key + " inv-fixed", std::string("Inverse") + c.name + "(" + fmt(c.got) + ") = " + fx(c.back) + ": 0 and +-90 must be fixed", F); }
    }
    // isometric latitude (degrees); +-90 -> large finite value that inverts to +-90
    {
      double psi = L.IsometricLatitude(lat), back = L.InverseIsometricLatitude(psi);
      if (std::fabs(lat) == 90) {
        // the defining expression is +-infinity; Ellipsoid.hpp promises "some large but finite value such that InverseIsometricLatitude
        // returns the original value": the library returns +-inf (which does invert to +-90).  Both are accepted.
        if (std::isinf(psi)) ctx.note("Ellipsoid::IsometricLatitude(+-90) returns +-infinity although Ellipsoid.hpp documents a 'large but finite value'; the value equals the defining expression and inverts to +-90, so it is accepted (documentation discrepancy, reported)");
        if (!(!std::isnan(psi) && std::fabs(psi) > 1000 && (psi > 0) == (lat > 0) && back == lat)) cfail(ctx, key + " iso90", "IsometricLatitude(+-90) = " + fx(psi) + ", inverse " + fx(back) + " (must be +-inf or a large value inverting to +-90)", {{"ellipsoid", v.d->name}, {"kind", "isometric-pole"}});
      } else {
        Q ref = (lat < 0 ? -1 : 1) * merid::psi_iso(E, fabsq(t)) * 180 / q128::pi();
        if (lat == 0) ref = 0;
        rel_check(ctx, key, "IsometricLatitude", psi, ref, TOL_ELL_LAT, F0, 2 * (Q)DMIN);
        { // d lat/d psi = cos(lat) nu/rho-ish: the rounding of psi (relative eps) moves lat by eps |psi| (d lat/d psi)
          Q h = 1e-7Q, tp = fabsq(t) * (1 + h), tm = fabsq(t) * (1 - h);
          Q D = (merid::psi_iso(E, tp) - merid::psi_iso(E, tm)) * 180 / q128::pi() / (merid::atand(tp) - merid::atand(tm));
          Q amp = lat == 0 ? (Q)0 : fabsq(ref) / fabsq(D) / fabsq((Q)lat);
          rel_check(ctx, key, "InverseIsometricLatitude", back, (Q)lat, TOL_ELL_LAT * (1 + (double)amp), F0, 2 * (Q)DMIN); }
        if (merc) {
          double x, y; merc->Forward(0, lat, 0, x, y);
          rel_check(ctx, key, "Mercator-y(LambertConformalConic,stdlat=0)", y, (Q)a * merid::psi_iso(E, fabsq(t)) * (lat < 0 ? -1 : 1), TOL_XCLASS, F0, (Q)2e-8 * (v.a / A0) * 0 + 2 * (Q)DMIN);
        }
      }
    }
    // lengths and radii
    Q mref = merid::meridian_distance(E, t);
    rel_check(ctx, key, "MeridianDistance", L.MeridianDistance(lat), mref, TOL_ELL, F0, 2 * (Q)DMIN);
    rel_check(ctx, key, "CircleRadius", L.CircleRadius(lat), merid::circle_radius(E, sp, cp), TOL_ELL_LAT, F0, (Q)EPS * E.a * (std::fabs(lat) == 90 ? 0 : 0));
    rel_check(ctx, key, "CircleHeight", L.CircleHeight(lat), merid::circle_height(E, sp, cp), TOL_ELL, F0, 2 * (Q)DMIN);
    rel_check(ctx, key, "MeridionalCurvatureRadius", L.MeridionalCurvatureRadius(lat), merid::rho(E, sp, cp), TOL_ELL_CURV * (double)(1 + fabsq(E.e2) / E.e2m * (E.e2 > 0 ? 1 : 0)), F0);
    rel_check(ctx, key, "TransverseCurvatureRadius", L.TransverseCurvatureRadius(lat), merid::nu(E, sp, cp), TOL_ELL_CURV * (double)(1 + fabsq(E.e2) / E.e2m * (E.e2 > 0 ? 1 : 0)), F0);
    for (double az : azis) {
      Q sa, ca; merid::sincosd(az, sa, ca);
      rel_check(ctx, key + " azi " + fmt(az), "NormalCurvatureRadius", L.NormalCurvatureRadius(lat, az), merid::normal_section(E, sp, cp, sa, ca), TOL_ELL_CURV * (double)(1 + fabsq(E.e2) / E.e2m * (E.e2 > 0 ? 1 : 0)), F0);
    }
    // other classes: central-meridian northing of transverse Mercator = meridian distance; cylindrical equal-area y = c^2 sin(xi)/a
    if (tm) { double x, y; tm->Forward(0, lat, 0, x, y); rel_check(ctx, key, "TransverseMercator-central-meridian-y", y, mref, TOL_XCLASS, F0, (Q)TOL_TM_NM * 1e-9Q); }
    if (tme) { double x, y; tme->Forward(0, lat, 0, x, y); rel_check(ctx, key, "TransverseMercatorExact-central-meridian-y", y, mref, TOL_XCLASS, F0, (Q)TOL_TM_NM * 1e-9Q); }
    if (cea && std::fabs(lat) < 90) {
      double x, y; cea->Forward(0, lat, 0, x, y);
      Q txi = merid::to_aux(E, merid::XI, t), sxi = txi / hypotq(1, txi);
      rel_check(ctx, key, "CylindricalEqualArea-y(AlbersEqualArea,stdlat=0)", y, merid::authalic_radius2(E) * sxi / E.a, TOL_XCLASS, F0, 2 * (Q)DMIN);
    }
    if (ctx.want_sample()) ctx.sample(key);
  }
  // inverse isometric latitude far beyond the range reached from latitudes in degrees: tan(chi) = sinh(psi) is huge but finite up to
  // psi ~ 40700 degrees, then infinite; the answer is +-90 (to round-off) throughout
  for (double p0 : {2000.0, 10000.0, 20000.0, 20400.0, 25000.0, 30000.0, 40000.0, 40700.0, 50000.0, 1e5, INF}) for (int sg = 1; sg >= -1; sg -= 2) {
    Ctx::Case cs(ctx);
    double psi = sg * p0, got = L.InverseIsometricLatitude(psi);
    std::string key = ek + " InverseIsometricLatitude(" + fmt(psi) + ")";
    Q ref = 90;
    if (std::isfinite(p0)) { Q tchi = sinhq((Q)p0 * q128::pi() / 180); ref = merid::atand(merid::from_aux(E, merid::CHI, tchi)); }
    double tl = std::sinh(p0 * 0.017453292519943295);          // the tangent the library feeds to the chi -> phi conversion
    mc::Fields F = F0; F.push_back({"ell_regime", v.reg}); F.push_back({"tan_class", tan_class_for(tl, merid::CHI, 0, false)}); F.push_back({"kind", "InverseIsometricLatitude-large"});
    double e = std::isnan(got) ? INF : (double)fabsq((Q)std::fabs(got) - ref) / 90;
    cworst(ctx, std::string("ellipsoid.InverseIsometricLatitude-large_err_over_tol.") + v.reg, e / (TOL_ELL_LAT * EPS), [&] { return key; });
    if (!(e <= TOL_ELL_LAT * EPS) || (got > 0) != (psi > 0)) cfail(ctx, key, "InverseIsometricLatitude(" + fmt(psi) + ") = " + fx(got) + " but the definition gives " + qs(sg * ref), F);
  }
  delete tm; delete tme; delete merc; delete cea;
}
// static flattening/eccentricity conversions on an alphabet of shapes
// scalar measures on a flattening alphabet dense enough (1-2-5 below 0.01, steps of 0.01 up to 0.1, then coarser; both signs) to enter
// every band in which a shortcut (truncated series below a threshold in n) could be taken; cheap, no inverse conversions
static void check_ellipsoid_dense(Ctx& ctx, double f) {
  Ctx::Case cs(ctx);
  const double a = A0;
  merid::Ell E = merid::ell(a, f); Ellipsoid L(a, f); AuxLatitude A(a, f);
  const char* reg = ell_regime(f); g_reg = reg;
  const double TOL = C15tol("ellipsoid.measure", reg), TOLC = C15tol("ellipsoid.curvature", reg);
  char nm[40]; snprintf(nm, sizeof nm, "f=%.12g", f);
  mc::Fields F0{{"ellipsoid", nm}, {"ell_regime", reg}};
  std::string key = std::string("ellipsoid-dense ") + nm;
  rel_check(ctx, key, "dense.QuarterMeridian", L.QuarterMeridian(), E.M, TOL, F0);
  rel_check(ctx, key, "dense.Area", L.Area(), merid::area(E), TOL, F0);
  rel_check(ctx, key, "dense.Volume", L.Volume(), merid::volume(E), TOL, F0);
  rel_check(ctx, key, "dense.RectifyingRadius(exact)", A.RectifyingRadius(true), merid::rectifying_radius(E), C15tol("aux.radii", reg), F0);
  rel_check(ctx, key, "dense.AuthalicRadiusSquared(exact)", A.AuthalicRadiusSquared(true), merid::authalic_radius2(E), C15tol("aux.radii", reg), F0);
  if (std::fabs(f) <= 1 / 150.0 * (1 + 1e-12)) {           // the series is claimed for |f| <= 1/150
    rel_check(ctx, key, "dense.RectifyingRadius(series)", A.RectifyingRadius(false), merid::rectifying_radius(E), C15tol("aux.radii", reg), F0);
    rel_check(ctx, key, "dense.AuthalicRadiusSquared(series)", A.AuthalicRadiusSquared(false), merid::authalic_radius2(E), C15tol("aux.radii", reg), F0);
  }
  for (double lat : {30.0, 60.0, 89.0, -45.0}) {
    Q t = merid::tand(lat), sp, cp; merid::sincosd(lat, sp, cp);
    std::string k2 = key + " lat " + fmt(lat);
    rel_check(ctx, k2, "dense.MeridianDistance", L.MeridianDistance(lat), merid::meridian_distance(E, t), TOL, F0);
    rel_check(ctx, k2, "dense.CircleRadius", L.CircleRadius(lat), merid::circle_radius(E, sp, cp), C15tol("ellipsoid.latitude", reg), F0);
    rel_check(ctx, k2, "dense.CircleHeight", L.CircleHeight(lat), merid::circle_height(E, sp, cp), TOL, F0);
    const double cf = (double)(1 + fabsq(E.e2) / E.e2m * (E.e2 > 0 ? 1 : 0));
    rel_check(ctx, k2, "dense.MeridionalCurvatureRadius", L.MeridionalCurvatureRadius(lat), merid::rho(E, sp, cp), TOLC * cf, F0);
    rel_check(ctx, k2, "dense.TransverseCurvatureRadius", L.TransverseCurvatureRadius(lat), merid::nu(E, sp, cp), TOLC * cf, F0);
  }
  if (ctx.want_sample()) ctx.sample(key);
}

static void check_shape_conversions(Ctx& ctx) {
  g_reg = "";
  const double TOL_SHAPE = C15tol("ellipsoid.shape", "*");
  const double fs[] = {-99, -1, -0.01, -1 / 150.0, -1e-10, 0, 1e-300, 1e-10, 1 / 298.257223563, 1 / 150.0, 0.01, 0.5, 0.99, 1 - 1e-10};
  // definitions, written without cancellation (log1p/expm1) so that tiny and near-limiting shapes keep their accuracy
  auto fwd = [](int i, Q f) -> Q {
    Q b = 1 - f;                       // a = 1
    switch (i) { case 0: return f / b; case 1: return f / (2 - f); case 2: return f * (2 - f); case 3: return f * (2 - f) / (b * b); default: return f * (2 - f) / (1 + b * b); } };
  auto inv = [](int i, Q x) -> Q {     // b/a from the quantity, then f = 1 - b/a
    switch (i) {
    case 0: return x / (1 + x);                                  // f' = (a-b)/b
    case 1: return 2 * x / (1 + x);                              // n = (a-b)/(a+b)
    case 2: return -expm1q(log1pq(-x) / 2);                      // e^2:   b/a = sqrt(1-e^2)
    case 3: return -expm1q(-log1pq(x) / 2);                      // e'^2:  b/a = 1/sqrt(1+e'^2)
    default: return -expm1q((log1pq(-x) - log1pq(x)) / 2); } };  // e''^2: (b/a)^2 = (1-e''^2)/(1+e''^2)
  const char* names[5] = {"SecondFlattening", "ThirdFlattening", "EccentricitySq", "SecondEccentricitySq", "ThirdEccentricitySq"};
  for (double f : fs) {
    Ctx::Case cs(ctx);
    std::string key = "shape f " + fx(f);
    mc::Fields F0{{"f", fmt(f)}};
    double lf[5] = {Ellipsoid::FlatteningToSecondFlattening(f), Ellipsoid::FlatteningToThirdFlattening(f), Ellipsoid::FlatteningToEccentricitySq(f),
                    Ellipsoid::FlatteningToSecondEccentricitySq(f), Ellipsoid::FlatteningToThirdEccentricitySq(f)};
    for (int i = 0; i < 5; ++i) {
      double x = lf[i];
      double back = i == 0 ? Ellipsoid::SecondFlatteningToFlattening(x) : i == 1 ? Ellipsoid::ThirdFlatteningToFlattening(x) : i == 2 ? Ellipsoid::EccentricitySqToFlattening(x)
                  : i == 3 ? Ellipsoid::SecondEccentricitySqToFlattening(x) : Ellipsoid::ThirdEccentricitySqToFlattening(x);
      // relative condition numbers |x g'(x)/g(x)| of the two maps from symmetric differences of the definitions
      Q h = 1e-10Q;
      Q kf = f == 0 ? (Q)1 : fabsq((fwd(i, (Q)f * (1 + h)) - fwd(i, (Q)f * (1 - h))) / (2 * h * fwd(i, (Q)f)));
      Q ki = x == 0 ? (Q)1 : fabsq((inv(i, (Q)x * (1 + h)) - inv(i, (Q)x * (1 - h))) / (2 * h * inv(i, (Q)x)));
      rel_check(ctx, key, (std::string("FlatteningTo") + names[i]).c_str(), x, fwd(i, (Q)f), TOL_SHAPE * (1 + (double)kf), F0, 2 * (Q)DMIN);
      if (isnanq(ki)) { ctx.count("shape_inverse_at_domain_boundary_not_compared"); continue; }       // the forward value rounded onto the boundary of the domain (e^2 = 1)
      rel_check(ctx, key, (std::string(names[i]) + "ToFlattening").c_str(), back, inv(i, (Q)x), TOL_SHAPE * (1 + (double)ki), F0, 2 * (Q)DMIN);
    }
  }
}

// ------------------------------------------------------------------ elliptic integrals
static const ellf::Kind KINDS[6] = {ellf::kF, ellf::kE, ellf::kD, ellf::kPi, ellf::kG, ellf::kH};
static const char* KN[6] = {"F", "E", "D", "Pi", "G", "H"};
struct Obj { std::string name; double k2, a2, kp2, ap2; bool four; };
static double lib_complete(const EllipticFunction& e, int k) { switch (k) { case 0: return e.K(); case 1: return e.E(); case 2: return e.D(); case 3: return e.Pi(); case 4: return e.G(); default: return e.H(); } }
static double lib_inc(const EllipticFunction& e, int k, double phi) { switch (k) { case 0: return e.F(phi); case 1: return e.E(phi); case 2: return e.D(phi); case 3: return e.Pi(phi); case 4: return e.G(phi); default: return e.H(phi); } }
static double lib_inc3(const EllipticFunction& e, int k, double s, double c, double d) { switch (k) { case 0: return e.F(s, c, d); case 1: return e.E(s, c, d); case 2: return e.D(s, c, d); case 3: return e.Pi(s, c, d); case 4: return e.G(s, c, d); default: return e.H(s, c, d); } }
static double lib_delta(const EllipticFunction& e, int k, double s, double c, double d) { switch (k) { case 0: return e.deltaF(s, c, d); case 1: return e.deltaE(s, c, d); case 2: return e.deltaD(s, c, d); case 3: return e.deltaPi(s, c, d); case 4: return e.deltaG(s, c, d); default: return e.deltaH(s, c, d); } }

struct EllCache {
  ellf::Mod m; Q C[6]; bool haveC[6] = {false, false, false, false, false, false};
  std::map<std::pair<int, std::pair<uint64_t, uint64_t>>, Q> inc;       // (kind, |r| as two doubles) -> I0(|r|)
  Q complete(int k) { if (!haveC[k]) { C[k] = ellf::complete(KINDS[k], m); haveC[k] = true; } return C[k]; }
  Q inc0(int k, Q r) {
    double hi = (double)r, lo = (double)(r - (Q)hi);
    auto key = std::make_pair(k, std::make_pair(mc::bits(hi), mc::bits(lo)));
    auto it = inc.find(key); if (it != inc.end()) return it->second;
    Q v = r >= q128::pi() / 2 ? complete(k) : ellf::incomplete0(KINDS[k], m, r); inc[key] = v; return v;
  }
  // I(phi) for any real phi; returns inf when periods of a divergent complete integral are involved
  Q at(int k, Q phi) {
    Q n = rintq(phi / q128::pi()), r = phi - n * q128::pi();
    Q val = inc0(k, fabsq(r)); if (r < 0) val = -val;
    if (n != 0) { Q c = complete(k); if (isinfq(c)) return n > 0 ? ellf::inf() : -ellf::inf(); val += 2 * n * c; }
    return val;
  }
};

static void check_ellint(Ctx& ctx, const Obj& o, bool thorough) {
  EllipticFunction e = o.four ? EllipticFunction(o.k2, o.a2, o.kp2, o.ap2) : EllipticFunction(o.k2, o.a2);
  EllCache c; c.m = o.four ? ellf::mod4(o.k2, o.a2, o.kp2, o.ap2) : ellf::mod(o.k2, o.a2);
  const ellf::Mod& m = c.m;
  const bool bothtiny = o.four && o.kp2 > 0 && o.kp2 < 1e-5 && o.ap2 > 0 && o.ap2 < 1e-5;
  // regime: moderate = k2, alpha2 in [-1, 0.99]; tiny-complement = 0 < k'2 or alpha'2 <= 1e-15 (reachable only with the
  // four-argument constructor); alpha2-large-negative = alpha2 <= -10 (Pi, G, H are formed as K + alpha2 RJ/3 with heavy
  // cancellation there); alpha2-near-one = 0 < alpha'2 <= 1e-5 (RJ with p << x,y,z near phi = pi/2); extreme = everything else of the lattice (k2 = -1e4, 1 - 1e-12, 1; alpha2 = 1 - 1e-12, 1)
  auto modr = [](double x) { return x >= -1 && x <= 0.99; };
  const double kp2v = o.four ? o.kp2 : 1 - o.k2, ap2v = o.four ? o.ap2 : 1 - o.a2;
  const std::string reg = (kp2v > 0 && kp2v < 1e-100) ? "kp2-below-1e-100" : (kp2v > 0 && kp2v < 1e-24) ? "kp2-below-1e-24" : ((kp2v > 0 && kp2v <= 1e-15) || (ap2v > 0 && ap2v <= 1e-15)) ? "tiny-complement" :
    (modr(o.k2) && modr(o.a2) ? "moderate" : (o.a2 <= -10 ? "alpha2-large-negative" : (ap2v > 0 && ap2v <= 1e-5 ? "alpha2-near-one" : "extreme")));
  auto tolk = [&](int k) { return C15tol(std::string("ellint.") + KN[k], reg); };
  const double TOL_JACOBI = C15tol("jacobi", reg), TOL_EINV = C15tol("ellint.Einv", reg), TOL_ED = C15tol("ellint.Ed", reg);
  mc::Fields F0{{"k2", fmt(o.k2)}, {"alpha2", fmt(o.a2)}, {"ctor", o.four ? "4-arg" : "2-arg"}, {"regime", reg},
                {"complements", std::string(kp2v > 0 && kp2v < 1e-15 && ap2v > 0 && ap2v < 1e-15 ? "both-below-eps" : (kp2v > 0 && kp2v < 1e-100 ? "kp2-below-1e-100" : (kp2v > 0 && kp2v < 1e-24 ? "kp2-below-1e-24" :
                  (o.four && kp2v > 0 && kp2v < 1e-5 && ap2v > 0 && ap2v < 1e-5 ? "both-below-1e-5" : "ordinary"))))}};
  auto FF = [&](const std::string& kind, const char* fn) { mc::Fields F = F0; F.push_back({"fn", fn}); F.push_back({"kind", kind}); return F; };
  const std::string ok = "ellint " + o.name;
  const bool kdep_only_done = o.a2 != 0;     // F, E, D do not depend on alpha2: compare them only on the alpha2 = 0 objects, still CALL them everywhere for state checks
  const Q hp = q128::pi() / 2;
  // ---- object state: inspectors and Reset
  {
    Ctx::Case cs(ctx);
    if (!(e.k2() == o.k2 && e.alpha2() == o.a2 && e.kp2() == (o.four ? o.kp2 : 1 - o.k2) && e.alphap2() == (o.four ? o.ap2 : 1 - o.a2)))
      cfail(ctx, ok + " inspectors", "k2/kp2/alpha2/alphap2 inspectors do not return the constructor arguments", FF("inspectors", "-"));
    EllipticFunction r(0.3, -0.7);
    if (o.four) r.Reset(o.k2, o.a2, o.kp2, o.ap2); else r.Reset(o.k2, o.a2);
    bool same = true;
    for (int k = 0; k < 6; ++k) same = same && (mc::same_bits(lib_complete(r, k), lib_complete(e, k)) || (std::isnan(lib_complete(r, k)) && std::isnan(lib_complete(e, k))));
    same = same && mc::same_bits(r.F(0.5), e.F(0.5)) && mc::same_bits(r.Pi(0.5), e.Pi(0.5)) && mc::same_bits(r.H(0.5), e.H(0.5)) && mc::same_bits(r.G(0.5), e.G(0.5));
    if (!same) cfail(ctx, ok + " reset", "object after Reset() differs from a freshly constructed one", FF("reset", "-"));
    double ke = e.KE(); Q keref = isinfq(c.complete(0)) ? ellf::inf() : m.k2 * c.complete(2);
    if (!(isinfq(keref) ? (std::isinf(ke) || o.k2 == 0) : std::fabs(ke - (double)keref) <= tolk(2) * EPS * std::fabs((double)keref)))
      cfail(ctx, ok + " KE", "KE() = " + fx(ke) + " but K - E = k^2 D = " + qs(keref), FF("complete-value", "KE"));
  }
  // ---- complete integrals
  for (int k = 0; k < 6; ++k) {
    Ctx::Case cs(ctx);
    double got = lib_complete(e, k); Q ref = c.complete(k);
    std::string key = ok + " complete " + KN[k];
    double err = isinfq(ref) ? (std::isinf(got) && got > 0 ? 0 : INF) : (std::isnan(got) ? INF : (double)(fabsq((Q)got - ref) / fabsq(ref)));
    cworst(ctx, std::string("ellint.complete_relerr_over_tol.") + KN[k] + "." + reg + (bothtiny && k == 4 ? "/both-complements-small" : ""), err / (tolk(k) * EPS), [&] { return key; });
    if (!(err <= tolk(k) * EPS)) cfail(ctx, key, std::string(KN[k]) + "() = " + fx(got) + " but the defining integral is " + qs(ref) + " (" + fmt(err / EPS) + " eps)", FF("complete-value", KN[k]));
  }
  // ---- incomplete integrals at an amplitude
  const double PI2 = 1.5707963267948966;
  std::vector<double> phis{0, 1e-8, 0.5, PI2, PI2 - 1e-9, PI2 + 1e-9, 3, 20};
  if (thorough) for (double x : {1e-300, 1e-3, 1.0, 1.5, PI2 - 1e-5, PI2 + 1e-5, 2.0, 3.1415926535897931, 4.0, 6.2831853071795862, 7.5, 100.0,
                                 1e-100, 0.1, 1.2, PI2 - 1e-3, PI2 + 1e-3, 2.5, 4.7123889803846897, 10.0, 31.4, 50.0, 314.15926535897933, 1000.0, 12345.678}) phis.push_back(x);   // up to ~3900 periods
  for (int k = 0; k < 6; ++k) for (double p0 : phis) for (int s = 1; s >= -1; s -= 2) {
    if (s < 0 && p0 == 0) continue;
    Ctx::Case cs(ctx);
    double phi = s * p0;
    std::string key = ok + " " + KN[k] + "(phi = " + fx(phi) + ")";
    double got = lib_inc(e, k, phi);
    if (k < 3 && kdep_only_done) continue;
    Q ref = c.at(k, (Q)phi);
    if (isinfq(ref)) {
      // beyond a pole of a divergent integral (or exactly on it): the documentation is silent on the value
      ctx.count("ellint_divergent_not_compared"); ctx.list("doc_silent", "incomplete integrals at |phi| >= pi/2 when the complete integral diverges (k2 = 1 or alpha2 = 1)");
      continue;
    }
    // condition-aware tolerance: the library works from sn = sin(phi), cn = cos(phi), each with relative error eps; a relative
    // eps in cn moves the amplitude by eps |cot phi|, a multiple-period amplitude adds eps |phi| (2 C/pi)
    Q f = ellf::deriv(KINDS[k], m, (Q)phi), sq, cq; sincosq((Q)phi, &sq, &cq);
    Q cond = fabsq(ref) + fabsq(f) * fabsq(cq) * fabsq(sq);
    if (std::fabs(phi) >= 3.14159) cond += fabsq((Q)phi) * c.complete(k) / hp;
    double err = std::isnan(got) ? INF : (double)((fabsq((Q)got - ref) - 2 * (Q)DMIN) / cond); if (err < 0) err = 0;
    if (ref == 0) err = got == 0 ? 0 : INF;
    cworst(ctx, std::string("ellint.incomplete_err_over_tol.") + KN[k] + "." + reg + (bothtiny && k == 4 ? "/both-complements-small" : ""), err / (tolk(k) * EPS), [&] { return key; });
    if (!(err <= tolk(k) * EPS)) cfail(ctx, key, std::string(KN[k]) + "(phi) = " + fx(got) + " but the defining integral is " + qs(ref) + " (" + fmt(err / EPS) + " eps of the conditioned magnitude " + qs(cond) + ")", FF("incomplete-value", KN[k]));
    // odd in phi
    if (s > 0 && p0 != 0) { double neg = lib_inc(e, k, -phi); if (!(neg == -got)) cfail(ctx, key + " odd", "not odd in phi: " + fx(got) + " vs " + fx(neg), FF("odd", KN[k])); }
    if (ctx.want_sample()) ctx.sample(key + " = " + fmt(got));
  }
  // ---- (sn, cn, dn) forms and the periodic parts, amplitudes in (-pi, pi]
  std::vector<double> amps{0, 1e-8, 0.5, 1.0, PI2 - 1e-9, PI2, PI2 + 1e-9, 2.5, 3.0, 3.1415926535897931};
  if (thorough) for (double x : {1e-300, 1e-3, 0.1, 0.25, 0.75, 1.25, 1.5, PI2 - 1e-3, PI2 - 1e-6, PI2 + 1e-6, PI2 + 1e-3, 1.75, 2.0, 2.25, 2.75, 3.14}) amps.push_back(x);
  for (int k = 0; k < 6; ++k) for (double p0 : amps) for (int s = 1; s >= -1; s -= 2) {
    if (s < 0 && (p0 == 0 || p0 > 3.1415)) continue;
    if (k < 3 && kdep_only_done) continue;
    Ctx::Case cs(ctx);
    double phi = s * p0, sn = std::sin(phi), cn = std::cos(phi), dn = e.Delta(sn, cn);
    std::string key = ok + " " + KN[k] + "(sn,cn,dn) phi = " + fx(phi);
    Q pq = atan2q((Q)sn, (Q)cn);                       // the amplitude the arguments actually describe
    double got = lib_inc3(e, k, sn, cn, dn);
    Q ref = c.at(k, pq);
    if (!isinfq(ref)) {
      Q f = ellf::deriv(KINDS[k], m, pq), sq, cq; sincosq(pq, &sq, &cq);
      Q cond = fabsq(ref) + fabsq(f) * fabsq(cq) * fabsq(sq) + (fabsq(pq) > hp ? 2 * c.complete(k) : 0);
      double err = std::isnan(got) ? INF : (double)((fabsq((Q)got - ref) - 2 * (Q)DMIN) / cond); if (err < 0) err = 0;
      if (ref == 0) err = got == 0 ? 0 : INF;
      cworst(ctx, std::string("ellint.sncndn_form_err_over_tol.") + KN[k] + "." + reg + (bothtiny && k == 4 ? "/both-complements-small" : ""), err / (tolk(k) * EPS), [&] { return key; });
      if (!(err <= tolk(k) * EPS)) cfail(ctx, key, std::string(KN[k]) + "(sn,cn,dn) = " + fx(got) + " but the defining integral at atan2(sn,cn) is " + qs(ref) + " (" + fmt(err / EPS) + " eps)", FF("sncndn-form-value", KN[k]));
    } else ctx.count("ellint_divergent_not_compared");
    // periodic part  delta X = (pi/2) X(phi)/X(pi/2) - phi, period pi
    Q Cc = c.complete(k);
    if (!isinfq(Cc)) {
      double dg = lib_delta(e, k, sn, cn, dn);
      Q pr = pq; if (cn < 0 || (cn == 0 && std::signbit(cn))) pr = atan2q(-(Q)sn, -(Q)cn);     // folded to [-pi/2, pi/2]
      Q Ir = c.at(k, pr), dref = hp * Ir / Cc - pr;
      Q f = ellf::deriv(KINDS[k], m, pr), sq, cq; sincosq(pr, &sq, &cq);
      Q cond = fabsq(pr) + hp * fabsq(Ir) / Cc + hp / Cc * fabsq(f) * fabsq(cq) * fabsq(sq);
      double err = std::isnan(dg) ? INF : (double)((fabsq((Q)dg - dref) - 2 * (Q)DMIN) / cond); if (err < 0) err = 0;
      if (cond == 0) err = dg == 0 ? 0 : INF;
      cworst(ctx, std::string("ellint.delta_err_over_tol.") + KN[k] + "." + reg + (bothtiny && k == 4 ? "/both-complements-small" : ""), err / (tolk(k) * EPS), [&] { return key; });
      if (!(err <= tolk(k) * EPS)) cfail(ctx, key + " delta", std::string("delta") + KN[k] + " = " + fx(dg) + " but (pi/2) X(phi)/X(pi/2) - phi = " + qs(dref) + " (" + fmt(err / EPS) + " eps of " + qs(cond) + ")", FF("periodic-part", KN[k]));
      // period pi: (sn, cn) -> (-sn, -cn)
      double dg2 = lib_delta(e, k, -sn, -cn, dn);
      if (!(std::fabs(dg2 - dg) <= tolk(k) * EPS * (double)cond)) cfail(ctx, key + " period", std::string("delta") + KN[k] + " is not pi-periodic: " + fx(dg) + " vs " + fx(dg2), FF("periodicity", KN[k]));
    }
  }
  if (o.a2 != 0) return;          // the remaining functions depend on k only
  // ---- Ed (degrees)
  for (double d : {0.0, 1e-9, 30.0, 89.9999, 90.0, 135.0, 180.0, 359.0, 360.0, 540.0, 725.5, -30.0, -90.0, -450.0, -1000.0}) {
    Ctx::Case cs(ctx);
    std::string key = ok + " Ed(" + fx(d) + ")";
    double got = e.Ed(d);
    Q nq = rintq((Q)d / 180), rd = (Q)d - 180 * nq, r = rd * q128::pi() / 180;
    Q ref = c.inc0(1, fabsq(r)); if (r < 0) ref = -ref; ref += 2 * nq * c.complete(1);
    Q cond = fabsq(ref) + fabsq((Q)d) / 90 * c.complete(1) * 0 + fabsq(ellf::deriv(ellf::kE, m, r)) * fabsq(r);
    double err = (double)(fabsq((Q)got - ref) / (cond == 0 ? (Q)1 : cond));
    cworst(ctx, "ellint.Ed_err_over_tol." + reg, err / (TOL_ED * EPS), [&] { return key; });
    if (!(err <= TOL_ED * EPS)) cfail(ctx, key, "Ed = " + fx(got) + " but E(pi ang/180) = " + qs(ref) + " (" + fmt(err / EPS) + " eps)", FF("Ed-value", "Ed"));
  }
  // ---- Einv and deltaEinv
  {
    double Ec = e.E();
    std::vector<double> xs{0, 1e-8, 0.5, Ec * 0.999999999, Ec, 3, 20};
    if (thorough) for (double x : {1e-300, 1e-3, 0.9, Ec / 2, Ec * 1.000000001, 2 * Ec, 7.0, 100.0, 0.1, Ec * 0.9, Ec * 0.999, Ec * 0.999999, 3 * Ec, 4 * Ec, 10.0, 50.0, 1000.0, 12345.678}) xs.push_back(x);
    for (double x0 : xs) for (int s = 1; s >= -1; s -= 2) {
      if (s < 0 && x0 == 0) continue;
      Ctx::Case cs(ctx);
      double x = s * x0;
      std::string key = ok + " Einv(" + fx(x) + ")";
      double got = e.Einv(x);
      Q ref = ellf::Einv(m, (Q)x);
      Q sq, cq; sincosq(ref, &sq, &cq); Q dl = sqrtq(ellf::delta2(m, sq, cq));
      // d phi/d x = 1/Delta(phi): a relative eps in x, and in E(k), moves phi by eps |x|/Delta
      Q cond = fabsq(ref) + fabsq((Q)x) / dl;
      double err = std::isnan(got) ? INF : (double)(fabsq((Q)got - ref) / (cond == 0 ? (Q)1 : cond));
      if (dl == 0) { ctx.count("einv_singular_not_compared"); ctx.list("doc_silent", "Einv at x = E(k) (2n+1) for k = 1, where dE/dphi = 0"); }
      else {
        cworst(ctx, "ellint.Einv_err_over_tol." + reg, err / (TOL_EINV * EPS), [&] { return key; });
        if (!(err <= TOL_EINV * EPS)) cfail(ctx, key, "Einv = " + fx(got) + " but the inverse of the defining integral is " + qs(ref) + " (" + fmt(err / EPS) + " eps)", FF("Einv-value", "Einv"));
      }
      // E(Einv(x)) = x
      double back = e.E(got);
      Q gs, gc; sincosq((Q)got, &gs, &gc); Q dg = sqrtq(ellf::delta2(m, gs, gc));
      Q cb = fabsq((Q)x) + dg * fabsq((Q)got);
      double eb = std::isnan(back) ? INF : (double)(fabsq((Q)back - (Q)x) / (cb == 0 ? (Q)1 : cb));
      cworst(ctx, "ellint.E_of_Einv_err_over_tol." + reg, eb / (TOL_EINV * EPS), [&] { return key; });
      if (!(eb <= TOL_EINV * EPS)) cfail(ctx, key + " roundtrip", "E(Einv(x)) = " + fx(back) + " for x = " + fx(x) + " (" + fmt(eb / EPS) + " eps)", FF("E-Einv-roundtrip", "Einv"));
    }
    for (double tau : {0.0, 1e-8, 0.5, 1.0, PI2 - 1e-9, PI2, 2.5, -0.5, -1.5, -3.0}) {
      Ctx::Case cs(ctx);
      double st = std::sin(tau), ct = std::cos(tau);
      std::string key = ok + " deltaEinv tau = " + fx(tau);
      double got = e.deltaEinv(st, ct);
      Q tq = atan2q((Q)st, (Q)ct); if (ct < 0) tq = atan2q(-(Q)st, -(Q)ct);
      Q x = tq * c.complete(1) / hp, ph = ellf::Einv(m, x), ref = ph - tq;
      Q sq, cq; sincosq(ph, &sq, &cq); Q dl = sqrtq(ellf::delta2(m, sq, cq));
      if (dl == 0) { ctx.count("einv_singular_not_compared"); continue; }
      Q cond = fabsq(tq) + fabsq(ph) + fabsq(x) / dl;
      double err = std::isnan(got) ? INF : (double)(fabsq((Q)got - ref) / (cond == 0 ? (Q)1 : cond));
      cworst(ctx, "ellint.deltaEinv_err_over_tol." + reg, err / (TOL_EINV * EPS), [&] { return key; });
      if (!(err <= TOL_EINV * EPS)) cfail(ctx, key, "deltaEinv = " + fx(got) + " but Einv(tau 2E/pi) - tau = " + qs(ref) + " (" + fmt(err / EPS) + " eps)", FF("periodic-part", "deltaEinv"));
    }
  }
  // ---- Jacobi amplitude and elliptic functions
  {
    Q Kq = c.complete(0); double Kd = isinfq(Kq) ? 5.0 : (double)Kq;
    std::vector<double> xs{0, 1e-8, 0.5, Kd / 2, Kd * 0.999999, Kd, 3, 20};
    if (thorough) for (double x : {1e-300, 1e-3, 1.0, 2 * Kd, 3 * Kd, 7.0, 50.0, 0.1, Kd * 0.9, Kd * 0.999, 1.5 * Kd, 4 * Kd, 10.0, 100.0, 1000.0, 12345.678}) xs.push_back(x);
    for (double x0 : xs) for (int s = 1; s >= -1; s -= 2) {
      if (s < 0 && x0 == 0) continue;
      Ctx::Case cs(ctx);
      double x = s * x0;
      std::string key = ok + " am(" + fx(x) + ")";
      double sn = -7, cn = -7, dn = -7, am1 = e.am(x), am2 = e.am(x, sn, cn, dn);
      if (!mc::same_bits(am1, am2)) cfail(ctx, key + " overload", "am(x) and am(x,sn,cn,dn) return different amplitudes", FF("overload-differs", "am"));
      Q ref = ellf::am(m, (Q)x), sq, cq; sincosq(ref, &sq, &cq); Q dq = sqrtq(ellf::delta2(m, sq, cq));
      // d am/dx = dn: a relative eps in x moves am by eps |x| dn; K itself is known to relative eps: eps |am|
      Q tolam = (fabsq(ref) + fabsq((Q)x) * dq) * TOL_JACOBI * EPS + 2 * (Q)DMIN;
      double err = std::isnan(am1) ? INF : (double)(fabsq((Q)am1 - ref) / tolam);
      cworst(ctx, "jacobi.am_err_over_tol." + reg, err, [&] { return key; });
      if (!(err <= 1)) cfail(ctx, key, "am = " + fx(am1) + " but inversion of the defining integral gives " + qs(ref) + " (" + fmt(err * TOL_JACOBI) + " eps of the conditioned magnitude)", FF("am-value", "am"));
      auto chk3 = [&](const char* fn, double s_, double c_, double d_) {
        Q es = fabsq((Q)s_ - sq) / (fabsq(cq) * tolam + TOL_JACOBI * EPS * fabsq(sq) + 2 * (Q)DMIN), ec = fabsq((Q)c_ - cq) / (fabsq(sq) * tolam + TOL_JACOBI * EPS * fabsq(cq) + 2 * (Q)DMIN),
          // dn = sqrt(k'^2 + k^2 cn^2): the admissible error tolam of the amplitude moves |cn| by |sn| tolam; not linearised, because
          // near am = pi/2 with tiny k' the reference cn is far below tolam
          ed = fabsq((Q)d_ - dq) / (fabsq(m.k2) * ((fabsq(cq) + fabsq(sq) * tolam) * (fabsq(cq) + fabsq(sq) * tolam) - cq * cq) / (2 * (dq == 0 ? (Q)1 : dq)) + TOL_JACOBI * EPS * dq + 2 * (Q)DMIN);
        double w = dmax(dmax((double)es, (double)ec), (double)ed);
        if (std::isnan(s_) || std::isnan(c_) || std::isnan(d_)) w = INF;
        cworst(ctx, std::string("jacobi.") + fn + "_err_over_tol." + reg, w, [&] { return key; });
        if (!(w <= 1)) { mc::Fields F = FF("sncndn-value", fn); F.push_back({"x_class", std::fabs(x) < 1e-150 && x != 0 ? "tiny" : "ordinary"});
          cfail(ctx, key + " " + fn, std::string(fn) + ": sn,cn,dn = " + fx(s_) + "," + fx(c_) + "," + fx(d_) + " but the definition gives " + qs(sq) + "," + qs(cq) + "," + qs(dq), F); }
      };
      chk3("am(x,sn,cn,dn)", sn, cn, dn);
      if (o.k2 >= 0) { double s2, c2, d2; e.sncndn(x, s2, c2, d2); chk3("sncndn", s2, c2, d2); }      // documented for k in [0,1]
      if (ctx.want_sample()) ctx.sample(key + " = " + fmt(am1));
    }
  }
}


// ------------------------------------------------------------------ E2: Reset histories of one EllipticFunction object
// Explicit-state BFS over all sequences of Reset(k2, alpha2) / Reset(k2, alpha2, kp2, alphap2) up to the depth bound, starting from
// the default-constructed object, over a parameter alphabet that FORCES collisions (same k2 with alpha2 in {0, 0.3, -2, k2, 1},
// different k2 with the same alpha2, k2 = 0, k2 < 0, k2 = 1).  States are de-duplicated on the bit patterns of all eleven private
// fields.  Differential oracle, no tolerance: after every history the object must be bit for bit a freshly constructed
// EllipticFunction with the arguments of the LAST operation: fields, every accessor, incomplete integrals below and beyond pi/2,
// periodic parts, am, sncndn, Einv.  Plus the documented reductions Pi = K, G = E, H = K - D at alpha2 = 0 and G = K,
// Pi = E/k'^2 at alpha2 = k2.
struct EFKey { uint64_t w[11]; bool operator<(const EFKey& o) const { return memcmp(w, o.w, sizeof w) < 0; } bool operator==(const EFKey& o) const { return !memcmp(w, o.w, sizeof w); } };
static EFKey ef_key(const EllipticFunction& e) {
  EFKey k; int i = 0;
  for (double d : {e._k2, e._kp2, e._alpha2, e._alphap2, e._eps, e._kKc, e._eEc, e._dDc, e._pPic, e._gGc, e._hHc}) k.w[i++] = mc::bits(d);
  return k;
}
struct EFOp { double k2, a2, kp2, ap2; bool four; };
static std::string ef_opname(const EFOp& o) { return o.four ? "Reset(" + fmt(o.k2) + "," + fmt(o.a2) + "," + fmt(o.kp2) + "," + fmt(o.ap2) + ")" : "Reset(" + fmt(o.k2) + "," + fmt(o.a2) + ")"; }
static void ef_observe(const EllipticFunction& e, std::vector<double>& out) {
  out.clear();
  for (double v : {e.k2(), e.kp2(), e.alpha2(), e.alphap2(), e.K(), e.E(), e.D(), e.KE(), e.Pi(), e.G(), e.H()}) out.push_back(v);
  for (double phi : {0.5, 2.0, -4.0}) for (int k = 0; k < 6; ++k) out.push_back(lib_inc(e, k, phi));
  { double sn = std::sin(2.5), cn = std::cos(2.5), dn = e.Delta(sn, cn); for (int k = 0; k < 6; ++k) { out.push_back(lib_inc3(e, k, sn, cn, dn)); out.push_back(lib_delta(e, k, sn, cn, dn)); } }
  { double sn, cn, dn; out.push_back(e.am(0.7, sn, cn, dn)); out.push_back(sn); out.push_back(cn); out.push_back(dn); }
  if (e.k2() >= 0) { double sn, cn, dn; e.sncndn(0.7, sn, cn, dn); out.push_back(sn); out.push_back(cn); out.push_back(dn); }
  out.push_back(e.Einv(0.4)); out.push_back(e.Ed(100.0)); out.push_back(e.deltaEinv(std::sin(0.3), std::cos(0.3)));
}
static void check_ellint_history(Ctx& ctx, const std::vector<EFOp>& ops, int depth) {
  struct Node { EllipticFunction e; std::vector<int> hist; };
  std::map<EFKey, int> seen; std::vector<Node> frontier;
  { Node n{EllipticFunction(), {}}; seen[ef_key(n.e)] = 0; frontier.push_back(n); }
  uint64_t ntrans = 0; std::vector<double> o1, o2;
  for (int d = 1; d <= depth && !frontier.empty(); ++d) {
    std::vector<Node> next;
    for (const Node& n : frontier) for (int oi = 0; oi < (int)ops.size(); ++oi) {
      Ctx::Case cs(ctx);
      ++ntrans;
      const EFOp& o = ops[oi];
      Node m = n; m.hist.push_back(oi);
      if (o.four) m.e.Reset(o.k2, o.a2, o.kp2, o.ap2); else m.e.Reset(o.k2, o.a2);
      EllipticFunction F = o.four ? EllipticFunction(o.k2, o.a2, o.kp2, o.ap2) : EllipticFunction(o.k2, o.a2);
      std::string hs; for (int h : m.hist) hs += (hs.empty() ? "" : "; ") + ef_opname(ops[h]);
      std::string key = "history " + hs;
      mc::Fields F0{{"k2", fmt(o.k2)}, {"alpha2", fmt(o.a2)}, {"ctor", o.four ? "4-arg" : "2-arg"}, {"depth", fmti(d)}};
      auto FF = [&](const char* kind) { mc::Fields f = F0; f.push_back({"kind", kind}); return f; };
      ctx.sig(d * 2 + (o.four ? 1 : 0));
      EFKey km = ef_key(m.e), kf = ef_key(F);
      if (!(km == kf))
        cfail(ctx, key + " fields", "private state after the history differs from a fresh EllipticFunction of the last operation: K,E,D = " + fx(m.e._kKc) + "," + fx(m.e._eEc) + "," + fx(m.e._dDc) + " Pi,G,H = " + fx(m.e._pPic) + "," + fx(m.e._gGc) + "," + fx(m.e._hHc) +
              " vs Pi,G,H = " + fx(F._pPic) + "," + fx(F._gGc) + "," + fx(F._hHc), FF("history-state"));
      ef_observe(m.e, o1); ef_observe(F, o2);
      for (size_t i = 0; i < o1.size(); ++i) if (!mc::same_bits(o1[i], o2[i]) && !(std::isnan(o1[i]) && std::isnan(o2[i]))) {
        cfail(ctx, key + " behaviour", "observable #" + fmti((long long)i) + " (accessors, F/E/D/Pi/G/H at 0.5, 2, -4, (sn,cn,dn) forms and delta-functions at 2.5, am, sncndn, Einv, Ed, deltaEinv) is " + fx(o1[i]) + " but a fresh object gives " + fx(o2[i]), FF("history-behaviour"));
        break; }
      // documented reductions (tolerance 64 eps of K resp. E; skipped where the complete integrals are infinite)
      const double K = m.e.K(), E = m.e.E(), D = m.e.D();
      if (o.a2 == 0) {
        if (!(mc::same_bits(m.e.Pi(), K) && mc::same_bits(m.e.G(), E))) cfail(ctx, key + " alpha0", "alpha2 = 0 but Pi() = " + fx(m.e.Pi()) + " != K() = " + fx(K) + " or G() = " + fx(m.e.G()) + " != E() = " + fx(E), FF("reduction-alpha2=0"));
        if (std::isfinite(K) && !(std::fabs(m.e.H() - (K - D)) <= 64 * EPS * K)) cfail(ctx, key + " alpha0H", "alpha2 = 0 but H() = " + fx(m.e.H()) + " != K - D = " + fx(K - D), FF("reduction-alpha2=0"));
      }
      if (o.a2 == o.k2 && o.k2 != 0 && std::isfinite(K) && o.kp2 > 0) {
        if (!(std::fabs(m.e.G() - K) <= 64 * EPS * K)) cfail(ctx, key + " alphak", "alpha2 = k2 but G() = " + fx(m.e.G()) + " != K() = " + fx(K), FF("reduction-alpha2=k2"));
        if (!(std::fabs(m.e.Pi() - E / o.kp2) <= 64 * EPS * (E / o.kp2 + K))) cfail(ctx, key + " alphakPi", "alpha2 = k2 but Pi() = " + fx(m.e.Pi()) + " != E/k'^2 = " + fx(E / o.kp2), FF("reduction-alpha2=k2"));
      }
      if (ctx.want_sample()) ctx.sample(key);
      if (seen.emplace(km, d).second) next.push_back(m);
    }
    frontier.swap(next);
  }
  ctx.count("history_states", seen.size()); ctx.count("history_transitions", ntrans);
}

// ------------------------------------------------------------------ Carlson symmetric forms
static void carlson_cmp(Ctx& ctx, const std::string& key, const char* fn, double got, Q ref, std::initializer_list<double> args) {
  // regime: compact = non-zero arguments within a factor 4 of each other; spread = within [1e-10, 1e10]; extreme otherwise
  bool ext = false; double mn = INF, mx = 0; for (double a : args) if (a != 0) { if (a < 1e-10 || a > 1e10) ext = true; if (a < mn) mn = a; if (a > mx) mx = a; }
  const char* reg = ext ? "extreme" : (mx <= 4 * mn ? "compact" : "spread");
  const double TOL_CARLSON = C15tol(std::string("carlson.") + fn, reg);
  double err;
  // a true value outside the double range must come out as 0/denormal resp. inf
  if (ref > (Q)1.7976931348623157e308) err = (got == INF || got > 1e308) ? 0 : INF;
  else if (ref < (Q)2.2250738585072014e-308) err = (std::fabs(got - (double)ref) <= 4 * DMIN + 64 * EPS * (double)ref) ? 0 : INF;
  else err = std::isnan(got) ? INF : (double)(fabsq((Q)got - ref) / ref);
  // cases inside a known-defect input class are tallied under their own worst{} key
  std::string wreg = reg;
  if (!strcmp(fn, "RG") && args.size() == 3) { const double* a = args.begin(); if ((a[0] - a[2]) * (a[1] - a[2]) > 0) wreg += "/z-not-between-x-y"; }
  if (!strcmp(fn, "RJ")) { const double* a = args.begin(); if (a[3] * 1e5 <= dmax(dmax(a[0], a[1]), a[2])) wreg += "/p-much-smaller"; }
  cworst(ctx, std::string("carlson.") + fn + "_relerr_over_tol." + wreg, err / (TOL_CARLSON * EPS), [&] { return key; });
  if (!(err <= TOL_CARLSON * EPS)) {
    mc::Fields F{{"fn", fn}, {"regime", reg}, {"kind", std::isnan(got) ? "carlson-nan" : "carlson-value"}};
    if (!strcmp(fn, "RG") && args.size() == 3) { const double* a = args.begin(); F.push_back({"rg_order", (a[0] - a[2]) * (a[1] - a[2]) > 0 ? "z-not-between-x-y" : "z-between-x-y"}); }
    if (!strcmp(fn, "RJ")) { const double* a = args.begin(); double mx = dmax(dmax(a[0], a[1]), a[2]); F.push_back({"p_class", a[3] * 1e5 <= mx ? "p-much-smaller" : "p-comparable"}); }
    cfail(ctx, key, std::string(fn) + " = " + fx(got) + " but the defining integral is " + qs(ref) + " (" + fmt(err / EPS) + " eps)", F);
  }
}

int main(int argc, char** argv) {
  Ctx ctx(argc, argv);
  const bool T = ctx.thorough();

  // ================================================================= auxiliary latitudes
  {
    const int NE = T ? 8 : 4;                         // quick: WGS84, 1-1/150, sphere, 1+1/150 ... plus the extremes below
    std::vector<int> eidx; if (T) for (int i = 0; i < 22; ++i) eidx.push_back(i); else eidx = {0, 3, 4, 7};
    ctx.bound("aux.ellipsoids", T ? "b/a in {1-1/298.257223563, 1-+1/1000, 1-+1/200, 1-1/150, 1, 1+1/150, 0.9, 1.1, 0.75, 1.5, 1/2, 2, 1/4, 4, 0.1, 10, 0.03, 30, 0.01, 100}, a = 6378137" : "b/a in {1-1/298.257223563, 1+1/150, 1/2, 100}, a = 6378137");
    std::vector<double> al = tan_alphabet(T);
    ctx.bound("aux.angles", fmti((long long)al.size()) + " tangents: 0, +-inf, " + (T ? "+-{4.9e-324, 2.2e-308, 1e-310, 1e-8, 1e-3, 0.1, 10, 1e3, 1e8, 1e15, 1.8e308, 10^k for k = -300(10)300, tan of {1e-6, 0.01, 1, 5(5)85, 22.5, 67.5, 88, 89, 89.9, 89.99, 89.999, 89.9999, 89.999999, 89.99999999} deg}" : "+-{1.5e-321, 1e-310, 1e-20, 1e-3, tan 30, 1, tan 89.999, 1e20}") + " as AuxAngle; x all 36 (from,to) pairs x {exact, series (|f| <= 1/150 only)}");
    std::vector<EnvE*> envs(22, nullptr);
    auto env = [&](int i) { if (!envs[i]) envs[i] = new EnvE(ELLD[i]); return envs[i]; };
    ctx.sub("auxlat");
    for (int i : eidx) for (int from = 0; from < 6; ++from) { if (!ctx.take()) continue; check_aux(ctx, *env(i), from, al); }
    ctx.sub("auxlat-degrees");
    ctx.bound("aux.degrees", "Convert(real degrees): +-{0, 1e-300, 1e-9, 30, 45, 60, 89.999, 90, 90-360, 90+360, 30+360, 30-720, 89.999+360, 45-360} x 36 pairs x methods");
    for (int i : eidx) for (int from = 0; from < 6; ++from) { if (!ctx.take()) continue; check_aux_degrees(ctx, *env(i), from); }
    ctx.sub("auxlat-misc");
    for (int i : eidx) { if (!ctx.take()) continue; check_aux_misc(ctx, *env(i), al); }
    ctx.sub("auxlat-derivative");
    {
      // quick: the quick ellipsoids + sphere, b/a = 2, 0.01, 0.1, 10; thorough: all
      std::vector<int> didx = eidx; if (!T) for (int i : {2, 5, 6, 14, 15}) didx.push_back(i);
      ctx.bound("aux.derivative", std::string("ToAuxiliary(aux, phi, &diff) and Parametric/Geocentric/Rectifying/Conformal/Authalic(phi, &diff) for all 6 aux x ") + fmti((long long)didx.size()) + " ellipsoids (quick: b/a = 1-1/298.257, 1+1/150, 1, 1/2, 2, 0.1, 10, 0.01, 100) x tan(phi) = +-{0, 1e-310, 1e-10, 0.1, 1, 10, 1e10, 1e155, max double, inf" +
                (T ? ", 4.9e-324, 2.2e-308, 1e-300, 1e-160, 1e-3, tan 30, tan 89.999, 1e12, 1e20, 1e100, 1e160, 1e300" : "") + "} against the closed-form d tan(aux)/d tan(phi) in __float128; DAuxLatitude::DParametric/DRectifying/DIsometric/DConvert with coinciding arguments = the angle derivatives");
      for (int i : didx) { if (!ctx.take()) continue; check_aux_derivative(ctx, *env(i), T); check_daux_coincident(ctx, *env(i), T); }
    }
    ctx.sub("auxangle");
    ctx.bound("auxangle.pairs", "AuxAngle(y,x).normalized()/radians()/degrees() on 20 (|y|,|x|) pairs x 4 quadrants: both components tiny (1e-170, 1e-200, denormals), both huge (1e200, 8e307), ratio > 1e154 either way, tangents 1e155 ... max double");
    if (ctx.take()) check_auxangle(ctx);
    ctx.sub("auxlat-scaled");
    ctx.bound("aux.scaled", "the same ellipsoids x 36 pairs x methods x un-normalised inputs AuxAngle(+-y, x) with both components tiny / huge / disparate (tangent within [1e-300, 1e300]): result must depend on the tangent only");
    for (int i : eidx) for (int from = 0; from < 6; ++from) { if (!ctx.take()) continue; check_aux_scaled(ctx, *env(i), from); }
    ctx.sub("auxlat-conformal");
    {
      std::vector<double> bas{1 - 1 / 298.257223563, 0.3, 0.1, 0.05, 0.02, 0.01, 1 / 0.3, 10, 20, 50, 100};
      if (T) for (double x : {0.9, 0.7, 0.5, 0.2, 0.03, 0.015, 1.1, 2.0, 5.0, 30.0, 70.0}) bas.push_back(x);
      ctx.bound("aux.conformal", std::string("closed-form conversions phi/beta/theta -> chi (exact), ToAuxiliary(chi), Ellipsoid::ConformalLatitude, IsometricLatitude on b/a in {WGS84, 0.3, 0.1, 0.05, 0.02, 0.01, 1/0.3, 10, 20, 50, 100") +
                (T ? ", 0.9, 0.7, 0.5, 0.2, 0.03, 0.015, 1.1, 2, 5, 30, 70" : "") + "} x +-" + (T ? "32" : "15") + " latitudes 0.01 ... 89 deg, relative error of the tangent / of psi <= 64 eps (1024 for b/a < 0.05; above 45 deg 128 for b/a < 0.3, 4096 for b/a < 0.1; x conditioning in b/a for prolate)");
      for (double ba : bas) { if (!ctx.take()) continue; check_conformal(ctx, ba, T); }
    }
    ctx.sub("auxlat-monotone");
    ctx.bound("aux.monotone", "every pair x method non-decreasing on the grid -90(0.25)90 degrees, 0 and +-90 fixed");
    for (int i : eidx) { if (!ctx.take()) continue; check_aux_monotone(ctx, *env(i)); }
    // ================================================================= Ellipsoid
    ctx.sub("ellipsoid");
    ctx.bound("ellipsoid.lattice", std::string("same ellipsoids x +-") + (T ? "36" : "9") + " latitudes {0,1e-10,15,30,45,60,89,89.99999,90,...} x 5 azimuths {0,30,45,90,-120}; all inspectors; the same quantities from GeodesicExact, Geodesic, Rhumb, TransverseMercator(Exact), LambertConformalConic(stdlat 0), AlbersEqualArea(stdlat 0)");
    for (int i : eidx) { if (!ctx.take()) continue; check_ellipsoid(ctx, *env(i), T); }
    ctx.sub("ellipsoid-dense");
    {
      std::vector<double> fs;
      for (double x : {0.001, 0.002, 0.005, 0.01, 0.015, 0.02, 0.025, 0.03, 0.035, 0.04, 0.045, 0.05, 0.055, 0.06, 0.065, 0.07, 0.075, 0.08, 0.085, 0.09, 0.095, 0.1, 0.12, 0.15, 0.2, 0.25, 0.3, 0.4, 0.5, 0.6, 0.7, 0.8, 0.9}) { fs.push_back(x); fs.push_back(-x); }
      for (double x : {1 / 298.257223563, 1 / 150.0, 1e-4, 1e-6, 1e-10, 0.95, 0.99}) { fs.push_back(x); if (x < 0.9) fs.push_back(-x); }
      for (double x : {-1.5, -2.0, -3.0, -5.0, -9.0, -19.0, -49.0, -99.0}) fs.push_back(x);
      fs.push_back(0.0);
      ctx.bound("ellipsoid.dense", fmti((long long)fs.size()) + " flattenings: 0, +-{1e-10, 1e-6, 1e-4, 0.001, 0.002, 0.005, 1/298.257, 1/150, 0.01(0.005)0.1, 0.12, 0.15, 0.2, 0.25, 0.3(0.1)0.9}, 0.95, 0.99, -1.5 ... -99: QuarterMeridian, Area, Volume, rectifying radius and authalic radius^2 (exact; series for |f| <= 1/150), MeridianDistance, CircleRadius/Height, rho, nu at 4 latitudes against the __float128 quadrature");
      for (double f : fs) { if (!ctx.take()) continue; check_ellipsoid_dense(ctx, f); }
    }
    ctx.sub("shape-conversions");
    if (ctx.take()) check_shape_conversions(ctx);
  }

  // ================================================================= elliptic integrals and functions
  {
    std::vector<double> k2s{-1e4, -1, -0.1, 0, 1e-10, 0.5, 0.99, 1 - 1e-12, 1, -100, -10, 0.9, 0.999, 1 - 1e-6, 1 - 1e-9};
    std::vector<double> k2q{-1e4, -0.1, 0, 0.5, 1 - 1e-12, 1};
    const std::vector<double>& K2 = T ? k2s : k2q;
    std::vector<Obj> objs;
    std::vector<double> K2k = K2; if (T) for (double x : {-1000.0, 0.25, 0.75, 0.9999}) K2k.push_back(x);     // deep tier: four more moduli
    for (double k2 : K2k) for (double a2 : K2) objs.push_back({"k2=" + fmt(k2) + " alpha2=" + fmt(a2), k2, a2, 1 - k2, 1 - a2, false});
    // four-argument constructor: complements that the two-argument form cannot represent
    for (double ap : {1e-20, 3e-20, 0.25, 1.0}) objs.push_back({"k2=1-1e-20 alpha2=1-" + fmt(ap) + " (4-arg)", 1.0, 1 - ap, 1e-20, ap, true});
    objs.push_back({"k2=1-1e-300 alpha2=0 (4-arg)", 1.0, 0.0, 1e-300, 1.0, true});
    objs.push_back({"k2=0.5 alpha2=1-1e-25 (4-arg)", 0.5, 1.0, 0.5, 1e-25, true});
    objs.push_back({"k2=-3 alpha2=0.75 (4-arg)", -3, 0.75, 4, 0.25, true});
    if (T) {
      // approaching the known-finding thresholds from the accurate side: both complements small (G uses alpha2 - k2) ...
      for (double kp : {1e-6, 1e-8, 1e-10, 1e-12, 1e-14}) objs.push_back({"k2=1-" + fmt(kp) + " alpha2=1-" + fmt(3 * kp) + " (4-arg)", 1 - kp, 1 - 3 * kp, kp, 3 * kp, true});
      // ... and k' -> 0 alone (am, Einv)
      for (double kp : {1e-18, 1e-22, 1e-25, 1e-30, 1e-40, 1e-60, 1e-99}) objs.push_back({"k2=1-" + fmt(kp) + " alpha2=0 (4-arg)", 1.0, 0.0, kp, 1.0, true});
    }
    ctx.bound("ellint.parameters", std::string("k2, alpha2 each in ") + (T ? "{-1e4,-100,-10,-1,-0.1,0,1e-10,0.5,0.9,0.99,0.999,1-1e-6,1-1e-9,1-1e-12,1} (k2 also -1000, 0.25, 0.75, 0.9999)" : "{-1e4,-0.1,0,0.5,1-1e-12,1}") + " (all pairs, 2-argument constructor) + objects of the 4-argument constructor (k'2 = 1e-20 with alpha'2 in {1e-20, 3e-20, 1/4, 1}; k'2 = 1e-300; alpha'2 = 1e-25; k2 = -3" + (T ? "; (k'2, alpha'2 = 3 k'2) for k'2 in {1e-6,1e-8,1e-10,1e-12,1e-14}; k'2 in {1e-18,1e-22,1e-25,1e-30,1e-40,1e-60,1e-99})" : ")"));
    ctx.bound("ellint.arguments", std::string("phi: +-{0,1e-8,0.5,pi/2,pi/2-1e-9,pi/2+1e-9,3,20") + (T ? ",1e-300,1e-100,1e-3,0.1,1,1.2,1.5,pi/2-+1e-5,pi/2-+1e-3,2,2.5,pi,4,3pi/2,2pi,7.5,10,31.4,50,100,100pi,1000,12345.678" : "") + "}; (sn,cn,dn) forms and delta-functions at " + (T ? "50" : "18") + " amplitudes in (-pi,pi]; Ed at 15 angles; Einv, am, sncndn at x: +-{0,1e-8,0.5,near and at the quarter period,3,20,...}");
    ctx.sub("elliptic");
    for (const Obj& o : objs) { if (!ctx.take()) continue; check_ellint(ctx, o, T); }
    // 1-2-5 dense moduli on both signs (plus in-between values): every band in which a small-|k2| shortcut could be taken
    ctx.sub("elliptic-dense");
    {
      std::vector<double> kd;
      for (double x : {1e-12, 1e-9, 1e-7, 1e-6, 2e-6, 5e-6, 1e-5, 2e-5, 3e-5, 4e-5, 4.9e-5, 5e-5, 7e-5, 1e-4, 2e-4, 3e-4, 5e-4, 7e-4, 1e-3, 2e-3, 3e-3, 5e-3, 7e-3, 0.01, 0.02, 0.03, 0.05, 0.07, 0.1, 0.2, 0.3}) { kd.push_back(x); kd.push_back(-x); }
      for (double x : {0.0066943799901413165 /* WGS84 e^2 */, 0.4, 0.6, 0.7, 0.8, 0.9, 0.95, -0.5, -0.7}) kd.push_back(x);
      std::vector<Obj> od;
      for (double k2 : kd) for (double a2 : {0.0, 0.3, -0.5}) od.push_back({"k2=" + fmt(k2) + " alpha2=" + fmt(a2), k2, a2, 1 - k2, 1 - a2, false});
      for (double a2 : kd) if (std::fabs(a2) <= 1e-3) od.push_back({"k2=0.5 alpha2=" + fmt(a2), 0.5, a2, 0.5, 1 - a2, false});       // small |alpha2| as well
      ctx.bound("ellint.dense", fmti((long long)od.size()) + " objects: k2 in +-{1e-12, 1e-9, 1e-7, 1e-6, 2e-6, 5e-6, 1e-5, 2e-5, 3e-5, 4e-5, 4.9e-5, 5e-5, 7e-5, 1e-4, 2e-4, 3e-4, 5e-4, 7e-4, 1e-3, ..., 0.3}, WGS84 e^2, 0.4 ... 0.95, -0.5, -0.7 x alpha2 in {0, 0.3, -0.5}; k2 = 0.5 with |alpha2| <= 1e-3 on the same ladder; the full battery of the elliptic subcheck (quick arguments) against the __float128 quadrature at the moderate-regime tolerances");
      for (const Obj& o : od) { if (!ctx.take()) continue; check_ellint(ctx, o, false); }
    }
    // E2: Reset histories
    ctx.sub("elliptic-history");
    {
      std::vector<double> hk{0, 0.5, 0.7, -3, 1}, ha{0, 0.3, -2, 1};
      if (T) { for (double x : {1e-10, 0.99, -1e4, 1 - 1e-12}) hk.push_back(x); for (double x : {-1e4, 0.99}) ha.push_back(x); }
      std::vector<EFOp> ops;
      for (double k2 : hk) { std::vector<double> as = ha; if (std::find(as.begin(), as.end(), k2) == as.end()) as.push_back(k2);      // alpha2 = k2 as well
        for (double a2 : as) { ops.push_back({k2, a2, 1 - k2, 1 - a2, false}); ops.push_back({k2, a2, 1 - k2, 1 - a2, true}); } }
      ops.push_back({1.0, 0.0, 1e-20, 1.0, true}); ops.push_back({1.0, 0.3, 1e-20, 0.7, true});              // complements only the 4-argument form can express
      const int depth = T ? 4 : 3;
      ctx.bound("ellint.history", std::string("E2 BFS over all histories of ") + fmti((long long)ops.size()) + " Reset operations (2- and 4-argument forms; k2 in {0,0.5,0.7,-3,1" + (T ? ",1e-10,0.99,-1e4,1-1e-12" : "") + "} x alpha2 in {0,0.3,-2,1,k2" + (T ? ",-1e4,0.99" : "") +
                "}; 2 objects with k'2 = 1e-20) up to depth " + fmti(depth) + " from the default-constructed object; states de-duplicated on the bits of all private fields; every state compared bit for bit with a fresh object");
      if (ctx.take()) check_ellint_history(ctx, ops, depth);
    }
  }

  // ================================================================= Carlson
  {
    std::vector<double> al = T ? std::vector<double>{0, 1e-300, 1e-10, 1, 2, 1e10, 1e300, 1e-50, 1e-3, 1e3, 1e50, 1e-100, 1e100} : std::vector<double>{0, 1e-300, 1, 2, 1e300};
    ctx.bound("carlson.alphabet", T ? "{0,1e-300,1e-100,1e-50,1e-10,1e-3,1,2,1e3,1e10,1e50,1e100,1e300}: all admissible triples (RF, RD, RG), quadruples (RJ), pairs (RC, RF2, RG2)" : "{0,1e-300,1,2,1e300}: all admissible triples, quadruples, pairs");
    ctx.sub("carlson");
    for (double x : al) for (double y : al) {
      if (!ctx.take()) continue;
      // pairs
      if (y > 0) { Ctx::Case cs(ctx); carlson_cmp(ctx, "RC(" + fx(x) + "," + fx(y) + ")", "RC", EllipticFunction::RC(x, y), ellf::RC(x, y), {x, y}); }
      if (x > 0 && y > 0) {
        Ctx::Case cs(ctx);
        carlson_cmp(ctx, "RF(" + fx(x) + "," + fx(y) + ")", "RF2", EllipticFunction::RF(x, y), ellf::RF(x, y, 0), {x, y});
        carlson_cmp(ctx, "RG(" + fx(x) + "," + fx(y) + ")", "RG2", EllipticFunction::RG(x, y), ellf::RG(x, y, 0), {x, y});
      }
      for (double z : al) {
        int zeros = (x == 0) + (y == 0) + (z == 0);
        std::string k3 = "(" + fx(x) + "," + fx(y) + "," + fx(z) + ")";
        if (zeros <= 1) {
          Ctx::Case cs(ctx);
          carlson_cmp(ctx, "RF" + k3, "RF", EllipticFunction::RF(x, y, z), ellf::RF(x, y, z), {x, y, z});
          carlson_cmp(ctx, "RG" + k3, "RG", EllipticFunction::RG(x, y, z), ellf::RG(x, y, z), {x, y, z});
          if (z > 0) carlson_cmp(ctx, "RD" + k3, "RD", EllipticFunction::RD(x, y, z), ellf::RD(x, y, z), {x, y, z});
          if (ctx.want_sample()) ctx.sample("RF" + k3 + " = " + fmt(EllipticFunction::RF(x, y, z)));
        }
        if (zeros <= 1) for (double p : al) {
          if (!(p > 0)) continue;
          Ctx::Case cs(ctx);
          carlson_cmp(ctx, "RJ(" + fx(x) + "," + fx(y) + "," + fx(z) + "," + fx(p) + ")", "RJ", EllipticFunction::RJ(x, y, z, p), ellf::RJ(x, y, z, p), {x, y, z, p});
        }
      }
    }
  }
  return ctx.finish();
}
