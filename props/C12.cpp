// C12 -- outputs are independent of the output mask / overload / extra capabilities; line objects are self-consistent.
// Engine E1, fully enumerated configuration space on the compiled library:
//   ALL 2^8 output masks x ALL 2^8 capability sets x arcmode x solver {Geodesic, GeodesicExact, Geodesic(exact=true)}
//   on a set of geodesics x positions (GenPosition); all 2^8 masks for GenDirect and GenInverse; all 2^6 masks for the
//   rhumb routines; every inline overload; every point-3 constructor/setter with every capability set.
// Reference: models/mask_semantics.hpp (which outputs are written / when NaN is returned, from the header documentation);
// the VALUE reference is the library's own result under mask = ALL, caps = ALL (the property is about independence).
#include "mc/ctx.hpp"
#include "models/mask_semantics.hpp"
#include <GeographicLib/Geodesic.hpp>
#include <GeographicLib/GeodesicExact.hpp>
#include <GeographicLib/GeodesicLine.hpp>
#include <GeographicLib/GeodesicLineExact.hpp>
#include <GeographicLib/Rhumb.hpp>
#include <string>
#include <vector>

using namespace GeographicLib;
using mc::Ctx; using mc::fx; using mc::fmt; using mc::fmti;
namespace ms = masksem;

static const double EPS = std::numeric_limits<double>::epsilon();
// tolerance on a written output: this many ulps of the quantity's scale (DESIGN C12: "4 ulp of the quantity's scale;
// bitwise expected in most cells").  On the unchanged tree every compared output is bit-identical (reported as worst = 0).
static const double TOL_ULPS = 4;

// ---------------------------------------------------------------- output record
// slots: 0 lat2, 1 lon2, 2 azi2, 3 s12, 4 m12, 5 M12, 6 M21, 7 S12
static const int NS = 8;
static const ms::Quantity SLOTQ[NS] = {ms::Q_LAT, ms::Q_LON, ms::Q_AZI, ms::Q_DIST, ms::Q_REDLEN, ms::Q_SCALE, ms::Q_SCALE, ms::Q_AREA};
static const char* const SLOTN[NS] = {"lat2", "lon2", "azi2", "s12", "m12", "M12", "M21", "S12"};
// sentinels: distinct finite bit patterns that no computation produces
static const double SENT[NS] = {-1.0000000011e301, -1.0000000022e301, -1.0000000033e301, -1.0000000044e301,
                                -1.0000000055e301, -1.0000000066e301, -1.0000000077e301, -1.0000000088e301};
struct Out {
  double v[NS]; double ret;
  Out() { for (int i = 0; i < NS; ++i) v[i] = SENT[i]; ret = SENT[0]; }
  bool untouched(int i) const { return mc::same_bits(v[i], SENT[i]); }
};
static std::string outs(const Out& o) {
  std::string s = "ret=" + fmt(o.ret);
  for (int i = 0; i < NS; ++i) s += std::string(" ") + SLOTN[i] + "=" + (o.untouched(i) ? std::string("<untouched>") : fmt(o.v[i]));
  return s;
}
// scale of each slot for the ulp tolerance
struct Scale { double s[NS]; double ret; };
static Scale scales(double a, double f, const Out& ref) {
  Scale sc; double b = a * (1 - f), big = std::fmax(a, b);
  sc.s[0] = 90; sc.s[1] = std::fmax(180.0, std::fabs(ref.v[1])); sc.s[2] = 180;
  sc.s[3] = std::fmax(big, std::fabs(ref.v[3])); sc.s[4] = big; sc.s[5] = std::fmax(1.0, std::fabs(ref.v[5])); sc.s[6] = std::fmax(1.0, std::fabs(ref.v[6]));
  sc.s[7] = std::fmax(4 * big * big, std::fabs(ref.v[7])); sc.ret = std::fmax(180.0, std::fabs(ref.ret));
  return sc;
}
static double dev_ulps(double got, double ref, double scale) {
  if (mc::same_bits(got, ref)) return 0;
  if (std::isnan(got) && std::isnan(ref)) return 0;
  if (std::isnan(got) || std::isnan(ref)) return INFINITY;
  if (got == ref) return 0;                                   // +0 / -0
  return std::fabs(got - ref) / (EPS * scale);
}

// ---------------------------------------------------------------- solvers
struct SeriesT {
  typedef Geodesic G; typedef GeodesicLine L;
  static G make(double a, double f) { return G(a, f, false); }
  static const char* name() { return "Geodesic"; }
  static bool exactp() { return false; }
  static const ms::EnumValues& doc() { return ms::SERIES_ENUM; }
};
struct ExactT {
  typedef GeodesicExact G; typedef GeodesicLineExact L;
  static G make(double a, double f) { return G(a, f); }
  static const char* name() { return "GeodesicExact"; }
  static bool exactp() { return true; }
  static const ms::EnumValues& doc() { return ms::EXACT_ENUM; }
};
struct SeriesExactT {
  typedef Geodesic G; typedef GeodesicLine L;
  static G make(double a, double f) { return G(a, f, true); }
  static const char* name() { return "Geodesic(exact=true)"; }
  static bool exactp() { return true; }
  static const ms::EnumValues& doc() { return ms::SERIES_ENUM; }
};
// the 8 output-mask enumerators and the 8 capability enumerators of a solver, taken from the LIBRARY's enum
template <class S> struct Enums {
  typedef typename S::G G;
  static unsigned om(int i) { static const unsigned v[8] = {G::LATITUDE, G::LONGITUDE, G::AZIMUTH, G::DISTANCE, G::REDUCEDLENGTH, G::GEODESICSCALE, G::AREA, G::LONG_UNROLL}; return v[i]; }
  static unsigned cp(int i) { static const unsigned v[8] = {G::LATITUDE, G::LONGITUDE, G::AZIMUTH, G::DISTANCE, G::DISTANCE_IN, G::REDUCEDLENGTH, G::GEODESICSCALE, G::AREA}; return v[i]; }
  static unsigned outmask(unsigned sel) { unsigned m = 0; for (int i = 0; i < 8; ++i) if (sel >> i & 1) m |= om(i); return m; }
  static unsigned caps(unsigned sel) { unsigned m = 0; for (int i = 0; i < 8; ++i) if (sel >> i & 1) m |= cp(i); return m; }
};
static std::string maskname(unsigned sel, bool capsp) {
  static const char* const on[8] = {"LATITUDE", "LONGITUDE", "AZIMUTH", "DISTANCE", "REDUCEDLENGTH", "GEODESICSCALE", "AREA", "LONG_UNROLL"};
  static const char* const cn[8] = {"LATITUDE", "LONGITUDE", "AZIMUTH", "DISTANCE", "DISTANCE_IN", "REDUCEDLENGTH", "GEODESICSCALE", "AREA"};
  std::string s; for (int i = 0; i < 8; ++i) if (sel >> i & 1) { if (!s.empty()) s += "|"; s += capsp ? cn[i] : on[i]; }
  return s.empty() ? "NONE" : s;
}

// ---------------------------------------------------------------- geodesics and positions
struct Geo { const char* name; double a, f, lat1, lon1, azi1; bool quick; };
static const double WA = 6378137, WF = 1 / 298.257223563;
static const Geo GEOS[] = {
  {"wgs84-generic", WA, WF, 40.6, -73.8, 53.5, true},
  {"wgs84-meridional", WA, WF, -30, 10, 0, true},
  {"f=0.1-generic", WA, 0.1, -45, 0, 30, true},                 // |f| > 0.01: the Newton-corrected distance branch
  {"prolate-east-across-antimeridian", WA, -1 / 150.0, 20, 179, 100, true},   // lon2 differs with LONG_UNROLL already at 35 deg
  {"f=1/25-oblique", WA, 0.04, 20, 10, 28, true},               // 0.01 < |f| <= 0.05: Newton-corrected distance branch, below f = 0.1
  {"f=-1/50-prolate-oblique", WA, -0.02, -35, 40, 150, false},
  {"wgs84-equatorial", WA, WF, 0, 0, 90, false},
  {"wgs84-north-pole-start", WA, WF, 90, 20, 130, false},
  {"sphere", WA, 0, 10, 0, 80, false},
  {"wgs84-southward", WA, WF, 60, -170, 180, false},
  {"wgs84-nearly-equatorial", WA, WF, 1e-10, 5, 90 - 1e-10, false},
  {"f=-0.1-prolate", WA, -0.1, 5, 100, -5, false},
  {"a=1,f=1/150", 1, 1 / 150.0, 33, -120, 200, false},
  {"wgs84-south-pole-start", WA, WF, -90, 0, -30, false},
  // third ring (thorough): more flattenings of the documented series range, cardinal and nearly cardinal azimuths at
  // several latitudes, starts next to the poles, longitudes outside [-180,180], other sizes
  {"f=0.2-generic", WA, 0.2, 25, -10, 70, false},
  {"f=-0.2-generic", WA, -0.2, -15, 60, -140, false},
  {"f=0.05-east", WA, 0.05, 50, 0, 90, false},
  {"f=-0.05-west", WA, -0.05, -50, 0, -90, false},
  {"f=0.005-generic", WA, 0.005, 12, 34, 56, false},
  {"f=-0.005-generic", WA, -0.005, -12, -34, -56, false},
  {"f=1/150-northeast", WA, 1 / 150.0, 0, 179.5, 45, false},
  {"f=0.01-limit-of-plain-series", WA, 0.01, 35, 135, -60, false},           // |f| = 0.01 exactly: no Newton correction
  {"f=0.010001-newton-branch", WA, 0.010001, 35, 135, -60, false},
  {"wgs84-east-at-60", WA, WF, 60, 0, 90, false},
  {"wgs84-west-at-minus-60", WA, WF, -60, 100, -90, false},
  {"wgs84-azi-1e-15", WA, WF, 10, 20, 1e-15, false},
  {"wgs84-azi-180-minus-1e-12", WA, WF, -10, -20, 180 - 1e-12, false},
  {"wgs84-next-to-north-pole", WA, WF, 89.999, 45, 100, false},
  {"wgs84-next-to-south-pole", WA, WF, -89.999999, -45, -80, false},
  {"wgs84-lon1=725", WA, WF, 30, 725, 60, false},
  {"wgs84-lon1=-540.5", WA, WF, -30, -540.5, 300, false},
  {"wgs84-azi1=450", WA, WF, 5, 5, 450, false},
  {"wgs84-equator-northward", WA, WF, 0, -100, 0, false},
  {"wgs84-equator-azi-89.999999", WA, WF, 0, 10, 89.999999, false},
  {"a=1e9,f=-1/150", 1e9, -1 / 150.0, 45, 0, 135, false},
  {"a=1e-3,f=1/298", 1e-3, WF, -45, 90, -135, false},
  {"sphere-meridional", WA, 0, -20, 0, 0, false},
  {"sphere-equatorial-west", WA, 0, 0, 0, -90, false},
  {"f=0.1-meridional", WA, 0.1, 10, 10, 180, false},
  {"f=-0.1-equatorial", WA, -0.1, 0, 0, 90, false},
};
static const int NGEO = sizeof(GEOS) / sizeof(GEOS[0]);
// positions as arc lengths (degrees): short, negative, more than half way round, more than two circuits
static const int NPOS_MAX = 10;
static const double ARCS[NPOS_MAX] = {35, -50, 200, 725.5, -190, 90, 180, -1000.25, 1e-9, 0};
static const int NPOS_Q = 2, NPOS_T = NPOS_MAX, NPOS_PATH = NPOS_MAX;     // positions: quick, thorough (Line path, GenDirect, overloads), other constructor paths

template <class L> static Out genpos(const L& l, bool arcmode, double x, unsigned outmask) {
  Out o; o.ret = l.GenPosition(arcmode, x, outmask, o.v[0], o.v[1], o.v[2], o.v[3], o.v[4], o.v[5], o.v[6], o.v[7]); return o;
}
template <class G> static Out gendirect(const G& g, const Geo& q, bool arcmode, double x, unsigned outmask) {
  Out o; o.ret = g.GenDirect(q.lat1, q.lon1, q.azi1, arcmode, x, outmask, o.v[0], o.v[1], o.v[2], o.v[3], o.v[4], o.v[5], o.v[6], o.v[7]); return o;
}

// references of one (solver, geodesic): results under mask = ALL (and ALL | LONG_UNROLL), caps = ALL, for every position,
// arc-specified and distance-specified (the distance being the s12 of the arc-specified reference)
struct Refs { Out r[2][NPOS_MAX][2]; double s[NPOS_MAX]; Scale sc[2][NPOS_MAX][2]; };    // [arcmode][pos][unroll]
template <class S, class MK> static Refs make_refs_from(MK makeline, const Geo& q) {
  typedef typename S::G G; typedef typename S::L L;
  Refs R; L l = makeline((unsigned)G::ALL);
  for (int p = 0; p < NPOS_MAX; ++p) {
    for (int u = 0; u < 2; ++u) R.r[1][p][u] = genpos(l, true, ARCS[p], G::ALL | (u ? G::LONG_UNROLL : 0));
    R.s[p] = R.r[1][p][0].v[3];
    for (int u = 0; u < 2; ++u) R.r[0][p][u] = genpos(l, false, R.s[p], G::ALL | (u ? G::LONG_UNROLL : 0));
    for (int am = 0; am < 2; ++am) for (int u = 0; u < 2; ++u) R.sc[am][p][u] = scales(q.a, q.f, R.r[am][p][u]);
  }
  return R;
}
template <class S> static Refs make_refs(const typename S::G& g, const Geo& q) {
  return make_refs_from<S>([&](unsigned caps) { return g.Line(q.lat1, q.lon1, q.azi1, caps); }, q);
}

// compare a result with the reference according to a "written" predicate; returns number of failures recorded
template <class W> static void judge(Ctx& ctx, const std::string& key, const mc::Fields& F, const char* what, const char* const* names, const Out& o, const Out& ref, const Scale& sc,
                                     W writes, bool retnan, bool check_ret) {
  auto FF = [&](const char* kind, int slot) { mc::Fields g = F; g.push_back({"kind", kind}); if (slot >= 0) g.push_back({"output", names[slot]}); return g; };
  if (check_ret) {
    if (retnan != (bool)std::isnan(o.ret)) ctx.fail(key + " ret", std::string(what) + ": function value " + fx(o.ret) + (retnan ? " but NaN is documented" : " but a number is documented") + " :: " + outs(o), FF("nan-rule", -1));
    else if (!retnan) {
      double d = dev_ulps(o.ret, ref.ret, sc.ret);
      ctx.worst(std::string(what) + ".a12_dev_ulps_of_scale", d, key);
      if (!(d <= TOL_ULPS)) ctx.fail(key + " ret", std::string(what) + ": function value " + fx(o.ret) + " differs from " + fx(ref.ret) + " under mask=ALL,caps=ALL", FF("value-ret", -1));
    }
  }
  for (int i = 0; i < NS; ++i) {
    bool w = writes(i);
    if (!w) {
      if (!o.untouched(i)) ctx.fail(key + " " + names[i], std::string(what) + ": " + names[i] + " was not requested/available but was altered to " + fx(o.v[i]) + " :: " + outs(o), FF("touched", i));
    } else {
      if (o.untouched(i)) { ctx.fail(key + " " + names[i], std::string(what) + ": " + names[i] + " was requested and available but not written :: " + outs(o), FF("not-written", i)); continue; }
      double d = dev_ulps(o.v[i], ref.v[i], sc.s[i]);
      ctx.worst(std::string(what) + "." + names[i] + "_dev_ulps_of_scale", d, key);
      if (d != 0) ctx.count(std::string(what) + ".not_bit_identical");
      if (!(d <= TOL_ULPS)) ctx.fail(key + " " + names[i], std::string(what) + ": " + names[i] + " = " + fx(o.v[i]) + " but " + fx(ref.v[i]) + " under mask=ALL,caps=ALL (" + fmt(d) + " ulp of scale)", FF("value", i));
    }
  }
}

// ================================================================= inverse pairs
struct Pair { const char* name; double a, f, lat1, lon1, lat2, lon2; bool quick; };
static const Pair PAIRS[] = {
  {"wgs84-generic", WA, WF, 40.6, -73.8, 51.5, -0.5, true},
  {"wgs84-meridional", WA, WF, -30, 10, 45, 10, true},
  {"wgs84-nearly-antipodal", WA, WF, 0.1, 0, -0.2, 179.6, true},
  {"f=0.1-generic", WA, 0.1, -45, 0, 30, 120, true},
  {"wgs84-equatorial", WA, WF, 0, 0, 0, 120, false},
  {"wgs84-antipodal", WA, WF, 30, 0, -30, 180, false},
  {"wgs84-coincident", WA, WF, 20, 30, 20, 30, false},
  {"wgs84-short", WA, WF, 20, 30, 20.000001, 30.000001, false},
  {"wgs84-pole-to-pole", WA, WF, 90, 0, -90, 40, false},
  {"prolate-nearly-antipodal", WA, -1 / 150.0, 0, 0, -0.3, 179.7, false},
  {"wgs84-opposite-meridian", WA, WF, 10, -20, 60, 160, false},
  {"a=1,f=1/150", 1, 1 / 150.0, -33, 100, 12, -100, false},
};
static const int NPAIR = sizeof(PAIRS) / sizeof(PAIRS[0]);
static const char* const INVN[NS] = {"azi1", "(none)", "azi2", "s12", "m12", "M12", "M21", "S12"};
static const ms::Quantity INVQ[NS] = {ms::Q_AZI, ms::Q_LAT, ms::Q_AZI, ms::Q_DIST, ms::Q_REDLEN, ms::Q_SCALE, ms::Q_SCALE, ms::Q_AREA};
template <class G> static Out geninverse(const G& g, const Pair& p, unsigned outmask) {
  Out o; o.ret = g.GenInverse(p.lat1, p.lon1, p.lat2, p.lon2, outmask, o.v[3], o.v[0], o.v[2], o.v[4], o.v[5], o.v[6], o.v[7]); return o;
}

// documented accuracy of a position (metres): Geodesic.hpp table by |f| (series), "about 40 nm" GeodesicExact (|f| <= 0.1 here)
static double doc_accuracy_m(bool exact, double a, double f) {
  double af = std::fabs(f), nm;
  if (exact) nm = 40;
  else if (af <= WF * (1 + 1e-12)) nm = 15; else if (af <= 0.01) nm = 25; else if (af <= 0.02) nm = 30; else if (af <= 0.05) nm = 10e3; else if (af <= 0.1) nm = 1.5e6; else nm = 300e6;
  return nm * 1e-9 * a / WA;
}
static unsigned slotset(std::initializer_list<int> l) { unsigned m = 0; for (int i : l) m |= 1u << i; return m; }

// ================================================================= every inline overload
template <class S> static void run_overloads(Ctx& ctx, bool T) {
  typedef typename S::G G; typedef typename S::L L;
  const std::string sn = S::name();
  const int npos = T ? NPOS_T : NPOS_Q;
  ctx.sub("overloads-direct-position/" + sn);
  for (int gi = 0; gi < NGEO; ++gi) {
    const Geo& q = GEOS[gi];
    if (!T && !q.quick) continue;
    if (!ctx.take()) continue;
    G g = S::make(q.a, q.f);
    Refs R = make_refs<S>(g, q);
    L ln = g.Line(q.lat1, q.lon1, q.azi1);            // default caps = ALL
    for (int p = 0; p < npos; ++p) {
      const double s = R.s[p], a = ARCS[p], la = q.lat1, lo = q.lon1, az = q.azi1;
      auto cmp = [&](const char* label, const Out& o, int am, unsigned set, bool hasret) {
        std::string key = sn + " " + q.name + " " + label + (am ? " arc=" : " dist=") + fx(am ? a : s);
        mc::Fields F{{"solver", sn}, {"geodesic", q.name}, {"overload", label}};
        judge(ctx, key, F, "overload", SLOTN, o, R.r[am][p][0], R.sc[am][p][0], [&](int i) { return (set >> i & 1) != 0; }, false, hasret);
      };
#define OV(label, am, set, hasret, call) { Ctx::Case cse(ctx); Out o; call; cmp(label, o, am, set, hasret); }
      double* v; 
      OV("Direct(lat2,lon2,azi2,m12,M12,M21,S12)", 0, slotset({0,1,2,4,5,6,7}), true, (v = o.v, o.ret = g.Direct(la, lo, az, s, v[0], v[1], v[2], v[4], v[5], v[6], v[7])))
      OV("Direct(lat2,lon2)", 0, slotset({0,1}), true, (v = o.v, o.ret = g.Direct(la, lo, az, s, v[0], v[1])))
      OV("Direct(lat2,lon2,azi2)", 0, slotset({0,1,2}), true, (v = o.v, o.ret = g.Direct(la, lo, az, s, v[0], v[1], v[2])))
      OV("Direct(lat2,lon2,azi2,m12)", 0, slotset({0,1,2,4}), true, (v = o.v, o.ret = g.Direct(la, lo, az, s, v[0], v[1], v[2], v[4])))
      OV("Direct(lat2,lon2,azi2,M12,M21)", 0, slotset({0,1,2,5,6}), true, (v = o.v, o.ret = g.Direct(la, lo, az, s, v[0], v[1], v[2], v[5], v[6])))
      OV("Direct(lat2,lon2,azi2,m12,M12,M21)", 0, slotset({0,1,2,4,5,6}), true, (v = o.v, o.ret = g.Direct(la, lo, az, s, v[0], v[1], v[2], v[4], v[5], v[6])))
      OV("ArcDirect(lat2,lon2,azi2,s12,m12,M12,M21,S12)", 1, slotset({0,1,2,3,4,5,6,7}), false, (v = o.v, g.ArcDirect(la, lo, az, a, v[0], v[1], v[2], v[3], v[4], v[5], v[6], v[7])))
      OV("ArcDirect(lat2,lon2)", 1, slotset({0,1}), false, (v = o.v, g.ArcDirect(la, lo, az, a, v[0], v[1])))
      OV("ArcDirect(lat2,lon2,azi2)", 1, slotset({0,1,2}), false, (v = o.v, g.ArcDirect(la, lo, az, a, v[0], v[1], v[2])))
      OV("ArcDirect(lat2,lon2,azi2,s12)", 1, slotset({0,1,2,3}), false, (v = o.v, g.ArcDirect(la, lo, az, a, v[0], v[1], v[2], v[3])))
      OV("ArcDirect(lat2,lon2,azi2,s12,m12)", 1, slotset({0,1,2,3,4}), false, (v = o.v, g.ArcDirect(la, lo, az, a, v[0], v[1], v[2], v[3], v[4])))
      OV("ArcDirect(lat2,lon2,azi2,s12,M12,M21)", 1, slotset({0,1,2,3,5,6}), false, (v = o.v, g.ArcDirect(la, lo, az, a, v[0], v[1], v[2], v[3], v[5], v[6])))
      OV("ArcDirect(lat2,lon2,azi2,s12,m12,M12,M21)", 1, slotset({0,1,2,3,4,5,6}), false, (v = o.v, g.ArcDirect(la, lo, az, a, v[0], v[1], v[2], v[3], v[4], v[5], v[6])))
      OV("Position(lat2,lon2,azi2,m12,M12,M21,S12)", 0, slotset({0,1,2,4,5,6,7}), true, (v = o.v, o.ret = ln.Position(s, v[0], v[1], v[2], v[4], v[5], v[6], v[7])))
      OV("Position(lat2,lon2)", 0, slotset({0,1}), true, (v = o.v, o.ret = ln.Position(s, v[0], v[1])))
      OV("Position(lat2,lon2,azi2)", 0, slotset({0,1,2}), true, (v = o.v, o.ret = ln.Position(s, v[0], v[1], v[2])))
      OV("Position(lat2,lon2,azi2,m12)", 0, slotset({0,1,2,4}), true, (v = o.v, o.ret = ln.Position(s, v[0], v[1], v[2], v[4])))
      OV("Position(lat2,lon2,azi2,M12,M21)", 0, slotset({0,1,2,5,6}), true, (v = o.v, o.ret = ln.Position(s, v[0], v[1], v[2], v[5], v[6])))
      OV("Position(lat2,lon2,azi2,m12,M12,M21)", 0, slotset({0,1,2,4,5,6}), true, (v = o.v, o.ret = ln.Position(s, v[0], v[1], v[2], v[4], v[5], v[6])))
      OV("ArcPosition(lat2,lon2,azi2,s12,m12,M12,M21,S12)", 1, slotset({0,1,2,3,4,5,6,7}), false, (v = o.v, ln.ArcPosition(a, v[0], v[1], v[2], v[3], v[4], v[5], v[6], v[7])))
      OV("ArcPosition(lat2,lon2)", 1, slotset({0,1}), false, (v = o.v, ln.ArcPosition(a, v[0], v[1])))
      OV("ArcPosition(lat2,lon2,azi2)", 1, slotset({0,1,2}), false, (v = o.v, ln.ArcPosition(a, v[0], v[1], v[2])))
      OV("ArcPosition(lat2,lon2,azi2,s12)", 1, slotset({0,1,2,3}), false, (v = o.v, ln.ArcPosition(a, v[0], v[1], v[2], v[3])))
      OV("ArcPosition(lat2,lon2,azi2,s12,m12)", 1, slotset({0,1,2,3,4}), false, (v = o.v, ln.ArcPosition(a, v[0], v[1], v[2], v[3], v[4])))
      OV("ArcPosition(lat2,lon2,azi2,s12,M12,M21)", 1, slotset({0,1,2,3,5,6}), false, (v = o.v, ln.ArcPosition(a, v[0], v[1], v[2], v[3], v[5], v[6])))
      OV("ArcPosition(lat2,lon2,azi2,s12,m12,M12,M21)", 1, slotset({0,1,2,3,4,5,6}), false, (v = o.v, ln.ArcPosition(a, v[0], v[1], v[2], v[3], v[4], v[5], v[6])))
#undef OV
    }
  }
  ctx.sub("overloads-inverse/" + sn);
  for (int pi = 0; pi < NPAIR; ++pi) {
    const Pair& pr = PAIRS[pi];
    if (!T && !pr.quick) continue;
    if (!ctx.take()) continue;
    G g = S::make(pr.a, pr.f);
    Out ref = geninverse(g, pr, G::ALL);
    Scale sc = scales(pr.a, pr.f, ref); sc.s[0] = 180;
    const double la = pr.lat1, lo = pr.lon1, lb = pr.lat2, lp = pr.lon2;
    auto cmp = [&](const char* label, const Out& o, unsigned set) {
      std::string key = sn + " " + pr.name + " " + label;
      mc::Fields F{{"solver", sn}, {"pair", pr.name}, {"overload", label}};
      judge(ctx, key, F, "overload_inverse", INVN, o, ref, sc, [&](int i) { return (set >> i & 1) != 0; }, false, true);
    };
#define OV(label, set, call) { Ctx::Case cse(ctx); Out o; double* v = o.v; o.ret = call; cmp(label, o, set); }
    OV("Inverse(s12,azi1,azi2,m12,M12,M21,S12)", slotset({3,0,2,4,5,6,7}), g.Inverse(la, lo, lb, lp, v[3], v[0], v[2], v[4], v[5], v[6], v[7]))
    OV("Inverse(s12)", slotset({3}), g.Inverse(la, lo, lb, lp, v[3]))
    OV("Inverse(azi1,azi2)", slotset({0,2}), g.Inverse(la, lo, lb, lp, v[0], v[2]))
    OV("Inverse(s12,azi1,azi2)", slotset({3,0,2}), g.Inverse(la, lo, lb, lp, v[3], v[0], v[2]))
    OV("Inverse(s12,azi1,azi2,m12)", slotset({3,0,2,4}), g.Inverse(la, lo, lb, lp, v[3], v[0], v[2], v[4]))
    OV("Inverse(s12,azi1,azi2,M12,M21)", slotset({3,0,2,5,6}), g.Inverse(la, lo, lb, lp, v[3], v[0], v[2], v[5], v[6]))
    OV("Inverse(s12,azi1,azi2,m12,M12,M21)", slotset({3,0,2,4,5,6}), g.Inverse(la, lo, lb, lp, v[3], v[0], v[2], v[4], v[5], v[6]))
#undef OV
  }
}

// ================================================================= point 3, capabilities, inspectors, uninitialised lines
template <class S> static void run_point3(Ctx& ctx, bool T) {
  typedef typename S::G G; typedef typename S::L L; typedef Enums<S> E;
  const std::string sn = S::name();
  const double nan = std::numeric_limits<double>::quiet_NaN();
  ctx.sub("point3-direct/" + sn);
  for (int gi = 0; gi < NGEO; ++gi) for (unsigned cs = 0; cs < 256; ++cs) {
    const Geo& q = GEOS[gi];
    if (!T && !q.quick) continue;
    if (!ctx.take()) continue;
    G g = S::make(q.a, q.f);
    Refs R = make_refs<S>(g, q);
    unsigned caps = E::caps(cs);
    std::string kb = sn + " " + q.name + " caps=" + maskname(cs, true);
    mc::Fields F{{"solver", sn}, {"geodesic", q.name}, {"caps", maskname(cs, true)}};
    auto FF = [&](const char* kind) { mc::Fields h = F; h.push_back({"kind", kind}); return h; };
    // value expected to be NaN or to agree with a reference within TOL_ULPS of scale
    auto expect = [&](const std::string& what, double got, bool defined, double ref, double scale, const char* kind) {
      if (!defined) { if (!std::isnan(got)) ctx.fail(kb + " " + what, what + " = " + fx(got) + " but the line lacks the capability: NaN documented", FF(kind)); return; }
      double d = dev_ulps(got, ref, scale);
      ctx.worst("point3.dev_ulps_of_scale", d, kb + " " + what);
      if (!(d <= TOL_ULPS)) ctx.fail(kb + " " + what, what + " = " + fx(got) + " expected " + fx(ref), FF(kind));
    };
    const int p0 = 0, p1 = 1;            // two positions: 35 deg and -50 deg
    const double big = std::fmax(q.a, q.a * (1 - q.f));
    {
      Ctx::Case cse(ctx);
      L l = g.Line(q.lat1, q.lon1, q.azi1, caps);
      if (!l.Init()) ctx.fail(kb + " Init", "Init() false on a constructed line", FF("init"));
      if (!(mc::same_bits(l.Latitude(), q.lat1) && mc::same_bits(l.Longitude(), q.lon1) && l.Azimuth() == Math::AngNormalize(q.azi1) && l.EquatorialRadius() == q.a && l.Flattening() == q.f))
        ctx.fail(kb + " inspectors", "Latitude/Longitude/Azimuth/EquatorialRadius/Flattening do not return the defining values", FF("inspector"));
      for (unsigned ts = 0; ts < 256; ++ts) {
        unsigned tc = E::caps(ts);
        if (l.Capabilities(tc) != ms::line_has(caps, tc)) { ctx.fail(kb + " Capabilities(" + maskname(ts, true) + ")", "Capabilities(test) = " + fmti(l.Capabilities(tc)) + " but the line was built with caps " + maskname(cs, true), FF("capabilities")); break; }
      }
      if ((l.Capabilities() & ms::OUT_ALL_BITS) != (ms::line_caps(caps) & ms::OUT_ALL_BITS)) ctx.fail(kb + " Capabilities()", "Capabilities() = " + fmti(l.Capabilities()) + " does not report the requested set + LATITUDE|AZIMUTH", FF("capabilities"));
      // a line from Line() has no point 3
      if (!std::isnan(l.Distance()) || !std::isnan(l.Arc())) ctx.fail(kb + " fresh", "Distance()/Arc() of a fresh line are not NaN", FF("fresh-point3"));
      // SetDistance, then SetArc, then SetDistance: no stale values
      l.SetDistance(R.s[p0]);
      if (!mc::same_bits(l.Distance(), R.s[p0])) ctx.fail(kb + " SetDistance", "Distance() != the value set", FF("setdistance"));
      expect("Arc() after SetDistance", l.Arc(), ms::setdistance_sets_a13(caps), R.r[0][p0][0].ret, 180, "setdistance-arc");
      l.SetArc(ARCS[p1]);
      if (!mc::same_bits(l.Arc(), ARCS[p1])) ctx.fail(kb + " SetArc", "Arc() != the value set", FF("setarc"));
      expect("Distance() after SetArc", l.Distance(), ms::setarc_sets_s13(caps), R.s[p1], std::fmax(big, std::fabs(R.s[p1])), "setarc-distance");
      l.SetDistance(R.s[p0]);
      if (!mc::same_bits(l.Distance(), R.s[p0])) ctx.fail(kb + " SetDistance2", "Distance() != the value set", FF("setdistance"));
      expect("Arc() after SetArc+SetDistance", l.Arc(), ms::setdistance_sets_a13(caps), R.r[0][p0][0].ret, 180, "setdistance-arc");
      l.GenSetDistance(true, ARCS[p0]);
      if (!mc::same_bits(l.GenDistance(true), ARCS[p0])) ctx.fail(kb + " GenSetDistance(arc)", "GenDistance(true) != the value set", FF("setarc"));
      expect("GenDistance(false) after GenSetDistance(true)", l.GenDistance(false), ms::setarc_sets_s13(caps), R.s[p0], std::fmax(big, std::fabs(R.s[p0])), "setarc-distance");
      l.GenSetDistance(false, R.s[p1]);
      if (!mc::same_bits(l.GenDistance(false), R.s[p1])) ctx.fail(kb + " GenSetDistance(dist)", "GenDistance(false) != the value set", FF("setdistance"));
      expect("GenDistance(true) after GenSetDistance(false)", l.GenDistance(true), ms::setdistance_sets_a13(caps), R.r[0][p1][0].ret, 180, "setdistance-arc");
    }
    // DirectLine / ArcDirectLine / GenDirectLine: point 3 = point 2 of the direct problem
    for (int form = 0; form < 4; ++form) for (int p = 0; p < 2; ++p) {
      Ctx::Case cse(ctx);
      bool am = form == 1 || form == 3;
      const char* fn = form == 0 ? "DirectLine" : form == 1 ? "ArcDirectLine" : form == 2 ? "GenDirectLine(false)" : "GenDirectLine(true)";
      double x = am ? ARCS[p] : R.s[p];
      L l = form == 0 ? g.DirectLine(q.lat1, q.lon1, q.azi1, x, caps) : form == 1 ? g.ArcDirectLine(q.lat1, q.lon1, q.azi1, x, caps) : g.GenDirectLine(q.lat1, q.lon1, q.azi1, am, x, caps);
      unsigned ecaps = am ? caps : ms::directline_caps(caps);
      std::string k2 = std::string(fn) + "(" + fx(x) + ")";
      if (am) {
        if (!mc::same_bits(l.Arc(), x)) ctx.fail(kb + " " + k2 + " Arc", "Arc() = " + fx(l.Arc()) + " != the defining arc", FF("directline-arc"));
        expect(k2 + ".Distance()", l.Distance(), ms::arcdirectline_has_s13(caps), R.s[p], std::fmax(big, std::fabs(R.s[p])), "directline-distance");
      } else {
        if (!mc::same_bits(l.Distance(), x)) ctx.fail(kb + " " + k2 + " Distance", "Distance() = " + fx(l.Distance()) + " != the defining distance", FF("directline-distance"));
        expect(k2 + ".Arc()", l.Arc(), true, R.r[0][p][0].ret, 180, "directline-arc");
        if (!l.Capabilities(G::DISTANCE_IN)) ctx.fail(kb + " " + k2 + " caps", "DirectLine result lacks DISTANCE_IN", FF("directline-caps"));
      }
      if (!(mc::same_bits(l.Latitude(), q.lat1) && mc::same_bits(l.Longitude(), q.lon1) && l.Azimuth() == Math::AngNormalize(q.azi1)))
        ctx.fail(kb + " " + k2 + " inspectors", "line does not start at the given point/azimuth", FF("inspector"));
      // the third point reproduces the defining end point: position at the stored arc (and at the stored distance)
      Out o = genpos(l, true, l.Arc(), G::ALL);
      { Out oj = o; if (!am && !oj.untouched(3)) oj.v[3] = R.r[0][p][0].v[3];      // s12 recomputed from the arc: judged below at the accuracy level
        judge(ctx, kb + " " + k2 + " @Arc()", F, "point3_position", SLOTN, oj, R.r[am ? 1 : 0][p][0], R.sc[am ? 1 : 0][p][0],
              [&](int i) { return ms::line_writes(SLOTQ[i], G::ALL, true, ecaps, true); }, false, false); }
      // (arc from a distance-defined line: s12 is recomputed from the arc, compare it at the accuracy level instead)
      if (!am && ms::line_writes(ms::Q_DIST, G::ALL, true, ecaps, true)) {
        double tol = 2 * doc_accuracy_m(S::exactp(), q.a, q.f);
        ctx.worst("point3.s12_roundtrip_over_tol", std::fabs(o.v[3] - x) / tol, kb + " " + k2);
        if (!(std::fabs(o.v[3] - x) <= tol)) ctx.fail(kb + " " + k2 + " s12", "ArcPosition(Arc()) gives s12 " + fx(o.v[3]) + " for the line defined by s12 " + fx(x), FF("directline-roundtrip"));
      }
      if (!std::isnan(l.Distance())) {
        Out od = genpos(l, false, l.Distance(), G::ALL);
        bool loc = ms::line_locates(true, ecaps, false);
        Out oj = od;           // arc-defined line: the distance was computed from the arc, values are judged at the accuracy level below
        if (am) for (int i = 0; i < NS; ++i) if (!oj.untouched(i)) oj.v[i] = R.r[0][p][0].v[i];
        judge(ctx, kb + " " + k2 + " @Distance()", F, "point3_position", SLOTN, oj, R.r[0][p][0], R.sc[0][p][0],
              [&](int i) { return ms::line_writes(SLOTQ[i], G::ALL, true, ecaps, false); }, !loc, false);
        if (am && loc) {     // distance computed from the arc: accuracy-level comparison of the position
          double tol = 2 * doc_accuracy_m(S::exactp(), q.a, q.f);
          double dpos = std::fabs(od.v[0] - R.r[1][p][0].v[0]) * Math::degree() * big;
          ctx.worst("point3.position_at_distance_over_tol", dpos / tol, kb + " " + k2);
          if (!(dpos <= tol)) ctx.fail(kb + " " + k2 + " pos", "Position(Distance()) is " + fmt(dpos) + " m in latitude from the defining end point", FF("directline-roundtrip"));
        }
      }
    }
  }
  ctx.sub("point3-inverse/" + sn);
  for (int pi = 0; pi < NPAIR; ++pi) for (unsigned cs = 0; cs < 256; ++cs) {
    const Pair& pr = PAIRS[pi];
    if (!T && !pr.quick) continue;
    if (!ctx.take()) continue;
    Ctx::Case cse(ctx);
    G g = S::make(pr.a, pr.f);
    Out ref = geninverse(g, pr, G::ALL);
    unsigned caps = E::caps(cs);
    std::string kb = sn + " " + pr.name + " InverseLine caps=" + maskname(cs, true);
    mc::Fields F{{"solver", sn}, {"pair", pr.name}, {"caps", maskname(cs, true)}};
    auto FF = [&](const char* kind) { mc::Fields h = F; h.push_back({"kind", kind}); return h; };
    L l = g.InverseLine(pr.lat1, pr.lon1, pr.lat2, pr.lon2, caps);
    const double big = std::fmax(pr.a, pr.a * (1 - pr.f));
    const double tol = 2 * doc_accuracy_m(S::exactp(), pr.a, pr.f);
    double d = dev_ulps(l.Arc(), ref.ret, 180);
    ctx.worst("inverseline.arc_dev_ulps_of_scale", d, kb);
    if (!(d <= TOL_ULPS)) ctx.fail(kb + " Arc", "Arc() = " + fx(l.Arc()) + " but Inverse returns a12 = " + fx(ref.ret), FF("inverseline-arc"));
    if (ms::inverseline_has_s13(caps)) {
      double e = std::fabs(l.Distance() - ref.v[3]);
      ctx.worst("inverseline.distance_over_tol", e / tol, kb);
      if (!(e <= tol)) ctx.fail(kb + " Distance", "Distance() = " + fx(l.Distance()) + " but Inverse gives s12 = " + fx(ref.v[3]), FF("inverseline-distance"));
    } else if (!std::isnan(l.Distance())) ctx.fail(kb + " Distance", "Distance() = " + fx(l.Distance()) + " on a line without DISTANCE/DISTANCE_IN", FF("inverseline-distance"));
    double da = dev_ulps(l.Azimuth(), ref.v[0], 180);
    if (!(da <= TOL_ULPS)) ctx.fail(kb + " Azimuth", "Azimuth() = " + fx(l.Azimuth()) + " but Inverse gives azi1 = " + fx(ref.v[0]), FF("inverseline-azimuth"));
    for (unsigned ts = 0; ts < 256; ++ts) { unsigned tc = E::caps(ts); if (ms::line_has(caps, tc) && !l.Capabilities(tc)) { ctx.fail(kb + " caps", "InverseLine result lacks a requested capability", FF("capabilities")); break; } }
    // third point = point 2 (skip the longitude when point 2 is a pole; coincident points are trivially reproduced)
    auto endpoint = [&](const Out& o, const char* how, bool lonavail) {
      double coslat = std::cos(pr.lat2 * Math::degree());
      double e = std::fabs(o.v[0] - pr.lat2) * Math::degree() * big;
      if (lonavail) e = std::hypot(e, std::remainder(o.v[1] - pr.lon2, 360.0) * Math::degree() * big * coslat);
      ctx.worst("inverseline.endpoint_over_tol", e / tol, kb + " " + how);
      if (!(e <= tol)) ctx.fail(kb + " " + how, std::string(how) + " = (" + fx(o.v[0]) + "," + fx(o.v[1]) + ") is " + fmt(e) + " m from point 2 (" + fx(pr.lat2) + "," + fx(pr.lon2) + ")", FF("inverseline-endpoint"));
      double ea = dev_ulps(o.v[2], ref.v[2], 180);
      if (std::fabs(pr.lat2) < 90 && !(std::fabs(std::remainder(o.v[2] - ref.v[2], 360.0)) * Math::degree() * big * coslat <= tol)) ctx.fail(kb + " " + how + " azi2", "azi2 at point 3 " + fx(o.v[2]) + " != azi2 of Inverse " + fx(ref.v[2]), FF("inverseline-endpoint"));
      (void)ea;
    };
    bool lonav = ms::line_writes(ms::Q_LON, G::ALL, true, caps, true);
    Out oa = genpos(l, true, l.Arc(), G::LATITUDE | G::LONGITUDE | G::AZIMUTH);
    if (oa.untouched(0) || oa.untouched(2) || (lonav && oa.untouched(1)) || (!lonav && !oa.untouched(1))) ctx.fail(kb + " @Arc()", "written set wrong: " + outs(oa), FF("inverseline-written"));
    else endpoint(oa, "ArcPosition(Arc())", lonav);
    if (caps & ms::BIT_DISTANCE_IN) {
      Out od = genpos(l, false, l.Distance(), G::LATITUDE | G::LONGITUDE | G::AZIMUTH);
      if (std::isnan(od.ret) || od.untouched(0)) ctx.fail(kb + " @Distance()", "Position(Distance()) not computed: " + outs(od), FF("inverseline-written"));
      else endpoint(od, "Position(Distance())", lonav);
    }
  }
  // ---------------------------------------------------------------- default-constructed lines
  ctx.sub("uninitialised/" + sn);
  if (ctx.take()) {
    L l;
    mc::Fields F{{"solver", sn}};
    auto FF = [&](const char* kind) { mc::Fields h = F; h.push_back({"kind", kind}); return h; };
    for (int pass = 0; pass < 2; ++pass) {
      for (int am = 0; am < 2; ++am) for (unsigned om = 0; om < 256; ++om) for (double x : {0.0, 1e6, -35.0}) {
        Ctx::Case cse(ctx);
        Out o = genpos(l, am, x, Enums<S>::outmask(om));
        bool touched = false; for (int i = 0; i < NS; ++i) touched |= !o.untouched(i);
        if (!std::isnan(o.ret) || touched) ctx.fail(sn + " default-constructed GenPosition(" + fmti(am) + "," + fmt(x) + "," + maskname(om, false) + ")", "uninitialised line: " + outs(o), FF("uninitialised"));
      }
      Ctx::Case cse(ctx);
      { Out o; double* v = o.v; o.ret = l.Position(1e6, v[0], v[1], v[2], v[4], v[5], v[6], v[7]); bool t = false; for (int i = 0; i < NS; ++i) t |= !o.untouched(i);
        if (!std::isnan(o.ret) || t) ctx.fail(sn + " default-constructed Position", "uninitialised line: " + outs(o), FF("uninitialised")); }
      { Out o; double* v = o.v; l.ArcPosition(10, v[0], v[1], v[2], v[3], v[4], v[5], v[6], v[7]); bool t = false; for (int i = 0; i < NS; ++i) t |= !o.untouched(i);
        if (t) ctx.fail(sn + " default-constructed ArcPosition", "uninitialised line: " + outs(o), FF("uninitialised")); }
      if (l.Init() || !std::isnan(l.Latitude()) || !std::isnan(l.Longitude()) || !std::isnan(l.Azimuth()) || !std::isnan(l.EquatorialRadius()) || !std::isnan(l.Flattening())
          || !std::isnan(l.Distance()) || !std::isnan(l.Arc()) || !std::isnan(l.EquatorialAzimuth()) || !std::isnan(l.EquatorialArc()) || l.Capabilities() != 0 || l.Capabilities(G::LATITUDE))
        ctx.fail(sn + " default-constructed inspectors pass " + fmti(pass), "inspectors of an uninitialised line do not report NaN / no capabilities", FF("uninitialised-inspector"));
      // setting point 3 on an uninitialised line must not make it look initialised
      l.SetDistance(1e6); l.SetArc(20);
    }
  }
  (void)nan;
}

// ================================================================= enumerator values
static void check_enums(Ctx& ctx) {
  ctx.sub("enum-values");
  if (!ctx.take()) return;
  Ctx::Case cs(ctx);
  auto chk = [&](const char* cls, const char* nm, unsigned got, unsigned want) {
    if (got != want) ctx.fail(std::string(cls) + "::" + nm, std::string(cls) + "::" + nm + " = " + fmti(got) + " but the header documents " + fmti(want), {{"kind", "enum-value"}, {"class", cls}, {"enumerator", nm}});
  };
#define C12_ENUM(C, D) chk(#C, "NONE", C::NONE, D.NONE); chk(#C, "LATITUDE", C::LATITUDE, D.LATITUDE); chk(#C, "LONGITUDE", C::LONGITUDE, D.LONGITUDE); \
  chk(#C, "AZIMUTH", C::AZIMUTH, D.AZIMUTH); chk(#C, "DISTANCE", C::DISTANCE, D.DISTANCE); chk(#C, "STANDARD", C::STANDARD, D.STANDARD); \
  chk(#C, "DISTANCE_IN", C::DISTANCE_IN, D.DISTANCE_IN); chk(#C, "REDUCEDLENGTH", C::REDUCEDLENGTH, D.REDUCEDLENGTH); chk(#C, "GEODESICSCALE", C::GEODESICSCALE, D.GEODESICSCALE); \
  chk(#C, "AREA", C::AREA, D.AREA); chk(#C, "LONG_UNROLL", C::LONG_UNROLL, D.LONG_UNROLL); chk(#C, "ALL", C::ALL, D.ALL);
  C12_ENUM(Geodesic, ms::SERIES_ENUM) C12_ENUM(GeodesicLine, ms::SERIES_ENUM) C12_ENUM(GeodesicExact, ms::EXACT_ENUM) C12_ENUM(GeodesicLineExact, ms::EXACT_ENUM)
#undef C12_ENUM
#define C12_RENUM(C) chk(#C, "NONE", C::NONE, ms::RHUMB_ENUM.NONE); chk(#C, "LATITUDE", C::LATITUDE, ms::RHUMB_ENUM.LATITUDE); chk(#C, "LONGITUDE", C::LONGITUDE, ms::RHUMB_ENUM.LONGITUDE); \
  chk(#C, "AZIMUTH", C::AZIMUTH, ms::RHUMB_ENUM.AZIMUTH); chk(#C, "DISTANCE", C::DISTANCE, ms::RHUMB_ENUM.DISTANCE); chk(#C, "AREA", C::AREA, ms::RHUMB_ENUM.AREA); \
  chk(#C, "LONG_UNROLL", C::LONG_UNROLL, ms::RHUMB_ENUM.LONG_UNROLL); chk(#C, "ALL", C::ALL, ms::RHUMB_ENUM.ALL);
  C12_RENUM(Rhumb) C12_RENUM(RhumbLine)
#undef C12_RENUM
}

template <class S> static void run_solver(Ctx& ctx, bool T) {
  typedef typename S::G G; typedef typename S::L L; typedef Enums<S> E;
  const std::string sn = S::name();
  const int npos = T ? NPOS_T : NPOS_Q;
  // ---------------------------------------------------------------- GenPosition: masks x caps x arcmode x positions,
  // on lines obtained through every constructor path.  The value reference of a path is the line obtained through the
  // SAME path with caps = ALL (InverseLine hands sin/cos of azi1 to the line, which need not equal sincosd(azi1) bitwise).
  //   path 0 Line; 1 DirectLine(s13 = distance of 35 deg); 2 ArcDirectLine(35 deg); 3 GenDirectLine(false, ..);
  //   4 GenDirectLine(true, ..); 5 InverseLine to the point at 35 deg
  static const char* const PATHN[6] = {"Line", "DirectLine", "ArcDirectLine", "GenDirectLine(false)", "GenDirectLine(true)", "InverseLine"};
  for (int path = 0; path < (T ? 6 : 1); ++path) {
    ctx.sub(path == 0 ? "genposition/" + sn : std::string("genposition-") + PATHN[path] + "/" + sn);
    const int np = path == 0 ? npos : NPOS_PATH;
    for (int gi = 0; gi < NGEO; ++gi) for (unsigned cs = 0; cs < 256; ++cs) {
      const Geo& q = GEOS[gi];
      if (!T && !q.quick) continue;
      if (!ctx.take()) continue;
      G g = S::make(q.a, q.f);
      Refs R0 = path == 0 ? Refs() : make_refs<S>(g, q);
      const double s13 = path == 0 ? 0 : R0.s[0], lat3 = path == 0 ? 0 : R0.r[1][0][0].v[0], lon3 = path == 0 ? 0 : R0.r[1][0][0].v[1];
      auto mk = [&](unsigned c) -> L {
        switch (path) {
        case 0: return g.Line(q.lat1, q.lon1, q.azi1, c);
        case 1: return g.DirectLine(q.lat1, q.lon1, q.azi1, s13, c);
        case 2: return g.ArcDirectLine(q.lat1, q.lon1, q.azi1, ARCS[0], c);
        case 3: return g.GenDirectLine(q.lat1, q.lon1, q.azi1, false, s13, c);
        case 4: return g.GenDirectLine(q.lat1, q.lon1, q.azi1, true, ARCS[0], c);
        default: return g.InverseLine(q.lat1, q.lon1, lat3, lon3, c);
        }
      };
      Refs R = make_refs_from<S>(mk, q);
      unsigned caps = E::caps(cs);
      // capabilities the line has according to the documentation of the path
      unsigned ecaps = (path == 1 || path == 3) ? ms::directline_caps(caps) : caps;
      // InverseLine with DISTANCE_IN but without DISTANCE: whether s12 can be returned is not documented (the library adds
      // the capability so that the arc can be converted to the distance) -- s12 is not judged there
      bool s12silent = path == 5 && (caps & ms::BIT_DISTANCE_IN) && !(caps & ms::OUTBIT[ms::Q_DIST]);
      L line = mk(caps);
      for (int am = 0; am < 2; ++am) for (int p = 0; p < np; ++p) for (unsigned om = 0; om < 256; ++om) {
        Ctx::Case cse(ctx);
        unsigned outmask = E::outmask(om);
        double x = am ? ARCS[p] : R.s[p];
        Out o = genpos(line, am, x, outmask);
        bool u = ms::unrolled(outmask), rn = ms::line_returns_nan(true, ecaps, am);
        unsigned wbits = 0; for (int i = 0; i < NS; ++i) if (!o.untouched(i)) wbits |= 1u << i;
        ctx.sig((uint64_t)wbits | (std::isnan(o.ret) ? 256 : 0) | (am ? 512 : 0));
        if (s12silent && (outmask & ms::OUTBIT[ms::Q_DIST])) { ctx.count("inverseline_s12_with_DISTANCE_IN_only_not_judged"); o.v[3] = SENT[3]; }
        std::string key = sn + " " + q.name + (path ? std::string(" via ") + PATHN[path] : std::string()) + " caps=" + maskname(cs, true) + " outmask=" + maskname(om, false) + (am ? " arc=" : " dist=") + fx(x);
        mc::Fields F{{"solver", sn}, {"geodesic", q.name}, {"path", PATHN[path]}, {"caps", maskname(cs, true)}, {"outmask", maskname(om, false)}, {"arcmode", fmti(am)}};
        judge(ctx, key, F, path == 0 ? "genposition" : "genposition_paths", SLOTN, o, R.r[am][p][u], R.sc[am][p][u],
              [&](int i) { return ms::line_writes(SLOTQ[i], outmask, true, ecaps, am) && !(s12silent && i == 3); }, rn, true);
        if (ctx.want_sample()) ctx.sample(key + " -> " + outs(o));
      }
    }
  }
  // ---------------------------------------------------------------- references are themselves consistent
  ctx.sub("reference-consistency/" + sn);
  for (int gi = 0; gi < NGEO; ++gi) {
    const Geo& q = GEOS[gi];
    if (!T && !q.quick) continue;
    if (!ctx.take()) continue;
    G g = S::make(q.a, q.f);
    Refs R = make_refs<S>(g, q);
    double docm = doc_accuracy_m(S::exactp(), q.a, q.f);
    for (int p = 0; p < npos; ++p) {
      Ctx::Case cse(ctx);
      std::string key = sn + " " + q.name + " arc=" + fmt(ARCS[p]);
      mc::Fields F{{"solver", sn}, {"geodesic", q.name}};
      auto FF = [&](const char* kind) { mc::Fields h = F; h.push_back({"kind", kind}); return h; };
      for (int am = 0; am < 2; ++am) {
        // LONG_UNROLL changes nothing but lon2, and lon2 only by a multiple of 360
        const Out& a0 = R.r[am][p][0]; const Out& a1 = R.r[am][p][1];
        for (int i = 0; i < NS; ++i) if (i != 1 && !mc::same_bits(a0.v[i], a1.v[i])) ctx.fail(key + " unroll " + SLOTN[i], std::string(SLOTN[i]) + " depends on LONG_UNROLL: " + fx(a0.v[i]) + " vs " + fx(a1.v[i]), FF("unroll-dependence"));
        double d = std::remainder(a1.v[1] - a0.v[1], 360.0);
        ctx.worst("unroll.lon2_mod360_dev_ulps_of_scale", std::fabs(d) / (EPS * std::fmax(180.0, std::fabs(a1.v[1]))), key);
        if (!(std::fabs(d) <= 8 * EPS * std::fmax(180.0, std::fabs(a1.v[1])))) ctx.fail(key + " unroll lon2", "unrolled lon2 " + fx(a1.v[1]) + " is not lon2 " + fx(a0.v[1]) + " + 360 k", FF("unroll-lon2"));
        if (!(a0.v[1] >= -180 && a0.v[1] <= 180)) ctx.fail(key + " lon2-range", "lon2 " + fx(a0.v[1]) + " outside [-180,180] without LONG_UNROLL", FF("lon2-range"));
        // with LONG_UNROLL "lon2 - lon1 indicates how many times and in what sense the geodesic encircles the ellipsoid":
        // the longitude advances in the sense of sin(azi1) x sign(length) and, up to the jump of 180 deg at a pole and the
        // O(f) difference between longitude and arc, by as much as the arc length
        { double dl = a1.v[1] - q.lon1, arc = am ? ARCS[p] : R.r[0][p][0].ret;
          double sa = std::sin(q.azi1 * Math::degree());
          bool meridional = std::fabs(sa) < 1e-6 || std::fabs(q.lat1) == 90;
          if (!meridional && std::fabs(arc) > 1e-12 && !((dl > 0) == ((sa > 0) == (arc > 0)))) ctx.fail(key + " unroll-sense", "unrolled lon2 - lon1 = " + fx(dl) + " has the wrong sense for azi1 = " + fmt(q.azi1) + ", a12 = " + fmt(arc), FF("unroll-sense"));
          double slack = 180 + 2 * std::fabs(q.f) * std::fabs(arc) + 1;
          if (!(std::fabs(std::fabs(dl) - std::fabs(arc)) <= slack)) ctx.fail(key + " unroll-turns", "unrolled lon2 - lon1 = " + fx(dl) + " is inconsistent with an arc of " + fmt(arc) + " deg", FF("unroll-turns")); }
      }
      // arc-specified and distance-specified positions coincide (position error in metres against the documented accuracy)
      const Out& A = R.r[1][p][0]; const Out& D = R.r[0][p][0];
      double big = std::fmax(q.a, q.a * (1 - q.f));
      double coslat = std::cos(A.v[0] * Math::degree());
      double dpos = std::hypot((A.v[0] - D.v[0]) * Math::degree() * big, std::remainder(A.v[1] - D.v[1], 360.0) * Math::degree() * big * coslat);
      double dazi = std::fabs(std::remainder(A.v[2] - D.v[2], 360.0)) * Math::degree() * big * coslat;    // as a displacement at the end point (the azimuth is ill-defined at the pole itself)
      // The coincidence of the arc- and distance-specified point is a self-consistency claim ("the same point"), not an
      // absolute-accuracy claim: the documented accuracy (10 um for |f| <= 0.05, ...) is no yardstick for it.  Calibrated:
      // worst observed on the unchanged tree 3.1 nm (a = WGS84 a), frozen at 16 nm per half turn, never looser than 2 x documented.
      double tol = std::fmin(2 * docm, 16e-9 * q.a / WA) * std::fmax(1.0, std::fabs(ARCS[p]) / 180);
      ctx.worst("arc_vs_distance.position_over_tol", dpos / tol, key);
      if (!(dpos <= tol)) ctx.fail(key + " arc-dist", "Position(s12 of ArcPosition(a12)) is " + fmt(dpos) + " m from ArcPosition(a12) (tolerance " + fmt(tol) + ")", FF("arc-vs-distance"));
      // at a pole the azimuth (and with it the area, by a lune) depends on the side from which the pole is reached: not compared
      const bool atpole = std::fabs(A.v[0]) > 90 - 1e-6 || (std::fabs(q.lat1) == 90 && std::fabs(ARCS[p]) < 1e-6);
      if (atpole) { ctx.count("arc_vs_distance.end_point_at_pole_azimuth_area_not_compared"); ctx.list("skipped", "arc- vs distance-specified position ending at a pole: azi2 and S12 depend on the side of approach -- only the position, a12, m12, M12, M21 compared"); }
      if (!atpole) ctx.worst("arc_vs_distance.azimuth_over_tol", dazi / tol, key);
      if (!atpole && !(dazi <= tol)) ctx.fail(key + " arc-dist-azi", "azi2 differs by " + fmt(dazi) + " m-equivalent between arc- and distance-specified position", FF("arc-vs-distance"));
      if (!mc::same_bits(D.v[3], R.s[p])) ctx.fail(key + " s12-echo", "distance-specified position returns s12 " + fx(D.v[3]) + " != given " + fx(R.s[p]), FF("s12-echo"));
      if (!mc::same_bits(A.ret, ARCS[p])) ctx.fail(key + " a12-echo", "arc-specified position returns a12 " + fx(A.ret) + " != given " + fx(ARCS[p]), FF("a12-echo"));
      double da = std::fabs(D.ret - ARCS[p]) * Math::degree() * big;
      ctx.worst("arc_vs_distance.a12_over_tol", da / tol, key);
      if (!(da <= tol)) ctx.fail(key + " a12", "distance-specified position returns a12 " + fx(D.ret) + " for the distance of arc " + fx(ARCS[p]), FF("arc-vs-distance"));
      // m12, M12, M21, S12 of the two specifications agree to the same level (m12 in metres, M12 x a, S12 / a)
      double dm = std::fmax(std::fabs(A.v[4] - D.v[4]), std::fmax(std::fabs(A.v[5] - D.v[5]), std::fabs(A.v[6] - D.v[6])) * big);
      ctx.worst("arc_vs_distance.m12_M12_M21_over_tol", dm / tol, key);
      if (!(dm <= tol)) ctx.fail(key + " arc-dist-m12", "m12/M12/M21 differ by " + fmt(dm) + " m-equivalent between arc- and distance-specified position", FF("arc-vs-distance"));
      // S12 contains c2 * (azi2 - azi1): next to a pole a displacement d of the end point turns azi2 by d / (distance to the axis)
      double dS = std::fabs(A.v[7] - D.v[7]) / big * std::fmin(1.0, coslat);
      if (!atpole) ctx.worst("arc_vs_distance.S12_over_tol", dS / tol, key);
      if (!atpole && !(dS <= tol)) ctx.fail(key + " arc-dist-S12", "S12 differs by " + fmt(dS * big) + " m^2 between arc- and distance-specified position", FF("arc-vs-distance"));
    }
  }
  // ---------------------------------------------------------------- GenDirect: masks x arcmode x positions;  Position(s) == Direct(start, s)
  ctx.sub("gendirect/" + sn);
  for (int gi = 0; gi < NGEO; ++gi) for (int am = 0; am < 2; ++am) {
    const Geo& q = GEOS[gi];
    if (!T && !q.quick) continue;
    if (!ctx.take()) continue;
    G g = S::make(q.a, q.f);
    Refs R = make_refs<S>(g, q);
    for (int p = 0; p < npos; ++p) for (unsigned om = 0; om < 256; ++om) {
      Ctx::Case cse(ctx);
      unsigned outmask = E::outmask(om);
      double x = am ? ARCS[p] : R.s[p];
      Out o = gendirect(g, q, am, x, outmask);
      bool u = ms::unrolled(outmask);
      unsigned wbits = 0; for (int i = 0; i < NS; ++i) if (!o.untouched(i)) wbits |= 1u << i;
      ctx.sig((uint64_t)wbits | (std::isnan(o.ret) ? 256 : 0) | (am ? 512 : 0));
      std::string key = sn + " " + q.name + " GenDirect outmask=" + maskname(om, false) + (am ? " arc=" : " dist=") + fx(x);
      mc::Fields F{{"solver", sn}, {"geodesic", q.name}, {"outmask", maskname(om, false)}, {"arcmode", fmti(am)}};
      judge(ctx, key, F, "gendirect_vs_line", SLOTN, o, R.r[am][p][u], R.sc[am][p][u], [&](int i) { return ms::direct_writes(SLOTQ[i], outmask); }, false, true);
      if (ctx.want_sample()) ctx.sample(key + " -> " + outs(o));
    }
  }
  // ---------------------------------------------------------------- GenInverse: masks
  ctx.sub("geninverse/" + sn);
  for (int pi = 0; pi < NPAIR; ++pi) {
    const Pair& pr = PAIRS[pi];
    if (!T && !pr.quick) continue;
    if (!ctx.take()) continue;
    G g = S::make(pr.a, pr.f);
    Out ref = geninverse(g, pr, G::ALL);
    Out sref; sref.ret = ref.ret; for (int i = 0; i < NS; ++i) sref.v[i] = ref.v[i];
    Scale sc = scales(pr.a, pr.f, ref); sc.s[0] = 180;
    for (unsigned om = 0; om < 256; ++om) {
      Ctx::Case cse(ctx);
      unsigned outmask = E::outmask(om);
      Out o = geninverse(g, pr, outmask);
      unsigned wbits = 0; for (int i = 0; i < NS; ++i) if (!o.untouched(i)) wbits |= 1u << i;
      ctx.sig((uint64_t)wbits | (std::isnan(o.ret) ? 256 : 0));
      std::string key = sn + " " + pr.name + " GenInverse outmask=" + maskname(om, false);
      mc::Fields F{{"solver", sn}, {"pair", pr.name}, {"outmask", maskname(om, false)}};
      judge(ctx, key, F, "geninverse", INVN, o, ref, sc, [&](int i) { return i != 1 && ms::inverse_writes(INVQ[i], outmask); }, false, true);
      if (ctx.want_sample()) ctx.sample(key + " -> " + outs(o));
    }
  }
  run_overloads<S>(ctx, T);
  run_point3<S>(ctx, T);
}

// ================================================================= rhumb: masks and overloads
struct Course { const char* name; double lat1, lon1, azi12, s12, lat2, lon2; bool quick; };
static const Course COURSES[] = {
  {"generic", 40, -70, 60, 3e6, 55, 10, true},
  {"beyond-the-pole", 30, 0, 10, 1.5e7, -80, 179, true},           // direct: lon2 and S12 are NaN
  {"east-west-across-antimeridian", -20, 170, 90, 4e6, -20, -160, true},
  {"negative-distance", 10, 10, -135, -2e6, -35, 10, false},
  {"winding-near-pole", 89, 0, 89.9, 2e6, 89.5, -120, false},
  {"equatorial-east", 0, 0, 90, 1e7, 0, 100, false},
  {"meridional-north", -10, 25, 0, 5e6, 70, 25, false},
  {"meridional-south-across-equator", 20, -100, 180, 6e6, -40, -100, false},
  {"start-next-to-pole", 89.9999, 10, 135, 1e6, 0, -170, false},
  {"lon1-outside-range", 5, -190, 80, 2e6, 30, 200, false},
  {"zero-distance", -33, 150, 47, 0, -33, 150, false},
  {"to-the-pole-inverse", 45, 0, 30, 1e3, 90, 60, false},
  {"west-multi-circuit", 60, 0, 270, 3e7, 60.000001, -1e-6, true},     // quick too: spans > 180 deg of longitude (S12 must not depend on LONG_UNROLL)
  {"opposite-meridians", 30, 0, -86, 1.2e7, 40, 180, false},
  {"tiny", 10, 10, 33, 1e-3, 10 + 1e-9, 10 + 1e-9, false},
};
static const int NCOURSE = sizeof(COURSES) / sizeof(COURSES[0]);
static unsigned rmask(unsigned sel) {
  static const unsigned v[6] = {Rhumb::LATITUDE, Rhumb::LONGITUDE, Rhumb::AZIMUTH, Rhumb::DISTANCE, Rhumb::AREA, Rhumb::LONG_UNROLL};
  unsigned m = 0; for (int i = 0; i < 6; ++i) if (sel >> i & 1) m |= v[i]; return m;
}
static std::string rmaskname(unsigned sel) {
  static const char* const n[6] = {"LATITUDE", "LONGITUDE", "AZIMUTH", "DISTANCE", "AREA", "LONG_UNROLL"};
  std::string s; for (int i = 0; i < 6; ++i) if (sel >> i & 1) { if (!s.empty()) s += "|"; s += n[i]; }
  return s.empty() ? "NONE" : s;
}
static void run_rhumb(Ctx& ctx, bool T) {
  struct RE { double a, f; bool exact, quick; };
  const RE res[] = {{WA, WF, false, true}, {WA, WF, true, true}, {WA, 0.1, true, false}, {WA, -1 / 150.0, false, false}, {WA, -0.1, true, false}, {WA, 0.01, false, false}, {WA, 0, true, false}, {1, 1 / 150.0, false, false}};
  ctx.bound("rhumb", "all 2^6 subsets of Rhumb::mask {LATITUDE,LONGITUDE,AZIMUTH,DISTANCE,AREA,LONG_UNROLL} for GenDirect, RhumbLine::GenPosition and GenInverse; all overloads; " + std::string(T ? "8 ellipsoid/mode combinations x 15 courses" : "WGS84 series and exact x 4 courses"));
  ctx.sub("rhumb");
  for (const RE& re : res) for (int ci = 0; ci < NCOURSE; ++ci) {
    const Course& c = COURSES[ci];
    if (!T && !(re.quick && c.quick)) continue;
    if (!ctx.take()) continue;
    Rhumb rh(re.a, re.f, re.exact);
    RhumbLine ln = rh.Line(c.lat1, c.lon1, c.azi12);
    std::string kb = std::string("Rhumb(") + fmt(re.a) + "," + fmt(re.f) + "," + (re.exact ? "exact" : "series") + ") " + c.name;
    mc::Fields F{{"solver", re.exact ? "Rhumb(exact)" : "Rhumb(series)"}, {"course", c.name}};
    // references: ALL and ALL | LONG_UNROLL
    Out rd[2], ri;
    for (int u = 0; u < 2; ++u) rh.GenDirect(c.lat1, c.lon1, c.azi12, c.s12, Rhumb::ALL | (u ? Rhumb::LONG_UNROLL : 0), rd[u].v[0], rd[u].v[1], rd[u].v[7]);
    rh.GenInverse(c.lat1, c.lon1, c.lat2, c.lon2, Rhumb::ALL, ri.v[3], ri.v[2], ri.v[7]);
    Scale sd[2] = {scales(re.a, re.f, rd[0]), scales(re.a, re.f, rd[1])}, si = scales(re.a, re.f, ri);
    for (unsigned om = 0; om < 64; ++om) {
      unsigned outmask = rmask(om); bool u = ms::unrolled(outmask);
      auto wd = [&](int i) { return (i == 0 || i == 1 || i == 7) && ms::rhumb_direct_writes(SLOTQ[i], outmask); };
      auto wi = [&](int i) { return (i == 3 || i == 2 || i == 7) && ms::rhumb_inverse_writes(SLOTQ[i], outmask); };
      mc::Fields G = F; G.push_back({"outmask", rmaskname(om)});
      { Ctx::Case cse(ctx); Out o; rh.GenDirect(c.lat1, c.lon1, c.azi12, c.s12, outmask, o.v[0], o.v[1], o.v[7]);
        judge(ctx, kb + " GenDirect " + rmaskname(om), G, "rhumb_gendirect", SLOTN, o, rd[u], sd[u], wd, false, false); }
      { Ctx::Case cse(ctx); Out o; ln.GenPosition(c.s12, outmask, o.v[0], o.v[1], o.v[7]);
        judge(ctx, kb + " RhumbLine::GenPosition " + rmaskname(om), G, "rhumb_genposition", SLOTN, o, rd[u], sd[u], wd, false, false); }
      { Ctx::Case cse(ctx); Out o; rh.GenInverse(c.lat1, c.lon1, c.lat2, c.lon2, outmask, o.v[3], o.v[2], o.v[7]);
        judge(ctx, kb + " GenInverse " + rmaskname(om), G, "rhumb_geninverse", SLOTN, o, ri, si, wi, false, false); }
    }
    // LONG_UNROLL changes lon2 by a multiple of 360 only
    { Ctx::Case cse(ctx);
      mc::Fields G = F; G.push_back({"kind", "unroll"});
      if (!mc::same_bits(rd[0].v[0], rd[1].v[0]) || !(mc::same_bits(rd[0].v[7], rd[1].v[7]) || (std::isnan(rd[0].v[7]) && std::isnan(rd[1].v[7])))) ctx.fail(kb + " unroll", "lat2/S12 depend on LONG_UNROLL", G);
      if (std::isnan(rd[0].v[1]) != std::isnan(rd[1].v[1])) ctx.fail(kb + " unroll-nan", "lon2 NaN-ness depends on LONG_UNROLL", G);
      else if (!std::isnan(rd[0].v[1])) {
        // unrolled: lon2 - lon1 has the sense of sin(azi12) x sign(s12)
        double dl = rd[1].v[1] - c.lon1, sa = std::sin(c.azi12 * Math::degree());
        if (std::fabs(sa) > 1e-6 && c.s12 != 0 && !((dl > 0) == ((sa > 0) == (c.s12 > 0)))) ctx.fail(kb + " unroll-sense", "unrolled lon2 - lon1 = " + fx(dl) + " has the wrong sense", G);
        double d = std::remainder(rd[1].v[1] - rd[0].v[1], 360.0);
        if (!(std::fabs(d) <= 8 * EPS * std::fmax(180.0, std::fabs(rd[1].v[1]))) || !(rd[0].v[1] >= -180 && rd[0].v[1] <= 180)) ctx.fail(kb + " unroll-lon2", "unrolled lon2 " + fx(rd[1].v[1]) + " vs lon2 " + fx(rd[0].v[1]), G);
      } }
    // overloads
    auto ov = [&](const char* label, const Out& o, const Out& ref, const Scale& sc, unsigned set) {
      mc::Fields G = F; G.push_back({"overload", label});
      judge(ctx, kb + " " + label, G, "rhumb_overload", SLOTN, o, ref, sc, [&](int i) { return (set >> i & 1) != 0; }, false, false);
    };
    { Ctx::Case cse(ctx); Out o; rh.Direct(c.lat1, c.lon1, c.azi12, c.s12, o.v[0], o.v[1], o.v[7]); ov("Rhumb::Direct(lat2,lon2,S12)", o, rd[0], sd[0], slotset({0,1,7})); }
    { Ctx::Case cse(ctx); Out o; rh.Direct(c.lat1, c.lon1, c.azi12, c.s12, o.v[0], o.v[1]); ov("Rhumb::Direct(lat2,lon2)", o, rd[0], sd[0], slotset({0,1})); }
    { Ctx::Case cse(ctx); Out o; ln.Position(c.s12, o.v[0], o.v[1], o.v[7]); ov("RhumbLine::Position(lat2,lon2,S12)", o, rd[0], sd[0], slotset({0,1,7})); }
    { Ctx::Case cse(ctx); Out o; ln.Position(c.s12, o.v[0], o.v[1]); ov("RhumbLine::Position(lat2,lon2)", o, rd[0], sd[0], slotset({0,1})); }
    { Ctx::Case cse(ctx); Out o; rh.Inverse(c.lat1, c.lon1, c.lat2, c.lon2, o.v[3], o.v[2], o.v[7]); ov("Rhumb::Inverse(s12,azi12,S12)", o, ri, si, slotset({3,2,7})); }
    { Ctx::Case cse(ctx); Out o; rh.Inverse(c.lat1, c.lon1, c.lat2, c.lon2, o.v[3], o.v[2]); ov("Rhumb::Inverse(s12,azi12)", o, ri, si, slotset({3,2})); }
  }
}

// ================================================================= order-complete line / direct / inverse consistency (E2)
// Operation histories on a FRESH solver object (and a line obtained from it at the start of the history): all sequences
// of up to `depth` operations from an alphabet {line queries, direct, inverse; with and without the area}.  Differential
// oracle: the outputs of the last operation of every history are BIT-identical to the same operation executed alone on a
// fresh solver (so no operation depends on what was asked of the solver or of the line before -- e.g. lazily built
// tables); and every line query agrees with the direct solution from the start point within the usual tolerance in
// every order.
#include <functional>
#include <memory>
template <class W> struct OOp { std::string name; std::function<Out(W&)> f; int direct; };      // direct: index of the op a line query must agree with, or -1
static bool out_same(const Out& a, const Out& b) {
  auto eq = [](double x, double y) { return mc::same_bits(x, y) || (std::isnan(x) && std::isnan(y)); };
  if (!eq(a.ret, b.ret)) return false;
  for (int i = 0; i < NS; ++i) if (!eq(a.v[i], b.v[i])) return false;
  return true;
}
template <class W, class MK>
static void order_complete(Ctx& ctx, const std::string& title, const std::vector<OOp<W>>& ops, int depth, MK make, const mc::Fields& F0, double a, double f) {
  const int n = (int)ops.size();
  std::vector<Out> ref(n);
  for (int i = 0; i < n; ++i) { auto w = make(); ref[i] = ops[i].f(*w); }
  uint64_t hist = 0;
  for (int len = 1; len <= depth; ++len) {
    std::vector<int> idx(len, 0);
    while (true) {
      Ctx::Case cse(ctx); ++hist;
      auto w = make();
      Out o;
      for (int k = 0; k < len; ++k) o = ops[idx[k]].f(*w);
      const int last = idx[len - 1];
      std::string hn; for (int k = 0; k < len; ++k) hn += (k ? " ; " : "") + ops[idx[k]].name;
      std::string key = title + " order [" + hn + "]";
      if (!out_same(o, ref[last])) {
        mc::Fields F = F0; F.push_back({"kind", "order-dependence"}); F.push_back({"op", ops[last].name}); F.push_back({"history_length", fmti(len)});
        ctx.fail(key, "outputs of the last operation (" + outs(o) + ") differ from the same operation alone on a fresh solver object (" + outs(ref[last]) + ")", F);
      }
      if (ops[last].direct >= 0) {
        const Out& d = ref[ops[last].direct];
        Scale sc = scales(a, f, d);
        mc::Fields F = F0; F.push_back({"op", ops[last].name}); F.push_back({"history_length", fmti(len)});
        // the line query writes a subset of what the direct call writes: judge the written ones
        judge(ctx, key + " vs " + ops[ops[last].direct].name, F, "order_line_vs_direct", SLOTN, o, d, sc, [&](int i) { return !o.untouched(i); }, false, false);
      }
      int k = len - 1; while (k >= 0 && ++idx[k] == n) { idx[k] = 0; --k; }
      if (k < 0) break;
    }
  }
  ctx.count("order_histories", hist);
}

template <class S> static void run_orders(Ctx& ctx, bool T) {
  typedef typename S::G G; typedef typename S::L L;
  const std::string sn = S::name();
  const int depth = T ? 3 : 2;
  ctx.sub("order-complete/" + sn);
  for (int gi = 0; gi < NGEO; ++gi) {
    const Geo& q = GEOS[gi];
    if (!T && !q.quick) continue;
    if (!ctx.take()) continue;
    // arguments: distance / arc of the 35 deg position, and the inverse problem to that point (computed on a scratch solver)
    double s, lat2, lon2;
    { G g0 = S::make(q.a, q.f); Out r = gendirect(g0, q, true, ARCS[0], G::ALL); s = r.v[3]; lat2 = r.v[0]; lon2 = r.v[1]; }
    struct W { std::unique_ptr<G> g; std::unique_ptr<L> l; };
    typedef OOp<W> O;
    std::vector<O> ops;
    // 0,1: direct (the references of the line queries)
    ops.push_back({"GenDirect(s12,ALL)", [=](W& w) { return gendirect(*w.g, q, false, s, G::ALL); }, -1});
    ops.push_back({"GenDirect(a12,ALL)", [=](W& w) { return gendirect(*w.g, q, true, ARCS[0], G::ALL); }, -1});
    ops.push_back({"line.GenPosition(s12,ALL)", [=](W& w) { return genpos(*w.l, false, s, G::ALL); }, 0});
    ops.push_back({"line.GenPosition(a12,ALL)", [=](W& w) { return genpos(*w.l, true, ARCS[0], G::ALL); }, 1});
    ops.push_back({"line.GenPosition(s12,AREA)", [=](W& w) { return genpos(*w.l, false, s, G::AREA); }, 0});
    ops.push_back({"line.GenPosition(s12,LATITUDE|LONGITUDE)", [=](W& w) { return genpos(*w.l, false, s, G::LATITUDE | G::LONGITUDE); }, 0});
    ops.push_back({"Line(ALL).GenPosition(s12,ALL)", [=](W& w) { L l2 = w.g->Line(q.lat1, q.lon1, q.azi1, G::ALL); return genpos(l2, false, s, G::ALL); }, 0});
    ops.push_back({"GenDirect(s12,LATITUDE|LONGITUDE)", [=](W& w) { return gendirect(*w.g, q, false, s, G::LATITUDE | G::LONGITUDE); }, 0});
    ops.push_back({"GenInverse(ALL)", [=](W& w) { Out o; o.ret = w.g->GenInverse(q.lat1, q.lon1, lat2, lon2, G::ALL, o.v[3], o.v[0], o.v[2], o.v[4], o.v[5], o.v[6], o.v[7]); return o; }, -1});
    ops.push_back({"GenInverse(DISTANCE)", [=](W& w) { Out o; o.ret = w.g->GenInverse(q.lat1, q.lon1, lat2, lon2, G::DISTANCE, o.v[3], o.v[0], o.v[2], o.v[4], o.v[5], o.v[6], o.v[7]); return o; }, -1});
    order_complete<W>(ctx, sn + " " + q.name, ops, depth,
                      [&]() { std::unique_ptr<W> w(new W); w->g.reset(new G(S::make(q.a, q.f))); w->l.reset(new L(w->g->Line(q.lat1, q.lon1, q.azi1, G::ALL))); return w; },
                      {{"solver", sn}, {"geodesic", q.name}}, q.a, q.f);
  }
}

static void run_rhumb_orders(Ctx& ctx, bool T) {
  struct RE { double a, f; bool exact, quick; };
  const RE res[] = {{WA, WF, false, true}, {WA, WF, true, true}, {WA, 0.1, true, false}, {WA, -1 / 150.0, false, false}, {WA, -0.1, true, false}, {WA, 0, true, false}};
  const int depth = T ? 3 : 2;
  ctx.bound("order-complete", "all sequences of up to " + fmti(depth) + " operations on a fresh solver object (+ a line obtained from it) from {direct with/without area (distance and arc), 4 line queries incl. a newly made line, inverse with/without area}; geodesic solvers x geodesics, Rhumb series/exact x courses");
  ctx.sub("order-complete/Rhumb");
  for (const RE& re : res) for (int ci = 0; ci < NCOURSE; ++ci) {
    const Course& c = COURSES[ci];
    if (!T && !(re.quick && c.quick)) continue;
    if (!ctx.take()) continue;
    struct W { std::unique_ptr<Rhumb> r; std::unique_ptr<RhumbLine> l; };
    typedef OOp<W> O;
    std::vector<O> ops;
    auto D = [=](W& w, unsigned m) { Out o; w.r->GenDirect(c.lat1, c.lon1, c.azi12, c.s12, m, o.v[0], o.v[1], o.v[7]); return o; };
    auto P = [=](const RhumbLine& l, unsigned m) { Out o; l.GenPosition(c.s12, m, o.v[0], o.v[1], o.v[7]); return o; };
    ops.push_back({"GenDirect(ALL)", [=](W& w) { return D(w, Rhumb::ALL); }, -1});
    ops.push_back({"line.GenPosition(ALL)", [=](W& w) { return P(*w.l, Rhumb::ALL); }, 0});
    ops.push_back({"line.GenPosition(AREA)", [=](W& w) { return P(*w.l, Rhumb::AREA); }, 0});
    ops.push_back({"line.GenPosition(LATITUDE|LONGITUDE)", [=](W& w) { return P(*w.l, Rhumb::LATITUDE | Rhumb::LONGITUDE); }, 0});
    ops.push_back({"line.Position(lat2,lon2,S12)", [=](W& w) { Out o; w.l->Position(c.s12, o.v[0], o.v[1], o.v[7]); return o; }, 0});
    ops.push_back({"Line().GenPosition(ALL)", [=](W& w) { RhumbLine l2 = w.r->Line(c.lat1, c.lon1, c.azi12); return P(l2, Rhumb::ALL); }, 0});
    ops.push_back({"GenDirect(LATITUDE|LONGITUDE)", [=](W& w) { return D(w, Rhumb::LATITUDE | Rhumb::LONGITUDE); }, 0});
    ops.push_back({"GenInverse(ALL)", [=](W& w) { Out o; w.r->GenInverse(c.lat1, c.lon1, c.lat2, c.lon2, Rhumb::ALL, o.v[3], o.v[2], o.v[7]); return o; }, -1});
    ops.push_back({"GenInverse(DISTANCE|AZIMUTH)", [=](W& w) { Out o; w.r->GenInverse(c.lat1, c.lon1, c.lat2, c.lon2, Rhumb::DISTANCE | Rhumb::AZIMUTH, o.v[3], o.v[2], o.v[7]); return o; }, -1});
    std::string title = std::string("Rhumb(") + fmt(re.a) + "," + fmt(re.f) + "," + (re.exact ? "exact" : "series") + ") " + c.name;
    order_complete<W>(ctx, title, ops, depth,
                      [&]() { std::unique_ptr<W> w(new W); w->r.reset(new Rhumb(re.a, re.f, re.exact)); w->l.reset(new RhumbLine(w->r->Line(c.lat1, c.lon1, c.azi12))); return w; },
                      {{"solver", re.exact ? "Rhumb(exact)" : "Rhumb(series)"}, {"course", c.name}}, re.a, re.f);
  }
}

// ================================================================= short lines (the short-line branch of the inverse problem)
// Lengths 1e-5 .. 10 m: here a12 is ~1e-10 .. 1e-4 deg, so a12 is compared RELATIVELY (an absolute tolerance in degrees is
// blind).  The inverse problem is posed on the direct problem's rounded end point, so its length/azimuth differ from the
// given ones by the quantisation of (lat2, lon2); a12 is a smooth function of the segment: a12 / s12 is the same for both
// up to d ln(dsigma/ds)/dalpha <= e'^2 times the (measured) azimuth difference, and up to the absolute round-off of
// an arc in radians (K eps, i.e. K eps / sigma12 relative).
static const double K_A12REL = 32;          // eps-multiples; worst observed on the unchanged tree reported as short.a12_rel_over_model
template <class S> static void run_short(Ctx& ctx, bool T) {
  typedef typename S::G G; typedef typename S::L L;
  const std::string sn = S::name();
  const double lens[] = {1e-5, 1e-4, 1e-3, 1e-2, 0.05, 0.1, 0.2, 0.25, 0.5, 1, 10};
  const double azis[] = {10, 45, 80, 135, -100};
  const double lats[] = {0.5, 20, 45, 60, 85, -70};
  struct EL { double a, f; };
  const EL els[] = {{WA, WF}, {WA, 0.1}, {WA, -1 / 150.0}};
  ctx.sub("short-lines/" + sn);
  for (const EL& el : els) for (double lat1 : lats) {
    if (!ctx.take()) continue;
    G g = S::make(el.a, el.f);
    const double big = std::fmax(el.a, el.a * (1 - el.f));
    const double tolm = 2 * doc_accuracy_m(S::exactp(), el.a, el.f);
    const double ep2 = std::fabs(el.f * (2 - el.f)) / ((1 - el.f) * (1 - el.f));
    int k = 0;
    for (double azi1 : azis) for (double s12 : lens) {
      Ctx::Case cse(ctx);
      const double lon1 = 10.0 * (k++ % 30) - 140;
      std::string key = sn + " a=" + fmt(el.a) + ",f=" + fmt(el.f) + " short line (" + fmt(lat1) + "," + fmt(lon1) + ") azi1=" + fmt(azi1) + " s12=" + fmt(s12);
      mc::Fields F{{"solver", sn}, {"f", fmt(el.f)}, {"lat1", fmt(lat1)}, {"azi1", fmt(azi1)}, {"s12", fmt(s12)}};
      auto FF = [&](const char* kind) { mc::Fields h = F; h.push_back({"kind", kind}); return h; };
      Out d; d.ret = g.GenDirect(lat1, lon1, azi1, false, s12, G::ALL, d.v[0], d.v[1], d.v[2], d.v[3], d.v[4], d.v[5], d.v[6], d.v[7]);
      const double lat2 = d.v[0], lon2 = d.v[1];
      Out iv; iv.ret = g.GenInverse(lat1, lon1, lat2, lon2, G::ALL, iv.v[3], iv.v[0], iv.v[2], iv.v[4], iv.v[5], iv.v[6], iv.v[7]);
      const double coslat = std::cos(lat2 * Math::degree());
      auto miss = [&](const Out& o) { return std::hypot((o.v[0] - lat2) * Math::degree() * big, std::remainder(o.v[1] - lon2, 360.0) * Math::degree() * big * coslat); };
      // ---- a12 is one quantity whichever call returns it (relative)
      { double dazi = std::fabs(std::remainder(iv.v[0] - azi1, 360.0)) * Math::degree();
        // the arc is obtained from sines/cosines (or as a difference of O(1) terms): its absolute error is eps-level in radians
        double model = EPS * (1 + 1 / (std::fabs(d.ret) * Math::degree())) + 2 * ep2 * dazi / K_A12REL;
        double rel = std::fabs(iv.ret / iv.v[3] - d.ret / s12) / (d.ret / s12);
        ctx.worst("short.a12_rel_over_model", rel / model, key);
        if (!(rel <= K_A12REL * model)) ctx.fail(key + " a12", "a12/s12 of Inverse " + fx(iv.ret) + "/" + fx(iv.v[3]) + " differs from a12/s12 of Direct " + fx(d.ret) + "/" + fx(s12) + " by " + fmt(rel) + " relative", FF("short-a12")); }
      // the inverse recovers the length within the documented accuracy
      ctx.worst("short.s12_roundtrip_over_tol", std::fabs(iv.v[3] - s12) / tolm, key);
      if (!(std::fabs(iv.v[3] - s12) <= tolm)) ctx.fail(key + " s12", "Inverse(Direct) s12 = " + fx(iv.v[3]), FF("short-s12"));
      // ---- InverseLine: third point = point 2
      { L l = g.InverseLine(lat1, lon1, lat2, lon2, G::ALL);
        double ra = std::fabs(l.Arc() - iv.ret) / std::fabs(iv.ret);
        ctx.worst("short.inverseline_arc_rel_eps", ra / EPS, key);
        if (!(ra <= 4 * EPS)) ctx.fail(key + " InverseLine.Arc", "Arc() = " + fx(l.Arc()) + " but Inverse returns a12 = " + fx(iv.ret), FF("short-inverseline-arc"));
        double ds = std::fabs(l.Distance() - iv.v[3]);
        ctx.worst("short.inverseline_distance_over_tol", ds / tolm, key);
        ctx.worst("short.inverseline_distance_rel", ds / iv.v[3], key);
        if (!(ds <= tolm)) ctx.fail(key + " InverseLine.Distance", "Distance() = " + fx(l.Distance()) + " but Inverse gives s12 = " + fx(iv.v[3]), FF("short-inverseline-distance"));
        Out oa = genpos(l, true, l.Arc(), G::ALL), od = genpos(l, false, l.Distance(), G::ALL);
        ctx.worst("short.inverseline_endpoint_over_tol", std::fmax(miss(oa), miss(od)) / tolm, key);
        if (!(miss(oa) <= tolm)) ctx.fail(key + " InverseLine@Arc", "ArcPosition(Arc()) misses point 2 by " + fmt(miss(oa)) + " m", FF("short-inverseline-endpoint"));
        if (!(miss(od) <= tolm)) ctx.fail(key + " InverseLine@Distance", "Position(Distance()) misses point 2 by " + fmt(miss(od)) + " m", FF("short-inverseline-endpoint"));
        // the arc and the distance of the third point describe the same point of the line: s12 of ArcPosition(Arc()) == Distance()
        double rs = std::fabs(oa.v[3] - l.Distance()) / std::fabs(l.Distance());
        ctx.worst("short.inverseline_s12_at_arc_rel_eps", rs / EPS, key);
        // and the fraction of the line covered, measured in arc and in distance, agrees: (relative, catches a shortened arc)
        double fr = std::fabs(oa.v[3] / iv.v[3] - 1);
        ctx.worst("short.inverseline_covered_fraction_dev", fr, key);
        if (!(fr <= 1e-6 + tolm / iv.v[3])) ctx.fail(key + " InverseLine fraction", "ArcPosition(Arc()) covers " + fmt(oa.v[3] / iv.v[3]) + " of the distance to point 2", FF("short-inverseline-fraction")); }
      // ---- DirectLine: third point = point 2 of the direct problem
      { L l = g.DirectLine(lat1, lon1, azi1, s12, G::ALL);
        if (!mc::same_bits(l.Distance(), s12)) ctx.fail(key + " DirectLine.Distance", "Distance() != defining s12", FF("short-directline-distance"));
        double ra = std::fabs(l.Arc() - d.ret) / std::fabs(d.ret);
        ctx.worst("short.directline_arc_rel_eps", ra / EPS, key);
        if (!(ra <= 4 * EPS)) ctx.fail(key + " DirectLine.Arc", "Arc() = " + fx(l.Arc()) + " but Direct returns a12 = " + fx(d.ret), FF("short-directline-arc"));
        Out od = genpos(l, false, l.Distance(), G::ALL), oa = genpos(l, true, l.Arc(), G::ALL);
        if (!out_same(od, d)) ctx.fail(key + " DirectLine@Distance", "Position(Distance()) " + outs(od) + " != Direct " + outs(d), FF("short-directline-position"));
        ctx.worst("short.directline_arc_endpoint_over_tol", miss(oa) / tolm, key);
        if (!(miss(oa) <= tolm)) ctx.fail(key + " DirectLine@Arc", "ArcPosition(Arc()) misses the direct end point by " + fmt(miss(oa)) + " m", FF("short-directline-endpoint"));
        // arc-specified position returns the distance (relative)
        double rs = std::fabs(oa.v[3] - s12) / s12;
        ctx.worst("short.arc_vs_distance_s12_rel", rs, key);
        if (!(rs <= 1e-6 + tolm / s12)) ctx.fail(key + " arc-vs-distance", "ArcPosition(a12 of the direct problem) returns s12 = " + fx(oa.v[3]) + " for " + fx(s12), FF("short-arc-vs-distance")); }
      if (ctx.want_sample()) ctx.sample(key + " -> a12 direct " + fmt(d.ret) + " inverse " + fmt(iv.ret));
    }
  }
}


int main(int argc, char** argv) {
  Ctx ctx(argc, argv);
  const bool T = ctx.thorough();
  ctx.bound("solvers", "Geodesic (series), GeodesicExact, Geodesic(exact=true); Rhumb series and exact");
  ctx.bound("outmask", "all 2^8 subsets of {LATITUDE,LONGITUDE,AZIMUTH,DISTANCE,REDUCEDLENGTH,GEODESICSCALE,AREA,LONG_UNROLL}");
  ctx.bound("caps", "all 2^8 subsets of {LATITUDE,LONGITUDE,AZIMUTH,DISTANCE,DISTANCE_IN,REDUCEDLENGTH,GEODESICSCALE,AREA}");
  ctx.bound("geodesics", T ? "40 (f=1/25, f=-1/50, f=+-0.005, +-0.05, +-0.2, 0.01, 0.010001, 1/150, cardinal / nearly cardinal azimuths, starts next to the poles, lon1 = 725 and -540.5, azi1 = 450, a = 1e9 and 1e-3, generic, meridional, equatorial, nearly equatorial, both pole starts, southward, prolate x2, f=0.1, sphere, a=1)" : "5 (WGS84 generic, WGS84 meridional, f=0.1 generic, f=1/25 oblique, prolate east-going across the antimeridian)");
  ctx.bound("positions", T ? "arc lengths 35, -50, 200, 725.5, -190, 90, 180, -1000.25, 1e-9, 0 deg and the corresponding distances" : "arc lengths 35, -50 deg and the corresponding distances");
  ctx.bound("line-constructor-paths", T ? "Line, DirectLine, ArcDirectLine, GenDirectLine(false), GenDirectLine(true), InverseLine -- each x all 2^8 capability sets x all 2^8 masks x arcmode x positions" : "Line (the other paths: point-3 subchecks only)");
  check_enums(ctx);
  run_solver<SeriesT>(ctx, T);
  run_solver<ExactT>(ctx, T);
  run_solver<SeriesExactT>(ctx, T);
  run_rhumb(ctx, T);
  run_orders<SeriesT>(ctx, T);
  run_orders<ExactT>(ctx, T);
  run_orders<SeriesExactT>(ctx, T);
  run_rhumb_orders(ctx, T);
  ctx.bound("short-lines", "lengths {1e-5,1e-4,1e-3,1e-2,0.05,0.1,0.2,0.25,0.5,1,10} m x azimuths {10,45,80,135,-100} x latitudes {0.5,20,45,60,85,-70} x {WGS84, f=0.1, f=-1/150} x 3 solvers (both tiers)");
  run_short<SeriesT>(ctx, T);
  run_short<ExactT>(ctx, T);
  run_short<SeriesExactT>(ctx, T);
  return ctx.finish();
}
