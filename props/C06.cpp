// C06 -- transverse Mercator (Krueger series and Lee/exact) is the conformal projection it claims.
// Engine E1: exhaustive enumeration of  (a,f,k0) x lat x dlon x lon0 x implementation  on the compiled library.
// Reference: oracle/tm_ode.hpp (Gauss-Krueger as the analytic continuation of the meridian distance in the
// isothermal coordinate psi + i lambda, Taylor-series integration in long double at two orders/tolerances),
// the closed form for the sphere, and the defining integral of the meridian distance.
#include "mc/ctx.hpp"
#include "oracle/tm_ode.hpp"
#include <GeographicLib/TransverseMercator.hpp>
#include <GeographicLib/TransverseMercatorExact.hpp>
#include <functional>
#include <map>
#include <memory>
#include <string>
#include <vector>
#include <algorithm>

using namespace GeographicLib;
using mc::Ctx; using mc::fx; using mc::fmt; using mc::fmti;
typedef long double ld;

static const double WGS84_A = 6378137.0, WGS84_F = 1 / 298.257223563;

// ------------------------------------------------------------------ parameter sets
struct Par {
  const char* name; double a, f, k0;
  bool series_doc;      // series accuracy documented ("5 nm within 35 deg"; full accuracy for |f| <= 0.01 is stated without a figure)
  bool exact;           // TransverseMercatorExact admissible (f > 0)
  int quick;            // 0: thorough only; 1: full quick lattice; 2: quick on the reduced sub-lattice, series implementation only
  bool utm;             // the static UTM() instances have these parameters
  // series outside its documented accuracy domain: calibrated envelope of the ground-distance error (metres, for a = WGS84 a) in the bands of distance
  // from the (anti)central meridian  <= 3, <= 10, <= 20, <= 35, <= 50, <= 60, <= 70, <= (1-2|e|)90 ; each >= 4 x worst observed on the unchanged tree
  // (0 = the documented 10 nm applies)
  double env[8];
};
#define WGSENV {0, 0, 0, 0, 4e-7, 2.5e-5, 7e-3, 0.35}
static const Par PARS[] = {
  {"WGS84/0.9996", WGS84_A, WGS84_F, 0.9996, true, true, 1, true, WGSENV},
  {"WGS84/1", WGS84_A, WGS84_F, 1.0, true, true, 1, false, WGSENV},
  {"sphere-a1", 1.0, 0.0, 1.0, true, false, 1, false, {0, 0, 0, 0, 0, 0, 0, 0}},     // f = 0: the series terminates, documented tolerance everywhere
  {"Airy/0.9996012717", 6377563.396, 1 / 299.3249646, 0.9996012717, true, true, 0, false, WGSENV},
  {"f=1/150,a=1,k0=2", 1.0, 1 / 150.0, 2.0, false, true, 0, false, {2.2e-8, 2e-8, 2e-8, 5e-7, 1e-4, 6e-3, 0.8, 0.8}},
  {"f=+0.01", WGS84_A, 0.01, 1.0, false, true, 2, false, {2.3e-8, 2.7e-8, 9e-8, 4e-6, 8e-4, 0.06, 0.5, 0.5}},
  {"f=-0.01", WGS84_A, -0.01, 1.0, false, false, 0, false, {3.1e-8, 3.6e-8, 8.1e-8, 4e-6, 7e-4, 0.05, 0.5, 0.5}},
  {"f=+0.1", WGS84_A, 0.1, 1.0, false, true, 0, false, {0.19, 0.3, 0.3, 0.3, 0.3, 0.3, 0.3, 0.3}},
  // ---- added for the deep thorough tier: further terrestrial ellipsoids and scales (documented accuracy applies), prolate counterparts, intermediate flattenings
  {"Intl1924/0.9996", 6378388.0, 1 / 297.0, 0.9996, true, true, 0, false, WGSENV},
  {"Clarke1866/0.9999", 6378206.4, 1 / 294.9786982, 0.9999, true, true, 0, false, WGSENV},
  {"Bessel1841/1", 6377397.155, 1 / 299.1528128, 1.0, true, true, 0, false, WGSENV},
  {"Krassovsky/1", 6378245.0, 1 / 298.3, 1.0, true, true, 0, false, WGSENV},
  {"GRS80/k0=0.5", 6378137.0, 1 / 298.257222101, 0.5, true, true, 0, false, WGSENV},
  {"WGS84/k0=3", WGS84_A, WGS84_F, 3.0, true, true, 0, false, WGSENV},
  {"f=+1e-4", WGS84_A, 1e-4, 1.0, true, true, 0, false, WGSENV},
  {"f=+0.002", WGS84_A, 0.002, 0.9996, true, true, 0, false, WGSENV},
  {"f=-1/298.257", WGS84_A, -WGS84_F, 0.9996, true, false, 2, false, WGSENV},
  {"f=-1/150,a=1,k0=2", 1.0, -1 / 150.0, 2.0, false, false, 0, false, {2.2e-8, 2e-8, 2e-8, 5e-7, 1e-4, 6e-3, 0.8, 0.8}},
  {"f=+0.05", WGS84_A, 0.05, 1.0, false, true, 0, false, {1.3e-3, 2e-3, 6.8e-3, 0.2, 0.2, 0.2, 0.2, 0.2}},
  {"f=-0.05", WGS84_A, -0.05, 1.0, false, false, 0, false, {1.1e-3, 1.6e-3, 5e-3, 0.2, 0.2, 0.2, 0.2, 0.2}},
};
static const int NPAR = sizeof(PARS) / sizeof(PARS[0]);

// ------------------------------------------------------------------ implementations under test
struct Impl {
  std::string name; bool series, extendp;
  std::function<void(double, double, double, double&, double&, double&, double&)> fwd, rev;
};
static std::vector<Impl> make_impls(const Par& p) {
  std::vector<Impl> v;
  {
    auto t = std::make_shared<TransverseMercator>(p.a, p.f, p.k0);
    v.push_back({"series", true, false,
                 [t](double l0, double la, double lo, double& x, double& y, double& g, double& k) { t->Forward(l0, la, lo, x, y, g, k); },
                 [t](double l0, double x, double y, double& la, double& lo, double& g, double& k) { t->Reverse(l0, x, y, la, lo, g, k); }});
  }
  if (p.exact) {
    for (int ext = 0; ext < 2; ++ext) {
      auto t = std::make_shared<TransverseMercatorExact>(p.a, p.f, p.k0, ext != 0);
      v.push_back({ext ? "exact+extendp" : "exact", false, ext != 0,
                   [t](double l0, double la, double lo, double& x, double& y, double& g, double& k) { t->Forward(l0, la, lo, x, y, g, k); },
                   [t](double l0, double x, double y, double& la, double& lo, double& g, double& k) { t->Reverse(l0, x, y, la, lo, g, k); }});
      auto u = std::make_shared<TransverseMercator>(p.a, p.f, p.k0, true, ext != 0);
      v.push_back({ext ? "TM(exact=true,extendp)" : "TM(exact=true)", false, ext != 0,
                   [u](double l0, double la, double lo, double& x, double& y, double& g, double& k) { u->Forward(l0, la, lo, x, y, g, k); },
                   [u](double l0, double x, double y, double& la, double& lo, double& g, double& k) { u->Reverse(l0, x, y, la, lo, g, k); }});
    }
  }
  if (p.utm) {
    v.push_back({"TransverseMercator::UTM()", true, false,
                 [](double l0, double la, double lo, double& x, double& y, double& g, double& k) { TransverseMercator::UTM().Forward(l0, la, lo, x, y, g, k); },
                 [](double l0, double x, double y, double& la, double& lo, double& g, double& k) { TransverseMercator::UTM().Reverse(l0, x, y, la, lo, g, k); }});
    v.push_back({"TransverseMercatorExact::UTM()", false, false,
                 [](double l0, double la, double lo, double& x, double& y, double& g, double& k) { TransverseMercatorExact::UTM().Forward(l0, la, lo, x, y, g, k); },
                 [](double l0, double x, double y, double& la, double& lo, double& g, double& k) { TransverseMercatorExact::UTM().Reverse(l0, x, y, la, lo, g, k); }});
  }
  return v;
}

// ------------------------------------------------------------------ oracle binding
struct Ora {
  bool valid = false;     // both integrations succeeded and agree
  ld x = 0, y = 0;        // metres, including a and k0
  ld gamma = 0, k = 0;    // degrees, scale including k0
  ld absS = 0;            // |sin phi| (complex latitude) at the point: sensitivity of gamma [rad] and log k to a displacement ds/(nu cos phi)
  bool yfree = false;     // far-side equator: y = +-(2Q - ...) both describe the point; |y| and |gamma| are compared
  bool via_north = false; // reference obtained on the via-north path (extended domain south of the equator, or the equator beyond the branch point)
};
struct Geo {              // ellipsoid quantities in long double
  ld a, f, e2, k0, Q;     // Q = quarter meridian / a
  ld lonb;                // branch longitude in degrees (oblate), 90 otherwise
  ld etab;                // easting/(a k0) of the branch point
  explicit Geo(const Par& p) : a(p.a), f(p.f), k0(p.k0) {
    e2 = f * (2 - f); Q = tm_ode::quarter_meridian<ld>(e2);
    lonb = tm_ode::branch_lon_deg<ld>(e2); etab = e2 > 0 ? tm_ode::branch_easting<ld>(e2) : ld(1e30);
  }
  ld Mrad(ld sphi) const { ld u = 1 - e2 * sphi * sphi; return a * (1 - e2) / (u * sqrtl(u)); }
  ld Prad(ld sphi, ld cphi) const { return a * cphi / sqrtl(1 - e2 * sphi * sphi); }
};
static const ld DEGL = 3.141592653589793238462643383279502884L / 180;

// raw oracle for lat in (-90,90), dlon >= 0; two independent settings must agree to 5 % of the position tolerance
static Ora oracle_raw(const Geo& G, double lat, double dlon, tm_ode::Path path, ld postol_ground) {
  Ora o; o.via_north = path == tm_ode::VIA_NORTH;
  if (G.e2 == 0) {                       // sphere: closed form (the ODE is compared with it in oracle/selftest_proj.cpp)
    if (lat == 0 && dlon == 90) return o;
    auto r = tm_ode::sphere<ld>(lat, dlon);
    o.valid = true; o.x = r.eta * G.a * G.k0; o.y = r.xi * G.a * G.k0; o.gamma = r.gamma_deg; o.k = r.k * G.k0; o.absS = r.absS;
    return o;
  }
  tm_ode::Options o1, o2; o1.order = 28; o1.tol = 1e-20; o2.order = 20; o2.tol = 1e-19;
  auto r1 = tm_ode::forward<ld>(G.e2, lat, dlon, o1, path, 30);
  if (!r1.ok) return o;
  auto r2 = tm_ode::forward<ld>(G.e2, lat, dlon, o2, path, 50);
  if (!r2.ok) return o;
  ld d = hypotl(r1.xi - r2.xi, r1.eta - r2.eta) * G.a / r1.k;     // ground distance between the two runs
  ld dg = fabsl(r1.gamma_deg - r2.gamma_deg); if (dg > 180) dg = fabsl(dg - 360);
  ld sens = 1 + r1.absS;
  if (!(d <= 0.05L * postol_ground) || !(r1.inv < 1e-15L) || !(dg * DEGL < 2e-15L * sens) || !(fabsl(r1.k - r2.k) <= 2e-15L * r1.k * sens)) return o;
  o.valid = true;
  o.x = r1.eta * G.a * G.k0; o.y = r1.xi * G.a * G.k0; o.gamma = r1.gamma_deg; o.k = r1.k * G.k0; o.absS = r1.absS;
  return o;
}
// Expected result for (lat, dlon) under the standard convention (extendp = false) or the extended one.
// Standard: parities applied to the first-quadrant value; on the equator beyond the branch point the value is the limit from the
// north (via-north path); on the far side of the equator (|dlon| > 90) the reflection xi -> 2Q - xi about the meridian dlon = 90 is used.
static Ora expect(const Geo& G, double lat, double dlon, bool extendp, ld vt) {
  const double al = std::fabs(lat), ad = std::fabs(dlon);
  const int sl = std::signbit(lat) ? -1 : 1, sd = std::signbit(dlon) ? -1 : 1;
  const bool oblate = G.e2 > 0;
  if (extendp) {
    if (sl < 0 || (al == 0 && oblate && ad >= (double)G.lonb)) return oracle_raw(G, lat, ad, tm_ode::VIA_NORTH, vt);     // lat <= 0, dlon in [lonb, 90]
    return oracle_raw(G, al, ad, tm_ode::STANDARD, vt);
  }
  Ora o;
  if (G.e2 < 0 && ad > 90 && al > 0) {
    // prolate: the branch points lie on the meridians dlon = +-90 off the equator; the library's convention (reflection about dlon = 90,
    // i.e. continuation over the pole along the central-meridian ellipse) puts the cut on dlon = +-90, so the far side is referred to
    // the near-side oracle by xi -> 2Q - xi
    o = oracle_raw(G, al, 180 - ad, tm_ode::STANDARD, vt);
    if (!o.valid) return o;
    o.y = sl * (2 * G.Q * G.a * G.k0 - o.y); o.x *= sd; o.gamma = sl * sd * (180 - o.gamma);
    return o;
  }
  if (al == 0 && ad > 90) {
    double inner = 180 - ad;
    o = (oblate && inner >= (double)G.lonb) ? oracle_raw(G, 0.0, inner, tm_ode::VIA_NORTH, vt) : oracle_raw(G, 0.0, inner, tm_ode::STANDARD, vt);
    if (!o.valid) return o;
    o.y = -(2 * G.Q * G.a * G.k0 - o.y); o.x *= sd; o.gamma = -(180 - o.gamma) * sd; o.yfree = true;
    return o;
  }
  if (al == 0 && oblate && ad >= (double)G.lonb) o = oracle_raw(G, 0.0, ad, tm_ode::VIA_NORTH, vt);
  else o = oracle_raw(G, al, ad, tm_ode::STANDARD, vt);
  if (!o.valid) return o;
  o.y *= sl; o.x *= sd; o.gamma *= sl * sd;
  return o;
}

static ld angdiff(ld a, ld b) { ld d = fmodl(a - b, 360); if (d > 180) d -= 360; if (d <= -180) d += 360; return d; }

// exact effective longitude difference seen by the library for (lon0, lon): the exact difference reduced to
// [-180,180] and rounded to double (Math::AngDiff is documented to compute exactly this)
static double eff_dlon(double lon0, double lon) {
  ld d = (ld)lon - (ld)lon0;              // exact for the alphabets used (both are multiples of 2^-44 below 2^10)
  d = remainderl(d, 360.0L);              // exact
  return (double)d;
}

// ------------------------------------------------------------------ alphabets
struct Val { double v; bool quick; };
static std::vector<double> pick(const std::vector<Val>& a, bool T) { std::vector<double> r; for (auto& x : a) if (T || x.quick) r.push_back(x.v); return r; }

struct Tol { ld pos, gfloor, krel; };
// tolerance for convergence (degrees) and scale (relative): documented floor + the change caused by moving the point by the
// position tolerance, |d log(dz/dw)| = |sin phi| |dw|, |dw| = ds/(nu cos phi)   (unbounded at the poles and at the branch point)
// failure class of the open finding 'extendp-south-accuracy': split by 10-degree latitude band and by decade of the error, so that the known-finding list excuses
// only the (band, decade) pairs that occur on the unchanged tree
static mc::Fields kf_south(Ctx& ctx, const char* param, double lat, ld mag, const char* unit, const char* qty) {
  int k = (int)std::floor(-lat / 10); if (k < 0) k = 0; if (k > 8) k = 8;
  std::string band = "extendp lat in [-" + std::to_string((k + 1) * 10) + "," + (k ? "-" + std::to_string(k * 10) : std::string("0")) + ")";
  std::string ex;
  if (!(mag == mag) || !std::isfinite((double)mag)) ex = std::string(unit) + " nan";
  else { int p = (int)std::ceil(log10l(mag > 0 ? mag : 1e-30L)); if (p < -8) p = -8; if (p > 3) ex = std::string(unit) + ">1e+3"; else { char b[32]; snprintf(b, sizeof b, "%s<=1e%+d", unit, p); ex = b; } }
  ctx.count(std::string("known-finding-class: ") + param + " | " + band + " | " + ex);
  return {{"region", band}, {"excess", ex}, {"quantity", qty}};
}
// polar-ring tolerances (ground distance in metres for a = WGS84 a); calibrated on the unchanged tree, see the subcheck
// clean-tree worst (20 parameter sets): series, |f| <= 0.01: 4.8 nm (round trips 2.8 nm); exact: round trips / central-meridian reverse 7.5 nm, against the oracle 9.0 nm;
// series f = +-0.05: 9.4 um, f = 0.1: 1.5 mm (truncation of the 6th-order series)
static ld POLAR_TOL_SERIES(const Par& P) { double f = std::fabs(P.f); return f <= 0.0100001 ? 10e-9L : f <= 0.0500001 ? 3.8e-5L : 6e-3L; }
static ld POLAR_TOL_EXACT(const Par& P) { (void)P; return 12e-9L; }      // round trips and central-meridian reverse; comparisons with the oracle keep the documented 2 x 8 nm
static ld cond(const Ora& R, ld Pr, ld tolpos) { return R.absS * 2 * tolpos / Pr; }

int main(int argc, char** argv) {
  Ctx ctx(argc, argv);
  const bool T = ctx.thorough();

  // latitudes: poles, pole neighbours, equator +-0, the tauf thresholds (3.35 deg: one vs two Newton steps; |taup| > 70
  // <=> lat > 89.18), zetainv0 regime boundaries (psi = e pi/2 <=> 7.4 deg, psi = -e pi/4 <=> -3.7 deg for WGS84), -15 (extended-domain scope)
  std::vector<Val> LATP = {{0, 1}, {1e-9, 1}, {1, 0}, {3, 1}, {4, 0}, {7, 1}, {8, 0}, {10, 1}, {14, 0}, {16, 0}, {30, 0}, {45, 1}, {60, 0}, {80, 1},
                           {89, 1}, {89.5, 0}, {89.9, 1}, {89.999999, 0}, {89.999999999, 1}, {90, 1}};
  // deep thorough tier: a 2-degree grid plus both sides of further thresholds: AngRound-free small values, tauf one/two Newton steps (3.35), zetainv0 regimes
  // (psi = e pi/2 <=> 7.36 deg, psi = -e pi/4 <=> -3.68 deg on WGS84; 12.9 / 6.5 deg for f = 0.01; 25.4 / 12.6 deg for f = 0.1), the extended-domain scope (-15),
  // |taup| > 70 (89.18), psi > 1 (stol2 in zetainv: 49.6 deg), values within 1e-6 .. 1e-3 deg of the equator and of the pole
  for (int d = 2; d <= 88; d += 2) LATP.push_back({(double)d, 0});
  for (double v : {1e-6, 1e-3, 0.1, 0.5, 3.3, 3.4, 3.6, 3.7, 6.4, 6.6, 7.3, 7.4, 12.5, 12.7, 12.8, 13.0, 15.0, 25.0, 25.3, 25.5, 35.0, 49.5, 49.7, 55.0, 65.0, 75.0, 85.0, 87.0, 89.1, 89.2, 89.99, 89.999, 89.9999})
    LATP.push_back({v, 0});
  { std::vector<Val> u; for (auto& x : LATP) { bool dup = false; for (auto& y : u) if (y.v == x.v) dup = true; if (!dup) u.push_back(x); } LATP = u; }
  std::vector<double> lats;
  for (double v : pick(LATP, T)) { lats.push_back(v); lats.push_back(-v); }     // includes -0
  // longitude offsets; the per-ellipsoid branch values (1-e)90 +- 1e-9, (1-2e)90 +- 0.5 are added below
  std::vector<Val> DLONP = {{0, 1}, {1e-9, 1}, {1, 0}, {3, 1}, {10, 1}, {20, 0}, {34.99, 0}, {35, 1}, {35.01, 0}, {50, 0}, {60, 1}, {70, 0}, {75, 1}, {80, 1}, {82, 0},
                            {83, 0}, {85, 1}, {89, 1}, {89.999999999, 0}, {90, 1}, {90.000000001, 1}, {91, 0}, {100, 0}, {120, 1}, {145, 0}, {150, 1}, {179, 1}, {179.999999999, 0}, {180, 1}};
  // deep thorough tier: a 2-degree grid over the whole circle plus small offsets, the far-side images of the near-side thresholds and finer steps towards 90 and 180
  for (int d = 2; d <= 178; d += 2) DLONP.push_back({(double)d, 0});
  for (double v : {1e-6, 1e-3, 0.1, 0.5, 5.0, 15.0, 25.0, 45.0, 55.0, 65.0, 72.5, 77.0, 79.0, 81.0, 84.5, 87.0, 89.5, 89.9, 89.99, 89.999999, 90.000001, 90.01, 90.1, 90.5, 93.0, 95.0, 97.0, 97.5, 99.0, 105.0, 115.0, 125.0, 135.0, 144.99, 145.01, 155.0, 165.0, 175.0,
                   177.0, 179.5, 179.9, 179.999999})
    DLONP.push_back({v, 0});
  { std::vector<Val> u; for (auto& x : DLONP) { bool dup = false; for (auto& y : u) if (y.v == x.v) dup = true; if (!dup) u.push_back(x); } DLONP = u; }
  const std::vector<double> LON0 = {0, 177, -183};

  ctx.bound("params", T ? "20 parameter sets: WGS84/0.9996, WGS84/1, sphere a=1, Airy/0.9996012717, Intl1924/0.9996, Clarke1866/0.9999, Bessel1841/1, Krassovsky/1, GRS80/k0=0.5, WGS84/k0=3, f=1e-4, f=0.002, "
                          "(a=1,f=+-1/150,k0=2), f=+-0.01, f=+-0.05, f=0.1, f=-1/298.257" : "3 parameter sets: WGS84/0.9996, WGS84/1, sphere a=1; + series only on the reduced sub-lattice lat +-{0,10,45,80,89.9,90} x dlon +-{0,1e-9,3,10,35,60,120,179,180} x lon0 {0,177}: f=+0.01, f=-1/298.257");
  ctx.bound("lat", fmti((long long)lats.size()) + (T ? " latitudes: +-{0, 1e-9, 1e-6, 1e-3, 0.1, 0.5, 1, every 2 deg to 88, both sides of 3.35, 3.68, 6.5, 7.36, 12.6, 12.9, 25.4, 49.6, 89.18, 15, 89, 89.5, 89.9, 89.99 .. 90-1e-9, 90}"
                                                      : " latitudes: +-{0, 1e-9, 3, 7, 10, 45, 80, 89, 89.9, 90-1e-9, 90}"));
  ctx.bound("dlon", fmti((long long)pick(DLONP, T).size() * 2 + 10) + (T ? " longitude offsets: +-{0, 1e-9, 1e-6, 1e-3, 0.1, 0.5, 1, every 2 deg to 178, 34.99/35/35.01 and 144.99/145/145.01, 89.5 .. 90-1e-9, 90, 90+1e-9 .. 90.5, 179.5 .. 180-1e-9, 180, "
                                                                            "(1-e)90 and its +-1e-9, +-1e-6, +-1e-3, +-0.1 neighbours and their far-side images, (1-2e)90+-0.5}"
                                                                          : " longitude offsets: +-{0, 1e-9, 3, 10, 35, 60, 75, 80, 85, 89, 90, 90+1e-9, 120, 150, 179, 180, (1-e)90 and its +-1e-9 neighbours, (1-2e)90+-0.5}"));
  ctx.bound("lon0", "central meridians {0, 177, -183}; each also as lon0+360 and lon-+360 where the shift is exact");
  ctx.bound("impl", "series, exact, exact+extendp, TransverseMercator(exact=true), TransverseMercator(exact=true,extendp), and the two static UTM() objects on WGS84/0.9996");
  ctx.bound("oracle", "tm_ode long double, Taylor orders 28 (tol 1e-20) and 20 (tol 1e-19), start latitudes 30/50 deg on the via-north path; used where both runs agree to 5 % of the position tolerance; sphere: closed form");

  ctx.note("documented convergence accuracy (2e-15 arcsec) is far below the spacing of doubles at the returned values (ulp(10 deg) = 6e-12 arcsec); "
           "the convergence and scale predicates use a round-off floor (convergence: calibrated; scale: 2 x the documented 6e-12 % / 7e-12 %) plus the change of the oracle's "
           "log(dz/dw) over the position tolerance, |sin phi| ds/(nu cos phi), which is what upstream develop/TMTest.cpp allows near the pole");
  ctx.note("position errors are measured as ground distance = plane distance / scale, as the documentation states (5 nm / 8 nm 'ground distance')");
  ctx.note("series accuracy is documented (5 nm) only within 35 deg of the central meridian and for terrestrial flattenings; for |f| >= 0.01 and between 35 deg and (1-2e)90 "
           "the series is compared with the oracle against a calibrated envelope (4 x worst observed), beyond (1-2e)90 ('garbage' per the documentation) it is not compared");
  ctx.note("far-side equator (lat = +-0, |dlon| > 90): y = +(2Q-..) and y = -(2Q-..) describe the same point; |y| is compared with the oracle and lat = +0 / -0 must give the same result");

  for (int pi = 0; pi < NPAR; ++pi) {
    const Par& P = PARS[pi];
    if (!T && !P.quick) continue;
    Geo G(P);
    // extended domain south of the equator: beyond |sigma| ~ 6e11 every digit is lost; for nearly spherical ellipsoids (e^2 < 2e-3) Lee's constants diverge
    // (documented: 'cannot be applied directly to the case of a sphere') and the loss model is not applicable: there only the known-finding class applies
    auto LOST = [&G](ld sg) { return 16e-15L * sg >= 0.01L || G.e2 < 2e-3L; };
    std::vector<Impl> impls = make_impls(P);
    // quick tier, parameter sets with quick == 2 (f = 1/100 and a prolate ellipsoid): series implementation on a reduced sub-lattice, no reverse grid
    const bool reduced = !T && P.quick == 2;
    if (reduced) impls.resize(1);
    std::vector<double> lats_p = lats, lon0_p = LON0;
    if (reduced) { lats_p.clear(); for (double v : {0.0, 10.0, 45.0, 80.0, 89.9, 90.0}) { lats_p.push_back(v); lats_p.push_back(-v); } lon0_p = {0, 177}; }
    const ld ascale = G.a / WGS84_A;
    const ld VT = 10e-9L * ascale;                               // oracle validity is judged against the strictest position tolerance
    double e_lib = std::sqrt(P.f * (2 - P.f));                 // the library's own double value of e (to hit its lon == 90(1-e) branch)
    std::vector<double> dl = pick(DLONP, T);
    if (reduced) dl = {0, 1e-9, 3, 10, 35, 60, 120, 179, 180};
    if (P.f > 0 && !reduced) {
      double lb = 90 * (1 - e_lib);
      dl.push_back(lb); dl.push_back(lb - 1e-9); dl.push_back(lb + 1e-9);
      if (T) for (double d : {1e-6, 1e-3, 0.1}) { dl.push_back(lb - d); dl.push_back(lb + d); dl.push_back(180 - lb - d); dl.push_back(180 - lb + d); }
      if (T) dl.push_back(180 - lb);
      double l2 = 90 * (1 - 2 * e_lib);
      if (l2 > 1) { dl.push_back(l2 - 0.5); dl.push_back(l2 + 0.5); }
    }
    std::sort(dl.begin(), dl.end()); dl.erase(std::unique(dl.begin(), dl.end()), dl.end());
    std::vector<double> dlons; for (double v : dl) { dlons.push_back(v); dlons.push_back(-v); }
    const ld e_ = sqrtl(fabsl(G.e2)), safe = (1 - 2 * e_) * 90;             // documented "safe side" limit of the series, (1-2e)90 (|e| for prolate)

    // ============================================================== subcheck: forward lattice
    ctx.sub(std::string("lattice/") + P.name);
    for (size_t li = 0; li < lats_p.size(); ++li) {
      if (!ctx.take()) continue;
      const double lat = lats_p[li];
      const bool pole = std::fabs(lat) == 90;
      ld sphi, cphi; tm_ode::sincosd<ld>(lat, sphi, cphi);
      if (std::fabs(lat) > 45) { ld s2, c2; tm_ode::sincosd<ld>(lat > 0 ? 90 - lat : -90 - lat, s2, c2); cphi = fabsl(s2); }
      const ld Mr = G.Mrad(sphi), Pr = G.Prad(sphi, cphi);
      const ld merid = tm_ode::meridian_distance<ld>(G.e2, (ld)lat * DEGL) * G.a * G.k0;   // central-meridian northing
      std::map<uint64_t, Ora> cache_std, cache_ext;            // reference values shared by the central meridians (same exact longitude difference)
      for (double lon0 : lon0_p) for (double dnom : dlons) {
        const double lon = lon0 + dnom;
        const double dlon = eff_dlon(lon0, lon);
        const double ad = std::fabs(dlon);
        const double cmdist = std::min(ad, 180 - ad);            // distance to the central meridian or its antimeridian
        Ora Ostd, Oext; bool have_std = false, have_ext = false;
        for (size_t ii = 0; ii < impls.size(); ++ii) {
          const Impl& I = impls[ii];
          mc::Ctx::Case cs(ctx);
          const std::string where = std::string(P.name) + " " + I.name + " lat=" + fx(lat) + " lon0=" + fmt(lon0) + " lon=" + fx(lon) + " dlon=" + fx(dlon);
          auto FAIL = [&](const char* kind, const std::string& msg, mc::Fields extra = {}) {
            mc::Fields f = {{"kind", kind}, {"param", P.name}, {"impl", I.name}, {"lat", fmt(lat)}, {"dlon", fmt(dlon)}, {"lon0", fmt(lon0)}};
            for (auto& e : extra) f.push_back(e);
            ctx.fail(where + " " + kind, where + ": " + msg, f);
          };
          // Math::tauf converged only linearly for prolate ellipsoids (defect found by this check, repaired in /repo, kept as a recognised class): Reverse results on f < 0 carry the field tauf=prolate-reverse
          // when the position error is below the gross bound 4 a (2.2 |e^2|)^6 (the size that defect can produce); anything larger is reported plainly
          const ld tauf_gross = 4 * G.a * powl(2.2L * fabsl(G.e2), 6);
          auto PRO = [&](ld err_ground) -> mc::Fields { if (P.f < 0 && err_ground <= tauf_gross) return {{"tauf", "prolate-reverse"}}; return {}; };
          // ---- documented domain of the extendp variant
          bool south_ext = false;
          if (I.extendp) {
            bool north = !std::signbit(lat) && !std::signbit(dlon) && dlon <= 90;
            bool south = lat <= 0 && lat > -90 && dlon >= (double)G.lonb && dlon <= 90;
            if (!(north || south)) { ctx.count("extendp.outside-documented-domain"); ctx.sig(77); continue; }
            south_ext = std::signbit(lat);
          }
          double x = NAN, y = NAN, gam = NAN, k = NAN;
          bool threw = false; int sg = 0;
          try { sg = mc::crashed([&] { I.fwd(lon0, lat, lon, x, y, gam, k); }); } catch (const std::exception& e) { threw = true; FAIL("fwd-exception", e.what()); }
          if (sg) { FAIL("fwd-crash", "signal " + fmti(sg)); continue; }
          if (threw) continue;

          Ora R;
          if (!pole) {
            if (I.extendp) { if (!have_ext) { auto it = cache_ext.find(mc::bits(dlon)); if (it == cache_ext.end()) it = cache_ext.emplace(mc::bits(dlon), expect(G, lat, dlon, true, VT)).first; Oext = it->second; have_ext = true; } R = Oext; }
            else { if (!have_std) { auto it = cache_std.find(mc::bits(dlon)); if (it == cache_std.end()) it = cache_std.emplace(mc::bits(dlon), expect(G, lat, dlon, false, VT)).first; Ostd = it->second; have_std = true; } R = Ostd; }
          }
          ctx.sig((uint64_t)(R.valid ? 1 : 0) + 2 * (uint64_t)R.via_north + 4 * (uint64_t)pole + 8 * (uint64_t)R.yfree);

          // ---- tolerance schedule
          Tol tol; bool acc = true; bool calibrated = false; const char* band = "";
          tol.gfloor = 2e-13L;
          if (I.series) {
            tol.pos = 10e-9L * ascale; tol.krel = 1.2e-13L;
            if (cmdist > (double)safe + 1e-6) { acc = false; band = "beyond (1-2e)90"; }
            else {
              int b = cmdist <= 3 ? 0 : cmdist <= 10 ? 1 : cmdist <= 20 ? 2 : cmdist <= 35 ? 3 : cmdist <= 50 ? 4 : cmdist <= 60 ? 5 : cmdist <= 70 ? 6 : 7;
              if (P.env[b] > 0) {
                calibrated = true; band = "calibrated";
                ld env = P.env[b];
                tol.pos = env * ascale; tol.krel = std::max<ld>(1.2e-13L, 40 * env / WGS84_A); tol.gfloor = std::max<ld>(tol.gfloor, tol.krel / DEGL);
              }
            }
          } else { tol.pos = 16e-9L * ascale; tol.krel = 1.4e-13L; }
          const std::string cls = I.series ? (calibrated ? "series-envelope" : "series") : (south_ext ? "exact-extsouth" : "exact");

          if (!(std::isfinite(x) && std::isfinite(y) && std::isfinite(gam) && std::isfinite(k))) {
            if (!I.series || (acc && R.valid)) FAIL("fwd-nonfinite", "x=" + fmt(x) + " y=" + fmt(y) + " gamma=" + fmt(gam) + " k=" + fmt(k));
            else ctx.count("series.nonfinite-outside-documented-domain");
            continue;
          }

          // ---- poles: x = 0, y = +- k0 * quarter meridian, k = k0, gamma = +-dlon
          if (pole && acc) {
            ld sgn = lat > 0 ? 1 : -1;
            ld ey = sgn * G.Q * G.a * G.k0;
            ld err = hypotl((ld)x, (ld)y - ey) / G.k0;              // scale at the pole is k0
            ctx.worst(cls + ".pole.pos/tol", (double)(err / tol.pos), where);
            if (err > tol.pos) FAIL("pole-position", "x=" + fx(x) + " y=" + fx(y) + " expected (0," + mc::fmtl(ey) + ")");
            ld ek = fabsl((ld)k / G.k0 - 1);
            ctx.worst(cls + ".pole.k/tol", (double)(ek / tol.krel), where);
            if (ek > tol.krel) FAIL("pole-scale", "k=" + fx(k) + " expected k0=" + fmt(P.k0));
            ld eg = fabsl(angdiff((ld)gam, sgn * (ld)dlon));
            ctx.worst(cls + ".pole.gamma/tol", (double)(eg / tol.gfloor), where);
            if (eg > tol.gfloor) FAIL("pole-convergence", "gamma=" + fx(gam) + " expected " + mc::fmtl(sgn * (ld)dlon));
          }

          // ---- central meridian: x = 0 exactly, gamma = 0 exactly, y = k0 * meridian distance, k = k0
          if (dlon == 0 && !pole && acc) {
            if (!(x == 0)) FAIL("cm-easting-nonzero", "x=" + fx(x) + " on the central meridian");
            if (!(gam == 0)) FAIL("cm-convergence-nonzero", "gamma=" + fx(gam) + " on the central meridian");
            ld ey = fabsl((ld)y - merid) / G.k0;                     // ground distance (scale k0 on the central meridian)
            ctx.worst(cls + ".cm.y/tol", (double)(ey / tol.pos), where);
            if (ey > tol.pos) FAIL("cm-northing", "y=" + fx(y) + " expected k0*M=" + mc::fmtl(merid));
            ld ek = fabsl((ld)k / G.k0 - 1);
            ctx.worst(cls + ".cm.k/tol", (double)(ek / tol.krel), where);
            if (ek > tol.krel) FAIL("cm-scale", "k=" + fx(k) + " expected k0=" + fmt(P.k0));
          }

          // ---- forward against the oracle
          const ld sig2 = R.valid ? hypotl(R.x, R.y) / (G.a * G.k0) : 0;              // |sigma|
          if (!pole && R.valid && acc) {
            ld ex = (ld)x - R.x, ey = R.yfree ? fabsl((ld)y) - fabsl(R.y) : (ld)y - R.y;
            ld kk = R.k;                                                                // full scale (incl. k0): ground distance = plane distance / k
            ld err = hypotl(ex, ey) / kk;                                               // ground distance
            ld eg = fabsl(angdiff((ld)gam, R.gamma)); if (R.yfree) eg = std::min(eg, fabsl(angdiff((ld)gam, -R.gamma)));
            ld ek = fabsl((ld)k / R.k - 1);
            ld cd = cond(R, Pr, tol.pos);
            ld tg = tol.gfloor + cd / DEGL, tk = tol.krel + cd;
            if (south_ext) {
              // gross bound (never masked): 2 x 8 nm + the loss of Lee's formulation near the pole of sigma, a |sigma|^2 * 16e-15 (plane), |sigma| * 16e-15 (angle)
              ld gross = tol.pos + 16e-15L * sig2 * sig2 * G.a * G.k0 / kk, grossa = 16e-15L * sig2;
              if (LOST(sig2)) { gross = grossa = INFINITY; ctx.count("extendp.south.total-precision-loss (|sigma| > 6e11): only the known-finding class applies"); }
              ctx.worst("exact-extsouth.fwd.pos/gross", (double)(err / gross), where);
              ctx.worst("exact-extsouth.fwd.pos_m", (double)err, where);
              if (err > gross) FAIL("fwd-oracle", "extended domain: ground error " + mc::fmtl(err) + " m > gross bound " + mc::fmtl(gross));
              else if (err > tol.pos) FAIL("extendp-south-accuracy", "ground error " + mc::fmtl(err) + " m > " + mc::fmtl(tol.pos) + " (x=" + fx(x) + " y=" + fx(y) + " oracle " + mc::fmtl(R.x) + "," + mc::fmtl(R.y) + " k=" + mc::fmtl(R.k) + ")", kf_south(ctx, P.name, lat, err, "m", "forward"));
              if (eg * DEGL > tg * DEGL + grossa || ek > tk + grossa) FAIL("fwd-convergence", "extended domain: gamma err " + mc::fmtl(eg) + " deg, scale rel err " + mc::fmtl(ek) + " beyond gross bound");
              else if (eg > tg || ek > tk) FAIL("extendp-south-accuracy", "gamma err " + mc::fmtl(eg) + " deg (tol " + mc::fmtl(tg) + "), scale rel err " + mc::fmtl(ek) + " (tol " + mc::fmtl(tk) + ")", kf_south(ctx, P.name, lat, std::max<ld>(eg * DEGL, ek), "rel", "forward-gamma-k"));
            } else {
              ctx.worst(cls + ".fwd.pos/tol", (double)(err / tol.pos), where);
              if (calibrated || I.series) ctx.worst(std::string("series-envelope.") + P.name + (cmdist <= 3 ? ".b0<=3" : cmdist <= 10 ? ".b1<=10" : cmdist <= 20 ? ".b2<=20" : cmdist <= 35 ? ".b3<=35" : cmdist <= 50 ? ".b4<=50" : cmdist <= 60 ? ".b5<=60" : cmdist <= 70 ? ".b6<=70" : ".b7<=safe") + ".pos_m(a=WGS84)", (double)(err / ascale), where);
              if (err > tol.pos) FAIL(calibrated ? "fwd-oracle-envelope" : "fwd-oracle", "ground error " + mc::fmtl(err) + " m > " + mc::fmtl(tol.pos) + " (x=" + fx(x) + " y=" + fx(y) + " oracle " + mc::fmtl(R.x) + "," + mc::fmtl(R.y) + ")");
              ctx.worst(cls + ".fwd.gamma/tol", (double)(eg / tg), where);
              if (!calibrated) ctx.worst(cls + ".fwd.gamma-excess-over-cond_deg", (double)(eg - cd / DEGL), where);
              if (eg > tg) FAIL("fwd-convergence", "gamma=" + fx(gam) + " oracle -arg(dz/dw)=" + mc::fmtl(R.gamma) + " tol " + mc::fmtl(tg));
              ctx.worst(cls + ".fwd.k/tol", (double)(ek / tk), where);
              if (ek > tk) FAIL("fwd-scale", "k=" + fx(k) + " oracle |dz/dw|/(nu cos phi)=" + mc::fmtl(R.k) + " tol " + mc::fmtl(tk));
            }
          } else if (!pole && acc) ctx.count("oracle.not-valid (within ~1e-9 deg of the branch point / on it): only round-trip, parity, wrap predicates");
          else if (!pole) ctx.count(std::string("series.not-compared: ") + band);

          // ---- series <-> exact within 35 degrees
          if (I.series && !pole && P.exact && P.series_doc && cmdist <= 35 && ii == 0) {
            double x2, y2, g2, k2; impls[1].fwd(lon0, lat, lon, x2, y2, g2, k2);
            ld kk = (R.valid ? R.k : (ld)k2);
            ld err = hypotl((ld)x - x2, (ld)y - y2) / kk;
            ctx.worst("series-vs-exact.pos/tol", (double)(err / (26e-9L * ascale)), where);
            if (err > 26e-9L * ascale) FAIL("series-vs-exact", "ground distance " + mc::fmtl(err));
          }

          // ---- round trip forward -> reverse (ground distance), and Reverse's convergence/scale against Forward's
          if (acc) {
            double la2 = NAN, lo2 = NAN, g2 = NAN, k2 = NAN; int sg2 = 0;
            try { sg2 = mc::crashed([&] { I.rev(lon0, x, y, la2, lo2, g2, k2); }); } catch (const std::exception& e) { FAIL("rev-exception", e.what()); continue; }
            if (sg2) { FAIL("rev-crash", "signal " + fmti(sg2)); continue; }
            ld dN = ((ld)la2 - (ld)lat) * DEGL * Mr;
            ld dE = pole ? 0 : angdiff(angdiff((ld)lo2, (ld)lon0), (ld)dlon) * DEGL * Pr;
            ld err = hypotl(dN, dE);
            ld kk = (R.valid ? R.k : (ld)k);
            ld trt = tol.pos + 4 * 1.1e-16L * hypotl((ld)x, (ld)y) / kk;             // + 4 ulp of the plane coordinates mapped back to the ground
            ld cd = R.valid ? cond(R, Pr, tol.pos) : (ld)0;
            if (south_ext) {
              ld s2 = R.valid ? sig2 : hypotl((ld)x, (ld)y) / (G.a * G.k0);
              ld gross = trt + 16e-15L * s2 * s2 * G.a * G.k0 / kk;
              if (LOST(s2)) gross = INFINITY;
              ctx.worst("exact-extsouth.roundtrip_m", (double)err, where);
              if (!(err <= gross) && gross < INFINITY) FAIL("roundtrip", "extended domain: reverse(forward) = lat " + fx(la2) + " lon " + fx(lo2) + ", ground error " + mc::fmtl(err) + " m > gross bound " + mc::fmtl(gross));
              else if (!(err <= trt)) FAIL("extendp-south-accuracy", "round trip ground error " + mc::fmtl(err) + " m > " + mc::fmtl(trt), kf_south(ctx, P.name, lat, err, "m", "roundtrip"));
            } else {
              ctx.worst(cls + ".roundtrip/tol", (double)(err / trt), where);
              if (!(err <= trt)) FAIL("roundtrip", "reverse(forward) = lat " + fx(la2) + " lon " + fx(lo2) + ", ground error " + mc::fmtl(err) + " m > " + mc::fmtl(trt), PRO(err));
              if (!pole && R.valid) {
                ld eg = fabsl(angdiff((ld)g2, (ld)gam)), ek = fabsl((ld)k2 / (ld)k - 1);
                ld tg = 2 * (tol.gfloor + cd / DEGL), tk = 2 * (tol.krel + cd);
                ctx.worst(cls + ".rev-vs-fwd.gamma/tol", (double)(eg / tg), where);
                ctx.worst(cls + ".rev-vs-fwd.k/tol", (double)(ek / tk), where);
                if (eg > tg) FAIL("rev-convergence", "Reverse gamma=" + fx(g2) + " Forward gamma=" + fx(gam) + " tol " + mc::fmtl(tg), PRO(err));
                if (ek > tk) FAIL("rev-scale", "Reverse k=" + fx(k2) + " Forward k=" + fx(k) + " tol " + mc::fmtl(tk), PRO(err));
              }
            }
            if (!(lo2 >= -180 && lo2 <= 180 && std::fabs(la2) <= 90)) FAIL("rev-range", "lat=" + fx(la2) + " lon=" + fx(lo2));
          }

          // ---- reverse of the oracle image
          if (!pole && R.valid && acc && !R.yfree) {
            double X = (double)R.x, Y = (double)R.y, la2, lo2, g2, k2;
            I.rev(lon0, X, Y, la2, lo2, g2, k2);
            ld dN = ((ld)la2 - (ld)lat) * DEGL * Mr, dE = angdiff(angdiff((ld)lo2, (ld)lon0), (ld)dlon) * DEGL * Pr;
            ld kk = R.k;
            ld err = hypotl(dN, dE), trt = tol.pos + 4 * 1.1e-16L * hypotl(R.x, R.y) / kk;
            ld eg = fabsl(angdiff((ld)g2, R.gamma)), ek = fabsl((ld)k2 / R.k - 1);
            ld cd = cond(R, Pr, tol.pos), tg = tol.gfloor + cd / DEGL, tk = tol.krel + cd;
            if (south_ext) {
              ld gross = trt + 16e-15L * sig2 * sig2 * G.a * G.k0 / kk, grossa = 16e-15L * sig2;
              if (LOST(sig2)) gross = grossa = INFINITY;
              ctx.worst("exact-extsouth.rev-oracle.pos_m", (double)err, where);
              if (!(err <= gross) && gross < INFINITY) FAIL("rev-oracle", "extended domain: Reverse(oracle image) = lat " + fx(la2) + " lon " + fx(lo2) + ", ground error " + mc::fmtl(err) + " m > gross bound " + mc::fmtl(gross));
              else if (!(err <= trt)) FAIL("extendp-south-accuracy", "Reverse(oracle image) ground error " + mc::fmtl(err) + " m > " + mc::fmtl(trt), kf_south(ctx, P.name, lat, err, "m", "reverse"));
              if ((eg * DEGL > tg * DEGL + grossa || ek > tk + grossa) && grossa < INFINITY) FAIL("rev-oracle-convergence", "extended domain: gamma err " + mc::fmtl(eg) + " scale rel err " + mc::fmtl(ek) + " beyond gross bound");
              else if (!(eg <= tg) || !(ek <= tk)) FAIL("extendp-south-accuracy", "Reverse gamma err " + mc::fmtl(eg) + " deg, scale rel err " + mc::fmtl(ek), kf_south(ctx, P.name, lat, std::max<ld>(eg * DEGL, ek), "rel", "reverse-gamma-k"));
            } else {
              ctx.worst(cls + ".rev-oracle.pos/tol", (double)(err / trt), where);
              if (!(err <= trt)) FAIL("rev-oracle", "Reverse(oracle image) = lat " + fx(la2) + " lon " + fx(lo2) + ", ground error " + mc::fmtl(err) + " m > " + mc::fmtl(trt), PRO(err));
              ctx.worst(cls + ".rev-oracle.gamma/tol", (double)(eg / tg), where);
              ctx.worst(cls + ".rev-oracle.k/tol", (double)(ek / tk), where);
              if (eg > tg) FAIL("rev-oracle-convergence", "gamma=" + fx(g2) + " oracle " + mc::fmtl(R.gamma) + " tol " + mc::fmtl(tg), PRO(err));
              if (ek > tk) FAIL("rev-oracle-scale", "k=" + fx(k2) + " oracle " + mc::fmtl(R.k) + " tol " + mc::fmtl(tk), PRO(err));
            }
          }

          // ---- parities (lon0 = 0 so that the mirrored arguments are exact): northing odd in lat, easting and convergence odd in dlon, scale even
          if (lon0 == 0 && !I.extendp && !std::signbit(lat) && !std::signbit(dnom) && acc) {
            for (int sl = -1; sl <= 1; sl += 2) for (int sd = -1; sd <= 1; sd += 2) {
              if (sl == 1 && sd == 1) continue;
              double x2, y2, g2, k2; I.fwd(0, sl * lat, sd * lon, x2, y2, g2, k2);
              ld ex = fabsl((ld)x2 - sd * (ld)x), ey = fabsl((ld)y2 - sl * (ld)y), eg = fabsl(angdiff((ld)g2, sl * sd * (ld)gam)), ek = fabsl((ld)k2 - (ld)k);
              if (lat == 0 && ad > 90) {           // far-side equator: lat = +0 and -0 must give the SAME point (the code sets latsign = -1 for lat == 0 on the far side)
                ey = fabsl((ld)y2 - (ld)y); eg = fabsl(angdiff((ld)g2, sd * (ld)gam));
              }
              if (ad == 180 || ad == 0) eg = std::min(eg, fabsl(angdiff((ld)g2, -sl * sd * (ld)gam)));    // gamma = +-180 / 0 on the (anti)meridian
              ld t = 1e-9L * ascale * std::max<ld>(1, (ld)k / G.k0), tgk = 1e-13L * (1 + (ld)k / G.k0);
              ctx.worst("parity.pos/tol", (double)(std::max(ex, ey) / t), where);
              if (ex > t || ey > t || eg > tgk || ek > tgk * (ld)k)
                FAIL("parity", "(" + fmti(sl) + "*lat," + fmti(sd) + "*dlon): x " + fx(x2) + " y " + fx(y2) + " gamma " + fx(g2) + " k " + fx(k2) + " vs x " + fx(x) + " y " + fx(y) + " gamma " + fx(gam) + " k " + fx(k));
            }
          }

          // ---- longitude wrap-around: lon0 + 360, lon -+ 360 give identical results (exact argument reduction); Reverse: lat, gamma, k identical,
          //      lon within one unit in the last place of lon0 + 360 (the sum lon + lon0 is rounded once)
          {
            auto eq = [](double p, double q) { return p == q || mc::same_bits(p, q) || (std::isnan(p) && std::isnan(q)); };
            auto same = [&](double x2, double y2, double g2, double k2) {
              return eq(x2, x) && eq(y2, y) && eq(k2, k) && (eq(g2, gam) || (std::fabs(g2) == 180 && std::fabs(gam) == 180));
            };
            double l0s = lon0 + 360;
            for (int s = -1; s <= 1; s += 2) {
              double ls = lon + 360.0 * s;
              if (!(ls - 360.0 * s == lon)) continue;               // shift not exactly representable
              double x2, y2, g2, k2; I.fwd(lon0, lat, ls, x2, y2, g2, k2);
              if (!same(x2, y2, g2, k2))
                FAIL("wrap-lon", "Forward(lon" + std::string(s > 0 ? "+" : "-") + "360) = " + fx(x2) + "," + fx(y2) + "," + fx(g2) + "," + fx(k2) + " vs " + fx(x) + "," + fx(y) + "," + fx(gam) + "," + fx(k));
            }
            double x2, y2, g2, k2; I.fwd(l0s, lat, lon, x2, y2, g2, k2);
            if (!same(x2, y2, g2, k2))
              FAIL("wrap-lon0", "Forward(lon0+360) = " + fx(x2) + "," + fx(y2) + "," + fx(g2) + "," + fx(k2) + " vs " + fx(x) + "," + fx(y) + "," + fx(gam) + "," + fx(k));
            double la2, lo2, la3, lo3, g3, k3; I.rev(lon0, x, y, la2, lo2, g2, k2); I.rev(l0s, x, y, la3, lo3, g3, k3);
            ld dl3 = fabsl(angdiff((ld)lo3, (ld)lo2));
            if (!(eq(la2, la3) && eq(g2, g3) && eq(k2, k3) && (dl3 <= 1.2e-13L || eq(lo2, lo3)))) FAIL("wrap-lon0-reverse", "Reverse(lon0+360) = " + fx(la3) + "," + fx(lo3) + "," + fx(g3) + "," + fx(k3) + " vs " + fx(la2) + "," + fx(lo2) + "," + fx(g2) + "," + fx(k2));
          }
          if (ctx.want_sample()) ctx.sample(where + " -> x=" + fmt(x) + " y=" + fmt(y) + " gamma=" + fmt(gam) + " k=" + fmt(k) + (R.valid ? " | oracle x=" + mc::fmtl(R.x) + " y=" + mc::fmtl(R.y) : " | oracle n/a"));
        }
      }
    }

    // ============================================================== subcheck: reverse on a grid of (x, y) incl. the far side
    ctx.sub(std::string("reverse-grid/") + P.name);
    if (!reduced) {
      std::vector<ld> xis = {0, 1e-10L, 0.3L, 1, G.Q - 1e-9L, G.Q, G.Q + 1e-9L, 2, 2 * G.Q - 0.3L, 2 * G.Q - 1e-9L};
      if (T) { xis.push_back(0.01L); xis.push_back(0.7L); xis.push_back(1.3L); xis.push_back(2.5L); xis.push_back(G.Q * 0.25L); }
      if (T) {   // deep tier: 0.1 steps up to 2Q, both sides of the sigmainv0 thresholds 0.25 E (and -0.25 E through the sign axis), small values, the far-side mirror of small values
        for (int i = 1; i <= 31; ++i) if (ld(i) / 10 < 2 * G.Q - 1e-6L) xis.push_back(ld(i) / 10);
        for (ld v : {1e-6L, 1e-3L, 0.05L, 0.25L * G.Q - 0.01L, 0.25L * G.Q + 0.01L, G.Q - 1e-3L, G.Q + 1e-3L, G.Q - 1e-6L, G.Q + 1e-6L, 2 * G.Q - 1e-3L, 2 * G.Q - 1e-6L, 2 * G.Q - 0.05L}) xis.push_back(v);
        std::sort(xis.begin(), xis.end()); xis.erase(std::unique(xis.begin(), xis.end()), xis.end());
      }
      std::vector<ld> etas = {0, 1e-10L, 0.1L, 0.3L, 0.6L, 1, 1.5L, 2, 2.5L, 3.5L, 5};
      if (P.f > 0) { etas.push_back(G.etab); etas.push_back(G.etab * (1 - 1e-9L)); etas.push_back(G.etab * (1 + 1e-9L)); etas.push_back(0.75L * G.etab + 0.01L); etas.push_back(1.25L * G.etab + 0.01L); }
      if (T) { etas.push_back(0.01L); etas.push_back(0.45L); etas.push_back(0.8L); etas.push_back(8); }
      if (T) {   // deep tier: 0.1 steps to 4, the 35-degree edge of the series (0.65), finer steps around the branch easting and the 0.75 / 1.25 (K'-E') thresholds of sigmainv0, large eastings
        for (int i = 1; i <= 40; ++i) etas.push_back(ld(i) / 10);
        for (ld v : {1e-6L, 1e-3L, 0.05L, 0.64L, 0.65L, 0.66L, 4.5L, 6.0L, 10.0L, 15.0L}) etas.push_back(v);
        if (P.f > 0) for (ld v : {0.75L * G.etab - 0.01L, 1.25L * G.etab - 0.01L, G.etab * (1 - 1e-6L), G.etab * (1 + 1e-6L), G.etab * (1 - 1e-3L), G.etab * (1 + 1e-3L), G.etab - 0.05L, G.etab + 0.05L}) etas.push_back(v);
        std::sort(etas.begin(), etas.end()); etas.erase(std::unique(etas.begin(), etas.end()), etas.end());
      }
      ctx.bound("reverse-grid", fmti((long long)xis.size() * 2) + " northings y/(a k0) in +-{0, 1e-10, 0.3, 1, Q-1e-9, Q, Q+1e-9, 2, 2Q-0.3, 2Q-1e-9, ..} (Q = quarter meridian/a) x " + fmti((long long)etas.size() * 2) +
                " eastings x/(a k0) in +-{0, 1e-10, 0.1 .. 5, the branch easting K'-E' and its 1e-9 neighbours, the 0.75/1.25 (K'-E') regime boundaries} x lon0 {0, 177}" +
                std::string(T ? "; deep tier: northings in 0.1 steps to 2Q with 1e-6/1e-3 neighbours of 0, Q, 2Q and of 0.25Q; eastings in 0.1 steps to 4, 0.64/0.65/0.66, K'-E' +- {1e-9 rel, 1e-6 rel, 1e-3 rel, 0.05}, up to 15" : ""));
      for (size_t xi_i = 0; xi_i < xis.size(); ++xi_i) for (int sx = 1; sx >= -1; sx -= 2) {
        if (!ctx.take()) continue;
        for (ld eta0 : etas) for (int se = 1; se >= -1; se -= 2) for (double lon0 : {0.0, 177.0}) for (size_t ii = 0; ii < impls.size(); ++ii) {
          const Impl& I = impls[ii];
          const double X = (double)(se * eta0 * G.a * G.k0), Y = (double)(sx * xis[xi_i] * G.a * G.k0);
          mc::Ctx::Case cs(ctx);
          const std::string where = std::string(P.name) + " " + I.name + " lon0=" + fmt(lon0) + " x=" + fx(X) + " y=" + fx(Y);
          auto FAIL = [&](const char* kind, const std::string& msg, mc::Fields extra = {}) {
            mc::Fields f = {{"kind", kind}, {"param", P.name}, {"impl", I.name}, {"x", fmt(X)}, {"y", fmt(Y)}};
            for (auto& e : extra) f.push_back(e);
            ctx.fail(where + " " + kind, where + ": " + msg, f);
          };
          if (I.series && eta0 > 0.65L) { ctx.count("reverse-grid.series-beyond-35deg-not-compared"); continue; }
          if (I.series && !P.series_doc) { ctx.count("reverse-grid.series-large-f-not-compared"); continue; }
          // documented Reverse domain of the extendp variant: x >= 0 and (0 <= y <= Q a k0  or  (y <= 0 and x >= (K'-E') a k0))
          const bool ext_south = I.extendp && (Y < 0 || (Y == 0 && std::signbit(Y)) || (Y == 0 && eta0 >= G.etab));
          if (I.extendp && !(X >= 0 && !std::signbit(X) && ((Y >= 0 && !std::signbit(Y) && xis[xi_i] <= G.Q) || (ext_south && eta0 >= G.etab)))) { ctx.count("extendp.outside-documented-domain"); continue; }
          double la = NAN, lo = NAN, g = NAN, k = NAN; int sg = 0;
          try { sg = mc::crashed([&] { I.rev(lon0, X, Y, la, lo, g, k); }); } catch (const std::exception& e) { FAIL("rev-exception", e.what()); continue; }
          if (sg) { FAIL("rev-crash", "signal " + fmti(sg)); continue; }
          if (!(std::isfinite(la) && std::isfinite(lo) && std::isfinite(g) && std::isfinite(k))) { FAIL("rev-nonfinite", "lat=" + fmt(la) + " lon=" + fmt(lo) + " gamma=" + fmt(g) + " k=" + fmt(k)); continue; }
          if (!(std::fabs(la) <= 90 && lo >= -180 && lo <= 180)) FAIL("rev-range", "lat=" + fx(la) + " lon=" + fx(lo));
          const double dlon = eff_dlon(lon0, lo);
          const ld tolp = (I.series ? 10e-9L : 16e-9L) * ascale;
          if (std::fabs(la) == 90) { ctx.count("reverse-grid.pole"); continue; }
          Ora R = expect(G, la, dlon, I.extendp, VT);
          const bool west = eta0 < G.etab * (1 - 1e-6L);           // west of the branch easting every point is in the image of Forward
          bool matched = false;
          if (R.valid) {
            ld sph, cph; tm_ode::sincosd<ld>(la, sph, cph); if (std::fabs(la) > 45) { ld s2, c2; tm_ode::sincosd<ld>(la > 0 ? 90 - la : -90 - la, s2, c2); cph = fabsl(s2); }
            ld Pr = G.Prad(sph, cph), kk = R.k;
            ld ey = R.yfree ? fabsl((ld)Y) - fabsl(R.y) : (ld)Y - R.y;
            ld err = hypotl((ld)X - R.x, ey) / kk;
            ld t = tolp + 4 * 1.1e-16L * hypotl((ld)X, (ld)Y) / kk;
            ld sig2 = hypotl((ld)X, (ld)Y) / (G.a * G.k0);
            ld eg = fabsl(angdiff((ld)g, R.gamma)); if (R.yfree) eg = std::min(eg, fabsl(angdiff((ld)g, -R.gamma)));
            ld ek = fabsl((ld)k / R.k - 1), cd = cond(R, Pr, tolp), tg = 2e-13L + cd / DEGL, tk = 1.4e-13L + cd;
            if (I.extendp && std::signbit(la)) {        // the point lies in the extended domain south of the equator (also for small y >= 0 east of the branch easting, below the image of the equator)
              ld gross = t + 16e-15L * sig2 * sig2 * G.a * G.k0 / kk, grossa = 16e-15L * sig2;
              if (LOST(sig2)) gross = grossa = INFINITY;
              ctx.worst("exact-extsouth.revgrid.pos_m", (double)err, where);
              if (!(err <= gross) && gross < INFINITY) FAIL("revgrid-oracle", "extended domain: Reverse -> lat " + fx(la) + " lon " + fx(lo) + " whose oracle image is " + mc::fmtl(err) + " m (ground) away > gross bound " + mc::fmtl(gross));
              else if (!(err <= t)) FAIL("extendp-south-accuracy", "Reverse -> lat " + fx(la) + " lon " + fx(lo) + " whose oracle image is " + mc::fmtl(err) + " m (ground) away", kf_south(ctx, P.name, la, err, "m", "reverse-grid"));
              if (eg * DEGL > tg * DEGL + grossa || ek > tk + grossa) FAIL("revgrid-convergence", "extended domain: gamma err " + mc::fmtl(eg) + " scale rel err " + mc::fmtl(ek) + " beyond gross bound");
              else if (!(eg <= tg) || !(ek <= tk)) FAIL("extendp-south-accuracy", "Reverse gamma err " + mc::fmtl(eg) + " deg, scale rel err " + mc::fmtl(ek), kf_south(ctx, P.name, la, std::max<ld>(eg * DEGL, ek), "rel", "reverse-grid-gamma-k"));
              matched = true;
            } else {
              matched = err <= t;
              if (matched || west || I.extendp) {
                ctx.worst(std::string(I.series ? "series" : "exact") + ".revgrid.pos/tol", (double)(err / t), where);
                if (!matched) FAIL("revgrid-oracle", "Reverse -> lat " + fx(la) + " lon " + fx(lo) + " whose oracle image " + mc::fmtl(R.x) + "," + mc::fmtl(R.y) + " is " + mc::fmtl(err) + " m (ground) away");
                else {
                  ctx.worst(std::string(I.series ? "series" : "exact") + ".revgrid.gamma/tol", (double)(eg / tg), where);
                  ctx.worst(std::string(I.series ? "series" : "exact") + ".revgrid.k/tol", (double)(ek / tk), where);
                  if (eg > tg) FAIL("revgrid-convergence", "gamma=" + fx(g) + " oracle " + mc::fmtl(R.gamma) + " tol " + mc::fmtl(tg));
                  if (ek > tk) FAIL("revgrid-scale", "k=" + fx(k) + " oracle " + mc::fmtl(R.k) + " tol " + mc::fmtl(tk));
                }
              } else ctx.count("reverse-grid.continuation-sheet (x beyond the branch easting and not in the image of Forward: Reverse continues analytically, documented)");
            }
          } else {
            // no oracle (within 1e-9 deg of the branch point): forward(reverse) must reproduce the point when it lies west of the branch easting
            double x2, y2, g2, k2; I.fwd(lon0, la, lo, x2, y2, g2, k2);
            ld kk = (ld)k;
            ld err = hypotl((ld)X - x2, (ld)Y - y2) / kk;
            ld t = tolp + 4 * 1.1e-16L * hypotl((ld)X, (ld)Y) / kk;
            if (west) {
              ctx.worst("revgrid-selfinverse.pos/tol", (double)(err / t), where);
              if (!(err <= t)) FAIL("revgrid-roundtrip", "Forward(Reverse) = " + fx(x2) + "," + fx(y2) + " ground error " + mc::fmtl(err));
            } else ctx.count("reverse-grid.no-oracle-at-or-beyond-branch-easting");
          }
          ctx.sig((uint64_t)matched + 2 * (uint64_t)R.valid + 4 * (uint64_t)R.via_north);
          if (ctx.want_sample()) ctx.sample(where + " -> lat=" + fmt(la) + " lon=" + fmt(lo) + " gamma=" + fmt(g) + " k=" + fmt(k));
        }
      }
    }
  }
  // ============================================================== subcheck: dense lattices in the extended domain south of the equator (extendp = true)
  // The Newton start values of zetainv0 / sigmainv0 are chosen in 2-D pockets of the (psi, lam) resp. (xi, eta) plane; a wrong pocket boundary sends Newton to the wrong
  // root in a thin sliver.  Forward side: lat -0.5 .. -10 step 0.1 x dlon 82.65 .. 90 step 0.05; Reverse side: xi = y/(a k0) in 0 .. -1 step 0.01 x eta/(K'-E') in 1 .. 2
  // step 0.01 (covers the 0.75 / 1.25 thresholds of sigmainv0 and the pole-of-sigma pocket).
  for (int pi = 0; pi < NPAR; ++pi) {
    const Par& P = PARS[pi];
    if (!(P.quick == 1 && P.exact)) continue;
    Geo G(P);
    std::vector<Impl> all = make_impls(P), impls;
    for (auto& I : all) if (I.extendp) impls.push_back(I);
    const ld ascale = G.a / WGS84_A, tolp = 16e-9L * ascale;
    auto classify = [&](const std::string& where, const char* kind, double lat, ld err, ld t, ld gross, const char* qty, const std::string& msg, const Impl& I) {
      if (err <= t) return;
      mc::Fields f = {{"kind", kind}, {"param", P.name}, {"impl", I.name}};
      if (err <= gross || !(gross < INFINITY)) { f[0].second = "extendp-south-accuracy"; for (auto& e : kf_south(ctx, P.name, lat, err, "m", qty)) f.push_back(e); }
      ctx.fail(where + " " + kind, where + ": " + msg, f);
    };
    ctx.bound("extendp-dense", "extendp implementations on WGS84/0.9996 and WGS84/1: Forward side lat -0.5 .. -10 step 0.1 x dlon 82.65 .. 90 step 0.05 (oracle via-north, round trip, Reverse of the oracle image); "
              "Reverse side y/(a k0) in 0 .. -1 step 0.01 x x/(a k0 (K'-E')) in 1 .. 2 step 0.01 (Forward(Reverse) in ground distance)");
    ctx.sub(std::string("extendp-dense-forward/") + P.name);
    for (int il = 5; il <= 100; ++il) {
      if (!ctx.take()) continue;
      const double lat = -il / 10.0;
      ld sphi, cphi; tm_ode::sincosd<ld>(lat, sphi, cphi);
      const ld Mr = G.Mrad(sphi), Pr = G.Prad(sphi, cphi);
      for (int jl = 1653; jl <= 1800; ++jl) {
        const double dlon = jl / 20.0;
        if (dlon < (double)G.lonb) continue;
        Ora R = oracle_raw(G, lat, dlon, tm_ode::VIA_NORTH, 10e-9L * ascale);
        for (const Impl& I : impls) {
          mc::Ctx::Case cs(ctx);
          const std::string where = std::string(P.name) + " " + I.name + " lat=" + fmt(lat) + " dlon=" + fmt(dlon);
          double x, y, g, k, la2, lo2, g2, k2;
          I.fwd(0, lat, dlon, x, y, g, k); I.rev(0, x, y, la2, lo2, g2, k2);
          if (!(std::isfinite(x) && std::isfinite(y) && std::isfinite(la2) && std::isfinite(lo2))) { ctx.fail(where + " nonfinite", where + ": non-finite result", {{"kind", "extendp-dense-nonfinite"}, {"param", P.name}, {"impl", I.name}}); continue; }
          const ld kk = R.valid ? R.k : (ld)k, sig = hypotl((ld)x, (ld)y) / (G.a * G.k0);
          const ld t = tolp + 4 * 1.1e-16L * hypotl((ld)x, (ld)y) / kk, gross = t + 16e-15L * sig * sig * G.a * G.k0 / kk;
          ld e1 = hypotl(((ld)la2 - lat) * DEGL * Mr, angdiff((ld)lo2, (ld)dlon) * DEGL * Pr);
          ctx.worst("extendp-dense.roundtrip_nm(a=WGS84)", (double)(e1 / ascale * 1e9L), where);
          classify(where, "extendp-dense-roundtrip", lat, e1, t, gross, "roundtrip", "Reverse(Forward) = lat " + fx(la2) + " lon " + fx(lo2) + ", " + mc::fmtl(e1) + " m on the ground", I);
          if (std::fabs((double)((ld)k2 / (ld)k - 1)) > 1e-6 && e1 <= t) ctx.fail(where + " k", where + ": Reverse k=" + fx(k2) + " Forward k=" + fx(k), {{"kind", "extendp-dense-scale"}, {"param", P.name}, {"impl", I.name}});
          if (R.valid) {
            ld e2 = hypotl((ld)x - R.x, (ld)y - R.y) / R.k;
            ctx.worst("extendp-dense.forward-vs-oracle_nm(a=WGS84)", (double)(e2 / ascale * 1e9L), where);
            classify(where, "extendp-dense-fwd-oracle", lat, e2, t, gross, "forward", "Forward differs from the oracle by " + mc::fmtl(e2) + " m (ground)", I);
            double la4, lo4, g4, k4; I.rev(0, (double)R.x, (double)R.y, la4, lo4, g4, k4);
            ld e4 = hypotl(((ld)la4 - lat) * DEGL * Mr, angdiff((ld)lo4, (ld)dlon) * DEGL * Pr);
            ctx.worst("extendp-dense.reverse-of-oracle_nm(a=WGS84)", (double)(e4 / ascale * 1e9L), where);
            classify(where, "extendp-dense-rev-oracle", lat, e4, t, gross, "reverse", "Reverse(oracle image) = lat " + fx(la4) + " lon " + fx(lo4) + ", " + mc::fmtl(e4) + " m on the ground", I);
          } else ctx.count("extendp-dense.oracle-not-valid");
        }
      }
    }
    ctx.sub(std::string("extendp-dense-reverse/") + P.name);
    for (int ix = 0; ix <= 100; ++ix) {
      if (!ctx.take()) continue;
      for (int ie = 100; ie <= 200; ++ie) for (const Impl& I : impls) {
        const double X = (double)((ld)ie / 100 * G.etab * G.a * G.k0), Y = (double)(-(ld)ix / 100 * G.a * G.k0);
        mc::Ctx::Case cs(ctx);
        const std::string where = std::string(P.name) + " " + I.name + " x=" + fx(X) + " y=" + fx(Y) + " (xi=-" + fmt(ix / 100.0) + ", eta/KE=" + fmt(ie / 100.0) + ")";
        double la, lo, g, k, x2, y2, g2, k2;
        I.rev(0, X, Y, la, lo, g, k);
        if (!(std::isfinite(la) && std::isfinite(lo) && std::isfinite(k))) { ctx.fail(where + " nonfinite", where + ": non-finite result", {{"kind", "extendp-dense-nonfinite"}, {"param", P.name}, {"impl", I.name}}); continue; }
        if (!(la <= 1e-12 && lo >= (double)G.lonb - 1e-6 && lo <= 90 + 1e-9)) ctx.fail(where + " domain", where + ": Reverse -> lat " + fx(la) + " lon " + fx(lo) + " outside the extended domain", {{"kind", "extendp-dense-domain"}, {"param", P.name}, {"impl", I.name}});
        I.fwd(0, la, lo, x2, y2, g2, k2);
        const ld sig = hypotl((ld)X, (ld)Y) / (G.a * G.k0), kk = (ld)k;
        const ld t = tolp + 4 * 1.1e-16L * hypotl((ld)X, (ld)Y) / kk, gross = t + 16e-15L * sig * sig * G.a * G.k0 / kk;
        ld e = hypotl((ld)x2 - X, (ld)y2 - Y) / kk;
        ctx.worst("extendp-dense.forward-of-reverse_nm(a=WGS84)", (double)(e / ascale * 1e9L), where);
        classify(where, "extendp-dense-fwd-of-rev", la, e, t, gross, "reverse-grid", "Forward(Reverse) = " + fx(x2) + "," + fx(y2) + ", " + mc::fmtl(e) + " m (ground) away", I);
      }
    }
  }

  // ============================================================== subcheck: dense round-trip lattice for strongly flattened ellipsoids (exact class)
  // sigmainv's Newton iteration needs most of its 10 steps on a thin filament near lat 20-25, 70-88 deg from the central meridian for f = 0.1 (f = 0.05: control)
  for (int pi = 0; pi < NPAR; ++pi) {
    const Par& P = PARS[pi];
    const std::string pn = P.name;
    if (!(pn == "f=+0.1" || pn == "f=+0.05")) continue;
    Geo G(P);
    std::vector<Impl> all = make_impls(P), impls;
    for (auto& I : all) if (!I.series && !I.extendp) impls.push_back(I);
    const ld ascale = G.a / WGS84_A, tolp = 16e-9L * ascale;
    ctx.bound("exact-dense-flat", "TransverseMercatorExact and TransverseMercator(exact=true) on f = 0.1 and f = 0.05: lat +-(18 .. 27) x dlon +-(70 .. 88), step 0.125 deg: Reverse(Forward) as ground distance at 2 x 8 nm");
    ctx.sub(std::string("exact-dense-flat/") + P.name);
    for (int il = 144; il <= 216; ++il) for (int sl = 1; sl >= -1; sl -= 2) {
      if (!ctx.take()) continue;
      const double lat = sl * il / 8.0;
      ld sphi, cphi; tm_ode::sincosd<ld>(lat, sphi, cphi);
      const ld Mr = G.Mrad(sphi), Pr = G.Prad(sphi, cphi);
      for (int jl = 560; jl <= 704; ++jl) for (int sd = 1; sd >= -1; sd -= 2) for (const Impl& I : impls) {
        const double dlon = sd * jl / 8.0;
        mc::Ctx::Case cs(ctx);
        double x, y, g, k, la2, lo2, g2, k2;
        I.fwd(0, lat, dlon, x, y, g, k); I.rev(0, x, y, la2, lo2, g2, k2);
        ld e1 = hypotl(((ld)la2 - lat) * DEGL * Mr, angdiff((ld)lo2, (ld)dlon) * DEGL * Pr);
        ld t = tolp + 4 * 1.1e-16L * hypotl((ld)x, (ld)y) / (ld)k;
        auto W = [&]() { return std::string(P.name) + " " + I.name + " lat=" + fmt(lat) + " dlon=" + fmt(dlon); };
        ctx.worstf(std::string("exact-dense-flat.") + P.name + ".roundtrip/tol", (double)(e1 / t), W);
        if (!(e1 <= t)) ctx.fail(W() + " flat-roundtrip", W() + ": Reverse(Forward) = lat " + fx(la2) + " lon " + fx(lo2) + ", " + mc::fmtl(e1) + " m on the ground > " + mc::fmtl(t),
                                 {{"kind", "flat-roundtrip"}, {"param", P.name}, {"impl", I.name}, {"lat", fmt(lat)}, {"dlon", fmt(dlon)}, {"point", fmt(std::fabs(lat)) + "," + fmt(std::fabs(dlon))}});
        if (!(e1 <= t)) ctx.count(std::string("flat-roundtrip-fails: ") + P.name + " | " + fmt(std::fabs(lat)) + "," + fmt(std::fabs(dlon)) + (e1 > 1 ? " | gross" : " | nm"));
      }
    }
  }

  // ============================================================== subcheck: polar rings
  // Rings from 100 m to 30 km around both poles (90 - {0.001 .. 0.3} deg), where Reverse goes through the large-tau branch of Math::tauf (asymptotic start value,
  // early return above taumax).  Forward -> Reverse -> Forward in ground distance (a longitude error near the pole is harmless: it is weighted by nu cos(lat)),
  // Reverse of the oracle image, and Reverse(0, k0 M(lat)) on the central meridian against the meridian-arc quadrature.  Tolerance: calibrated on the unchanged
  // tree, <= 4 x worst observed and <= 12 nm (for a = WGS84 a) where the documented 2 x 5 nm / 2 x 8 nm would be looser.
  {
    const std::vector<double> COLAT = {0.001, 0.003, 0.01, 0.02, 0.03, 0.04, 0.05, 0.057, 0.06, 0.07, 0.1, 0.3};
    const std::vector<double> RLON = {0, 1e-9, 3, 30, 45, 89, 90, 91, 135, 179, 180, -60, -120};
    ctx.bound("polar-rings", "lat = +-(90 - {0.001, 0.003, 0.01, 0.02, 0.03, 0.04, 0.05, 0.057, 0.06, 0.07, 0.1, 0.3}) x dlon {0, 1e-9, 3, 30, 45, 89, 90, 91, 135, 179, 180, -60, -120} x lon0 {0, 177} x "
              "all implementations (extendp: northern ring, dlon in [0, 90]) on WGS84/0.9996, (a=1, f=1/150, k0=2), f=0.01" + std::string(T ? " and the other 17 parameter sets" : ""));
    for (int pi = 0; pi < NPAR; ++pi) {
      const Par& P = PARS[pi];
      const std::string pn = P.name;
      if (!T && !(pn == "WGS84/0.9996" || pn == "f=1/150,a=1,k0=2" || pn == "f=+0.01")) continue;
      Geo G(P);
      std::vector<Impl> impls = make_impls(P);
      const ld ascale = G.a / WGS84_A;
      // calibrated tolerances (ground distance, metres for a = WGS84 a): series / exact
      const ld tol_ser = POLAR_TOL_SERIES(P), tol_ex = POLAR_TOL_EXACT(P);
      ctx.sub(std::string("polar-rings/") + P.name);
      for (double cl : COLAT) for (int hs = 1; hs >= -1; hs -= 2) {
        if (!ctx.take()) continue;
        const double lat = hs * (90 - cl);
        ld sphi, cphi; tm_ode::sincosd<ld>(lat, sphi, cphi);
        { ld s2, c2; tm_ode::sincosd<ld>(hs * cl, s2, c2); cphi = fabsl(s2); }               // cos(lat) = sin(colatitude), exact argument
        const ld Mr = G.Mrad(sphi), Pr = G.Prad(sphi, cphi);
        const ld merid = tm_ode::meridian_distance<ld>(G.e2, (ld)lat * DEGL) * G.a * G.k0;
        for (double lon0 : {0.0, 177.0}) for (double dnom : RLON) {
          const double lon = lon0 + dnom, dlon = eff_dlon(lon0, lon);
          Ora R = expect(G, lat, dlon, false, 10e-9L * ascale);
          for (size_t ii = 0; ii < impls.size(); ++ii) {
            const Impl& I = impls[ii];
            if (I.extendp && !(hs > 0 && dlon >= 0 && dlon <= 90)) continue;
            mc::Ctx::Case cs(ctx);
            const ld tol = (I.series ? tol_ser : tol_ex) * ascale, tolo = (I.series ? tol_ser : std::max<ld>(tol_ex, 16e-9L)) * ascale;
            const char* cls = I.series ? "series" : "exact";
            auto W = [&]() { return std::string(P.name) + " " + I.name + " lat=" + fx(lat) + " lon0=" + fmt(lon0) + " lon=" + fx(lon); };
            auto FAIL = [&](const char* kind, const std::string& msg) {
              ctx.fail(W() + " " + kind, W() + ": " + msg, {{"kind", kind}, {"param", P.name}, {"impl", I.name}, {"lat", fmt(lat)}, {"dlon", fmt(dlon)}, {"lon0", fmt(lon0)}});
            };
            double x, y, g, k, la2, lo2, g2, k2, x2, y2, g3, k3;
            I.fwd(lon0, lat, lon, x, y, g, k);
            I.rev(lon0, x, y, la2, lo2, g2, k2);
            I.fwd(lon0, la2, lo2, x2, y2, g3, k3);
            if (!(std::isfinite(x) && std::isfinite(y) && std::isfinite(la2) && std::isfinite(lo2) && std::isfinite(x2) && std::isfinite(y2))) { FAIL("polar-nonfinite", "x=" + fmt(x) + " y=" + fmt(y) + " lat=" + fmt(la2) + " lon=" + fmt(lo2)); continue; }
            // (a) geodetic round trip, ground distance
            ld dN = ((ld)la2 - (ld)lat) * DEGL * Mr, dE = angdiff(angdiff((ld)lo2, (ld)lon0), (ld)dlon) * DEGL * Pr;
            ld e1 = hypotl(dN, dE);
            ctx.worstf(std::string("polar-rings.") + P.name + "." + cls + ".geodetic-roundtrip_nm(a=WGS84)", (double)(e1 / ascale * 1e9L), W);
            if (!(e1 <= tol)) FAIL("polar-roundtrip", "Reverse(Forward) = lat " + fx(la2) + " lon " + fx(lo2) + ": " + mc::fmtl(e1) + " m on the ground > " + mc::fmtl(tol));
            // plane round trip Forward(Reverse(Forward)), as ground distance
            ld e2 = hypotl((ld)x2 - x, (ld)y2 - y) / (ld)k;
            ctx.worstf(std::string("polar-rings.") + P.name + "." + cls + ".plane-roundtrip_nm(a=WGS84)", (double)(e2 / ascale * 1e9L), W);
            if (!(e2 <= tol)) FAIL("polar-plane-roundtrip", "Forward(Reverse(Forward)) differs by " + mc::fmtl(e2) + " m (ground) > " + mc::fmtl(tol));
            // Reverse of the oracle image
            if (R.valid) {
              double la4, lo4, g4, k4; I.rev(lon0, (double)R.x, (double)R.y, la4, lo4, g4, k4);
              ld dN4 = ((ld)la4 - (ld)lat) * DEGL * Mr, dE4 = angdiff(angdiff((ld)lo4, (ld)lon0), (ld)dlon) * DEGL * Pr;
              ld e4 = hypotl(dN4, dE4);
              ctx.worstf(std::string("polar-rings.") + P.name + "." + cls + ".reverse-of-oracle_nm(a=WGS84)", (double)(e4 / ascale * 1e9L), W);
              if (!(e4 <= tolo)) FAIL("polar-rev-oracle", "Reverse(oracle image) = lat " + fx(la4) + " lon " + fx(lo4) + ": " + mc::fmtl(e4) + " m on the ground > " + mc::fmtl(tolo));
              ld e5 = hypotl((ld)x - R.x, (ld)y - R.y) / R.k;
              ctx.worstf(std::string("polar-rings.") + P.name + "." + cls + ".forward-vs-oracle_nm(a=WGS84)", (double)(e5 / ascale * 1e9L), W);
              if (!(e5 <= tolo)) FAIL("polar-fwd-oracle", "Forward differs from the oracle by " + mc::fmtl(e5) + " m (ground) > " + mc::fmtl(tolo));
            }
            // (b) central meridian: Reverse(lon0, 0, k0 M(lat)) against the meridian-arc quadrature
            if (dlon == 0) {
              double la5, lo5, g5, k5; I.rev(lon0, 0.0, (double)merid, la5, lo5, g5, k5);
              ld e6 = hypotl(((ld)la5 - (ld)lat) * DEGL * Mr, angdiff((ld)lo5, (ld)lon0) * DEGL * Pr);
              ctx.worstf(std::string("polar-rings.") + P.name + "." + cls + ".cm-reverse_nm(a=WGS84)", (double)(e6 / ascale * 1e9L), W);
              if (!(e6 <= tol)) FAIL("polar-cm-reverse", "Reverse(0, k0 M(lat)) = lat " + fx(la5) + " lon " + fx(lo5) + ": " + mc::fmtl(e6) + " m on the ground > " + mc::fmtl(tol));
            }
          }
        }
      }
    }
  }
  return ctx.finish();
}
