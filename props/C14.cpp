// C14 -- shared immutable objects are safe to use from many threads.  Engine E3: every interleaving of the harness
// bodies (props/C14_bodies.hpp) with at most b preemptions is executed on the real library under the controlled
// scheduler of mc/sched/rt.cpp, with a scheduling point before every access to a word that two fibres touch with at
// least one write and at every static-initialisation guard operation, and a happens-before race detector on every
// execution.  Oracles per execution: no data race, no deadlock, outputs bit-identical to the same calls executed
// alone on an identically constructed object, deterministic replay.
#include "mc/ctx.hpp"
#include "mc/sched/rt.hpp"
#include "props/C14_bodies.hpp"
#include <unistd.h>

using mc::Ctx; using mc::fmti;

static std::string sched_str(const std::vector<int>& c) { std::string s; for (size_t i = 0; i < c.size(); ++i) { if (i) s += ' '; s += std::to_string(c[i]); } return s; }

int main(int argc, char** argv) {
  Ctx ctx(argc, argv);
  const bool T = ctx.thorough();
  std::vector<c14::Body> B = c14::bodies();
  const int bound2 = T ? 3 : 2, bound3 = 2;
  const uint64_t cap = T ? 400000 : 60000;
  ctx.bound("fibres", "2 per body (bodies named *-3: 3)");
  ctx.bound("preemption_bound", "2 fibres: " + fmti(bound2) + "; 3 fibres: " + fmti(bound3));
  ctx.bound("scheduling_points", "before every access to a word touched by >= 2 fibres with >= 1 write (fixpoint over executions), before every static-init guard decision, at atomic stores/RMWs");
  ctx.bound("schedule_cap_per_body", (long long)cap);
  ctx.sub("explore");
  // thorough: every body additionally with 3 fibres, and a second pass in which READS of shared words are scheduling
  // points too (finer interleavings; capped, the cap is reported)
  std::vector<c14::Body> B2;
  for (auto& b : B) {
    if (!T && !b.quick) continue;
    B2.push_back(b);
    if (T && b.nf == 2) { c14::Body c = b; c.nf = 3; c.name += "/3-fibres"; B2.push_back(c); }
    if (T && b.nf == 2) { c14::Body c = b; c.name += "/points-at-reads"; B2.push_back(c); }
  }
  ctx.bound("thorough_extras", "every 2-fibre body also with 3 fibres (bound 2) and with scheduling points at reads of shared words (bound 2)");
  for (auto& b : B2) {
    if (!ctx.take()) continue;
    const bool par = b.name.size() > 16 && b.name.compare(b.name.size() - 16, 16, "/points-at-reads") == 0;
    sched::points_at_reads(par);
    // outputs
    static c14::Out out[sched::MAXF], ref[sched::MAXF];
    auto setup = [&] { for (int i = 0; i < sched::MAXF; ++i) out[i].n = 0; b.setup(); };
    auto body = [&](int tid) { b.run(tid, out[tid]); };
    sched::set_teardown(b.teardown);
    sched::reset_shared();
    bool ok = true;
    mc::Fields F{{"body", b.name}};
    auto FF = [&](const char* kind) { mc::Fields g = F; g.push_back({"kind", kind}); return g; };
    // sequential references: each fibre's calls executed alone on an identically constructed object
    for (int i = 0; i < b.nf; ++i) {
      sched::Exec x = sched::run_alone(i, setup, body);
      if (x.exception) { ctx.fail(b.name + " alone", "exception in sequential reference: " + x.exception_what, FF("harness")); ok = false; }
      ref[i] = out[i];
      ctx.count("events", x.events);
    }
    if (!ok) continue;
    // determinism of replay: the default schedule twice must give the same trace (after the shared set is stable)
    uint64_t nraces = 0, nmismatch = 0, ndeadlock = 0, classes_n = 0;
    std::set<uint64_t> classes;
    std::string first_race, first_mismatch;
    std::vector<int> race_sched, mismatch_sched;
    auto on_exec = [&](const sched::Exec& x) -> bool {
      mc::Ctx::Case cs(ctx);
      ctx.count("transitions", x.points.size() + 1);
      ctx.sig(x.trace_hash);
      classes.insert(x.trace_hash);
      if (x.new_shared) return true;       // exploration restarts with the enlarged shared set
      if (x.diverged) { ctx.fail(b.name + " diverged", "prefix replay diverged (harness non-determinism)", FF("harness")); return false; }
      if (x.horizon || x.foreign_stack) { ctx.fail(b.name + " horizon", "event horizon exceeded / foreign stack access", FF("harness")); return false; }
      if (x.exception) { ctx.fail(b.name + " exception", "exception escaped a thread body: " + x.exception_what, FF("exception")); return false; }
      if (x.deadlock) { ++ndeadlock; ctx.fail(b.name + " deadlock [" + sched_str(x.choices) + "]", "no enabled fibre", FF("deadlock")); return false; }
      if (!x.races.empty()) {
        if (!nraces) { first_race = x.races[0].describe(); race_sched = x.choices; }
        nraces += x.races.size();
        return false;                      // a race decides the body: stop exploring it
      }
      if (x.complete) for (int i = 0; i < b.nf; ++i) if (!out[i].same(ref[i])) {
        if (!nmismatch) { mismatch_sched = x.choices; first_mismatch = "fibre " + fmti(i) + " returned values that differ from the call executed alone"; }
        ++nmismatch;
      }
      return true;
    };
    sched::ExploreStats st = sched::explore(b.nf, setup, body, par ? 2 : (b.nf == 2 ? bound2 : bound3), cap, on_exec);
    // replay determinism on the default schedule
    {
      const char* tr = getenv("SCHED_TRACE"); FILE* f1 = nullptr; FILE* f2 = nullptr;
      if (tr && b.name == tr) { f1 = fopen("trace1.txt", "w"); f2 = fopen("trace2.txt", "w"); }
      sched::trace_to(f1); sched::Exec a = sched::run(b.nf, setup, body, {});
      sched::trace_to(f2); sched::Exec c = sched::run(b.nf, setup, body, {});
      sched::trace_to(nullptr); if (f1) fclose(f1); if (f2) fclose(f2);
      if (a.trace_hash != c.trace_hash || a.events != c.events) ctx.fail(b.name + " replay", "same schedule, different trace", FF("harness"));
    }
    ctx.count("states", st.states);
    ctx.count("trace_classes", classes.size());
    ctx.count("pruned_executions", st.pruned_execs);
    ctx.count("traces", st.schedules);
    ctx.count("schedules", st.schedules);
    ctx.count("sched_points", st.points);
    ctx.count("restarts_shared_set", st.restarts);
    ctx.count("shared_words", sched::shared_words());
    if (st.capped) ctx.not_exhaustive("body " + b.name + ": schedule cap reached; preemption bound fully completed: " + fmti(st.bound_completed));
    ctx.worst("schedules_per_body", (double)st.schedules, b.name);
    ctx.worst("points_per_execution", (double)st.max_points, b.name);
    ctx.worst("events_per_execution", (double)st.max_events, b.name);
    std::vector<std::string> ex; sched::shared_written_examples(ex, 3);
    std::string exs; for (auto& e : ex) exs += " " + e;
    if (nraces) {
      // the site (function of the two accesses) identifies the finding; strip offsets so that it survives recompilation
      std::string site = first_race; 
      ctx.fail(b.name + " race", "data race: " + first_race + "; schedule [" + sched_str(race_sched) + "]; shared words: " + fmti((long long)sched::shared_words()) + exs,
               {{"body", b.name}, {"kind", "race"}});
    }
    if (nmismatch) ctx.fail(b.name + " mismatch", first_mismatch + "; schedule [" + sched_str(mismatch_sched) + "]", FF("value-mismatch"));
    if (ctx.want_sample() || true)
      ctx.samples.push_back("body " + b.name + ": fibres " + fmti(b.nf) + ", schedules " + fmti((long long)st.schedules) + ", states " + fmti((long long)st.states) + ", trace classes " + fmti((long long)classes.size()) + ", max points/exec " + fmti((long long)st.max_points) +
                            ", events/exec " + fmti((long long)st.max_events) + ", shared words " + fmti((long long)sched::shared_words()) + ", bound completed " + fmti(st.bound_completed) + ", races " + fmti((long long)nraces) + ", mismatches " + fmti((long long)nmismatch));
  }
  int rc = ctx.finish();
  fflush(nullptr);
  _exit(rc);
}
