// C01 -- direct geodesic problem.  Engine E1: exhaustive lattice
//   ellipsoid x lat1 x azi1 x length (distance- and arc-specified, both signs, multi-circuit) x lon1
//   x {Geodesic, GeodesicExact, Geodesic(exact=true)} x {GenDirect, Line+GenPosition, (Arc)DirectLine+Position at
//   its own s13/a13, the same line queried through the other length kind} x LONG_UNROLL in {0,1}
// Oracle: oracle/geod_ode.hpp (geodesic as an ODE in R^3, Taylor integrator, long double); arc lengths through the
// defining integral.  Tolerances: models/geod_tables.hpp (2 x documented), x max(1, |s12|/2Q) for multi-circuit lines.
#include "mc/ctx.hpp"
#include "oracle/geod_ode.hpp"
#include "models/geod_tables.hpp"
#include "models/geod_lattice.hpp"
#include <GeographicLib/Geodesic.hpp>
#include <GeographicLib/GeodesicExact.hpp>
#include <GeographicLib/GeodesicLine.hpp>
#include <GeographicLib/GeodesicLineExact.hpp>
#include <GeographicLib/Ellipsoid.hpp>
#include <algorithm>
#include <memory>

using namespace GeographicLib;
using mc::Ctx; using mc::fx; using mc::fmt;
typedef long double ld;
using geod_ode::Point; using geod_ode::Traj;

struct Out { double lat2, lon2, azi2, s12, a12; };
static const double SENT = -7.25e33;

template <class G> static Out call(const G& g, int form, bool arcmode, double lat1, double lon1, double azi1, double len, bool unroll) {
  unsigned mask = Geodesic::LATITUDE | Geodesic::LONGITUDE | Geodesic::AZIMUTH | Geodesic::DISTANCE | (unroll ? Geodesic::LONG_UNROLL : 0u);
  Out o; o.lat2 = o.lon2 = o.azi2 = o.s12 = SENT; double t;
  if (form == 0)
    o.a12 = g.GenDirect(lat1, lon1, azi1, arcmode, len, mask, o.lat2, o.lon2, o.azi2, o.s12, t, t, t, t);
  else if (form == 1) {
    auto l = g.Line(lat1, lon1, azi1, Geodesic::ALL);
    o.a12 = l.GenPosition(arcmode, len, mask, o.lat2, o.lon2, o.azi2, o.s12, t, t, t, t);
  } else if (form <= 3) {
    auto l = arcmode ? g.ArcDirectLine(lat1, lon1, azi1, len, Geodesic::ALL) : g.DirectLine(lat1, lon1, azi1, len, Geodesic::ALL);
    bool am = form == 2 ? arcmode : !arcmode;
    o.a12 = l.GenPosition(am, am ? l.Arc() : l.Distance(), mask, o.lat2, o.lon2, o.azi2, o.s12, t, t, t, t);
  } else if (form == 4) {             // the public overloads Direct / ArcDirect (no LONG_UNROLL)
    if (arcmode) { g.ArcDirect(lat1, lon1, azi1, len, o.lat2, o.lon2, o.azi2, o.s12); o.a12 = len; }
    else { o.a12 = g.Direct(lat1, lon1, azi1, len, o.lat2, o.lon2, o.azi2); o.s12 = len; }
  } else if (form == 5) {             // Line, then GenSetDistance (SetDistance / SetArc), then the position at GenDistance
    auto l = g.Line(lat1, lon1, azi1, Geodesic::ALL);
    l.GenSetDistance(arcmode, len);
    o.a12 = l.GenPosition(arcmode, l.GenDistance(arcmode), mask, o.lat2, o.lon2, o.azi2, o.s12, t, t, t, t);
  } else {                            // Line, then the public Position / ArcPosition overloads (no LONG_UNROLL)
    auto l = g.Line(lat1, lon1, azi1, Geodesic::ALL);
    if (arcmode) { l.ArcPosition(len, o.lat2, o.lon2, o.azi2, o.s12); o.a12 = len; }
    else { o.a12 = l.Position(len, o.lat2, o.lon2, o.azi2); o.s12 = len; }
  }
  return o;
}

struct Len { bool arc; double v; ld s; Point<ld> p; ld a12deg, dsddeg; };

int main(int argc, char** argv) {
  Ctx ctx(argc, argv);
  const bool T = ctx.thorough();
  std::vector<geodtab::Ell> ells = geodtab::ellipsoids();
  // THRESHOLDS ON f IN THE CODE: GeodesicLine::GenPosition adds a Newton step to the reverted distance series iff |f| > 0.01, and the
  // documentation promises full accuracy up to |f| = 0.02.  Flattenings just below and above 0.01 and INSIDE the band (0.01, 0.02),
  // both signs (a = WGS84 a; documented 25 nm up to 0.01 and 30 nm up to 0.02).  Quick: +-0.0195.
  {
    struct FB { const char* n; double f; bool q; } fb[] = {{"f=0.0195", 0.0195, true}, {"f=-0.0195", -0.0195, true}, {"f=0.0185", 0.0185, false}, {"f=-0.0185", -0.0185, false},
      {"f=0.017", 0.017, false}, {"f=-0.017", -0.017, false}, {"f=0.015", 0.015, false}, {"f=-0.015", -0.015, false}, {"f=0.0125", 0.0125, false}, {"f=-0.0125", -0.0125, false},
      {"f=1/52", 1 / 52.0, false}, {"f=0.0101", 0.0101, false}, {"f=-0.0101", -0.0101, false}, {"f=0.0099", 0.0099, false}, {"f=-0.0099", -0.0099, false}};
    for (auto& b : fb) { geodtab::Ell x; x.name = b.n; x.a = geodtab::wgs84_a(); x.f = b.f; x.quick = b.q; x.series = true; x.e = geod_ode::Ellipsoid<ld>(x.a, x.f); x.Q = x.e.quarter_meridian(); ells.push_back(x); }
  }
  const std::vector<double> lats = geodlat::direct_lats(T), azis = geodlat::direct_azis(T), lons = geodlat::direct_lons(T);
  const std::vector<geodlat::LSpec> lspec = geodlat::direct_lengths(T);
  const int nforms = T ? 7 : 4;

  ctx.sub("direct");
  ctx.bound("direct.ellipsoids", std::string(geodlat::ellipsoid_text(T)) + (T ? " + the f-threshold bands: f in {+-0.0099, +-0.0101, +-0.0125, +-0.015, +-0.017, +-0.0185, +-0.0195, 1/52} (a = 6378137)" : " + f = +-0.0195 (inside the band 0.01 < |f| < 0.02 of the Newton-step threshold)"));
  ctx.bound("direct.lat1", geodlat::direct_lat_text(T));
  ctx.bound("direct.azi1", geodlat::direct_azi_text(T));
  ctx.bound("direct.lon1", T ? "{0,179.5,-180,540,-0,1e-13,-359.5,90-ulp}" : "{0,179.5,-180,540}");
  ctx.bound("direct.length", geodlat::direct_len_text(T));
  ctx.bound("direct.config", std::string("{Geodesic series (|f|<=0.2 only), GeodesicExact, Geodesic(exact=true)} x {GenDirect, Line+GenPosition, (Arc)DirectLine+GenPosition at s13/a13 same kind, same line other kind") + std::string(T ? ", public Direct/ArcDirect overloads, Line+GenSetDistance+GenPosition at GenDistance, Line+public Position/ArcPosition" : "") + "} x LONG_UNROLL {0,1} (the public overloads have no unrolled variant)");
  ctx.note("tolerance = 2 x documented error (Geodesic.hpp table by |f| scaled by a/6378137; GeodesicExact.hpp table by b/a scaled by Q/1e7 m, floor 40 nm), times the number of half circuits max(1, |s12|/2Q, |a12|/180) (the documented figures are for shortest geodesics)");
  ctx.note("exactly meridional lines through a pole (sin azi1 = 0): the documentation does not say on which side the pole is passed; |lon2-lon1| is compared");

  const ld D = geod_ode::deg<ld>();
  uint64_t ncalls = 0, ntraj = 0;
  for (size_t ei = 0; ei < ells.size(); ++ei) {
    const geodtab::Ell& E = ells[ei];
    if (!T && !E.quick) { continue; }
    std::unique_ptr<Geodesic> gs; std::unique_ptr<GeodesicExact> ge; std::unique_ptr<Geodesic> gx;
    const ld tolS = geodtab::tol_series(E), tolX = geodtab::tol_exact(E);
    for (size_t li = 0; li < lats.size(); ++li) for (size_t ai = 0; ai < azis.size(); ++ai) {
      if (!ctx.take()) continue;
      { if (E.series) gs.reset(new Geodesic(E.a, E.f)); ge.reset(new GeodesicExact(E.a, E.f)); gx.reset(new Geodesic(E.a, E.f, true)); }   // fresh objects in every unit: a unit is self-contained (replay)
      const double lat1 = lats[li], azi1 = azis[ai];
      // ---- oracle: one forward and one backward trajectory through all lengths
      std::vector<Len> L;
      for (auto& ls : lspec) {
        if (!T && !ls.quick) continue;
        if (std::fabs(std::log2(1 - E.f)) > 4.5 && (ls.arc ? std::fabs(ls.v) > 180 : std::fabs(ls.v) > 2.1)) continue;   // b/a = 1/64, 64: single-circuit lengths only (oracle cost)
        Len l; l.arc = ls.arc; l.v = ls.arc ? ls.v : ls.v * (double)E.Q;
        l.s = ls.arc ? geod_ode::arc_to_dist<ld>(E.e, lat1, azi1, l.v) : (ld)l.v;
        L.push_back(l);
      }
      std::vector<size_t> ord(L.size());
      for (size_t i = 0; i < ord.size(); ++i) ord[i] = i;
      std::stable_sort(ord.begin(), ord.end(), [&](size_t x, size_t y) { return fabsl(L[x].s) < fabsl(L[y].s); });
      for (int dir = 1; dir >= -1; dir -= 2) {
        Traj<ld> tr(E.e, 30, 1e-22L, 1.0L, false); tr.init(lat1, azi1);
        ld last = 0;
        for (size_t k : ord) {
          if ((dir > 0) != (L[k].s >= 0)) continue;
          tr.advance(L[k].s / E.e.a); last = L[k].s;
          L[k].p = tr.point(); ++ntraj;
          ld der; ld sg = geod_ode::dist_to_arc<ld>(E.e, L[k].p, &der);
          L[k].a12deg = sg / D; L[k].dsddeg = der * D;
        }
        // oracle self check at a second order / step size on the longest line of this direction
        if (last != 0) {
          Point<ld> p1 = tr.point();
          Point<ld> p2 = geod_ode::follow<ld>(E.e, lat1, azi1, last, false, 38, 1e-23L, 0.6L);
          ld d = 0; for (int i = 0; i < 3; ++i) d += (p1.r[i] - p2.r[i]) * (p1.r[i] - p2.r[i]);
          ld sc = std::max<ld>(1, fabsl(last) / (2 * E.Q));
          // (scaled by the distance only, i.e. stricter than the predicates)
          ld rel = sqrtl(d) / (std::min(tolS, tolX) * sc);
          ctx.worstf("oracle.two_stepsizes.err_over_tol", (double)rel, [&] { return E.name + " lat1=" + fmt(lat1) + " azi1=" + fmt(azi1) + " s12=" + mc::fmtl(last); });
          if (!(rel < 0.05)) { fprintf(stderr, "oracle self-check failed: %s lat1=%g azi1=%g s=%Lg rel=%Lg\n", E.name.c_str(), lat1, azi1, last, rel); return 2; }
        }
      }
      // ---- library
      for (size_t k = 0; k < L.size(); ++k) {
        const Len& l = L[k]; const Point<ld>& p = l.p;
        // number of half circuits: in distance (|s12|/2Q) or in arc on the auxiliary sphere (|a12|/180), whichever is larger
        const ld sc = std::max<ld>(std::max<ld>(1, fabsl(l.s) / (2 * E.Q)), fabsl(l.a12deg) / 180);
        const ld rho2 = hypotl(p.r[0], p.r[1]);
        for (size_t oi = 0; oi < lons.size(); ++oi) {
          const double lon1 = lons[oi];
          ld sl, cl; geod_ode::sincosd<ld>(lon1, sl, cl);
          ld ro[3] = {cl * p.r[0] - sl * p.r[1], sl * p.r[0] + cl * p.r[1], p.r[2]};
          ld to[3] = {cl * p.t[0] - sl * p.t[1], sl * p.t[0] + cl * p.t[1], p.t[2]};
          Out ref[3], refu[3]; bool have[3] = {false, false, false}, haveu[3] = {false, false, false};
          for (int sv = 0; sv < 3; ++sv) {
            if (sv == 0 && !E.series) continue;
            const ld tol = (sv == 0 ? tolS : tolX) * sc;
            const char* svn = sv == 0 ? "series" : (sv == 1 ? "exact" : "exact=true");
            for (int form = 0; form < nforms; ++form) for (int un = 0; un < 2; ++un) {
              if (un == 1 && (form == 4 || form == 6)) continue;
              Ctx::Case cs(ctx);
              Out o = sv == 0 ? call(*gs, form, l.arc, lat1, lon1, azi1, l.v, un) : (sv == 1 ? call(*ge, form, l.arc, lat1, lon1, azi1, l.v, un) : call(*gx, form, l.arc, lat1, lon1, azi1, l.v, un));
              ++ncalls;
              auto key = [&] { return "e" + std::to_string(ei) + "/la" + std::to_string(li) + "/az" + std::to_string(ai) + "/L" + std::to_string(k) + "/lo" + std::to_string(oi) + "/" + svn + "/f" + std::to_string(form) + "/u" + std::to_string(un); };
              auto where = [&] { return E.name + " lat1=" + fx(lat1) + " lon1=" + fmt(lon1) + " azi1=" + fx(azi1) + (l.arc ? " a12=" : " s12=") + fx(l.v) + " " + svn + " form=" + std::to_string(form) + " unroll=" + std::to_string(un); };
              auto bad = [&](const char* kind, const std::string& msg) {
                ctx.fail(key() + "/" + kind, where() + ": " + msg, {{"kind", kind}, {"ell", E.name}, {"solver", svn}, {"form", std::to_string(form)}, {"unroll", std::to_string(un)}, {"mode", l.arc ? "arc" : "dist"}});
              };
              if (!(std::isfinite(o.lat2) && std::isfinite(o.lon2) && std::isfinite(o.azi2) && std::isfinite(o.s12) && std::isfinite(o.a12)) || o.lat2 == SENT || o.lon2 == SENT || o.azi2 == SENT || o.s12 == SENT) {
                bad("nonfinite", "output not set or not finite lat2=" + fmt(o.lat2) + " lon2=" + fmt(o.lon2) + " azi2=" + fmt(o.azi2) + " s12=" + fmt(o.s12) + " a12=" + fmt(o.a12));
                continue;
              }
              // P1/P2: end point and direction in R^3
              ld rl[3], tl[3]; E.e.posdir(o.lat2, o.lon2, o.azi2, rl, tl);
              ld dp = 0, dt = 0;
              // direction: the oracle tangent is first projected into the tangent plane at the library's point, so that a
              // position error (bounded separately) on a strongly curved surface is not counted again as a direction error
              ld nl[3]; { ld sp, cp, s2, c2; geod_ode::sincosd<ld>(o.lat2, sp, cp); geod_ode::sincosd<ld>(o.lon2, s2, c2); nl[0] = cp * c2; nl[1] = cp * s2; nl[2] = sp; }
              ld tp[3]; { ld dn = to[0] * nl[0] + to[1] * nl[1] + to[2] * nl[2], nn = 0; for (int i = 0; i < 3; ++i) { tp[i] = to[i] - dn * nl[i]; nn += tp[i] * tp[i]; } nn = sqrtl(nn); for (int i = 0; i < 3; ++i) tp[i] /= nn; }
              for (int i = 0; i < 3; ++i) { ld x = rl[i] * E.e.a - ro[i]; dp += x * x; x = tl[i] - tp[i]; dt += x * x; }
              dp = sqrtl(dp); dt = sqrtl(dt) * E.e.a;
              ctx.worstf(std::string("pos.err_over_tol.") + svn, (double)(dp / tol), where);
              ctx.worstf(std::string("azi.err_over_tol.") + svn, (double)(dt / tol), where);
              if (sv == 0 && fabs(E.f) <= 0.0034 && sc == 1) ctx.worstf("pos.wgs84_series_single_circuit.nm", (double)(dp * 1e9L * 6378137 / E.e.a), where);
              if (!(dp <= tol)) bad("position", "end point " + mc::fmtl(dp) + " m from the true geodesic, tol " + mc::fmtl(tol) + " (lat2=" + fx(o.lat2) + " lon2=" + fx(o.lon2) + ")");
              if (!(dt <= tol)) bad("azimuth", "a*|direction error| " + mc::fmtl(dt) + " m, tol " + mc::fmtl(tol) + " (azi2=" + fx(o.azi2) + ")");
              // P3: (s12, a12)
              ld es = fabsl((ld)o.s12 - l.s), ea = fabsl((ld)o.a12 - l.a12deg) * l.dsddeg;
              ctx.worstf(std::string("s12.err_over_tol.") + svn, (double)(es / tol), where);
              ctx.worstf(std::string("a12.err_over_tol.") + svn, (double)(ea / tol), where);
              if (!(es <= tol)) bad("s12", "returned s12 " + fx(o.s12) + " true " + mc::fmtl(l.s));
              if (!(ea <= tol)) bad("a12", "returned a12 " + fx(o.a12) + " true " + mc::fmtl(l.a12deg) + " (x ds/da = " + mc::fmtl(ea) + " m)");
              if (form <= 2 || form >= 4) {
                bool echo = l.arc ? mc::same_bits(o.a12, l.v) || (o.a12 == l.v) : (o.s12 == l.v);
                if (!echo) bad("echo", std::string("the specified length is not returned unchanged: ") + (l.arc ? "a12 " + fx(o.a12) : "s12 " + fx(o.s12)));
              }
              // P4: ranges
              if (!(fabs(o.lat2) <= 90)) bad("range", "lat2 " + fx(o.lat2));
              if (!(fabs(o.azi2) <= 180)) bad("range", "azi2 " + fx(o.azi2));
              if (!un && !(fabs(o.lon2) <= 180)) bad("range", "lon2 " + fx(o.lon2) + " without LONG_UNROLL");
              // P5: unrolled longitude counts the circuits
              if (un) {
                ld l12 = ((ld)o.lon2 - (ld)lon1) * D, want = p.lon12;
                if (p.sense == 0) { l12 = fabsl(l12); want = fabsl(want); ctx.count("unroll.meridional_side_not_documented"); }
                ld el = fabsl(l12 - want) * rho2;
                ld tl2 = tol + 2 * (ld)mc::ulp_of(o.lon2) * D * rho2;
                if (rho2 < 1e-9L * E.e.a) ctx.count("unroll.vacuous_end_at_pole");
                ctx.worstf(std::string("unroll.err_over_tol.") + svn, (double)(el / tl2), where);
                ctx.worstf("unroll.max_circuits", (double)(fabsl(want) / (2 * geod_ode::pi<ld>())), where);
                if (!(el <= tl2)) bad("unroll", "lon2-lon1 = " + mc::fmtl(l12 / D) + " deg, true accumulated longitude " + mc::fmtl(want / D) + " deg");
              }
              // P6: the call forms of one solver agree (same tolerance)
              // (with LONG_UNROLL the unrolled longitudes themselves must agree, so that the call forms cannot differ in
              //  the sense in which a pole is passed)
              if (form == 0 && un == 1) { refu[sv] = o; haveu[sv] = true; }
              else if (form > 0 && un == 1 && haveu[sv]) {
                ld dl = fabsl((ld)o.lon2 - (ld)refu[sv].lon2) * D * rho2, tl2 = tol + 4 * (ld)mc::ulp_of(o.lon2) * D * rho2;
                ctx.worstf(std::string("forms.unrolled_lon.err_over_tol.") + svn, (double)(dl / tl2), where);
                if (!(dl <= tl2)) bad("forms-unroll", "unrolled lon2 " + fx(o.lon2) + " differs from GenDirect's " + fx(refu[sv].lon2));
              }
              if (form == 0 && !have[sv]) { ref[sv] = o; have[sv] = true; }
              else if (form > 0 && un == 0 && have[sv]) {
                ld r0[3], t0[3]; E.e.posdir(ref[sv].lat2, ref[sv].lon2, ref[sv].azi2, r0, t0);
                ld d2 = 0, d3 = 0, dn = t0[0] * nl[0] + t0[1] * nl[1] + t0[2] * nl[2];
                for (int i = 0; i < 3; ++i) { ld x = (rl[i] - r0[i]) * E.e.a; d2 += x * x; x = (tl[i] - (t0[i] - dn * nl[i])) * E.e.a; d3 += x * x; }
                ld dd = std::max(sqrtl(d2), sqrtl(d3));
                ctx.worstf(std::string("forms.err_over_tol.") + svn, (double)(dd / tol), where);
                if (!(dd <= tol)) bad("forms", "differs from GenDirect by " + mc::fmtl(dd) + " m");
              }
              if (ctx.want_sample() && form == 0 && un == 1 && k + 1 == L.size()) ctx.sample(where() + " -> lat2=" + fmt(o.lat2) + " lon2=" + fmt(o.lon2) + " azi2=" + fmt(o.azi2) + " | oracle err " + mc::fmtl(dp) + " m");
            }
          }
          // P7: solvers agree pairwise (sum of tolerances)
          for (int i = 0; i < 3; ++i) for (int j = i + 1; j < 3; ++j) if (have[i] && have[j]) {
            ld r0[3], t0[3], r1[3], t1[3]; E.e.posdir(ref[i].lat2, ref[i].lon2, ref[i].azi2, r0, t0); E.e.posdir(ref[j].lat2, ref[j].lon2, ref[j].azi2, r1, t1);
            ld d2 = 0; for (int q = 0; q < 3; ++q) { ld x = (r0[q] - r1[q]) * E.e.a; d2 += x * x; }
            ld tl2 = ((i == 0 ? tolS : tolX) + (j == 0 ? tolS : tolX)) * sc;
            ctx.worstf("solvers.pairwise.err_over_tol", (double)(sqrtl(d2) / tl2), [&] { return E.name + " lat1=" + fx(lat1) + " azi1=" + fx(azi1) + " len=" + fx(l.v); });
            if (!(sqrtl(d2) <= tl2)) {
              Ctx::Case cs(ctx);
              ctx.fail("e" + std::to_string(ei) + "/la" + std::to_string(li) + "/az" + std::to_string(ai) + "/L" + std::to_string(k) + "/lo" + std::to_string(oi) + "/pair" + std::to_string(i) + std::to_string(j),
                       E.name + " lat1=" + fx(lat1) + " azi1=" + fx(azi1) + " len=" + fx(l.v) + ": solvers differ by " + mc::fmtl(sqrtl(d2)) + " m", {{"kind", "pairwise"}, {"ell", E.name}});
            }
          }
        }
      }
    }
  }
  ctx.count("calls", ncalls); ctx.count("oracle_trajectories", ntraj);
  // ================================================================= arc-length mode is periodic in a12
  // The arc length enters through sincosd(a12), an exact reduction modulo 360: lat2 and azi2 for a12 and a12 + 360 k
  // must agree to round-off (a few ulp of 90 resp. 180 degrees) for any number of circuits k, whatever the solver or call
  // form.  (The oracle comparison cannot see a loss of this property: its tolerance grows with the number of circuits.)
  {
    ctx.sub("arc-periodicity");
    auto svname = [](int sv) { return sv == 0 ? "series" : (sv == 1 ? "exact" : "exact=true"); };
    ctx.bound("arc-periodicity", "quick ellipsoids (thorough: all) x 13 lat1 x 13 azi1 x a12 in {30, -150, 90.5, 179.75} x k in {10, 1000, 100000, -12345} x {series, exact, exact=true} x {GenDirect, Line+GenPosition}: lat2, azi2 of a12 + 360k equal those of a12 within 8 ulp of 90 / 180 deg");
    const double arcs[] = {30, -150, 90.5, 179.75}; const double ks[] = {10, 1000, 100000, -12345};
    const unsigned M = Geodesic::LATITUDE | Geodesic::LONGITUDE | Geodesic::AZIMUTH | Geodesic::DISTANCE;
    for (size_t ei = 0; ei < ells.size(); ++ei) {
      const geodtab::Ell& E = ells[ei];
      if (!T && !E.quick) continue;
      std::unique_ptr<Geodesic> gs, gx; std::unique_ptr<GeodesicExact> ge;
      for (size_t li = 0; li < lats.size(); ++li) {
        if (!ctx.take()) continue;
        { if (E.series) gs.reset(new Geodesic(E.a, E.f)); ge.reset(new GeodesicExact(E.a, E.f)); gx.reset(new Geodesic(E.a, E.f, true)); }   // fresh objects in every unit: a unit is self-contained (replay)
        for (size_t ai = 0; ai < azis.size(); ++ai) for (double a12 : arcs) for (int sv = 0; sv < 3; ++sv) for (int form = 0; form < 2; ++form) {
          if (sv == 0 && !E.series) continue;
          Ctx::Case cs(ctx);
          const double lat1 = lats[li], azi1 = azis[ai];
          auto call = [&](double arc, double& la, double& az) { double lo, s, t;
            if (sv == 0) { if (form == 0) gs->GenDirect(lat1, 10, azi1, true, arc, M, la, lo, az, s, t, t, t, t); else gs->Line(lat1, 10, azi1, M | Geodesic::DISTANCE_IN).GenPosition(true, arc, M, la, lo, az, s, t, t, t, t); }
            else if (sv == 1) { if (form == 0) ge->GenDirect(lat1, 10, azi1, true, arc, M, la, lo, az, s, t, t, t, t); else ge->Line(lat1, 10, azi1, M | GeodesicExact::DISTANCE_IN).GenPosition(true, arc, M, la, lo, az, s, t, t, t, t); }
            else { if (form == 0) gx->GenDirect(lat1, 10, azi1, true, arc, M, la, lo, az, s, t, t, t, t); else gx->Line(lat1, 10, azi1, M | Geodesic::DISTANCE_IN).GenPosition(true, arc, M, la, lo, az, s, t, t, t, t); } };
          double la0, az0; call(a12, la0, az0);
          for (double k : ks) {
            double arc = a12 + 360 * k;                     // exact: a12 has <= 10 significant bits below the binary point
            double la, az; call(arc, la, az);
            double dl = std::fabs(la - la0) / (90 * std::numeric_limits<double>::epsilon());
            double da = std::fabs(std::remainder(az - az0, 360.0)) / (180 * std::numeric_limits<double>::epsilon());
            if (std::fabs(la0) > 90 - 1e-9) da = 0;          // azimuth at a pole is a matter of convention
            ctx.worstf("arc-periodicity.ulps", std::fmax(dl, da), [&] { return E.name + " lat1=" + fmt(lat1) + " azi1=" + fmt(azi1) + " a12=" + fmt(a12) + "+360*" + fmt(k); });
            if (!(dl <= 8) || !(da <= 8))
              ctx.fail("e" + std::to_string(ei) + "/la" + std::to_string(li) + "/az" + std::to_string(ai) + "/arc" + fmt(a12) + "/k" + fmt(k) + "/" + svname(sv) + "/f" + std::to_string(form),
                       E.name + " lat1=" + fx(lat1) + " azi1=" + fx(azi1) + " " + svname(sv) + (form ? " line" : " GenDirect") + ": a12 = " + fmt(a12) + " gives lat2 " + fx(la0) + " azi2 " + fx(az0) + " but a12 + 360*" + fmt(k) + " gives lat2 " + fx(la) + " azi2 " + fx(az),
                       {{"kind", "arc-periodicity"}, {"ell", E.name}, {"solver", svname(sv)}});
          }
        }
      }
    }
  }
  // ================================================================= ends of the exact solver's documented range
  // b/a in {1/100, 1/64, 1/50, 50, 64, 100}: the ODE oracle is too slow there (hours), so only the oracle-free clauses
  // are decided: the (s12, a12) pair returned for an arc-specified length must describe the same point when fed back
  // as a distance (and vice versa), and the exact solver, the delegating exact=true mode and the line forms must agree,
  // all within a calibrated multiple of the GeodesicExact.hpp table row (see tol below).
  {
    ctx.sub("exact-range-ends");
    ctx.bound("exact-range-ends", "b/a in {1/100,1/64,1/50,50,64,100} (Q = 10 000 km) x 13 lat1 x 13 azi1 x a12 in {1e-9,30,-60,90,-150,180} x {GeodesicExact, Geodesic(exact=true)} x {GenDirect, Line+GenPosition}: arc->distance->point and distance->arc->point closure, configurations agree");
    const double bas[] = {0.01, 1 / 64.0, 0.02, 50, 64, 100};
    const double arcs[] = {1e-9, 30, -60, 90, -150, 180};
    // no AREA: at these eccentricities the area series needs thousands of terms per call
    const unsigned MSK = GeodesicExact::LATITUDE | GeodesicExact::LONGITUDE | GeodesicExact::AZIMUTH | GeodesicExact::DISTANCE | GeodesicExact::LONG_UNROLL;
    for (double ba : bas) {
      double f = 1 - ba;
      // the scale only: a such that the quarter meridian is 10 000 km (library value; the oracle quadrature does not converge
      // in reasonable time at these eccentricities)
      const ld Q = 1e7L; const double a = 1e7 / Ellipsoid(1.0, f).QuarterMeridian();
      // Closure of two library calls at the ends of the documented range is not a documented figure: calibrated.  Worst
      // observed on the unchanged tree: 47 x (2 x table row) at b/a = 1/100 (meridional lines from a pole, 36 um), 2.3 x at
      // b/a = 1/64, 3 x at 1/50, <= 1.7 x for b/a >= 50.  Frozen at 4 x the worst = 256 x (2 x table row).
      const ld tol = 256 * 2 * geodtab::exact_doc_m(f, Q);
      std::unique_ptr<GeodesicExact> ge; std::unique_ptr<Geodesic> gx;
      for (size_t li = 0; li < lats.size(); ++li) for (size_t ai = 0; ai < azis.size(); ++ai) {
        if (!ctx.take()) continue;
        { ge.reset(new GeodesicExact(a, f)); gx.reset(new Geodesic(a, f, true)); }   // fresh objects in every unit
        const double lat1 = lats[li], azi1 = azis[ai], lon1 = 10;
        const double big = std::fmax(a, a * ba);
        for (double a12 : arcs) {
          Ctx::Case cs(ctx);
          auto key = [&](const char* k) { return "ba" + fmt(ba) + "/la" + std::to_string(li) + "/az" + std::to_string(ai) + "/arc" + fmt(a12) + "/" + k; };
          auto bad = [&](const char* kind, const std::string& m) { ctx.fail(key(kind), "b/a=" + fmt(ba) + " a=" + fx(a) + " lat1=" + fx(lat1) + " azi1=" + fx(azi1) + " a12=" + fmt(a12) + ": " + m, {{"kind", std::string(kind) + "@b/a=" + fmt(ba)}, {"ell", "b/a=" + fmt(ba)}}); };
          struct R { double lat, lon, azi, s, a; } r[4];
          // 0: GeodesicExact arc   1: GeodesicExact distance (s of 0)   2: exact=true arc   3: line form distance
          r[0].a = ge->GenDirect(lat1, lon1, azi1, true, a12, MSK, r[0].lat, r[0].lon, r[0].azi, r[0].s, r[0].a, r[0].a, r[0].a, r[0].a); r[0].a = a12;
          { double t; r[1].a = ge->GenDirect(lat1, lon1, azi1, false, r[0].s, MSK, r[1].lat, r[1].lon, r[1].azi, r[1].s, t, t, t, t); }
          { double t; gx->GenDirect(lat1, lon1, azi1, true, a12, MSK, r[2].lat, r[2].lon, r[2].azi, r[2].s, t, t, t, t); r[2].a = a12; }
          { double t; GeodesicLineExact l = ge->Line(lat1, lon1, azi1, MSK | GeodesicExact::DISTANCE_IN); r[3].a = l.GenPosition(false, r[0].s, MSK, r[3].lat, r[3].lon, r[3].azi, r[3].s, t, t, t, t); }
          bool fin = true; for (auto& x : r) for (double v : {x.lat, x.lon, x.azi, x.s, x.a}) if (!std::isfinite(v)) fin = false;
          if (!fin) { bad("nonfinite", "non-finite output"); continue; }
          bool merid = std::fabs(std::sin(azi1 * Math::degree())) < 1e-9 || std::fabs(lat1) == 90;    // the side on which a pole is passed is undocumented
          for (int j = 1; j < 4; ++j) {
            double cl = std::cos(r[0].lat * Math::degree());
            double dlon = std::remainder(r[j].lon - r[0].lon, 360.0);
            if (merid) dlon = std::remainder(std::fabs(r[j].lon - lon1) - std::fabs(r[0].lon - lon1), 360.0);
            double dpos = std::hypot((r[j].lat - r[0].lat) * Math::degree() * big, dlon * Math::degree() * big * cl);
            double ds = std::fabs(r[j].s - r[0].s), da = std::fabs(r[j].a - a12) * Math::degree() * big;
            const char* nm[] = {"", "arc-vs-distance", "exact-vs-exactmode", "gendirect-vs-line"};
            ctx.worstf(std::string("ends.") + nm[j] + ".pos_over_tol", dpos / (double)tol, [&] { return key(nm[j]); });
            if (!(dpos <= tol)) bad(nm[j], std::string(nm[j]) + ": points differ by " + fmt(dpos) + " m (tolerance " + mc::fmtl(tol) + ")");
            if (!(ds <= tol)) bad(nm[j], std::string(nm[j]) + ": s12 differs by " + fmt(ds) + " m");
            if ((j == 1 || j == 3) && !(da <= tol)) bad(nm[j], std::string(nm[j]) + ": distance-specified call returns a12 = " + fx(r[j].a) + " for the distance of arc " + fmt(a12));
          }
          if (ctx.want_sample()) ctx.sample("b/a=" + fmt(ba) + " lat1=" + fmt(lat1) + " azi1=" + fmt(azi1) + " a12=" + fmt(a12) + " -> s12=" + fmt(r[0].s));
        }
      }
    }
  }
  return ctx.finish();
}
