// C20 -- geoid heights depend only on data and position, never on cache history.
//
// Engine E2 (explicit-state BFS over operation histories of a REAL GeographicLib::Geoid object) + E1-style value
// lattice.  The malformed-file part (E4) lives in props/C20_files.cpp (san flavour, fork per batch).
//
//   rasters     tiny PGM files written at run time under $VERIF_DIR/build/tmp/C20/<shard>/ :
//               width {2,4,8} x height {3,5,9}; contents S (structured), U<k> (unit pixel), M<i><j> (monomial
//               ix^i iy^j); Offset/Scale A = (-108, 0.003), B = (0, 1)
//   operations  Q(lat,lon) over a product lattice (every node, +-1 ulp, midpoints, [5/16 points], lon +-360, +-180,
//               -0, NaN);  CacheArea(s,w,n,e) over all 900 rectangles with corners on {-90,-45,0,45,90} x
//               {-180,-90,0,90,180,270} (wrapping, degenerate, full);  CacheAll;  CacheClear
//   modes       cubic {0,1} x threadsafe {0,1}
//   state       = operation history, materialised by replaying it on a fresh object; de-duplicated on a canonical key
//               that serialises EVERY live mutable field bit-exactly (see key_of)
//   predicates  (history) every Q at every reachable state, in every mode, returns bit-for-bit the value the fresh
//               no-cache object returns;  (reference) that value equals the documented bilinear formula / the
//               independent weighted least-squares cubic (oracle/lsq_cubic.hpp) within a round-off tolerance;
//               nodes, edge linearity, longitude periodicity, continuity, NaN, pole longitude-independence,
//               monomial reproduction;  ConvertHeight pair;  cache API semantics;  damage by special arguments.
//
// Exploration scheme.  Phase A (every shard, cheap, deterministic) discovers the canonical states reachable by <= 2
// operations using all operations from the initial state and one representative per effect class below that.
// Phase B (sharded, one unit per state) re-materialises each state by replaying its history on fresh objects
// (determinism + fill-pattern independence), then executes EVERY operation of the full alphabet from it.  Between
// operations the object is put back into the state by restoring the snapshot of the key fields; the restored key is
// compared with the state's key (fallback: fresh replay), so by completeness of the key the object is in the same
// state.  A successor that phase A did not know is explored on the spot up to the depth bound.  When no such
// successor appears (counter states_beyond_skeleton == 0) the transition relation over the alphabet is closed: all
// longer histories revisit exactly the explored states.
#include "mc/ctx.hpp"
#include "mc/exact.hpp"
#include "oracle/lsq_cubic.hpp"
#include <GeographicLib/Geoid.hpp>
#include <sys/stat.h>
#include <unistd.h>
#include <new>
#include <memory>
#include <deque>
#include <unordered_map>
#include <algorithm>

using namespace GeographicLib;
using mc::Ctx; using mc::fx; using mc::fmt; using mc::fmti;
typedef __float128 f128;
static const double EPS = std::numeric_limits<double>::epsilon();

// Tolerances (README "Tolerances and false alarms"): the documentation gives no figure for the interpolation round-off.
// Calibrated on the unchanged tree: worst observed |value - reference| / (eps * S), S = |offset| + scale * max pixel,
// is 1.4 (bilinear) and 0.9 (cubic); 4 x worst would be below the floor of the tolerance schedule, so the floor of
// 16 eps relative to the value scale is used for both (headroom > 10 x, reported as *.err_over_tol).
// The harness is linked -no-pie (registry) so that the edge signatures do not depend on the load address.
static const double TOL_BILINEAR = 16;     // in units of eps * S
static const double TOL_CUBIC = 16;        // in units of eps * S
static const double TOL_CONT = 32;         // continuity across a cell boundary over one ulp of the coordinate
static const double TOL_CONVERT = 4;       // ConvertHeight round trip, in ulps of max(|h|, |N|)

static Ctx* G = nullptr;
static std::string TMP;
static const unsigned char FILL_A = 0x00, FILL_B = 0xA5;

[[noreturn]] static void harness_error(const std::string& m) { fprintf(stderr, "C20 HARNESS ERROR: %s\n", m.c_str()); fflush(stderr); _exit(2); }

// ------------------------------------------------------------------------------------------------ rasters
static const char* OS_OFF[2] = {"-108", "0"};
static const char* OS_SC[2] = {"0.003", "1"};
struct Raster {
  int w, h, os; std::string content, stem; std::vector<unsigned> px; double offset, scale; unsigned maxpix;
  int mi = -1, mj = -1;                                   // monomial exponents for content M<i><j>
  // stencil access with the documented extensions: periodic in longitude, continued across the poles along the meridian
  double P(int ix, int iy) const {
    ix = ((ix % w) + w) % w;
    if (iy < 0) { iy = -iy; ix = (ix + w / 2) % w; } else if (iy >= h) { iy = 2 * (h - 1) - iy; ix = (ix + w / 2) % w; }
    return double(px[iy * w + ix]);
  }
};
static long ipow(long b, int e) { long r = 1; while (e-- > 0) r *= b; return r; }
static std::map<std::string, std::unique_ptr<Raster>> RASTERS;
static const Raster& raster(int w, int h, const std::string& content, int os) {
  std::string stem = "r" + fmti(w) + "x" + fmti(h) + "_" + content + "_" + (os ? "B" : "A");
  auto it = RASTERS.find(stem); if (it != RASTERS.end()) return *it->second;
  std::unique_ptr<Raster> r(new Raster); r->w = w; r->h = h; r->os = os; r->content = content; r->stem = stem;
  r->offset = strtod(OS_OFF[os], nullptr); r->scale = strtod(OS_SC[os], nullptr);
  r->px.assign(w * h, 0);
  for (int iy = 0; iy < h; ++iy) for (int ix = 0; ix < w; ++ix) {
    unsigned v = 0;
    if (content == "S") v = unsigned((37L * ix + 101L * iy * iy + 7) % 65536);
    else if (content[0] == 'U') v = (atoi(content.c_str() + 1) == iy * w + ix) ? 1 : 0;
    else if (content[0] == 'M') { r->mi = content[1] - '0'; r->mj = content[2] - '0'; v = unsigned(ipow(ix, r->mi) * ipow(iy, r->mj)); }
    else harness_error("unknown raster content " + content);
    if (v > 65535) harness_error("pixel overflow");
    r->px[iy * w + ix] = v;
  }
  r->maxpix = 1; for (unsigned v : r->px) r->maxpix = std::max(r->maxpix, v);
  std::string img = std::string("P5\n# Geoid file in PGM format for the GeographicLib::Geoid class\n# Description C20 test raster ") + stem +
    "\n# DateTime 2026-10-01 00:00:00\n# Offset " + OS_OFF[os] + "\n# Scale " + OS_SC[os] + "\n# Origin 90N 0E\n" + fmti(w) + " " + fmti(h) + "\n65535\n";
  for (unsigned v : r->px) { img += char(v >> 8); img += char(v & 255); }
  std::string path = TMP + "/" + stem + ".pgm";
  FILE* f = fopen(path.c_str(), "wb"); if (!f || fwrite(img.data(), 1, img.size(), f) != img.size()) harness_error("cannot write " + path);
  fclose(f);
  const Raster& ref = *r; RASTERS[stem] = std::move(r); return ref;
}
static double valscale(const Raster& r) { return std::fabs(r.offset) + r.scale * r.maxpix; }

// ------------------------------------------------------------------------------------------------ query lattice
enum { K_NODE = 0, K_UP, K_DN, K_MID, K_Q516, K_SHIFT };
struct Ax { double v; int node; int kind; int base; };       // base: index of the entry this one must equal bit-for-bit (K_SHIFT)
struct Lattice {
  int w, h; bool dense; std::vector<Ax> lat, lon; std::vector<std::pair<double, double>> special;
  int nlat() const { return (int)lat.size(); } int nlon() const { return (int)lon.size(); }
  int nprod() const { return nlat() * nlon(); } int n() const { return nprod() + (int)special.size(); }
  void get(int p, double& la, double& lo) const { if (p < nprod()) { la = lat[p / nlon()].v; lo = lon[p % nlon()].v; } else { la = special[p - nprod()].first; lo = special[p - nprod()].second; } }
  int idx(int il, int io) const { return il * nlon() + io; }
};
static std::map<std::string, std::unique_ptr<Lattice>> LATTICES;
static const Lattice& lattice(int w, int h, bool dense) {
  std::string k = fmti(w) + "x" + fmti(h) + (dense ? "d" : "s");
  auto it = LATTICES.find(k); if (it != LATTICES.end()) return *it->second;
  std::unique_ptr<Lattice> L(new Lattice); L->w = w; L->h = h; L->dense = dense;
  const double rx = 360.0 / w, ry = 180.0 / (h - 1);
  std::vector<int> nodeidx(w), mididx(w);
  for (int c = 0; c < w; ++c) {
    double x = -180 + c * rx;
    nodeidx[c] = (int)L->lon.size(); L->lon.push_back({x, c, K_NODE, -1});
    L->lon.push_back({std::nextafter(x, INFINITY), c, K_UP, -1});
    L->lon.push_back({std::nextafter(x, -INFINITY), c, K_DN, -1});
    mididx[c] = (int)L->lon.size(); L->lon.push_back({x + rx / 2, c, K_MID, -1});
    if (dense) L->lon.push_back({x + rx * 5 / 16, c, K_Q516, -1});
  }
  L->lon.push_back({180.0, 0, K_SHIFT, nodeidx[0]});
  L->lon.push_back({540.0, 0, K_SHIFT, nodeidx[0]});
  L->lon.push_back({-540.0, 0, K_SHIFT, nodeidx[0]});
  L->lon.push_back({-0.0, w / 2, K_SHIFT, nodeidx[w / 2]});
  L->lon.push_back({360.0, w / 2, K_SHIFT, nodeidx[w / 2]});
  { int c = w > 2 ? 1 : 0; L->lon.push_back({L->lon[nodeidx[c]].v + 360, c, K_SHIFT, nodeidx[c]}); L->lon.push_back({L->lon[mididx[c]].v - 360, c, K_SHIFT, mididx[c]}); }
  { int c = w - 1; L->lon.push_back({L->lon[mididx[c]].v + 360, c, K_SHIFT, mididx[c]}); L->lon.push_back({L->lon[nodeidx[c]].v - 720, c, K_SHIFT, nodeidx[c]}); }
  for (int r = 0; r < h; ++r) {
    double y = 90 - r * ry;
    int ni = (int)L->lat.size(); L->lat.push_back({y, r, K_NODE, -1});
    if (r > 0) L->lat.push_back({std::nextafter(y, INFINITY), r, K_UP, -1});
    if (r < h - 1) { L->lat.push_back({std::nextafter(y, -INFINITY), r, K_DN, -1}); L->lat.push_back({y - ry / 2, r, K_MID, -1}); if (dense) L->lat.push_back({y - ry * 5 / 16, r, K_Q516, -1}); }
    if (r == (h - 1) / 2) L->lat.push_back({-0.0, r, K_SHIFT, ni});
  }
  L->special = {{NAN, 22.5}, {11.25, NAN}, {NAN, NAN}};
  const Lattice& ref = *L; LATTICES[k] = std::move(L); return ref;
}

// ------------------------------------------------------------------------------------------------ reference model
// All candidate reference values at (lat, lon): the cell containing the point decided in exact arithmetic, plus the
// neighbouring cell when the point is within 1e-12 cell widths of the shared boundary (the library locates the cell
// with one rounded multiplication; for the cubic, which is documented to be discontinuous at cell boundaries, either
// cell is a correct answer there).  Values are exact up to the final __float128 roundings.
struct RefCell { int ix, iy; f128 fx, fy, val; };
static void ref_values(const Raster& r, bool cubic, double lat, double lon, std::vector<RefCell>& out) {
  out.clear();
  const int w = r.w, h = r.h;
  double ln = mc::lon_norm(lon);
  f128 x = (f128)ln * w / 360, y = ((f128)90 - (f128)lat) * (h - 1) / 180;
  long long ix0 = mc::cell_index(ln, w, 0, 360);
  long long iy0 = (long long)floorq(y); if (iy0 > h - 2) iy0 = h - 2; if (iy0 < 0) iy0 = 0;
  std::vector<long long> xs{ix0}, ys{iy0};
  if (x - ix0 < 1e-12Q) xs.push_back(ix0 - 1); if ((ix0 + 1) - x < 1e-12Q) xs.push_back(ix0 + 1);
  if (y - iy0 < 1e-12Q && iy0 > 0) ys.push_back(iy0 - 1); if ((iy0 + 1) - y < 1e-12Q && iy0 < h - 2) ys.push_back(iy0 + 1);
  const oracle::LsqCubic& Lq = oracle::LsqCubic::get();
  for (long long ix : xs) for (long long iy : ys) {
    RefCell c; c.ix = (int)ix; c.iy = (int)iy; c.fx = x - ix; c.fy = y - iy;
    f128 p;
    if (!cubic) {
      f128 v00 = r.P(ix, iy), v01 = r.P(ix + 1, iy), v10 = r.P(ix, iy + 1), v11 = r.P(ix + 1, iy + 1);
      p = (1 - c.fy) * ((1 - c.fx) * v00 + c.fx * v01) + c.fy * ((1 - c.fx) * v10 + c.fx * v11);
    } else {
      double v[12]; const oracle::LsqCubic::Pt* S = Lq.stencil();
      for (int k = 0; k < 12; ++k) v[k] = r.P(ix + S[k].x, iy + S[k].y);
      int var = iy == 0 ? oracle::LsqCubic::NORTH : (iy == h - 2 ? oracle::LsqCubic::SOUTH : oracle::LsqCubic::GENERIC);
      p = Lq.eval(var, v, c.fx, c.fy);
    }
    c.val = (f128)r.offset + (f128)r.scale * p;
    out.push_back(c);
  }
}

// ------------------------------------------------------------------------------------------------ operations
struct OpT { int type; double a, b, c, d; };      // 0 Q(lat=a, lon=b)  1 CacheArea(s=a, w=b, n=c, e=d)  2 CacheAll  3 CacheClear
static std::string opstr(const OpT& o) {
  switch (o.type) {
  case 0: return "Q(" + fx(o.a) + "," + fx(o.b) + ")";
  case 1: return "CacheArea(" + fmt(o.a) + "," + fmt(o.b) + "," + fmt(o.c) + "," + fmt(o.d) + ")";
  case 2: return "CacheAll"; default: return "CacheClear";
  }
}
static std::vector<OpT> COPS;
static void build_cops() {
  const double las[5] = {-90, -45, 0, 45, 90}, los[6] = {-180, -90, 0, 90, 180, 270};
  for (double s : las) for (double w : los) for (double n : las) for (double e : los) COPS.push_back({1, s, w, n, e});
  COPS.push_back({2, 0, 0, 0, 0}); COPS.push_back({3, 0, 0, 0, 0});
}
// index into COPS of CacheArea(las[si], los[wi], las[ni], los[ei])
static int cop_index(int si, int wi, int ni, int ei) { return ((si * 6 + wi) * 5 + ni) * 6 + ei; }
struct Res { int oc; double v; std::string what; };        // oc: 0 ok, 1 GeographicErr, 2 foreign exception, 3 fatal signal
static Res apply(Geoid& g, const OpT& op) {
  Res r{0, 0.0, ""};
  try {
    int sg = mc::crashed([&] {
      switch (op.type) {
      case 0: r.v = g(op.a, op.b); break;
      case 1: g.CacheArea(op.a, op.b, op.c, op.d); break;
      case 2: g.CacheAll(); break;
      default: g.CacheClear(); break;
      }
    });
    if (sg) { r.oc = 3; r.what = "signal " + fmti(sg); }
  }
  catch (const GeographicErr& e) { r.oc = 1; r.what = e.what(); }
  catch (const std::exception& e) { r.oc = 2; r.what = std::string(typeid(e).name()) + ": " + e.what(); }
  catch (...) { r.oc = 2; r.what = "non-std exception"; }
  return r;
}
static const char* OCN[4] = {"ok", "GeographicErr", "foreign-exception", "signal"};

// ------------------------------------------------------------------------------------------------ canonical key
// Every mutable member of Geoid is here, bit-exactly, when it is LIVE.  Dead fields are left out because they hold
// indeterminate bytes until first written (the constructor does not initialise them): _xoffset/_yoffset/_xsize/_ysize
// are read only under _cache (rawval, Cache*() inspectors) and rewritten by CacheArea before _cache is set;
// _v00.._v11 / _t[] are read only when (ix,iy) == (_ix,_iy), which cannot hold for the constructor's sentinel
// (_width,_height); the bilinear object never touches _t, the cubic one never _v**.  The stream's error state and
// open flag are included; its position is not (every read is preceded by an absolute seek; phase B additionally runs
// every probe from whatever position the previous operation left, so a dependence on it shows up as a value mismatch).
// The immutable metadata is included as well so that a write to it would split states rather than go unseen.
static void key_of(const Geoid& g, std::string& k) {
  k.clear();
  auto put = [&](const void* p, size_t n) { k.append((const char*)p, n); };
  unsigned char f[4] = {(unsigned char)g._threadsafe, (unsigned char)g._cache, (unsigned char)g._cubic, (unsigned char)g._file.is_open()};
  put(f, 4);
  int st = (int)g._file.rdstate(); put(&st, 4);
  put(&g._offset, 8); put(&g._scale, 8); put(&g._width, 4); put(&g._height, 4); put(&g._datastart, 8); put(&g._swidth, 8);
  put(&g._rlonres, 8); put(&g._rlatres, 8);
  if (g._cache) { put(&g._xoffset, 4); put(&g._yoffset, 4); put(&g._xsize, 4); put(&g._ysize, 4); }
  unsigned n = (unsigned)g._data.size(); put(&n, 4);
  for (auto& row : g._data) { unsigned m = (unsigned)row.size(); put(&m, 4); if (m) put(row.data(), m * sizeof(row[0])); }
  put(&g._ix, 4); put(&g._iy, 4);
  if (!(g._ix == g._width && g._iy == g._height)) {
    if (g._cubic) put(g._t, sizeof g._t); else { put(&g._v00, 8); put(&g._v01, 8); put(&g._v10, 8); put(&g._v11, 8); }
  }
}
struct Snap {
  bool cache; int xo, yo, xs, ys, ix, iy; double v[4], t[10]; std::vector<std::vector<unsigned short>> data; int st; bool open;
  void take(const Geoid& g) {
    cache = g._cache; xo = g._xoffset; yo = g._yoffset; xs = g._xsize; ys = g._ysize; ix = g._ix; iy = g._iy;
    v[0] = g._v00; v[1] = g._v01; v[2] = g._v10; v[3] = g._v11; memcpy(t, g._t, sizeof t); data = g._data; st = (int)g._file.rdstate(); open = g._file.is_open();
  }
  bool restore(Geoid& g) const {
    if ((int)g._file.rdstate() != st || g._file.is_open() != open) return false;      // stream state cannot be put back
    g._cache = cache; g._xoffset = xo; g._yoffset = yo; g._xsize = xs; g._ysize = ys; g._ix = ix; g._iy = iy;
    g._v00 = v[0]; g._v01 = v[1]; g._v10 = v[2]; g._v11 = v[3]; memcpy(g._t, t, sizeof t);
    if (g._data != data) g._data = data;
    return true;
  }
};

// ------------------------------------------------------------------------------------------------ explorer
struct Cfg {
  const Raster* r; bool cubic, ts; const Lattice* L; int depth;      // depth 2: closure exploration, 1: shallow
  std::string name() const { return r->stem + (cubic ? "/cubic" : "/bilinear") + (ts ? "/threadsafe" : "/plain"); }
  mc::Fields fields(const std::string& kind) const {
    return {{"kind", kind}, {"size", fmti(r->w) + "x" + fmti(r->h)}, {"content", r->content}, {"os", r->os ? "B" : "A"}, {"cubic", cubic ? "1" : "0"}, {"threadsafe", ts ? "1" : "0"}};
  }
  int np() const { return L->n(); } int nops() const { return L->n() + (int)COPS.size(); }
  OpT op(int i) const { if (i < np()) { OpT o{0, 0, 0, 0, 0}; L->get(i, o.a, o.b); return o; } return COPS[i - np()]; }
};
struct Obj {
  alignas(16) unsigned char buf[sizeof(Geoid)]; Geoid* g = nullptr;
  ~Obj() { destroy(); }
  void destroy() { if (g) { g->~Geoid(); g = nullptr; } }
  void abandon() { g = nullptr; }                       // after a fatal signal inside the object: leak it
  void make(const Cfg& c, unsigned char fill) {
    destroy(); memset(buf, fill, sizeof buf);
    try { g = new (buf) Geoid(c.r->stem, TMP, c.cubic, c.ts); }
    catch (const std::exception& e) { harness_error("valid raster " + c.r->stem + " rejected by the constructor: " + e.what()); }
  }
};
// A valid raster must be accepted in every mode.  Decided once per (raster, cubic, threadsafe); when it is not, the unit that
// owns the configuration reports it and everything else about that configuration is skipped.
static std::map<std::string, std::string> CTOR_FAIL;
static bool constructible(const Cfg& c, std::string* why = nullptr) {
  std::string k = c.name(); auto it = CTOR_FAIL.find(k);
  if (it == CTOR_FAIL.end()) {
    std::string w;
    try { int sg = mc::crashed([&] { Geoid g(c.r->stem, TMP, c.cubic, c.ts); }); if (sg) w = "signal " + fmti(sg); }
    catch (const std::exception& e) { w = std::string("exception: ") + e.what(); }
    catch (...) { w = "unknown exception"; }
    it = CTOR_FAIL.emplace(k, w).first;
  }
  if (why) *why = it->second;
  return it->second.empty();
}
static uint64_t N_TRANS = 0, N_TRACES = 0, N_FRESH = 0, N_REWIND_FALLBACK = 0;
static bool COUNTING = true;          // off during the per-shard redundant work (discovery, canonical tables)
static void replay(Obj& o, const Cfg& c, const std::vector<int>& hist, unsigned char fill, std::string& key) {
  o.make(c, fill); if (COUNTING) ++N_FRESH;
  for (int i : hist) { Res r = apply(*o.g, c.op(i)); if (COUNTING) ++N_TRANS; if (r.oc == 3) { o.abandon(); o.make(c, fill); } }
  key_of(*o.g, key);
}
static std::string histstr(const Cfg& c, const std::vector<int>& hist) {
  std::string s = "["; for (size_t i = 0; i < hist.size(); ++i) { if (i) s += ";"; s += opstr(c.op(hist[i])); } return s + "]";
}
// put the object back into the state (snapshot restore verified through the key; fallback fresh replay)
static void rewind(Obj& o, const Cfg& c, const std::vector<int>& hist, const Snap& sn, const std::string& key, bool crashed) {
  std::string k;
  if (!crashed && o.g && sn.restore(*o.g)) { key_of(*o.g, k); if (k == key) return; }
  if (COUNTING) ++N_REWIND_FALLBACK;
  if (crashed) o.abandon();
  replay(o, c, hist, FILL_A, k);
  if (k != key) harness_error("replaying history " + histstr(c, hist) + " of " + c.name() + " does not give the state's key again (non-deterministic replay)");
}

struct St { std::string key; std::vector<int> hist; int level; };
struct Explorer {
  Cfg c; std::vector<St> states; std::unordered_map<std::string, int> index; std::vector<int> reps;
  std::vector<double> canon;                    // canonical Q values, shared by all modes of (raster, cubic); filled from the plain object
};
static std::map<std::string, uint64_t> FAILCAP;
static void fail(const Cfg& c, const std::string& kind, const std::string& key, const std::string& msg, mc::Fields extra = {}) {
  // after 64 failures of one kind in one shard the text is no longer built (the first ones are the examples kept)
  if (++FAILCAP[G->cur_sub + "/" + kind] > 64 && !G->replaying()) { G->count("fails_not_itemised"); mc::Fields f = c.fields(kind); for (auto& e : extra) f.push_back(e); G->fail("(not itemised)", "", f); return; }
  mc::Fields f = c.fields(kind); for (auto& e : extra) f.push_back(e);
  G->fail(c.name() + " " + key, msg, f);
}

static bool usable(const Cfg& c, bool report) {
  std::string why; if (constructible(c, &why)) return true;
  if (report) { fail(c, "valid-file-rejected", "constructor", "the constructor does not accept a well-formed raster: " + why); G->count("configurations_skipped_constructor_failed"); }
  return false;
}
// successor keys of `ops` applied at the state with history hist (phase A; silent)
static void succ_keys(const Cfg& c, const std::vector<int>& hist, const std::vector<int>& ops, std::vector<std::string>& out, std::vector<double>* values = nullptr) {
  Obj o; std::string key, k; replay(o, c, hist, FILL_A, key);
  Snap sn; sn.take(*o.g);
  out.resize(ops.size()); if (values) values->assign(ops.size(), NAN);
  for (size_t i = 0; i < ops.size(); ++i) {
    Res r = apply(*o.g, c.op(ops[i]));
    if (values) (*values)[i] = r.oc == 0 ? r.v : NAN;
    if (r.oc == 3) { out[i] = "<crash>"; rewind(o, c, hist, sn, key, true); continue; }
    key_of(*o.g, out[i]);
    if (out[i] != key) rewind(o, c, hist, sn, key, false);
  }
}
static void discover(Explorer& E) {
  const Cfg& c = E.c; COUNTING = false;
  E.states.clear(); E.index.clear(); E.reps.clear();
  std::vector<int> all(c.nops()); for (int i = 0; i < c.nops(); ++i) all[i] = i;
  std::string k0; { Obj o; replay(o, c, {}, FILL_A, k0); }
  E.states.push_back({k0, {}, 0}); E.index[k0] = 0;
  std::vector<std::string> s0, s1;
  succ_keys(c, {}, all, s0);
  // effect classes: operations with the same successor from the initial state and from [CacheAll, Q(first probe)]
  succ_keys(c, {c.np() + (int)COPS.size() - 2, 0}, all, s1);
  std::unordered_map<std::string, int> cls;
  for (int i = 0; i < c.nops(); ++i) { std::string sig = s0[i] + "|" + s1[i]; if (cls.emplace(sig, i).second) E.reps.push_back(i); }
  for (int i = 0; i < c.nops(); ++i) if (s0[i] != "<crash>" && !E.index.count(s0[i])) { E.index[s0[i]] = (int)E.states.size(); E.states.push_back({s0[i], {i}, 1}); }
  if (c.depth >= 2) {
    size_t n1 = E.states.size();
    for (size_t s = 1; s < n1; ++s) {
      std::vector<std::string> sk; std::vector<int> h = E.states[s].hist;
      succ_keys(c, h, E.reps, sk);
      for (size_t j = 0; j < E.reps.size(); ++j) if (sk[j] != "<crash>" && !E.index.count(sk[j])) { std::vector<int> h2 = h; h2.push_back(E.reps[j]); E.index[sk[j]] = (int)E.states.size(); E.states.push_back({sk[j], h2, 2}); }
    }
  }
  COUNTING = true;
}

// canonical values: the plain (no cache, not thread safe) fresh object, each probe from the initial state
static void compute_canon(const Raster& r, bool cubic, const Lattice& L, std::vector<double>& canon, std::vector<int>& oc) {
  Cfg c{&r, cubic, false, &L, 1};
  COUNTING = false;
  Obj o; std::string key; replay(o, c, {}, FILL_A, key);
  Snap sn; sn.take(*o.g);
  canon.assign(L.n(), NAN); oc.assign(L.n(), 0);
  for (int p = 0; p < L.n(); ++p) {
    Res res = apply(*o.g, c.op(p));
    oc[p] = res.oc; canon[p] = res.oc == 0 ? res.v : NAN;
    rewind(o, c, {}, sn, key, res.oc == 3);
  }
  COUNTING = true;
}
static bool same_value(double a, double b) { return mc::same_bits(a, b) || (std::isnan(a) && std::isnan(b)); }

// Phase B: one state.  expand: also execute every cache operation and check that all successors are known states.
static void process_state(Explorer& E, const std::vector<int>& hist0, int level0, const std::string& recorded, int lmax, bool expand0) {
  const Cfg& c = E.c;
  struct Item { std::vector<int> hist; int level; std::string recorded; };
  std::deque<Item> queue; queue.push_back({hist0, level0, recorded});
  std::unordered_map<std::string, int> extra;
  int processed = 0;
  while (!queue.empty()) {
    Item it = queue.front(); queue.pop_front();
    if (++processed > 9) { G->not_exhaustive("more than 8 states beyond the skeleton below one unit in " + c.name() + "; local exploration cut"); break; }
    const std::vector<int>& hist = it.hist;
    bool expand = expand0 && it.level < lmax;
    std::string hs = histstr(c, hist);
    Obj A, B; std::string kA, kB, k;
    replay(A, c, hist, FILL_A, kA); replay(B, c, hist, FILL_A, kB); N_TRACES += 2;
    if (kA != kB) harness_error("same history " + hs + " replayed twice on " + c.name() + " gives different keys");
    if (!it.recorded.empty() && kA != it.recorded)
      fail(c, "hidden-state", "hist=" + hs, "fresh replay of the history does not reach the state found by snapshot-restore exploration: the object's evolution depends on something outside the canonical key");
    replay(B, c, hist, FILL_B, kB); ++N_TRACES;
    if (kA != kB) fail(c, "uninit-dependence", "hist=" + hs, "the canonical state after the history depends on the bytes the object's memory held before construction (read of an uninitialised member)");
    B.destroy();
    G->count("states"); if (processed > 1) G->count("states_beyond_skeleton");
    Snap sn; sn.take(*A.g);
    if (!c.ts && !A.g->_cache && !A.g->_data.empty()) fail(c, "clear-keeps-data", "hist=" + hs, "no cache is active but _data is not empty");
    if (A.g->_cache) {        // structural invariant rawval relies on: _data is _ysize rows of _xsize pixels
      bool ok = A.g->_ysize > 0 && A.g->_xsize > 0 && (int)A.g->_data.size() == A.g->_ysize;
      if (ok) for (auto& row : A.g->_data) if ((int)row.size() != A.g->_xsize) ok = false;
      if (!ok) fail(c, "cache-shape", "hist=" + hs, "active cache whose _data is not _ysize rows of _xsize pixels (rawval would index out of bounds)");
    }
    const int NP = c.np(), NO = expand ? c.nops() : NP;
    for (int i = 0; i < NO; ++i) {
      OpT op = c.op(i);
      Ctx::Case cs(*G);
      Res r = apply(*A.g, op); ++N_TRANS; ++N_TRACES;
      G->sig(uint64_t(r.oc) * 11 + op.type);
      bool crashed = r.oc == 3;
      if (op.type == 0) {
        if (r.oc != 0) fail(c, "query-" + std::string(OCN[r.oc]), "hist=" + hs + " op=" + opstr(op), "query after the history ends with " + std::string(OCN[r.oc]) + " (" + r.what + "); the fresh object returns " + fx(E.canon[i]));
        else if (!same_value(r.v, E.canon[i]))
          fail(c, c.ts ? "mode-dependence" : "history-dependence", "hist=" + hs + " op=" + opstr(op), "value " + fx(r.v) + " differs from " + fx(E.canon[i]) + " returned by the fresh plain object");
      } else if (c.ts) {
        if (op.type == 3) { if (r.oc != 0) fail(c, "threadsafe-clear", "hist=" + hs + " op=" + opstr(op), "CacheClear on a thread-safe object: " + std::string(OCN[r.oc])); }
        else if (r.oc != 1) fail(c, "threadsafe-accepts-cache", "hist=" + hs + " op=" + opstr(op), "cache operation on a thread-safe object did not throw GeographicErr (" + std::string(OCN[r.oc]) + " " + r.what + ")");
      } else if (r.oc != 0) fail(c, "cacheop-" + std::string(OCN[r.oc]), "hist=" + hs + " op=" + opstr(op), "cache operation failed on a valid file: " + r.what);
      if (crashed) { rewind(A, c, hist, sn, kA, true); continue; }
      key_of(*A.g, k);
      if (k == kA) continue;
      if (c.ts) fail(c, "threadsafe-state-change", "hist=" + hs + " op=" + opstr(op), "an operation changed the state of a thread-safe object");
      if (expand0 && !E.index.count(k) && !extra.count(k)) {
        extra[k] = 1;
        if (it.level + 1 <= lmax) { std::vector<int> h2 = hist; h2.push_back(i); queue.push_back({h2, it.level + 1, ""}); }
        else G->count("states_at_depth_bound_not_probed");
      }
      rewind(A, c, hist, sn, kA, false);
    }
  }
}

// ------------------------------------------------------------------------------------------------ main
struct VCfg { const Raster* r; bool cubic; const Lattice* L; };
static std::map<std::string, std::pair<std::vector<double>, std::vector<int>>> CANON;
static const std::vector<double>& canon_of(const Raster& r, bool cubic, const Lattice& L, std::vector<int>** oc = nullptr) {
  std::string k = r.stem + (cubic ? "c" : "b") + (L.dense ? "d" : "s");
  auto it = CANON.find(k);
  if (it == CANON.end()) { auto& e = CANON[k]; compute_canon(r, cubic, L, e.first, e.second); it = CANON.find(k); }
  if (oc) *oc = &it->second.second;
  return it->second.first;
}

static void check_values(const VCfg& v) {
  const Raster& r = *v.r; const Lattice& L = *v.L; const bool cubic = v.cubic;
  Cfg c{&r, cubic, false, &L, 1};
  if (!usable(c, true)) return;
  std::vector<int>* ocs; const std::vector<double>& V = canon_of(r, cubic, L, &ocs);
  const double S = valscale(r), tol = (cubic ? TOL_CUBIC : TOL_BILINEAR) * EPS * S;
  const std::string tag = cubic ? "cubic" : "bilinear";
  Obj o; std::string key, k; replay(o, c, {}, FILL_A, key); ++N_TRACES;
  // inspectors
  { Ctx::Case cs(*G);
    if (!mc::same_bits(o.g->Offset(), r.offset) || !mc::same_bits(o.g->Scale(), r.scale)) fail(c, "offset-scale", "inspectors", "Offset()/Scale() = " + fx(o.g->Offset()) + "/" + fx(o.g->Scale()) + " but the file says " + OS_OFF[r.os] + "/" + OS_SC[r.os]);
    if (o.g->Interpolation() != tag || o.g->ThreadSafe() || o.g->Cache()) fail(c, "inspectors", "inspectors", "Interpolation()/ThreadSafe()/Cache() of a fresh plain object are wrong");
    if (o.g->Description() != "C20 test raster " + r.stem || o.g->DateTime() != "2026-10-01 00:00:00") fail(c, "inspectors", "description", "Description()/DateTime() do not return the header's values");
  }
  // fill-pattern independence of every value, and determinism
  Obj o2; replay(o2, c, {}, FILL_B, k); ++N_TRACES;
  Snap sn; sn.take(*o.g); Snap sn2; sn2.take(*o2.g);
  std::vector<RefCell> refs;
  uint64_t bitwise = 0, compared = 0;
  for (int p = 0; p < L.n(); ++p) {
    Ctx::Case cs(*G);
    OpT op = c.op(p); std::string ks = "op=" + opstr(op);
    Res a = apply(*o.g, op), b = apply(*o2.g, op); N_TRANS += 2; N_TRACES += 2;
    rewind(o, c, {}, sn, key, a.oc == 3);
    if (b.oc == 3) o2.abandon();
    if (b.oc == 3 || !sn2.restore(*o2.g)) { std::string k2; replay(o2, c, {}, FILL_B, k2); }
    if (a.oc != 0 || (*ocs)[p] != 0) { fail(c, "query-" + std::string(OCN[a.oc ? a.oc : (*ocs)[p]]), ks, "query on a fresh object does not return a value: " + a.what); continue; }
    if (!same_value(a.v, V[p])) harness_error("query on the fresh object is not deterministic: " + c.name() + " " + ks);
    if (b.oc != 0 || !same_value(a.v, b.v)) fail(c, "uninit-dependence", ks, "value depends on the bytes the object's memory held before construction: " + fx(a.v) + " vs " + fx(b.v));
    bool nanin = std::isnan(op.a) || std::isnan(op.b);
    if (nanin) { if (!std::isnan(a.v)) fail(c, "nan", ks, "NaN position gives " + fx(a.v)); continue; }
    if (!std::isfinite(a.v)) { fail(c, "nonfinite", ks, "finite position gives " + fx(a.v)); continue; }
    // reference
    ref_values(r, cubic, op.a, op.b, refs);
    double best = INFINITY; bool bit = false; const RefCell* bc = nullptr;
    for (auto& rc : refs) { double e = (double)fabsq((f128)a.v - rc.val); if (e < best) { best = e; bc = &rc; } if (mc::same_bits((double)rc.val, a.v)) bit = true; }
    ++compared; if (bit) ++bitwise;
    G->worstf(tag + ".err_over_tol", best / tol, [&] { return c.name() + " " + ks; });
    G->worstf(tag + ".err_in_eps_of_value_scale", best / (EPS * S), [&] { return c.name() + " " + ks; });
    if (!(best <= tol)) fail(c, "reference", ks, "value " + fx(a.v) + " differs from the reference " + fx((double)bc->val) + " (cell " + fmti(bc->ix) + "," + fmti(bc->iy) + ") by " + fmt(best) + " > tol " + fmt(tol));
    // monomial rasters: the interpolant reproduces the sampled polynomial inside the region where the stencil
    // neither wraps in longitude nor touches a pole row (cubic: all of degree <= 3; bilinear: degree <= 1 in each variable)
    if (r.mi >= 0 && refs.size() == 1) {
      const RefCell& rc = refs[0]; int ixa = ((rc.ix % r.w) + r.w) % r.w;
      bool inside = cubic ? (ixa >= 1 && ixa <= r.w - 3 && rc.iy >= 1 && rc.iy <= r.h - 3) : (ixa <= r.w - 2 && r.mi <= 1 && r.mj <= 1);
      if (inside) {
        f128 X = ixa + rc.fx, Y = rc.iy + rc.fy, m = 1; for (int i = 0; i < r.mi; ++i) m *= X; for (int j = 0; j < r.mj; ++j) m *= Y;
        double e = (double)fabsq((f128)a.v - ((f128)r.offset + (f128)r.scale * m));
        G->worstf(tag + ".monomial_err_over_tol", e / tol, [&] { return c.name() + " " + ks; });
        G->count("monomial_points");
        if (!(e <= tol)) fail(c, "monomial", ks, "interpolant does not reproduce the sampled polynomial x^" + fmti(r.mi) + " y^" + fmti(r.mj) + ": off by " + fmt(e));
      }
    }
    if (G->want_sample()) G->sample(c.name() + " " + ks + " = " + fmt(a.v));
  }
  G->count(tag + "_values_compared", compared); G->count(tag + "_values_bitwise_equal_to_reference", bitwise);
  // metamorphic predicates on the table (they then hold in every state and mode by the bitwise history predicate)
  auto val = [&](int il, int io) { return V[L.idx(il, io)]; };
  std::vector<int> lonnode(r.w, -1), latnode(r.h, -1);
  for (int io = 0; io < L.nlon(); ++io) if (L.lon[io].kind == K_NODE) lonnode[L.lon[io].node] = io;
  for (int il = 0; il < L.nlat(); ++il) if (L.lat[il].kind == K_NODE) latnode[L.lat[il].node] = il;
  Ctx::Case cs(*G);
  for (int il = 0; il < L.nlat(); ++il) for (int io = 0; io < L.nlon(); ++io) {
    const Ax& la = L.lat[il]; const Ax& lo = L.lon[io]; double x = val(il, io);
    std::string ks = "op=Q(" + fx(la.v) + "," + fx(lo.v) + ")";
    // periodicity / sign of zero / +-180: bit-for-bit
    if (lo.kind == K_SHIFT && !same_value(x, val(il, lo.base))) fail(c, "lon-periodicity", ks, "value " + fx(x) + " differs from " + fx(val(il, lo.base)) + " at longitude " + fx(L.lon[lo.base].v));
    if (la.kind == K_SHIFT && !same_value(x, val(la.base, io))) fail(c, "lat-zero-sign", ks, "value at latitude -0 differs from the value at +0");
    if (la.kind == K_SHIFT || lo.kind == K_SHIFT) continue;
    if (cubic) {
      // documented: "the cubic is constrained to be independent of longitude when evaluating the height at one of the
      // poles": within one cell column always; over all longitudes when the rows of the raster are constant (M0j)
      if (la.kind == K_NODE && (la.node == 0 || la.node == r.h - 1) && lo.kind != K_DN) {
        int refio = r.mi == 0 ? lonnode[0] : lonnode[lo.node];
        double e = std::fabs(x - val(il, refio)); G->worst("cubic.pole_lon_dependence_over_tol", e / tol, c.name() + " " + ks);
        if (!(e <= tol)) fail(c, "pole-lon-dependence", ks, "cubic height at the pole depends on longitude: " + fx(x) + " vs " + fx(val(il, refio)) + " at longitude " + fmt(L.lon[refio].v));
      }
      continue;
    }
    // bilinear: nodes reproduce the grid values
    if (la.kind == K_NODE && lo.kind == K_NODE) {
      double want = (double)((f128)r.offset + (f128)r.scale * r.P(lo.node + r.w / 2, la.node));       // column index counts from longitude 0
      double e = std::fabs(x - want); G->worst("bilinear.node_err_over_tol", e / tol, c.name() + " " + ks);
      if (!(e <= tol)) fail(c, "node", ks, "grid node value " + fx(x) + " != offset + scale * pixel = " + fx(want));
    }
    // linear along cell edges (between the library's own node values)
    auto frac = [](int kind) { return kind == K_MID ? 0.5 : 0.3125; };
    if (la.kind == K_NODE && (lo.kind == K_MID || lo.kind == K_Q516)) {
      double t = frac(lo.kind), a0 = val(il, lonnode[lo.node]), a1 = val(il, lonnode[(lo.node + 1) % r.w]);
      double e = std::fabs(x - ((1 - t) * a0 + t * a1)); G->worst("bilinear.edge_linearity_over_tol", e / tol, c.name() + " " + ks);
      if (!(e <= tol)) fail(c, "edge-linearity", ks, "value on a row edge " + fx(x) + " is not the linear interpolation of the node values " + fx(a0) + ", " + fx(a1));
    }
    if (lo.kind == K_NODE && (la.kind == K_MID || la.kind == K_Q516)) {
      double t = frac(la.kind), a0 = val(latnode[la.node], io), a1 = val(latnode[la.node + 1], io);
      double e = std::fabs(x - ((1 - t) * a0 + t * a1)); G->worst("bilinear.edge_linearity_over_tol", e / tol, c.name() + " " + ks);
      if (!(e <= tol)) fail(c, "edge-linearity", ks, "value on a column edge " + fx(x) + " is not the linear interpolation of the node values " + fx(a0) + ", " + fx(a1));
    }
    // continuity across cell boundaries: one ulp either side of a grid line
    const double tc = TOL_CONT * EPS * S;
    if (lo.kind == K_UP || lo.kind == K_DN) {
      double e = std::fabs(x - val(il, lonnode[lo.node])); G->worst("bilinear.continuity_over_tol", e / tc, c.name() + " " + ks);
      if (!(e <= tc)) fail(c, "continuity", ks, "jump of " + fmt(e) + " across the cell boundary at longitude " + fmt(L.lon[lonnode[lo.node]].v));
    }
    if (la.kind == K_UP || la.kind == K_DN) {
      double e = std::fabs(x - val(latnode[la.node], io)); G->worst("bilinear.continuity_over_tol", e / tc, c.name() + " " + ks);
      if (!(e <= tc)) fail(c, "continuity", ks, "jump of " + fmt(e) + " across the cell boundary at latitude " + fmt(L.lat[latnode[la.node]].v));
    }
  }
}

// ConvertHeight: documented h = N + H, H = -N + h; the two directions are mutually inverse to round-off
static void check_convert(const Raster& r, bool cubic, bool ts, const Lattice& L) {
  Cfg c{&r, cubic, ts, &L, 1}; Cfg cplain{&r, cubic, false, &L, 1};
  if (!usable(cplain, !ts) || !usable(c, true)) return;
  const std::vector<double>& V = canon_of(r, cubic, L);
  const std::vector<std::vector<int>> bases = {{}, {c.np() + (int)COPS.size() - 2}, {L.idx(1, 3)}};
  for (auto& base : bases) {
    if (ts && !base.empty()) continue;
    Obj o; std::string key; replay(o, c, base, FILL_A, key); ++N_TRACES;
    for (int p = 0; p < L.nprod(); ++p) for (double h : {0.0, 1234.5, -0.001, 8848.86}) {
      Ctx::Case cs(*G);
      double la, lo; L.get(p, la, lo);
      std::string ks = "base=" + histstr(c, base) + " ConvertHeight(" + fx(la) + "," + fx(lo) + "," + fmt(h) + ")";
      double up = NAN, back = NAN, none = NAN; Res res{0, 0, ""};
      try { int sg = mc::crashed([&] { up = o.g->ConvertHeight(la, lo, h, Geoid::GEOIDTOELLIPSOID); back = o.g->ConvertHeight(la, lo, up, Geoid::ELLIPSOIDTOGEOID); none = o.g->ConvertHeight(la, lo, h, Geoid::NONE); }); if (sg) res.oc = 3; }
      catch (const std::exception& e) { res.oc = 1; res.what = e.what(); }
      N_TRANS += 3; ++N_TRACES;
      if (res.oc) { fail(c, "convert-throws", ks, "ConvertHeight failed: " + res.what); if (res.oc == 3) { o.abandon(); replay(o, c, base, FILL_A, key); } continue; }
      double N = V[p];
      if (!mc::same_bits(up, h + N)) fail(c, "convert-value", ks, "GEOIDTOELLIPSOID gives " + fx(up) + ", not h + N = " + fx(h + N));
      if (!mc::same_bits(none, h)) fail(c, "convert-none", ks, "NONE does not return h");
      double u = mc::ulp_of(std::max(std::fabs(h), std::max(std::fabs(N), std::fabs(up))));
      double e = std::fabs(back - h) / u; G->worst("convert.roundtrip_ulps_over_tol", e / TOL_CONVERT, c.name() + " " + ks);
      if (!(e <= TOL_CONVERT)) fail(c, "convert-inverse", ks, "ELLIPSOIDTOGEOID(GEOIDTOELLIPSOID(h)) = " + fx(back) + " differs from h by " + fmt(e) + " ulp");
    }
  }
}

// position of the stream without touching its state (libstdc++: a (0, cur) seek is a pure query)
static long long stream_pos(Geoid& g) { return (long long)g._file.rdbuf()->pubseekoff(0, std::ios::cur, std::ios::in); }

// cache API semantics, from two base states
static void check_cache_api(const Raster& r, bool cubic, const Lattice& L) {
  Cfg c{&r, cubic, false, &L, 1};
  if (!usable(c, true)) return;
  const std::vector<double>& V = canon_of(r, cubic, L);
  const int ALL = c.np() + (int)COPS.size() - 2, CLR = ALL + 1;
  const std::vector<std::vector<int>> bases = {{}, {ALL, L.idx(1, 3)}, {c.np() + cop_index(1, 1, 2, 3) /* CacheArea(-45,-90,0,90) */, L.idx(2, 1)}};
  {
    // documented (geoid.dox "Caching the geoid data"): "if the second and subsequent points fall within the same grid cell, the
    // data values are not reread from the file".  Observed through the stream position, for every cell and every pair of
    // interior lattice points of the cell.
    Obj o; std::string key; replay(o, c, {}, FILL_A, key); ++N_TRACES;
    std::vector<RefCell> rc;
    std::map<std::pair<int, int>, std::vector<int>> cells;
    for (int p = 0; p < L.nprod(); ++p) {
      const Ax& A = L.lat[p / L.nlon()]; const Ax& B = L.lon[p % L.nlon()];
      if ((A.kind != K_MID && A.kind != K_Q516) || (B.kind != K_MID && B.kind != K_Q516)) continue;
      double la, lo; L.get(p, la, lo); ref_values(r, cubic, la, lo, rc);
      if (rc.size() == 1) cells[{((rc[0].ix % r.w) + r.w) % r.w, rc[0].iy}].push_back(p);
    }
    for (auto& kv : cells) for (int p1 : kv.second) for (int p2 : kv.second) {
      Ctx::Case cs(*G);
      Res q1 = apply(*o.g, c.op(p1)); o.g->_file.rdbuf()->pubseekpos(0, std::ios::in);
      Res q2 = apply(*o.g, c.op(p2)); N_TRANS += 2; ++N_TRACES; G->count("same_cell_pairs");
      long long pos = (q1.oc == 3 || q2.oc == 3) ? -1 : stream_pos(*o.g);
      std::string ks = "op=" + opstr(c.op(p1)) + " then " + opstr(c.op(p2));
      if (q1.oc != 0 || q2.oc != 0 || !same_value(q2.v, V[p2])) fail(c, "history-dependence", ks, "second query in the same cell differs from the fresh object's value");
      else if (pos != 0) fail(c, "same-cell-rereads-file", ks, "the second query in the same grid cell read the data file again");
      if (q1.oc == 3 || q2.oc == 3) { o.abandon(); replay(o, c, {}, FILL_A, key); }
    }
    if (cells.size() != (size_t)r.w * (r.h - 1)) harness_error("cell enumeration incomplete");
  }
  for (auto& base : bases) {
    Obj o; std::string key, k, kclr; replay(o, c, base, FILL_A, key); ++N_TRACES;
    Snap sn; sn.take(*o.g);
    std::string bs = "base=" + histstr(c, base);
    // CacheClear
    { Ctx::Case cs(*G); Res a = apply(*o.g, c.op(CLR)); ++N_TRANS; ++N_TRACES; key_of(*o.g, kclr);
      if (a.oc != 0 || o.g->Cache() || !o.g->_data.empty()) fail(c, "clear", bs + " op=CacheClear", "after CacheClear the cache is still active or its memory is still held");
      rewind(o, c, base, sn, key, a.oc == 3); }
    std::string kall;
    { Ctx::Case cs(*G); Res a = apply(*o.g, c.op(ALL)); ++N_TRANS; ++N_TRACES; key_of(*o.g, kall);
      if (a.oc != 0 || !o.g->Cache() || o.g->CacheNorth() != 90 || o.g->CacheSouth() != -90 || o.g->CacheEast() - o.g->CacheWest() != 360)
        fail(c, "cacheall", bs + " op=CacheAll", "after CacheAll the inspectors do not report the whole globe");
      rewind(o, c, base, sn, key, a.oc == 3); }
    for (size_t ci = 0; ci + 2 < COPS.size(); ++ci) {
      const OpT& op = COPS[ci];
      Ctx::Case cs(*G);
      std::string ks = bs + " op=" + opstr(op);
      Res a = apply(*o.g, op); ++N_TRANS; ++N_TRACES;
      if (a.oc != 0) { fail(c, "cacheop-" + std::string(OCN[a.oc]), ks, "CacheArea failed on a valid file: " + a.what); rewind(o, c, base, sn, key, a.oc == 3); continue; }
      key_of(*o.g, k); bool crashed = false;
      G->sig((op.a > op.c ? 1 : 0) + 2 * (k == kall));
      if (op.a > op.c) {
        // design-level semantics (the header is silent): south > north clears the cache
        if (k != kclr) fail(c, "degenerate-not-clear", ks, "CacheArea with south > north does not leave the object in the state CacheClear leaves it in");
      } else {
        if (!o.g->Cache()) fail(c, "area-no-cache", ks, "Cache() is false after a successful CacheArea");
        else {
          double S = o.g->CacheSouth(), N = o.g->CacheNorth(), W = o.g->CacheWest(), E = o.g->CacheEast();
          double ww = mc::lon_norm(op.b), ee = mc::lon_norm(op.d); if (ee <= ww) ee += 360;
          // "east is always interpreted as being east of west, if necessary by adding 360 deg": for west = 180, east = -180
          // one addition makes them equal; the library then caches a zero-width strip, where every other pair of
          // congruent meridians (0/0, -180/180, 180/180, 0/360) caches the whole circle.  The sentence can be read either
          // way, the heights are not affected, so this pair is exempt from the coverage predicates (listed in the evidence).
          if (op.b == 180 && op.d == -180) { G->list("doc-ambiguous", "CacheArea(s, 180, n, -180): library caches a zero-width strip (east - west = 0, contradicting the source comment 'east - west in (0, 360]'); every other congruent pair gives the full circle"); G->count("cache_api_ambiguous_rectangles"); rewind(o, c, base, sn, key, false); continue; }
          bool lat_ok = S <= op.a && N >= op.c && S >= -90 && N <= 90 && S < N, lon_ok = false;
          if (E - W >= 360) lon_ok = E - W == 360; else for (int m = -2; m <= 2; ++m) if (W + 360 * m <= ww && ee <= E + 360 * m) lon_ok = true;
          if (!(E > W)) lon_ok = false;
          if (!lat_ok || !lon_ok) fail(c, "area-not-covered", ks, "inspectors report S,W,N,E = " + fmt(S) + "," + fmt(W) + "," + fmt(N) + "," + fmt(E) + " which does not contain the requested rectangle");
          // documented: a query inside a successfully cached area never needs the file.  Observed through the stream position.
          for (int p = 0; p < L.nprod(); ++p) {
            double la, lo; L.get(p, la, lo);
            const Ax& A = L.lat[p / L.nlon()]; const Ax& B = L.lon[p % L.nlon()];
            if (A.kind == K_UP || A.kind == K_DN || B.kind == K_UP || B.kind == K_DN) continue;      // one ulp from a cell boundary: the containing cell is a rounding matter
            double ln = mc::lon_norm(lo); bool in_lon = false;
            for (int m = -1; m <= 1; ++m) if (ww <= ln + 360 * m && ln + 360 * m < ee) in_lon = true;
            bool in_lat = la <= op.c && (la > op.a || (la == -90 && op.a == -90));
            if (!(in_lon && in_lat)) continue;
            o.g->_file.rdbuf()->pubseekpos(0, std::ios::in);
            Res q = apply(*o.g, c.op(p)); ++N_TRANS; ++N_TRACES; G->count("cached_area_queries");
            long long pos = q.oc == 3 ? -1 : stream_pos(*o.g);
            if (q.oc != 0 || !same_value(q.v, V[p])) fail(c, "history-dependence", ks + " probe=" + opstr(c.op(p)), "value inside the cached area differs from the fresh object's");
            else if (pos != 0) fail(c, "cached-area-reads-file", ks + " probe=" + opstr(c.op(p)), "a query inside the requested (successfully cached) rectangle read the data file");
            if (q.oc == 3) { crashed = true; break; }
          }
        }
      }
      rewind(o, c, base, sn, key, crashed);
    }
    // CacheAll is CacheArea(-90, 0, 90, 360)
    { Ctx::Case cs(*G); Res a = apply(*o.g, OpT{1, -90, 0, 90, 360}); ++N_TRANS; ++N_TRACES; key_of(*o.g, k);
      if (a.oc != 0 || k != kall) fail(c, "cacheall", bs + " op=CacheArea(-90,0,90,360)", "CacheAll and CacheArea(-90,0,90,360) leave different states");
      rewind(o, c, base, sn, key, a.oc == 3); }
  }
}

// operations with special arguments (outside the design alphabet): whatever they return, they must not damage the
// object -- afterwards every query returns the canonical value, also after CacheClear and after CacheAll.
static void check_special(const Raster& r, bool cubic, bool ts, const Lattice& L) {
  Cfg c{&r, cubic, ts, &L, 1}; Cfg cplain{&r, cubic, false, &L, 1};
  if (!usable(cplain, !ts) || !usable(c, true)) return;
  const std::vector<double>& V = canon_of(r, cubic, L);
  const int ALL = c.np() + (int)COPS.size() - 2, CLR = ALL + 1;
  struct Sp { OpT op; std::string cls, arg; };
  std::vector<Sp> sps;
  const double inf = INFINITY;
  auto vc = [](double v) { return std::isnan(v) ? "nan" : std::isinf(v) ? "inf" : "finite"; };
  for (double v : {inf, -inf, 1e300, -1e300, 1e17}) sps.push_back({{0, 11.25, v, 0, 0}, std::isinf(v) ? "Q-lon-nonfinite" : "Q-lon-huge", vc(v)});
  for (double v : {inf, -inf, 91.0, -90.00000000000001, 1e300}) sps.push_back({{0, v, 22.5, 0, 0}, "Q-lat-out-of-range", vc(v)});
  for (int pos = 0; pos < 4; ++pos) for (double v : {(double)NAN, inf, -inf, 1e300, -1e300, 91.0, -91.0, 720.0}) {
    OpT o{1, -45, -90, 45, 90}; (pos == 0 ? o.a : pos == 1 ? o.b : pos == 2 ? o.c : o.d) = v;
    bool lonarg = pos == 1 || pos == 3;
    sps.push_back({o, std::string("CacheArea-") + (lonarg ? "lon" : "lat") + (std::isfinite(v) ? "-large" : "-nonfinite"), vc(v)});
  }
  const std::vector<std::vector<int>> bases = {{}, {ALL}, {c.np() + cop_index(1, 1, 2, 3) /* CacheArea(-45,-90,0,90) */}, {L.idx(1, 3)}};
  for (size_t bi = 0; bi < bases.size(); ++bi) {
    if (ts && bi) continue;
    for (auto& sp : sps) {
      Ctx::Case cs(*G);
      Obj o; std::string key; replay(o, c, bases[bi], FILL_A, key); ++N_TRACES;
      std::string ks = "base=" + histstr(c, bases[bi]) + " special=" + opstr(sp.op);
      mc::Fields xf{{"special", sp.cls}, {"arg", sp.arg}};
      Res a = apply(*o.g, sp.op); ++N_TRANS;
      G->sig(a.oc * 5 + bi);
      G->count("special_outcome_" + std::string(OCN[a.oc]));
      if (a.oc == 2) G->list("special_ops_throwing_foreign_exceptions (error contract, decided by C13)", sp.cls + " " + sp.arg + ": " + a.what);
      if (a.oc == 3) { fail(c, "special-crash", ks, "fatal " + a.what + " inside the call", xf); continue; }
      if (sp.op.type == 0 && a.oc == 0 && std::isfinite(sp.op.b) && std::fabs(sp.op.a) <= 90) {
        // huge finite longitude: the value must be the one at the reduced longitude
        Res b = apply(*o.g, OpT{0, sp.op.a, mc::lon_norm(sp.op.b), 0, 0});
        if (b.oc != 0 || !same_value(a.v, b.v)) fail(c, "lon-periodicity", ks, "value at a huge longitude differs from the value at its reduction mod 360", xf);
      }
      if (sp.op.type == 0 && a.oc == 0 && (!std::isfinite(sp.op.b) || std::fabs(sp.op.a) > 90) && !std::isnan(a.v))
        fail(c, "special-value", ks, "position outside the domain gives the finite value " + fx(a.v), xf);
      // damage assessment
      std::string dmg;
      for (int stage = 0; stage < 3 && dmg.empty(); ++stage) {
        if (stage == 1) { Res q = apply(*o.g, c.op(CLR)); ++N_TRANS; if (q.oc != 0) { dmg = "CacheClear afterwards: " + std::string(OCN[q.oc]); break; } }
        if (stage == 2 && !ts) { Res q = apply(*o.g, c.op(ALL)); ++N_TRANS; if (q.oc != 0) { dmg = "CacheAll afterwards: " + std::string(OCN[q.oc]) + " " + q.what; break; } }
        for (int p = 0; p < L.n(); ++p) {
          Res q = apply(*o.g, c.op(p)); ++N_TRANS;
          if (q.oc != 0 || !same_value(q.v, V[p])) { dmg = std::string(stage == 0 ? "" : stage == 1 ? "after CacheClear, " : "after CacheAll, ") + opstr(c.op(p)) + " -> " + (q.oc ? std::string(OCN[q.oc]) + " " + q.what : fx(q.v)) + " instead of " + fx(V[p]); if (q.oc == 3) o.abandon(); break; }
        }
      }
      ++N_TRACES;
      if (!dmg.empty()) fail(c, "state-damaged", ks, "the call (outcome " + std::string(OCN[a.oc]) + (a.what.empty() ? "" : ": " + a.what) + ") damages the object: " + dmg, xf);
    }
  }
}

int main(int argc, char** argv) {
  Ctx ctx(argc, argv); G = &ctx;
  const bool T = ctx.thorough();
  { const char* vd = getenv("VERIF_DIR"); std::string base = std::string(vd && *vd ? vd : "/verif") + "/build/tmp";
    mkdir(base.c_str(), 0777); base += "/C20"; mkdir(base.c_str(), 0777);
    TMP = base + "/" + (ctx.replaying() ? "replay-" : "shard-") + fmti(ctx.shard) + "of" + fmti(ctx.nshards); mkdir(TMP.c_str(), 0777);
    if (access(TMP.c_str(), W_OK) != 0) harness_error("cannot create " + TMP); }
  build_cops();
  { std::string why = oracle::LsqCubic::get().selftest(); if (!why.empty()) harness_error("oracle self-check failed: " + why); }

  const int LMAX = T ? 6 : 4;
  struct Sz { int w, h; };
  const std::vector<Sz> all_sizes = {{4, 3}, {4, 5}, {8, 9}, {2, 5}, {2, 3}, {2, 9}, {4, 9}, {8, 3}, {8, 5}};
  const std::vector<Sz> sizes(all_sizes.begin(), all_sizes.begin() + (T ? 9 : 4));
  std::vector<std::string> monos; for (int i = 0; i <= 3; ++i) for (int j = 0; i + j <= 3; ++j) monos.push_back("M" + fmti(i) + fmti(j));

  ctx.bound("rasters.sizes", T ? "width {2,4,8} x height {3,5,9} (all 9)" : "4x3, 4x5, 8x9, 2x5 (in 2x5 the rectangle corners +-90, 270 lie inside cells)");
  ctx.bound("rasters.contents", "S: (37 ix + 101 iy^2 + 7) mod 65536; U<k>: every unit raster of 4x3 and 4x5; M<i><j>: ix^i iy^j, i+j<=3; Offset/Scale A=(-108,0.003), B=(0,1)");
  ctx.bound("ops.query", "product lattice: per column {node, node+1ulp, node-1ulp, midpoint" + std::string(T ? ", 5/16 point" : " [, 5/16 point in the value/depth-1 subchecks]") +
            "} + lon 180, +-540, -0, 360, node+360, mid-360, mid+360, node-720; per row the same + lat -0; + (NaN,lon), (lat,NaN), (NaN,NaN)");
  ctx.bound("ops.cache", "CacheArea over all 900 (s,w,n,e) with s,n in {-90,-45,0,45,90}, w,e in {-180,-90,0,90,180,270}; CacheAll; CacheClear");
  ctx.bound("modes", "cubic {0,1} x threadsafe {0,1}");
  ctx.bound("bfs.depth", "every operation of the full alphabet from every canonical state reachable by <= 2 operations; unknown successors explored to history length " + fmti(LMAX) +
            " (>= " + (T ? "3 cache + 3 query" : "2 cache + 2 query") + " operations in any interleaving); if counter states_beyond_skeleton is 0 the state graph is closed and the result holds for histories of any length over the alphabet");
  ctx.bound("bfs-depth1.depth", "all probes at every state reachable by <= 1 operation");

  // ---------------------------------------------------------------- values (E1): reference + metamorphic predicates
  ctx.sub("values");
  {
    std::vector<VCfg> vs;
    auto add = [&](const Raster& r) { for (int cubic = 0; cubic < 2; ++cubic) vs.push_back({&r, cubic != 0, &lattice(r.w, r.h, true)}); };
    for (auto s : sizes) for (int os = 0; os < 2; ++os) add(raster(s.w, s.h, "S", os));
    for (int hh : {3, 5}) for (int k = 0; k < 4 * hh; ++k) for (int os = 0; os < (T ? 2 : 1); ++os) add(raster(4, hh, "U" + fmti(k), os));
    for (auto s : sizes) for (auto& m : monos) for (int os = 0; os < (T ? 2 : 1); ++os) add(raster(s.w, s.h, m, os));
    for (auto& v : vs) { if (!ctx.take()) continue; check_values(v); }
  }

  // ---------------------------------------------------------------- bfs (E2): closure exploration
  auto run_explorer = [&](const Raster& r, bool dense, int depth) {
    for (int cubic = 0; cubic < 2; ++cubic) for (int ts = 0; ts < 2; ++ts) {
      if (ctx.deadline_hit) return;
      Explorer E; E.c = Cfg{&r, cubic != 0, ts != 0, &lattice(r.w, r.h, dense), depth};
      { Cfg plain = E.c; plain.ts = false;
        if (!usable(plain, false) || !usable(E.c, false)) { if (ctx.take()) { usable(plain, true); usable(E.c, true); } continue; } }
      E.canon = canon_of(r, cubic != 0, *E.c.L);
      discover(E);
      if (ctx.shard == 0 && !ctx.replaying() && depth >= 2 && (r.content == "S" || r.content == "M21")) ctx.note("states " + E.c.name() + (dense ? " dense" : "") + " depth<=" + fmti(depth) + ": " + fmti((long long)E.states.size()) + " (" + fmti(E.c.np()) + " probes, " + fmti((long long)COPS.size()) + " cache ops, " + fmti((long long)E.reps.size()) + " effect classes)");
      for (auto& st : E.states) { if (!ctx.take()) continue; process_state(E, st.hist, st.level, st.key, LMAX, depth >= 2); }
    }
  };
  ctx.sub("bfs");
  if (ctx.sub_active) {
    for (auto s : sizes) {
      run_explorer(raster(s.w, s.h, "S", 0), T, 2);
      if (T) { run_explorer(raster(s.w, s.h, "S", 1), T, 2); if (s.w >= 4 && s.h >= 5) for (auto& m : monos) run_explorer(raster(s.w, s.h, m, 0), T, 2); }
    }
    if (T) for (int hh : {3, 5}) for (int k = 0; k < 4 * hh; ++k) run_explorer(raster(4, hh, "U" + fmti(k), 0), true, 2);
  }
  ctx.sub("bfs-depth1");
  if (ctx.sub_active) {
    for (auto s : sizes) run_explorer(raster(s.w, s.h, "S", 1), true, 1);
    for (int hh : {3, 5}) for (int k = 0; k < 4 * hh; ++k) run_explorer(raster(4, hh, "U" + fmti(k), 0), true, 1);
    for (auto s : sizes) if (s.w >= 4 && s.h >= 5) for (auto& m : monos) run_explorer(raster(s.w, s.h, m, 0), true, 1);
  }

  // ---------------------------------------------------------------- cache API, ConvertHeight, special arguments
  ctx.sub("cache-api");
  for (auto s : sizes) for (int cubic = 0; cubic < 2; ++cubic) { if (!ctx.take()) continue; check_cache_api(raster(s.w, s.h, "S", 0), cubic != 0, lattice(s.w, s.h, true)); }
  ctx.sub("convert");
  for (auto s : sizes) for (int cubic = 0; cubic < 2; ++cubic) for (int ts = 0; ts < 2; ++ts) { if (!ctx.take()) continue; check_convert(raster(s.w, s.h, "S", 0), cubic != 0, ts != 0, lattice(s.w, s.h, false)); }
  ctx.sub("special-args");
  for (auto s : sizes) for (int cubic = 0; cubic < 2; ++cubic) for (int ts = 0; ts < 2; ++ts) { if (!ctx.take()) continue; check_special(raster(s.w, s.h, "S", 0), cubic != 0, ts != 0, lattice(s.w, s.h, false)); }

  ctx.count("transitions", N_TRANS); ctx.count("traces", N_TRACES); ctx.count("fresh_object_replays", N_FRESH); ctx.count("rewind_fallbacks_to_fresh_replay", N_REWIND_FALLBACK);
  ctx.count("states", 0); ctx.count("states_beyond_skeleton", 0);
  ctx.list("skipped", "latitudes outside [-90,90] and infinite longitudes are outside the documented domain: only 'NaN or GeographicErr, and no damage to the object' is required (special-args)");
  ctx.list("skipped", "the exception type of CacheArea with non-finite arguments is an error-contract question (C13); here only the absence of damage is required");
  ctx.list("skipped", "tools/GeoidEval is not driven (no installed data set); the class interface it wraps is");
  return ctx.finish();
}
