// C10 -- part 3 of 3 (flavour fast + the repo tools GeoConvert and GeodSolve): (f) all short line sequences.
//
// Engine E2 (history enumeration): every sequence of input lines of length 0..3 (thorough 0..4) over an alphabet of 8
// lines {good, good, good/bad ..., empty, blanks, good with comment} is fed on stdin to the real binary, once per
// option set (GeoConvert -g -d -u -m -c; GeodSolve direct, -i, -L), one process per sequence.  Predicates:
//   * exactly one output line per input line (also when the final newline is missing);
//   * a line of a documented-bad class gives "ERROR: ...", a documented-good line does not;
//   * exit status != 0  <=>  some output line starts with ERROR, and it is 0 or 1, and the process is not killed;
//   * the output for a line depends only on that line (equals the output of the one-line input);
//   * the comment is stripped before processing and appended to the output line;
//   * good lines: the output is what the library's documented formatter gives for that input (GeoConvert), resp.
//     agrees numerically with Geodesic::Direct/Inverse to half a unit of the last printed digit (GeodSolve).
// Empty and blank lines: the man pages do not say whether they are "illegal lines"; only the line count, the
// ERROR/exit-status equivalence and independence are required for them (counted as doc_silent_lines).
#include "mc/ctx.hpp"
#include <GeographicLib/GeoCoords.hpp>
#include <GeographicLib/Geodesic.hpp>
#include <GeographicLib/GeodesicLine.hpp>
#include <GeographicLib/DMS.hpp>
#include <GeographicLib/Utility.hpp>
#include <string>
#include <vector>
#include <map>
#include <unistd.h>
#include <fcntl.h>
#include <sys/wait.h>

using namespace GeographicLib;
using mc::Ctx; using mc::fmt; using mc::fmti;

static std::string show(const std::string& s) {
  std::string o;
  for (unsigned char c : s) { if (c >= 0x20 && c < 0x7f && c != '\\') o += char(c); else { char b[8]; snprintf(b, sizeof b, "\\x%02x", c); o += b; } }
  return o;
}

struct Run { int status = -1; bool signaled = false; int sig = 0; std::string out; };
static Run run_tool(const std::string& path, const std::vector<std::string>& args, const std::string& input) {
  Run r;
  int in[2], out[2];
  if (pipe(in) != 0 || pipe(out) != 0) { perror("pipe"); exit(2); }
  fflush(nullptr);
  pid_t pid = fork();
  if (pid < 0) { perror("fork"); exit(2); }
  if (pid == 0) {
    dup2(in[0], 0); dup2(out[1], 1);
    int dn = open("/dev/null", O_WRONLY); if (dn >= 0) dup2(dn, 2);
    close(in[0]); close(in[1]); close(out[0]); close(out[1]);
    std::vector<char*> av; av.push_back(const_cast<char*>(path.c_str()));
    for (auto& a : args) av.push_back(const_cast<char*>(a.c_str()));
    av.push_back(nullptr);
    alarm(60);
    execv(path.c_str(), av.data());
    _exit(127);
  }
  close(in[0]); close(out[1]);
  // inputs are far below the pipe capacity (64 KiB), so write-all-then-read cannot deadlock
  size_t off = 0; while (off < input.size()) { ssize_t w = write(in[1], input.data() + off, input.size() - off); if (w <= 0) break; off += (size_t)w; }
  close(in[1]);
  char buf[4096]; ssize_t n;
  while ((n = read(out[0], buf, sizeof buf)) > 0) r.out.append(buf, (size_t)n);
  close(out[0]);
  int st = 0; while (waitpid(pid, &st, 0) < 0 && errno == EINTR) {}
  if (WIFSIGNALED(st)) { r.signaled = true; r.sig = WTERMSIG(st); } else r.status = WEXITSTATUS(st);
  return r;
}
static std::vector<std::string> split_lines(const std::string& s, bool& complete) {
  std::vector<std::string> v; size_t p = 0; complete = true;
  while (p < s.size()) { size_t q = s.find('\n', p); if (q == std::string::npos) { v.push_back(s.substr(p)); complete = false; break; } v.push_back(s.substr(p, q - p)); p = q + 1; }
  return v;
}

enum Class { GOOD, BAD, UNDECIDED };
struct Line { std::string text; Class cls; std::string body, comment; };       // body = text before '#', comment = from '#'
struct Mode { std::string tool; std::string name; std::vector<std::string> args; std::vector<Line> lines; };

static Line L(const std::string& t, Class c) {
  Line l; l.text = t; l.cls = c; size_t p = t.find('#');
  l.body = p == std::string::npos ? t : t.substr(0, p); l.comment = p == std::string::npos ? "" : t.substr(p);
  return l;
}

// expected output of a GOOD GeoConvert line computed through the library's documented formatters
static std::string geoconvert_expected(const std::string& mode, const std::string& body) {
  GeoCoords p(body);
  if (mode == "-g") return p.GeoRepresentation(0);
  if (mode == "-d") return p.DMSRepresentation(0);
  if (mode == "-u") return p.AltUTMUPSRepresentation(0, true);
  if (mode == "-m") return p.AltMGRSRepresentation(0);
  return Utility::str(p.AltConvergence(), 5) + " " + Utility::str(p.AltScale(), 7);
}
// numbers expected from a GOOD GeodSolve line and the unit of their last printed digit
static bool geodsolve_expected(const std::string& mode, const std::string& body, std::vector<double>& v, std::vector<double>& unit) {
  std::istringstream is(body); std::vector<std::string> w; std::string t; while (is >> t) w.push_back(t);
  const Geodesic& g = Geodesic::WGS84();
  if (mode == "direct") {
    double lat1, lon1, azi1, s12, lat2, lon2, azi2;
    DMS::DecodeLatLon(w[0], w[1], lat1, lon1); azi1 = DMS::DecodeAzimuth(w[2]); s12 = Utility::val<double>(w[3]);
    g.Direct(lat1, lon1, azi1, s12, lat2, lon2, azi2);
    v = {lat2, lon2, azi2}; unit = {1e-8, 1e-8, 1e-8}; return true;
  }
  if (mode == "-i") {
    double lat1, lon1, lat2, lon2, s12, azi1, azi2;
    DMS::DecodeLatLon(w[0], w[1], lat1, lon1); DMS::DecodeLatLon(w[2], w[3], lat2, lon2);
    g.Inverse(lat1, lon1, lat2, lon2, s12, azi1, azi2);
    v = {azi1, azi2, s12}; unit = {1e-8, 1e-8, 1e-3}; return true;
  }
  double s12 = Utility::val<double>(w[0]), lat2, lon2, azi2;
  g.Direct(40, -75, 30, s12, lat2, lon2, azi2);
  v = {lat2, lon2, azi2}; unit = {1e-8, 1e-8, 1e-8}; return true;
}

int main(int argc, char** argv) {
  Ctx ctx(argc, argv);
  const bool T = ctx.thorough();
  const char* td = getenv("VERIF_TOOLS");
  if (!td || !*td) { fprintf(stderr, "C10_tools: VERIF_TOOLS not set\n"); return 2; }
  const std::string tooldir = td;

  std::vector<Mode> modes;
  {
    std::vector<Line> gc = {L("33.44 43.27", GOOD), L("38SMB4484", GOOD), L("38n 444500 3684500", GOOD), L("33.44 foo", BAD), L("91 0", BAD), L("", UNDECIDED), L("   ", UNDECIDED),
                            L("N33d26.4' E43d16.2' # Ar Ramadi", GOOD)};
    for (const char* m : {"-g", "-d", "-u", "-m", "-c"}) modes.push_back({"GeoConvert", m, {"--comment-delimiter", "#", m}, gc});
    modes.push_back({"GeodSolve", "direct", {"--comment-delimiter", "#"},
                     {L("40 -75 30 1000000", GOOD), L("40d30'N 75W 30 1e6", GOOD), L("40 -75 30 1000 7", BAD), L("40 -75 30", BAD), L("91 0 0 1000", BAD), L("", UNDECIDED), L("  ", UNDECIDED), L("-33.5 151 -120:30 2500.5 # SYD", GOOD)}});
    modes.push_back({"GeodSolve", "-i", {"--comment-delimiter", "#", "-i"},
                     {L("40 -75 41 -74", GOOD), L("40N 75W 41N 74W", GOOD), L("40 -75 41 -74 5", BAD), L("40 -75 41", BAD), L("40 -75 91 0", BAD), L("", UNDECIDED), L(" \t", UNDECIDED), L("40 -75 -41 106 # far", GOOD)}});
    modes.push_back({"GeodSolve", "-L", {"--comment-delimiter", "#", "-L", "40", "-75", "30"},
                     {L("1000000", GOOD), L("-5e5", GOOD), L("1 2", BAD), L("abc", BAD), L("1e", BAD), L("", UNDECIDED), L("  ", UNDECIDED), L("0 # start", GOOD)}});
  }
  const int NL = 8, MAXLEN = T ? 4 : 3;
  ctx.bound("tools.sequences", "all line sequences of length 0.." + fmti(MAXLEN) + " over 8 lines x {GeoConvert -g,-d,-u,-m,-c; GeodSolve direct,-i,-L 40 -75 30} (--comment-delimiter #), one process per sequence; + every sequence of length <= 2 ending in a non-empty line without the final newline");
  ctx.note("tools: empty and blank input lines are not classified by the man pages; for them only line count, ERROR <=> exit status and independence are required");

  uint64_t nproc = 0, nlines = 0;
  for (size_t mi = 0; mi < modes.size(); ++mi) {
    const Mode& M = modes[mi];
    ctx.sub("tools-" + M.tool + "-" + (M.name[0] == '-' ? M.name.substr(1) : M.name));
    const std::string path = tooldir + "/" + M.tool;
    std::vector<std::string> single(NL); bool have_single = false;
    auto F = [&](const char* kind, const std::string& line) { return mc::Fields{{"kind", kind}, {"tool", M.tool}, {"mode", M.name}, {"line", show(line)}}; };
    auto ensure_single = [&] {
      if (have_single) return; have_single = true;
      for (int i = 0; i < NL; ++i) { Run r = run_tool(path, M.args, M.lines[i].text + "\n"); bool c; auto v = split_lines(r.out, c); single[i] = v.size() == 1 ? v[0] : "<" + fmti((long long)v.size()) + " lines>"; }
    };
    // checks one sequence
    auto check_seq = [&](const std::vector<int>& seq, bool final_newline) {
      Ctx::Case cs(ctx);
      ensure_single();
      std::string input, key = M.tool + " " + M.name + " [";
      for (size_t i = 0; i < seq.size(); ++i) { input += M.lines[seq[i]].text; if (i + 1 < seq.size() || final_newline) input += "\n"; key += fmti(seq[i]); }
      key += final_newline ? "]" : "]-nonl";
      Run r = run_tool(path, M.args, input); ++nproc; nlines += seq.size();
      uint64_t h = mi; for (int s : seq) h = h * 9 + s + 1; ctx.sig(h * 2 + final_newline);
      if (r.signaled) { ctx.fail(key, "tool killed by signal " + fmti(r.sig), F("signal", "")); return; }
      bool complete; std::vector<std::string> out = split_lines(r.out, complete);
      if (!complete) ctx.fail(key + "/eol", "last output line not terminated by a newline", F("eol", ""));
      if (out.size() != seq.size()) { ctx.fail(key, fmti((long long)out.size()) + " output lines for " + fmti((long long)seq.size()) + " input lines", F("line-count", "")); return; }
      bool anyerr = false;
      for (size_t i = 0; i < seq.size(); ++i) {
        const Line& ln = M.lines[seq[i]];
        bool err = out[i].compare(0, 6, "ERROR:") == 0;
        anyerr |= err;
        if (ln.cls == UNDECIDED) ctx.count("doc_silent_lines");
        if (ln.cls == BAD && !err) ctx.fail(key + "/" + fmti((long long)i), "bad line '" + show(ln.text) + "' not marked ERROR: '" + show(out[i]) + "'", F("bad-not-error", ln.text));
        if (ln.cls == GOOD && err) ctx.fail(key + "/" + fmti((long long)i), "good line '" + show(ln.text) + "' gives '" + show(out[i]) + "'", F("good-error", ln.text));
        if (out[i] != single[seq[i]]) ctx.fail(key + "/" + fmti((long long)i) + "/indep", "output for line '" + show(ln.text) + "' is '" + show(out[i]) + "' here but '" + show(single[seq[i]]) + "' when it is the only line", F("neighbour-dependence", ln.text));
      }
      if (anyerr != (r.status != 0) || (r.status != 0 && r.status != 1)) ctx.fail(key + "/status", std::string("exit status ") + fmti(r.status) + " with " + (anyerr ? "an" : "no") + " ERROR line", F("exit-status", ""));
      if (ctx.want_sample()) ctx.sample(key + " -> status " + fmti(r.status) + " '" + show(r.out.substr(0, 60)) + "'");
    };
    // content of the one-line outputs (unit 0)
    if (ctx.take()) {
      ensure_single();
      for (int i = 0; i < NL; ++i) {
        Ctx::Case cs(ctx);
        const Line& ln = M.lines[i];
        if (ln.cls != GOOD) continue;
        std::string o = single[i], key = M.tool + " " + M.name + " content '" + show(ln.text) + "'";
        if (!ln.comment.empty()) {
          std::string tail = " " + ln.comment;
          if (o.size() < tail.size() || o.compare(o.size() - tail.size(), tail.size(), tail) != 0) { ctx.fail(key, "comment not appended to the output line: '" + show(o) + "'", F("comment", ln.text)); continue; }
          o.erase(o.size() - tail.size());
        }
        try {
          if (M.tool == "GeoConvert") {
            std::string want = geoconvert_expected(M.name, ln.body);
            if (o != want) ctx.fail(key, "output '" + show(o) + "' but the library formatter gives '" + show(want) + "'", F("content", ln.text));
          } else {
            std::vector<double> v, unit; geodsolve_expected(M.name, ln.body, v, unit);
            std::istringstream is(o); std::vector<std::string> w; std::string t; while (is >> t) w.push_back(t);
            if (w.size() != v.size()) { ctx.fail(key, "output '" + show(o) + "' has " + fmti((long long)w.size()) + " fields", F("content", ln.text)); continue; }
            for (size_t k = 0; k < v.size(); ++k) {
              char* end; double x = strtod(w[k].c_str(), &end);
              double d = unit[k] == 1e-8 ? std::fabs(std::remainder(x - v[k], 360.0)) : std::fabs(x - v[k]);      // angles compared modulo 360
              if (*end || !(d <= 0.5 * unit[k] * 1.001 + 1e-12)) ctx.fail(key + "/" + fmti((long long)k), "output field '" + w[k] + "' differs from the library value " + fmt(v[k]) + " by more than half a unit of the last digit", F("content", ln.text));
            }
          }
        } catch (const std::exception& e) { ctx.fail(key, std::string("reference computation threw: ") + e.what(), F("harness", ln.text)); }
      }
    }
    // empty input
    if (ctx.take()) check_seq({}, true);
    // all sequences, unit = first line
    for (int a = 0; a < NL; ++a) {
      if (!ctx.take()) continue;
      std::vector<int> seq{a};
      check_seq(seq, true);
      if (!M.lines[a].text.empty()) check_seq(seq, false);
      for (int len = 2; len <= MAXLEN; ++len) {
        std::vector<int> idx(len - 1, 0);
        while (true) {
          seq.assign(1, a); for (int k : idx) seq.push_back(k);
          check_seq(seq, true);
          if (len == 2 && !M.lines[seq.back()].text.empty()) check_seq(seq, false);
          int k = len - 2; while (k >= 0 && ++idx[k] == NL) { idx[k] = 0; --k; }
          if (k < 0) break;
        }
      }
    }
  }
  ctx.count("processes", nproc); ctx.count("input_lines", nlines);
  return ctx.finish();
}
