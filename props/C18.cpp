// C18 -- grid codes (Geohash, GARS, Georef, OSGB) identify the containing cell.
// Engines E1 (exhaustive code / position lattices) + E4 (all short strings over reduced alphabets).
// Reference: the schemes' public definitions, decided with exact cell arithmetic (mc/exact.hpp); nothing
// from the library's encoders is reused.
#include "mc/ctx.hpp"
#include "mc/exact.hpp"
#include <GeographicLib/Geohash.hpp>
#include <GeographicLib/GARS.hpp>
#include <GeographicLib/Georef.hpp>
#include <GeographicLib/OSGB.hpp>
#include <string>
#include <vector>
#include <algorithm>
#include <cctype>

using namespace GeographicLib;
using mc::Ctx; using mc::fx; using mc::fmt; using mc::fmti;

static const double SENT = -12345.678;      // sentinel for "untouched" outputs
static const int ISENT = -777;

// ------------------------------------------------------------------ reference: schemes
// Every scheme is described by: number of cells NX x NY at precision p covering lon [-180,180) x lat [-90,90]
// (OSGB: metres), and a bijection (ix, iy, p) <-> string.
static const char* GH32 = "0123456789bcdefghjkmnpqrstuvwxyz";
static const char* L24 = "ABCDEFGHJKLMNPQRSTUVWXYZ";      // alphabet without I and O
static const char* L25 = "ABCDEFGHJKLMNOPQRSTUVWXYZ";     // alphabet without I (OSGB)

static long long ipow10(int e) { long long r = 1; while (e-- > 0) r *= 10; return r; }

// ---- Geohash
static void gh_dims(int len, int& nlon, int& nlat) { nlon = (5 * len + 1) / 2; nlat = (5 * len) / 2; }
static std::string gh_encode(long long ix, long long iy, int len) {
  int nlon, nlat; gh_dims(len, nlon, nlat);
  std::string s;
  int bl = nlon, bt = nlat; unsigned cur = 0;
  for (int i = 0; i < 5 * len; ++i) {
    unsigned bit;
    if ((i & 1) == 0) { --bl; bit = (ix >> bl) & 1; } else { --bt; bit = (iy >> bt) & 1; }
    cur = cur * 2 + bit;
    if (i % 5 == 4) { s += GH32[cur]; cur = 0; }
  }
  return s;
}
static bool gh_decode(const std::string& s, long long& ix, long long& iy, int& len) {
  std::string t = s.substr(0, 18);                       // documented: only the first 18 characters count
  ix = iy = 0; len = (int)t.size();
  int i = 0;
  for (char ch : t) {
    if (ch == 0) return false;
    const char* p = strchr(GH32, tolower((unsigned char)ch));
    if (!p) return false;
    unsigned v = unsigned(p - GH32);
    for (int b = 4; b >= 0; --b, ++i) { unsigned bit = (v >> b) & 1; if ((i & 1) == 0) ix = ix * 2 + bit; else iy = iy * 2 + bit; }
  }
  return true;
}
// cell (ix,iy) at len: SW corner and centre in degrees; exact in double (dyadic multiples of 45/2^k)
static void gh_cell(long long ix, long long iy, int len, bool center, double& lat, double& lon) {
  int nlon, nlat; gh_dims(len, nlon, nlat);
  long long ax = 2 * ix + (center ? 1 : 0), ay = 2 * iy + (center ? 1 : 0);
  lon = std::ldexp(double(ax) * 45.0, 3 - (nlon + 1)) - 180.0;     // ax*360/2^(nlon+1)
  lat = std::ldexp(double(ay) * 45.0, 2 - (nlat + 1)) - 90.0;      // ay*180/2^(nlat+1)
}

// ---- GARS
static void gars_dims(int p, long long& NX, long long& NY) { int m = p == 0 ? 1 : (p == 1 ? 2 : 6); NX = 720LL * m; NY = 360LL * m; }
static std::string gars_encode(long long ix, long long iy, int p) {
  int m = p == 0 ? 1 : (p == 1 ? 2 : 6);
  long long bx = ix / m, by = iy / m;          // 30' cell
  char b[16]; snprintf(b, sizeof b, "%03lld", bx + 1);
  std::string s = b; s += L24[by / 24]; s += L24[by % 24];
  if (p >= 1) {
    long long qx = (ix * 2 / m) % 2, qy = (iy * 2 / m) % 2;          // 15' quadrant, 1 = NW, 2 = NE, 3 = SW, 4 = SE
    s += char('1' + qx + 2 * (1 - qy));
  }
  if (p >= 2) {
    long long kx = ix % 3, ky = iy % 3;                              // 5' keypad, 1 = NW ... 9 = SE
    s += char('1' + kx + 3 * (2 - ky));
  }
  return s;
}
static bool gars_decode(const std::string& s, long long& ix, long long& iy, int& p) {
  if (s.size() < 5 || s.size() > 7) return false;
  for (int i = 0; i < 3; ++i) if (!(s[i] >= '0' && s[i] <= '9')) return false;
  int band = (s[0] - '0') * 100 + (s[1] - '0') * 10 + (s[2] - '0');
  if (band < 1 || band > 720) return false;
  int l[2];
  for (int i = 0; i < 2; ++i) { char c = s[3 + i]; if (!c) return false; const char* q = strchr(L24, toupper((unsigned char)c)); if (!q) return false; l[i] = int(q - L24); }
  int by = l[0] * 24 + l[1]; if (by >= 360) return false;
  ix = band - 1; iy = by; p = int(s.size()) - 5;
  if (p >= 1) { char c = s[5]; if (c < '1' || c > '4') return false; int k = c - '1'; ix = ix * 2 + k % 2; iy = iy * 2 + (1 - k / 2); }
  if (p >= 2) { char c = s[6]; if (c < '1' || c > '9') return false; int k = c - '1'; ix = ix * 3 + k % 3; iy = iy * 3 + (2 - k / 3); }
  return true;
}
// corner/centre: value = (2*i + c) / (2*N/360) - 180 ; for GARS 2*NX/360 in {4,8,24}: division may round -> use one division, as any
// correctly-rounded evaluation of the exact rational must (the rational has a unique nearest double)
static bool g_rat_exact = true;      // did the last ref_point produce only exactly representable coordinates?
static double rat_to_double(long long num, long long den) {
  double r = (double)((__float128)num / (__float128)den);
  if ((__float128)r * (__float128)den != (__float128)num) g_rat_exact = false;
  return r;
}

// ---- Georef
static void georef_dims(int p, long long& NX, long long& NY) {
  if (p < 0) { NX = 24; NY = 12; } else if (p == 0) { NX = 360; NY = 180; } else { NX = 360LL * 60 * ipow10(p - 2); NY = NX / 2; }
}
static std::string georef_encode(long long ix, long long iy, int p) {
  long long NX, NY; georef_dims(p, NX, NY);
  long long perdeg = NX / 360; if (p < 0) perdeg = 0;
  long long dx = p < 0 ? ix * 15 : ix / perdeg, dy = p < 0 ? iy * 15 : iy / perdeg;     // whole degrees from the SW origin
  std::string s; s += L24[dx / 15]; s += L24[dy / 15];
  if (p >= 0) { s += L24[dx % 15]; s += L24[dy % 15]; }
  if (p >= 2) {
    long long fx_ = ix % perdeg, fy_ = iy % perdeg;          // in units of 10^-(p-2) minutes
    char b[40]; snprintf(b, sizeof b, "%0*lld%0*lld", p, fx_, p, fy_);
    s += b;
  }
  return s;
}
static bool georef_decode(const std::string& s, long long& ix, long long& iy, int& p) {
  size_t n = s.size();
  if (n < 2) return false;
  auto look = [](const char* al, int lim, char c) -> int { if (!c) return -1; const char* q = strchr(al, toupper((unsigned char)c)); if (!q) return -1; int k = int(q - al); return k < lim ? k : -1; };
  int a = look(L24, 24, s[0]), b = look(L24, 12, s[1]);
  if (a < 0 || b < 0) return false;
  if (n == 2) { ix = a; iy = b; p = -1; return true; }
  if (n < 4) return false;
  int c = look(L24, 15, s[2]), d = look(L24, 15, s[3]);
  if (c < 0 || d < 0) return false;
  long long dx = a * 15 + c, dy = b * 15 + d;
  if (n == 4) { ix = dx; iy = dy; p = 0; return true; }
  size_t nd = n - 4;
  if (nd % 2) return false;
  int pp = int(nd / 2);
  if (pp < 2 || pp > 11) return false;
  for (size_t i = 4; i < n; ++i) if (!(s[i] >= '0' && s[i] <= '9')) return false;
  long long fx_ = 0, fy_ = 0;
  for (int i = 0; i < pp; ++i) { fx_ = fx_ * 10 + (s[4 + i] - '0'); fy_ = fy_ * 10 + (s[4 + pp + i] - '0'); }
  long long perdeg = 60 * ipow10(pp - 2);
  if (fx_ >= perdeg || fy_ >= perdeg) return false;         // minutes must be < 60
  ix = dx * perdeg + fx_; iy = dy * perdeg + fy_; p = pp; return true;
}

// ---- OSGB
static std::string osgb_encode(long long ix, long long iy, int p) {       // ix, iy = floor(x/unit), unit = 10^(5-p) m, may be negative
  long long per = ipow10(p);                                            // cells per 100 km
  long long xh = ix >= 0 ? ix / per : -((-ix + per - 1) / per), yh = iy >= 0 ? iy / per : -((-iy + per - 1) / per);
  long long fx_ = ix - xh * per, fy_ = iy - yh * per;
  xh += 10; yh += 5;                                                    // false origin: square SV is at (0,0)
  std::string s;
  s += L25[(4 - yh / 5) * 5 + xh / 5];
  s += L25[(4 - yh % 5) * 5 + xh % 5];
  if (p > 0) { char b[64]; snprintf(b, sizeof b, "%0*lld%0*lld", p, fx_, p, fy_); s += b; }
  return s;
}
static bool osgb_decode(const std::string& s, long long& ix, long long& iy, int& p) {
  size_t n = s.size();
  if (n < 2 || n % 2 || n > 24) return false;
  int l[2];
  for (int i = 0; i < 2; ++i) { char c = s[i]; if (!c) return false; const char* q = strchr(L25, toupper((unsigned char)c)); if (!q) return false; l[i] = int(q - L25); }
  for (size_t i = 2; i < n; ++i) if (!(s[i] >= '0' && s[i] <= '9')) return false;
  p = int(n - 2) / 2;
  long long xh = (l[0] % 5) * 5 + l[1] % 5 - 10, yh = (4 - l[0] / 5) * 5 + (4 - l[1] / 5) - 5;
  long long per = ipow10(p), fx_ = 0, fy_ = 0;
  for (int i = 0; i < p; ++i) { fx_ = fx_ * 10 + (s[2 + i] - '0'); fy_ = fy_ * 10 + (s[2 + p + i] - '0'); }
  ix = xh * per + fx_; iy = yh * per + fy_; return true;
}

// ------------------------------------------------------------------ library wrappers with outcome capture
struct Rev { int outcome; double lat, lon; int prec; std::string what; };    // outcome 0 ok, 1 GeographicErr, 2 other exception, 3 fatal signal
template <class F> static Rev call_rev(F f, const std::string& s, bool centerp) {
  Rev r; r.lat = SENT; r.lon = SENT; r.prec = ISENT; r.outcome = 0;
  try { int sg = mc::crashed([&] { f(s, r.lat, r.lon, r.prec, centerp); }); if (sg) { r.outcome = 3; r.what = "signal " + std::to_string(sg); } }
  catch (const GeographicErr& e) { r.outcome = 1; r.what = e.what(); }
  catch (const std::exception& e) { r.outcome = 2; r.what = e.what(); }
  catch (...) { r.outcome = 2; r.what = "unknown"; }
  return r;
}
struct Fwd { int outcome; std::string s; std::string what; };
template <class F> static Fwd call_fwd(F f, double a, double b, int prec) {
  Fwd r; r.s = "<untouched>"; r.outcome = 0;
  try { int sg = mc::crashed([&] { f(a, b, prec, r.s); }); if (sg) { r.outcome = 3; r.what = "signal " + std::to_string(sg); } }
  catch (const GeographicErr& e) { r.outcome = 1; r.what = e.what(); }
  catch (const std::exception& e) { r.outcome = 2; r.what = e.what(); }
  catch (...) { r.outcome = 2; r.what = "unknown"; }
  return r;
}
static auto GH_R = [](const std::string& s, double& lat, double& lon, int& p, bool c) { Geohash::Reverse(s, lat, lon, p, c); };
static auto GA_R = [](const std::string& s, double& lat, double& lon, int& p, bool c) { GARS::Reverse(s, lat, lon, p, c); };
static auto GR_R = [](const std::string& s, double& lat, double& lon, int& p, bool c) { Georef::Reverse(s, lat, lon, p, c); };
static auto OS_R = [](const std::string& s, double& y, double& x, int& p, bool c) { OSGB::GridReference(s, x, y, p, c); };   // lat<-y lon<-x
static auto GH_F = [](double lat, double lon, int p, std::string& s) { Geohash::Forward(lat, lon, p, s); };
static auto GA_F = [](double lat, double lon, int p, std::string& s) { GARS::Forward(lat, lon, p, s); };
static auto GR_F = [](double lat, double lon, int p, std::string& s) { Georef::Forward(lat, lon, p, s); };
static auto OS_F = [](double y, double x, int p, std::string& s) { OSGB::GridReference(x, y, p, s); };

static std::string printable(const std::string& s) {
  std::string o;
  for (unsigned char c : s) { if (c >= 0x20 && c < 0x7f && c != '\\') o += char(c); else { char b[8]; snprintf(b, sizeof b, "\\x%02x", c); o += b; } }
  return o;
}
static bool in_alphabet(const std::string& s, const char* al) { for (char c : s) if (!c || !strchr(al, c)) return false; return true; }
static std::string upper(std::string s) { for (auto& c : s) c = toupper((unsigned char)c); return s; }
static std::string lower(std::string s) { for (auto& c : s) c = tolower((unsigned char)c); return s; }

// scheme descriptor for the generic parts
struct Scheme {
  const char* name; int id;       // 0 geohash 1 gars 2 georef 3 osgb
  const char* alphabet;           // characters an encoder may emit
  int pmin, pmax;
};
static const Scheme SCH[4] = {
  {"geohash", 0, "0123456789bcdefghjkmnpqrstuvwxyz", 0, 18},
  {"gars", 1, "0123456789ABCDEFGHJKLMNPQRSTUVWXYZ", 0, 2},
  {"georef", 2, "0123456789ABCDEFGHJKLMNPQRSTUVWXYZ", -1, 11},
  {"osgb", 3, "0123456789ABCDEFGHJKLMNOPQRSTUVWXYZ", 0, 11},
};
static int eff_prec(int id, int p) {           // documented clamping of the requested precision
  const Scheme& S = SCH[id]; p = std::max(S.pmin, std::min(S.pmax, p)); if (id == 2 && p == 1) p = 2; return p;
}
static bool ref_decode(int id, const std::string& s, long long& ix, long long& iy, int& p) {
  switch (id) { case 0: return gh_decode(s, ix, iy, p); case 1: return gars_decode(s, ix, iy, p); case 2: return georef_decode(s, ix, iy, p); default: return osgb_decode(s, ix, iy, p); }
}
static std::string ref_encode(int id, long long ix, long long iy, int p) {
  switch (id) { case 0: return gh_encode(ix, iy, p); case 1: return gars_encode(ix, iy, p); case 2: return georef_encode(ix, iy, p); default: return osgb_encode(ix, iy, p); }
}
// exact cell containing the position; a = lat (or northing), b = lon (or easting)
static void ref_cell(int id, double a, double b, int p, long long& ix, long long& iy) {
  if (id == 3) {
    if (p <= 5) { long long u = ipow10(5 - p); ix = mc::floor_div_exact(b, 1, 0, u); iy = mc::floor_div_exact(a, 1, 0, u); }
    else { long long N = ipow10(p - 5); ix = mc::floor_div_exact(b, N, 0, 1); iy = mc::floor_div_exact(a, N, 0, 1); }
    return;
  }
  long long NX, NY;
  if (id == 0) { int nlon, nlat; gh_dims(p, nlon, nlat); NX = 1LL << nlon; NY = 1LL << nlat; }
  else if (id == 1) gars_dims(p, NX, NY); else georef_dims(p, NX, NY);
  double lon = mc::lon_norm(b);
  ix = mc::cell_index(lon, NX, -180, 360);
  iy = (a == 90) ? NY - 1 : mc::cell_index(a, NY, -90, 180);          // north pole belongs to the last row
}
// exact rational centre/corner of a cell rounded once to double
static void ref_point(int id, long long ix, long long iy, int p, bool center, double& a, double& b) {
  int c = center ? 1 : 0; g_rat_exact = true;
  if (id == 0) { gh_cell(ix, iy, p, center, a, b); return; }
  if (id == 3) {
    // (2*i + c) * unit / 2, unit = 10^(5-p) m
    if (p <= 5) { long long u = ipow10(5 - p); b = rat_to_double((2 * ix + c) * u, 2); a = rat_to_double((2 * iy + c) * u, 2); }
    else { long long N = ipow10(p - 5); b = rat_to_double(2 * ix + c, 2 * N); a = rat_to_double(2 * iy + c, 2 * N); }
    return;
  }
  long long NX, NY; if (id == 1) gars_dims(p, NX, NY); else georef_dims(p, NX, NY);
  // lon = (2 ix + c) * 360 / (2 NX) - 180 = ((2 ix + c) * 360 - 360 NX) / (2 NX)
  b = rat_to_double((2 * ix + c) * 360 - 360 * NX, 2 * NX);
  a = rat_to_double((2 * iy + c) * 180 - 180 * NY, 2 * NY);
}

template <class RF> static Rev lib_rev(int id, const std::string& s, bool c) {
  switch (id) { case 0: return call_rev(GH_R, s, c); case 1: return call_rev(GA_R, s, c); case 2: return call_rev(GR_R, s, c); default: return call_rev(OS_R, s, c); }
}
static Rev librev(int id, const std::string& s, bool c) { return lib_rev<int>(id, s, c); }
static Fwd libfwd(int id, double a, double b, int p) {
  switch (id) { case 0: return call_fwd(GH_F, a, b, p); case 1: return call_fwd(GA_F, a, b, p); case 2: return call_fwd(GR_F, a, b, p); default: return call_fwd(OS_F, a, b, p); }
}

// tolerance for decoded points: the decoder may evaluate the exact rational with a couple of roundings
static bool close_enough(double got, double want, double scale) {
  return std::fabs(got - want) <= 4 * std::numeric_limits<double>::epsilon() * scale;
}

// ------------------------------------------------------------------ check a valid code completely
// code must decode to the centre and SW corner of its cell, with its precision; re-encoding the centre reproduces the
// code (canonical case); every shorter precision is a prefix; lower/upper case variants decode identically.
static void check_code(Ctx& ctx, int id, long long ix, long long iy, int p, bool casevariants) {
  const Scheme& S = SCH[id];
  Ctx::Case cs(ctx);
  std::string code = ref_encode(id, ix, iy, p);
  double scale = id == 3 ? 2.0e6 : 180.0;
  auto F = [&](const std::string& what) { return mc::Fields{{"scheme", S.name}, {"kind", what}, {"prec", fmti(p)}}; };
  if (!in_alphabet(code, S.alphabet)) { ctx.fail(code, "reference produced a code outside the alphabet (harness bug)", F("harness")); return; }
  for (int c = 0; c < 2; ++c) {
    Rev r = librev(id, code, c);
    double ea, eb; ref_point(id, ix, iy, p, c, ea, eb);
    const bool corner_exact = g_rat_exact;
    if (r.outcome != 0) { ctx.fail(code, std::string("valid code rejected: ") + r.what, F("valid-rejected")); return; }
    if (r.prec != p) ctx.fail(code, "decoded precision " + fmti(r.prec) + " != " + fmti(p), F("decode-prec"));
    if (!close_enough(r.lat, ea, scale) || !close_enough(r.lon, eb, scale))
      ctx.fail(code + (c ? "/centre" : "/sw"), "decoded point (" + fx(r.lat) + "," + fx(r.lon) + ") != cell point (" + fx(ea) + "," + fx(eb) + ")", F("decode-point"));
    ctx.worst(std::string(S.name) + ".decode_err_ulp_of_scale", std::max(std::fabs(r.lat - ea), std::fabs(r.lon - eb)) / (std::numeric_limits<double>::epsilon() * scale), code);
    if (c == 0) {
      // re-encoding the decoded south-west corner reproduces the code (cells are closed on their S/W edges)
      Fwd f = libfwd(id, r.lat, r.lon, p);
      if (f.outcome != 0 || f.s != code) {
        mc::Fields g = F("reencode-sw"); g.push_back({"corner_representable", corner_exact ? "yes" : "no"});
        ctx.fail(code + "/sw-reencode", "Forward(decoded SW corner (" + fx(r.lat) + "," + fx(r.lon) + ")) = '" + printable(f.s) + "' want '" + code + "'", g);
      }
    }
    if (c == 1) {
      // re-encode the decoded centre at every precision <= p : prefix property + reproduction
      for (int q = S.pmin; q <= p; ++q) {
        if (id == 2 && q == 1) continue;
        Fwd f = libfwd(id, r.lat, r.lon, q);
        if (f.outcome != 0) { ctx.fail(code, "re-encoding the decoded centre threw: " + f.what, F("reencode-throw")); break; }
        long long jx = ix, jy = iy;
        // expected: the ancestor cell's code
        double ca, cb; ref_point(id, ix, iy, p, true, ca, cb);
        ref_cell(id, ca, cb, q, jx, jy);
        std::string want = ref_encode(id, jx, jy, q);
        if (f.s != want) { ctx.fail(code + "@" + fmti(q), "Forward(centre, prec " + fmti(q) + ") = '" + printable(f.s) + "' want '" + want + "'", F("reencode")); break; }
        // prefix: for geohash/gars/osgb-letters the lower precision code is a string prefix; georef and osgb interleave digits
        if (id == 0 || id == 1) { if (code.compare(0, want.size(), want) != 0) ctx.fail(code, "reference prefix property broken (harness bug)", F("harness")); }
      }
    }
  }
  if (casevariants) {
    Rev r0 = librev(id, code, true);
    for (int v = 0; v < 2; ++v) {
      std::string alt = v ? upper(code) : lower(code);
      if (alt == code) continue;
      Rev r = librev(id, alt, true);
      if (r.outcome != 0 || !mc::same_bits(r.lat, r0.lat) || !mc::same_bits(r.lon, r0.lon) || r.prec != r0.prec)
        ctx.fail(alt, "case variant decodes differently from '" + code + "'", F("case"));
    }
  }
  if (ctx.want_sample()) ctx.sample("code " + code + " cell(" + fmti(ix) + "," + fmti(iy) + ") prec " + fmti(p));
}

// ------------------------------------------------------------------ check a position completely
static void check_position(Ctx& ctx, int id, double a, double b, int preq) {
  const Scheme& S = SCH[id];
  Ctx::Case cs(ctx);
  Fwd f = libfwd(id, a, b, preq);
  std::string key = std::string(S.name) + " (" + fx(a) + "," + fx(b) + ") prec " + fmti(preq);
  double bn = id == 3 ? b : mc::lon_norm(b);
  mc::Fields F{{"scheme", S.name}, {"prec", fmti(preq)}, {"lon_normalised", fmt(bn)}, {"lat", fmt(a)}};
  auto FF = [&](const char* kind) { mc::Fields g = F; g.push_back({"kind", kind}); return g; };
  bool nanin = std::isnan(a) || std::isnan(b);
  // documented domain
  bool inrange = id == 3 ? (b >= -1000000 && b < 1500000 && a >= -500000 && a < 2000000 && preq >= 0 && preq <= 11)
                         : (std::fabs(a) <= 90);
  if (id == 3 && nanin) {      // NaN coordinate -> "INVALID" (documented) provided the other one and the precision are admissible
    bool okx = std::isnan(b) || (b >= -1000000 && b < 1500000), oky = std::isnan(a) || (a >= -500000 && a < 2000000);
    inrange = okx && oky && preq >= 0 && preq <= 11;
  }
  if (id != 3 && std::isnan(a)) inrange = true;
  ctx.sig(uint64_t(f.outcome) * 7 + (nanin ? 3 : 0));
  if (!inrange) {
    if (f.outcome != 1) ctx.fail(key, "out-of-range input not rejected with GeographicErr (outcome " + fmti(f.outcome) + " '" + printable(f.s) + "')", FF("range"));
    else if (f.s != "<untouched>") ctx.fail(key, "output modified although the call threw", FF("touched"));
    return;
  }
  if (f.outcome >= 2) { ctx.fail(key, "foreign exception / crash: " + f.what, FF("crash")); return; }
  if (f.outcome == 1 && !nanin && id != 3 && !std::isfinite(b)) return;     // infinite longitude rejected: fine
  if (f.outcome != 0) { ctx.fail(key, "valid position rejected: " + f.what, FF("valid-rejected")); return; }
  if (!nanin && id != 3 && !std::isfinite(b)) {
    // infinite longitude normalises to NaN: the documentation is silent between "rejected" and "INVALID"; a code naming a
    // real cell is a silently wrong value
    if (upper(f.s).compare(0, 3, "INV") != 0) ctx.fail(key, "infinite longitude gives '" + printable(f.s) + "', neither an exception nor the INVALID marker", FF("inf-lon"));
    return;
  }
  if (nanin) {
    // NaN -> INVALID marker (infinite longitude normalises to NaN)
    if (upper(f.s).compare(0, 3, "INV") != 0) ctx.fail(key, "NaN position gives '" + printable(f.s) + "', not the INVALID marker", FF("nan-marker"));
    else {
      Rev r = librev(id, f.s, true);
      if (r.outcome != 0 || !std::isnan(r.lat) || !std::isnan(r.lon)) ctx.fail(key, "INVALID marker does not decode to NaN", FF("nan-marker"));
    }
    return;
  }
  int p = eff_prec(id, preq);
  long long ix, iy; ref_cell(id, a, b, p, ix, iy);
  std::string want = ref_encode(id, ix, iy, p);
  if (!in_alphabet(f.s, S.alphabet)) { ctx.fail(key, "code '" + printable(f.s) + "' contains characters outside the alphabet", FF("alphabet")); return; }
  if (f.s != want) {
    // classify: does the answer name the cell of a position at most one ulp away (in either coordinate)?  Cell edges that
    // are not binary fractions (5', 1', 10^-k', 10^-k m) cannot be hit exactly; the library rounds lon*N once before floor.
    bool oneulp = false;
    for (int da = -1; da <= 1 && !oneulp; ++da) for (int db = -1; db <= 1 && !oneulp; ++db) {
      if (!da && !db) continue;
      double a2 = da ? std::nextafter(a, da * INFINITY) : a, b2 = db ? std::nextafter(bn, db * INFINITY) : bn;
      if (id != 3 && std::fabs(a2) > 90) continue;
      long long jx, jy; ref_cell(id, a2, b2, p, jx, jy);
      if (id != 3) { long long NX, NY; if (id == 0) { int nlon, nlat; gh_dims(p, nlon, nlat); NX = 1LL << nlon; } else if (id == 1) gars_dims(p, NX, NY); else georef_dims(p, NX, NY); jx = ((jx % NX) + NX) % NX; }
      if (ref_encode(id, jx, jy, p) == f.s) oneulp = true;
    }
    ctx.fail(key, "Forward = '" + printable(f.s) + "' but the containing cell is '" + want + "'", FF(oneulp && id != 0 ? "containing-cell-1ulp" : "containing-cell"));
    return;
  }
  // decoding the code returns a cell that contains the position (closed SW, open NE) -- by construction of want == f.s and
  // check_code on the code lattice; here check only that the library's own decode agrees on the precision
  Rev r = librev(id, f.s, false);
  if (r.outcome != 0 || r.prec != p) ctx.fail(key, "own code '" + f.s + "' not accepted back / precision differs", FF("closure"));
  else {
    // SW corner <= position (lon compared after normalisation)
    double sc = 4 * std::numeric_limits<double>::epsilon() * (id == 3 ? 2.0e6 : 180.0);
    if (!(r.lat <= a + sc) || !(r.lon <= bn + sc)) ctx.fail(key, "decoded SW corner (" + fx(r.lat) + "," + fx(r.lon) + ") is not south-west of the position", FF("sw-corner"));
  }
  if (ctx.want_sample()) ctx.sample(key + " -> " + f.s);
}

// ------------------------------------------------------------------ arbitrary strings
static void check_string(Ctx& ctx, int id, const std::string& s) {
  const Scheme& S = SCH[id];
  Ctx::Case cs(ctx);
  std::string key = std::string(S.name) + " '" + printable(s) + "'";
  mc::Fields F{{"scheme", S.name}, {"len", fmti((long long)s.size())}, {"string", printable(s)}};
  auto FF = [&](const char* kind) { mc::Fields g = F; g.push_back({"kind", kind}); return g; };
  std::string U = upper(s);
  // documented NaN markers
  bool marker = false;
  if (id == 0) marker = s.size() >= 3 && (U.compare(0, 3, "INV") == 0 || U.compare(0, 3, "NAN") == 0);
  else if (id == 3) marker = s.size() >= 2 && U.compare(0, 2, "IN") == 0;
  else marker = s.size() >= 3 && U.compare(0, 3, "INV") == 0;
  // The documentation is silent on blanks inside OSGB references (the implementation skips them).  Acceptance of such a
  // string is therefore not demanded; but IF it is accepted, the only defensible meaning is that of the string with the
  // blanks removed: that string must be a valid reference and decode to the same values.
  if (id == 3) {
    bool blank = false; for (char c : s) if (isspace((unsigned char)c)) blank = true;
    if (blank) {
      ctx.count("strings_doc_silent");
      if (marker) return;
      std::string t; for (char c : s) if (!isspace((unsigned char)c)) t += c;
      for (int c = 0; c < 2; ++c) {
        Rev r = librev(id, s, c);
        ctx.sig(r.outcome * 3 + 2);
        if (r.outcome >= 2) { ctx.fail(key, "foreign exception / crash: " + r.what, FF("foreign-exception")); return; }
        if (r.outcome == 1) { if (r.lat != SENT || r.lon != SENT || r.prec != ISENT) ctx.fail(key, "outputs modified although the call threw", FF("touched")); continue; }
        long long ix, iy; int p;
        if (!ref_decode(id, t, ix, iy, p)) { ctx.fail(key, "string with blanks accepted although '" + printable(t) + "' (blanks removed) is not a valid reference; gives (" + fx(r.lat) + "," + fx(r.lon) + ") prec " + fmti(r.prec), FF("invalid-accepted")); return; }
        double ea, eb; ref_point(id, ix, iy, p, c, ea, eb);
        if (r.prec != p || !close_enough(r.lat, ea, 2.0e6) || !close_enough(r.lon, eb, 2.0e6)) ctx.fail(key, "string with blanks decodes differently from the string without them", FF("decode-point"));
      }
      return;
    }
  }
  for (int c = 0; c < 2; ++c) {
    Rev r = librev(id, s, c);
    ctx.sig(r.outcome * 3 + (marker ? 1 : 0));
    if (r.outcome >= 2) { ctx.fail(key, "foreign exception / crash: " + r.what, FF("foreign-exception")); return; }
    if (marker) {
      if (r.outcome != 0 || !std::isnan(r.lat) || !std::isnan(r.lon)) ctx.fail(key, "INVALID marker not decoded to NaN", FF("nan-marker"));
      else if (id == 3 ? r.prec != -2 : r.prec != ISENT) ctx.fail(key, "precision output after INVALID marker is " + fmti(r.prec), FF("nan-marker-prec"));
      continue;
    }
    long long ix, iy; int p;
    bool valid = ref_decode(id, s, ix, iy, p);
    if (!valid) {
      if (r.outcome == 0) { ctx.fail(key, "invalid string accepted, gives (" + fx(r.lat) + "," + fx(r.lon) + ") prec " + fmti(r.prec), FF("invalid-accepted")); return; }
      if (r.lat != SENT || r.lon != SENT || r.prec != ISENT) { ctx.fail(key, "outputs modified although the call threw", FF("touched")); return; }
    } else {
      if (r.outcome != 0) { ctx.fail(key, "valid string rejected: " + r.what, FF("valid-rejected")); return; }
      double ea, eb; ref_point(id, ix, iy, p, c, ea, eb);
      double scale = id == 3 ? 2.0e6 : 180.0;
      if (r.prec != p || !close_enough(r.lat, ea, scale) || !close_enough(r.lon, eb, scale))
        ctx.fail(key, "decoded (" + fx(r.lat) + "," + fx(r.lon) + "," + fmti(r.prec) + ") != reference (" + fx(ea) + "," + fx(eb) + "," + fmti(p) + ")", FF("decode-point"));
    }
  }
  if (ctx.want_sample()) ctx.sample(key);
}

// all strings of length <= L over alphabet al, unit = first (up to) two characters
static void enum_strings(Ctx& ctx, int id, const std::string& al, int L) {
  int n = (int)al.size();
  // lengths 0 and 1 : one unit
  if (ctx.take()) { check_string(ctx, id, ""); for (int i = 0; i < n; ++i) check_string(ctx, id, std::string(1, al[i])); }
  if (L < 2) return;
  for (int i = 0; i < n; ++i) for (int j = 0; j < n; ++j) {
    if (!ctx.take()) continue;
    std::string pre; pre += al[i]; pre += al[j];
    check_string(ctx, id, pre);
    std::vector<int> idx;
    for (int len = 1; len <= L - 2; ++len) {
      idx.assign(len, 0);
      while (true) {
        std::string s = pre; for (int k : idx) s += al[k];
        check_string(ctx, id, s);
        int k = len - 1; while (k >= 0 && ++idx[k] == n) { idx[k] = 0; --k; }
        if (k < 0) break;
      }
    }
  }
}

// single-character edits of a valid code over alphabet al
static void edits(Ctx& ctx, int id, const std::string& code, const std::string& al) {
  for (size_t i = 0; i <= code.size(); ++i) {
    if (i < code.size()) { std::string d = code; d.erase(i, 1); check_string(ctx, id, d); }
    for (char c : al) {
      std::string ins = code; ins.insert(i, 1, c); check_string(ctx, id, ins);
      if (i < code.size()) { std::string sub = code; sub[i] = c; check_string(ctx, id, sub); }
    }
  }
}

static std::vector<double> with_ulps(const std::vector<double>& v) {
  std::vector<double> o;
  for (double x : v) { o.push_back(x); o.push_back(std::nextafter(x, INFINITY)); o.push_back(std::nextafter(x, -INFINITY)); }
  return o;
}

int main(int argc, char** argv) {
  Ctx ctx(argc, argv);
  const bool T = ctx.thorough();
  const double inf = INFINITY, nan = NAN;

  // ================================================================= Geohash
  {
    int maxl = T ? 4 : 3;
    ctx.bound("geohash.codes", "all codes of length 0.." + fmti(maxl) + " (32^k each), both cases, + structured length-18 codes");
    ctx.sub("geohash-codes");
    for (int len = 0; len <= maxl; ++len) {
      int nlon, nlat; gh_dims(len, nlon, nlat);
      for (long long ix = 0; ix < (1LL << nlon); ++ix) {
        if (!ctx.take()) continue;
        for (long long iy = 0; iy < (1LL << nlat); ++iy) check_code(ctx, 0, ix, iy, len, true);
      }
    }
    // structured long codes: every length 4..18, cells with a single bit set / all ones / zero in each coordinate
    ctx.sub("geohash-longcodes");
    for (int len = 4; len <= 18; ++len) {
      if (!ctx.take()) continue;
      int nlon, nlat; gh_dims(len, nlon, nlat);
      std::vector<long long> xs{0, (1LL << nlon) - 1}, ys{0, (1LL << nlat) - 1};
      for (int b = 0; b < nlon; ++b) { xs.push_back(1LL << b); xs.push_back(((1LL << nlon) - 1) ^ (1LL << b)); }
      for (int b = 0; b < nlat; ++b) { ys.push_back(1LL << b); ys.push_back(((1LL << nlat) - 1) ^ (1LL << b)); }
      for (long long ix : xs) for (long long iy : ys) check_code(ctx, 0, ix, iy, len, len <= 6);
    }
    // positions: every cell corner of levels <= 3 (lon: multiples of 360/2^8, lat: 180/2^7) and +-1 ulp, all len
    ctx.sub("geohash-positions");
    std::vector<double> lats, lons;
    for (int k = 0; k <= 128; k += T ? 1 : 4) lats.push_back(-90 + k * 180.0 / 128);
    for (int k = 0; k <= 256; k += T ? 1 : 8) lons.push_back(-180 + k * 360.0 / 256);
    lats = with_ulps(lats); lons = with_ulps(lons);
    for (double x : {540.0, -540.0, 180.0 + 360, -180.0 - 360, 1e-300, -1e-300, 0.0, -0.0, 1e17, 719.9999999999999, 5e-324, -5e-324}) lons.push_back(x);
    for (double x : {1e-300, -1e-300, -0.0, 5e-324, 45.00000000000001, 89.99999999999999}) lats.push_back(x);
    ctx.bound("geohash.positions", fmti((long long)lats.size()) + " lat x " + fmti((long long)lons.size()) + " lon x len -1..19");
    for (double lat : lats) {
      if (!ctx.take()) continue;
      for (double lon : lons) for (int len = -1; len <= 19; ++len) {
        if (lat > 90 || lat < -90) { if (len == 5) check_position(ctx, 0, lat, lon, len); continue; }
        check_position(ctx, 0, lat, lon, len);
      }
    }
  }

  // ================================================================= GARS
  {
    ctx.sub("gars-codes");
    int step = T ? 1 : 8;       // quick: every 8th 30' longitude band (+ the first and last), all latitude bands
    ctx.bound("gars.codes", T ? "all 720*360*4*9 codes at prec 2 with their prec 0 and 1 prefixes" : "longitude bands 1, 9, 17, ..., 720 x all 360 latitude bands x 4 x 9");
    for (int bx = 0; bx < 720; ++bx) {
      if (!(bx % step == 0 || bx == 719)) continue;
      if (!ctx.take()) continue;
      for (int by = 0; by < 360; ++by) {
        check_code(ctx, 1, bx, by, 0, by % 24 == 0);
        for (int q = 0; q < 4; ++q) {
          check_code(ctx, 1, bx * 2 + q % 2, by * 2 + q / 2, 1, false);
          for (int k = 0; k < 9; ++k) check_code(ctx, 1, (bx * 2 + q % 2) * 3 + k % 3, (by * 2 + q / 2) * 3 + k / 3, 2, false);
        }
      }
    }
    ctx.sub("gars-positions");
    std::vector<double> lats, lons;
    // all 5' edges in a few degrees + every 30' edge (quick: every 4th), with +-1 ulp
    for (int k = 0; k <= 2160; k += T ? 1 : 36) lats.push_back(-90 + k / 12.0);
    for (int k = 0; k <= 4320; k += T ? 6 : 72) lons.push_back(-180 + k / 12.0);
    for (int k = 0; k <= 36; ++k) { lats.push_back(k / 12.0); lons.push_back(177 + k / 12.0); lons.push_back(-1 + k / 12.0); }
    lats = with_ulps(lats); lons = with_ulps(lons);
    for (double x : {540.0, -540.0, 1e-300, -1e-300, 0.0, -0.0, 1e17, 359.99999999999994, 5e-324, -5e-324}) lons.push_back(x);
    ctx.bound("gars.positions", fmti((long long)lats.size()) + " lat x " + fmti((long long)lons.size()) + " lon x prec -1..3");
    for (double lat : lats) {
      if (!ctx.take()) continue;
      for (double lon : lons) for (int p = -1; p <= 3; ++p) {
        if (std::fabs(lat) > 90 && p != 1) continue;
        check_position(ctx, 1, lat, lon, p);
      }
    }
  }

  // ================================================================= Georef
  {
    ctx.sub("georef-codes");
    ctx.bound("georef.codes", "all 24*12 tiles, all 64800 degree cells; minute cells: 60x60 in 12 degree cells; decimal digits at 10^k boundaries");
    for (int tx = 0; tx < 24; ++tx) {
      if (!ctx.take()) continue;
      for (int ty = 0; ty < 12; ++ty) {
        check_code(ctx, 2, tx, ty, -1, true);
        for (int dx = 0; dx < 15; ++dx) for (int dy = 0; dy < 15; ++dy) {
          long long ix = tx * 15 + dx, iy = ty * 15 + dy;
          check_code(ctx, 2, ix, iy, 0, dx == 0 && dy == 0);
          // a few sub-cells at every precision in every degree cell (corners of the digit range)
          for (int p = 2; p <= 11; p += (T ? 1 : 3)) {
            long long per = 60 * ipow10(p - 2);
            long long fxs[3] = {0, per - 1, (per / 7) * 3 + 1};
            int sel = int((ix * 7 + iy * 3 + p) % 3);
            check_code(ctx, 2, ix * per + fxs[sel], iy * per + fxs[(sel + 1) % 3], p, false);
          }
        }
      }
    }
    ctx.sub("georef-minutes");
    {
      const int cells[12][2] = {{0, 0}, {359, 179}, {180, 90}, {179, 89}, {14, 14}, {15, 15}, {345, 0}, {0, 179}, {200, 45}, {100, 100}, {359, 0}, {7, 170}};
      for (int c = 0; c < (T ? 12 : 4); ++c) for (int mx = 0; mx < 60; ++mx) {   // all 60 x 60 minute cells of 12 (quick 4) degree cells
        if (!ctx.take()) continue;
        for (int my = 0; my < 60; ++my) {
          check_code(ctx, 2, cells[c][0] * 60 + mx, cells[c][1] * 60 + my, 2, mx == my);
          // decimal digits: 0, 9, 10^k boundaries
          for (int p = 3; p <= 11; p += 4) {
            long long f = ipow10(p - 2);
            long long subs[4] = {0, f - 1, f / 10, f / 10 * 9 + (f > 1 ? 1 : 0)};
            check_code(ctx, 2, (cells[c][0] * 60LL + mx) * f + subs[(mx + p) % 4], (cells[c][1] * 60LL + my) * f + subs[(my + p) % 4], p, false);
          }
        }
      }
    }
    ctx.sub("georef-positions");
    std::vector<double> lats, lons;
    for (int k = -90; k <= 90; k += T ? 1 : 5) lats.push_back(k);
    for (int k = -180; k <= 180; k += T ? 1 : 5) lons.push_back(k);
    for (double m : {1 / 60.0, 59 / 60.0, 0.5, 1 / 600.0, 1 / 6000.0, 1e-9 / 60, 0.999999999 / 60 * 60}) { lats.push_back(37 + m); lons.push_back(-122 + m); lats.push_back(-37 - m); lons.push_back(122 + m); }
    lats = with_ulps(lats); lons = with_ulps(lons);
    for (double x : {540.0, -540.0, 1e-300, -1e-300, 0.0, -0.0, 1e17, 359.99999999999994, 5e-324, -5e-324, 179.99999999999997, -180.00000000000003}) lons.push_back(x);
    for (double x : {1e-300, -1e-300, -0.0, 5e-324}) lats.push_back(x);
    ctx.bound("georef.positions", fmti((long long)lats.size()) + " lat x " + fmti((long long)lons.size()) + " lon x prec -2..12");
    for (double lat : lats) {
      if (!ctx.take()) continue;
      for (double lon : lons) for (int p = -2; p <= 12; ++p) {
        if (std::fabs(lat) > 90 && p != 2) continue;
        check_position(ctx, 2, lat, lon, p);
      }
    }
  }

  // ================================================================= OSGB
  {
    ctx.sub("osgb-codes");
    ctx.bound("osgb.codes", "all 25x25 letter pairs x all digits for prec <= 2 (thorough) / prec <= 1 (quick), digit corners up to prec 11");
    for (int xh = -10; xh < 15; ++xh) {
      if (!ctx.take()) continue;
      for (int yh = -5; yh < 20; ++yh) {
        check_code(ctx, 3, xh, yh, 0, true);
        int pm = T ? 2 : 1;
        for (int p = 1; p <= pm; ++p) { long long per = ipow10(p); for (long long fx_ = 0; fx_ < per; ++fx_) for (long long fy_ = 0; fy_ < per; ++fy_) check_code(ctx, 3, xh * per + fx_, yh * per + fy_, p, false); }
        for (int p = pm + 1; p <= 11; ++p) {
          long long per = ipow10(p);
          long long fs[4] = {0, per - 1, per / 10, per / 3};
          for (int a = 0; a < 4; ++a) check_code(ctx, 3, xh * per + fs[a], yh * per + fs[(a + xh + yh + 15) % 4], p, false);
        }
      }
    }
    ctx.sub("osgb-positions");
    std::vector<double> xs, ys;
    for (int k = -10; k <= 15; ++k) xs.push_back(k * 100000.0);
    for (int k = -5; k <= 20; ++k) ys.push_back(k * 100000.0);
    for (double m : {1.0, 0.1, 1e-6, 99999.999999, 12345.678901, 50000.0, 0.5, 1e-7, 10.0, 1000.0}) { xs.push_back(400000 + m); ys.push_back(100000 + m); xs.push_back(-m); ys.push_back(-m); }
    xs = with_ulps(xs); ys = with_ulps(ys);
    for (double v : {0.0, -0.0, 5e-324, -5e-324, 1e-300, -1e-300, -1e-20, -1e-12, -7e-12, -8e-12, -1e-11, -1e-9, nan, inf, -inf, 1e300}) { xs.push_back(v); ys.push_back(v); }
    ctx.bound("osgb.positions", fmti((long long)xs.size()) + " x " + fmti((long long)ys.size()) + " x prec -1..12");
    for (double x : xs) {
      if (!ctx.take()) continue;
      for (double y : ys) for (int p = -1; p <= 12; ++p) check_position(ctx, 3, y, x, p);
    }
    // geographic <-> grid
    ctx.sub("osgb-geo");
    for (int i = 0; i <= 20; ++i) {
      if (!ctx.take()) continue;
      for (int j = 0; j <= 20; ++j) {
        Ctx::Case cs(ctx);
        double lat = 49 + i * 0.6, lon = -8 + j * 0.55, x, y, lat2, lon2;
        OSGB::Forward(lat, lon, x, y); OSGB::Reverse(x, y, lat2, lon2);
        double err = std::max(std::fabs(lat2 - lat), std::fabs(lon2 - lon));
        ctx.worst("osgb.geo_roundtrip_deg", err, fmt(lat) + "," + fmt(lon));
        if (!(err < 1e-12)) ctx.fail("osgb-geo " + fmt(lat) + "," + fmt(lon), "Reverse(Forward) differs by " + fmt(err) + " deg", {{"scheme", "osgb"}, {"kind", "geo-roundtrip"}});
      }
    }
    {
      // true origin (49N, 2W) maps to the documented false origin E 400 km, N -100 km
      Ctx::Case cs(ctx);
      double x, y; OSGB::Forward(49.0, -2.0, x, y);
      if (!(std::fabs(x - 400000) < 1e-8 && std::fabs(y + 100000) < 1e-8)) ctx.fail("osgb-origin", "true origin maps to " + fmt(x) + "," + fmt(y), {{"scheme", "osgb"}, {"kind", "origin"}});
    }
  }

  // ================================================================= NaN / special positions, all schemes
  ctx.sub("special-positions");
  for (int id = 0; id < 3; ++id) {
    if (!ctx.take()) continue;
    for (double lat : {nan, 0.0, 90.0, -90.0, 91.0, -90.00000000000001, 90.00000000000001, inf, -inf, 1e300})
      for (double lon : {nan, 0.0, 180.0, -180.0, inf, -inf, 1e300, 540.0})
        for (int p : {-5, 0, 2, 100}) check_position(ctx, id, lat, lon, p);
  }

  // ================================================================= arbitrary strings
  {
    struct SA { int id; const char* al; int Lq, Lt; };
    std::string nul(1, '\0');
    std::vector<std::pair<int, std::string>> sets;
    // reduced alphabets: letters inside/outside each sub-alphabet, digits incl. range ends, lower case, NUL, blank, punctuation, 8-bit
    ctx.sub("geohash-strings");
    { std::string al = std::string("0z9abiloINVnAZ- ") + nul + "\xe9"; ctx.bound("geohash.strings", "all strings len<=" + fmti(T ? 4 : 3) + " over " + fmti((long long)al.size()) + " chars"); enum_strings(ctx, 0, al, T ? 4 : 3); }
    ctx.sub("gars-strings");
    { std::string al = std::string("0179AQRZIaz:") + nul; ctx.bound("gars.strings", "all strings len<=" + fmti(T ? 7 : 6) + " over " + fmti((long long)al.size()) + " chars"); enum_strings(ctx, 1, al, T ? 7 : 6); }
    ctx.sub("georef-strings");
    { std::string al = std::string("AMNQRZIO059x ") + nul; ctx.bound("georef.strings", "all strings len<=" + fmti(T ? 7 : 6) + " over " + fmti((long long)al.size()) + " chars"); enum_strings(ctx, 2, al, T ? 7 : 6); }
    ctx.sub("osgb-strings");
    { std::string al = std::string("AHISVZ09in- ") + nul; ctx.bound("osgb.strings", "all strings len<=" + fmti(T ? 5 : 4) + " over " + fmti((long long)al.size()) + " chars"); enum_strings(ctx, 3, al, T ? 5 : 4); }
    // single edits of valid codes
    ctx.sub("edits");
    const std::string eal = std::string("0159AIOZaz ") + nul + "\xff";
    const char* gh[] = {"ezs42", "u4pruydqqvj8", "0", "zzzzzzzzzzzzzzzzzz"};
    const char* ga[] = {"006AG39", "720QZ49", "001AA", "361HN1"};
    const char* gr[] = {"GJEC", "MK", "GJEC1234", "NKLG3140585512", "ZMQQ59995999"};
    const char* os[] = {"SV", "TQ3080", "HP1234567890", "NN166712"};
    for (auto s : gh) if (ctx.take()) edits(ctx, 0, s, eal);
    for (auto s : ga) if (ctx.take()) edits(ctx, 1, s, eal);
    for (auto s : gr) if (ctx.take()) edits(ctx, 2, s, eal);
    for (auto s : os) if (ctx.take()) edits(ctx, 3, s, eal);
    // over-long inputs
    ctx.sub("long-strings");
    for (int id = 0; id < 4; ++id) for (int n : {19, 23, 24, 25, 26, 27, 64, 1000}) {
      if (!ctx.take()) continue;
      for (char fill : {'0', '5', 'A', 'z'}) { check_string(ctx, id, std::string(n, fill)); check_string(ctx, id, std::string("SV") + std::string(n, fill)); check_string(ctx, id, std::string("001AA") + std::string(n, fill)); check_string(ctx, id, std::string("GJEC") + std::string(n, fill)); }
    }
  }
  return ctx.finish();
}
