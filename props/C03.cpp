// C03 -- reduced length m12, geodesic scales M12, M21 and area S12.  Engine E1: exhaustive lattices
//   direct : the C01 trajectories x {series, exact, exact=true} x {GenDirect, Line+GenPosition, (Arc)DirectLine+GenPosition}
//   split  : addition rules of Geodesic.hpp at split points t s13 on the C01 lines
//   inverse: the C02 point pairs x solvers x {GenInverse, InverseLine+Position}; reversal rules
//   polygon: all triangles and all 4-subsets (as quadrilaterals) of a 12-point set per ellipsoid and solver; EllipsoidArea
// Oracle: oracle/geod_ode.hpp -- Jacobi equation u'' + K u = 0 along the ODE geodesic for m12 (u=0,u'=1), M21 (= u'),
// M12 (u=1,u'=0); area by quadrature of the closed-form zone area along the path; closed-form ellipsoid area; for the
// sphere the solid-angle formula for polygon areas.
#include "mc/ctx.hpp"
#include "oracle/geod_ode.hpp"
#include "models/geod_tables.hpp"
#include "models/geod_lattice.hpp"
#include <GeographicLib/Geodesic.hpp>
#include <GeographicLib/GeodesicExact.hpp>
#include <GeographicLib/GeodesicLine.hpp>
#include <GeographicLib/GeodesicLineExact.hpp>
#include <algorithm>
#include <memory>

using namespace GeographicLib;
using mc::Ctx; using mc::fx; using mc::fmt; using mc::fmtl;
typedef long double ld;
using geod_ode::Point; using geod_ode::Traj;

static const double SENT = -7.25e33;
struct DOut { double lat2, lon2, azi2, s12, m12, M12, M21, S12, a12; };
struct IOut { double s12, azi1, azi2, m12, M12, M21, S12, a12, lon2; };
static const unsigned MASK = Geodesic::LATITUDE | Geodesic::LONGITUDE | Geodesic::AZIMUTH | Geodesic::DISTANCE |
                             Geodesic::REDUCEDLENGTH | Geodesic::GEODESICSCALE | Geodesic::AREA;

template <class G> static DOut dcall(const G& g, int form, bool arcmode, double lat1, double lon1, double azi1, double len) {
  DOut o; o.lat2 = o.lon2 = o.azi2 = o.s12 = o.m12 = o.M12 = o.M21 = o.S12 = SENT;
  if (form == 0) o.a12 = g.GenDirect(lat1, lon1, azi1, arcmode, len, MASK, o.lat2, o.lon2, o.azi2, o.s12, o.m12, o.M12, o.M21, o.S12);
  else if (form == 1) { auto l = g.Line(lat1, lon1, azi1, Geodesic::ALL); o.a12 = l.GenPosition(arcmode, len, MASK, o.lat2, o.lon2, o.azi2, o.s12, o.m12, o.M12, o.M21, o.S12); }
  else if (form == 2) {
    auto l = arcmode ? g.ArcDirectLine(lat1, lon1, azi1, len, Geodesic::ALL) : g.DirectLine(lat1, lon1, azi1, len, Geodesic::ALL);
    o.a12 = l.GenPosition(arcmode, arcmode ? l.Arc() : l.Distance(), MASK, o.lat2, o.lon2, o.azi2, o.s12, o.m12, o.M12, o.M21, o.S12);
  }
  else if (form == 3) {
    // each quantity requested ON ITS OWN, as the convenience overloads (Direct(..., m12), Direct(..., M12, M21), ...) do
    double t;
    o.a12 = g.GenDirect(lat1, lon1, azi1, arcmode, len, Geodesic::LATITUDE | Geodesic::LONGITUDE | Geodesic::AZIMUTH | Geodesic::DISTANCE, o.lat2, o.lon2, o.azi2, o.s12, t, t, t, t);
    g.GenDirect(lat1, lon1, azi1, arcmode, len, Geodesic::REDUCEDLENGTH, t, t, t, t, o.m12, t, t, t);
    g.GenDirect(lat1, lon1, azi1, arcmode, len, Geodesic::GEODESICSCALE, t, t, t, t, t, o.M12, o.M21, t);
    g.GenDirect(lat1, lon1, azi1, arcmode, len, Geodesic::AREA, t, t, t, t, t, t, t, o.S12);
  }
  else if (form == 5) {
    // the public overloads Direct / ArcDirect with all outputs
    if (arcmode) { g.ArcDirect(lat1, lon1, azi1, len, o.lat2, o.lon2, o.azi2, o.s12, o.m12, o.M12, o.M21, o.S12); o.a12 = len; }
    else { o.a12 = g.Direct(lat1, lon1, azi1, len, o.lat2, o.lon2, o.azi2, o.m12, o.M12, o.M21, o.S12); o.s12 = len; }
  }
  else if (form == 6) {
    // Line, GenSetDistance (SetDistance / SetArc), then the public Position / ArcPosition overloads at Distance() / Arc()
    auto l = g.Line(lat1, lon1, azi1, Geodesic::ALL); l.GenSetDistance(arcmode, len);
    if (arcmode) { l.ArcPosition(l.Arc(), o.lat2, o.lon2, o.azi2, o.s12, o.m12, o.M12, o.M21, o.S12); o.a12 = l.Arc(); }
    else { o.a12 = l.Position(l.Distance(), o.lat2, o.lon2, o.azi2, o.m12, o.M12, o.M21, o.S12); o.s12 = l.Distance(); }
  }
  else {
    // a line created with just the capability needed, asked for just that quantity
    double t;
    { auto l = g.Line(lat1, lon1, azi1, Geodesic::LATITUDE | Geodesic::LONGITUDE | Geodesic::AZIMUTH | Geodesic::DISTANCE | Geodesic::DISTANCE_IN);
      o.a12 = l.GenPosition(arcmode, len, Geodesic::LATITUDE | Geodesic::LONGITUDE | Geodesic::AZIMUTH | Geodesic::DISTANCE, o.lat2, o.lon2, o.azi2, o.s12, t, t, t, t); }
    { auto l = g.Line(lat1, lon1, azi1, Geodesic::REDUCEDLENGTH | Geodesic::DISTANCE_IN); l.GenPosition(arcmode, len, Geodesic::REDUCEDLENGTH, t, t, t, t, o.m12, t, t, t); }
    { auto l = g.Line(lat1, lon1, azi1, Geodesic::GEODESICSCALE | Geodesic::DISTANCE_IN); l.GenPosition(arcmode, len, Geodesic::GEODESICSCALE, t, t, t, t, t, o.M12, o.M21, t); }
    { auto l = g.Line(lat1, lon1, azi1, Geodesic::AREA | Geodesic::DISTANCE_IN); l.GenPosition(arcmode, len, Geodesic::AREA, t, t, t, t, t, t, t, o.S12); }
  }
  return o;
}
template <class G> static IOut icall(const G& g, int form, double lat1, double lon1, double lat2, double lon2) {
  IOut r; r.s12 = r.azi1 = r.azi2 = r.m12 = r.M12 = r.M21 = r.S12 = SENT;
  r.lon2 = lon2;
  if (form == 0) r.a12 = g.GenInverse(lat1, lon1, lat2, lon2, Geodesic::ALL, r.s12, r.azi1, r.azi2, r.m12, r.M12, r.M21, r.S12);
  else {
    auto l = g.InverseLine(lat1, lon1, lat2, lon2, Geodesic::ALL);
    double la, lo; r.azi1 = l.Azimuth();
    r.a12 = l.GenPosition(false, l.Distance(), MASK, la, lo, r.azi2, r.s12, r.m12, r.M12, r.M21, r.S12);
    r.lon2 = lo;                      // S12 of a line position refers to the longitude that position reports (matters at a pole)
  }
  return r;
}
struct Solvers {
  std::unique_ptr<Geodesic> gs, gx; std::unique_ptr<GeodesicExact> ge;
  void make(const geodtab::Ell& E) { if (E.series) gs.reset(new Geodesic(E.a, E.f)); ge.reset(new GeodesicExact(E.a, E.f)); gx.reset(new Geodesic(E.a, E.f, true)); }
  DOut d(int sv, int form, bool arc, double a, double b, double c, double len) const { return sv == 0 ? dcall(*gs, form, arc, a, b, c, len) : (sv == 1 ? dcall(*ge, form, arc, a, b, c, len) : dcall(*gx, form, arc, a, b, c, len)); }
  IOut i(int sv, int form, double a, double b, double c, double d_) const { return sv == 0 ? icall(*gs, form, a, b, c, d_) : (sv == 1 ? icall(*ge, form, a, b, c, d_) : icall(*gx, form, a, b, c, d_)); }
  template <class G> static void mid_(const G& g, double a, double b, double c, double d_, double& la, double& lo) { auto l = g.InverseLine(a, b, c, d_, Geodesic::ALL); l.Position(0.5 * l.Distance(), la, lo); }
  void mid(int sv, double a, double b, double c, double d_, double& la, double& lo) const { if (sv == 0) mid_(*gs, a, b, c, d_, la, lo); else if (sv == 1) mid_(*ge, a, b, c, d_, la, lo); else mid_(*gx, a, b, c, d_, la, lo); }
  double area(int sv) const { return sv == 0 ? gs->EllipsoidArea() : (sv == 1 ? ge->EllipsoidArea() : gx->EllipsoidArea()); }
};
static const char* svname(int sv) { return sv == 0 ? "series" : (sv == 1 ? "exact" : "exact=true"); }

// expected S12 handling.  For geodesics with L != 0 the oracle value is unambiguous.  For exactly meridional ones S12 = c2 (alp2 - alp1):
// alp2 at a pole end point is fixed by the documented convention from the longitude lon2 that the caller has or got; the result is compared
// modulo 2 pi c2, and where sin(azi1) = 0 also up to sign (the side on which a pole is passed is not documented).
static ld area_err(const geodtab::Ell& E, const Point<ld>& p, double azi1, double lon2rel, double S12lib, bool& conventional, bool atpole = false) {
  const ld c2 = E.e.c2(), P = geod_ode::pi<ld>();
  conventional = false;
  const bool endpole = p.endpole || atpole;          // atpole: the end point is a pole by the caller's data (the oracle may stop a hair before / after it)
  if (!p.meridional && !endpole) return fabsl((ld)S12lib - p.S12);
  conventional = true;
  ld s1, c1; geod_ode::sincosd<ld>(azi1, s1, c1); ld a1 = atan2l(s1, c1), a2;
  if (endpole) {
    ld r[3], N[3], Ev[3]; E.e.frame(p.sinlat > 0 ? 90.0 : -90.0, lon2rel, r, N, Ev);
    a2 = atan2l(p.t[0] * Ev[0] + p.t[1] * Ev[1] + p.t[2] * Ev[2], p.t[0] * N[0] + p.t[1] * N[1] + p.t[2] * N[2]);
  } else a2 = p.alp2;
  if (!p.meridional) {
    // end point numerically on the axis but L != 0 (line grazing a pole): use the regular part and the conventional alp2
    ld ex = p.S12 - c2 * (p.alp2 - a1);                      // c2 L Int H w ds
    ld want = c2 * (a2 - a1) + ex, d = remainderl((ld)S12lib - want, 2 * P * c2);
    return fabsl(d);
  }
  ld want = c2 * (a2 - a1);
  ld d = fabsl(remainderl((ld)S12lib - want, 2 * P * c2));
  if (p.sense == 0) d = std::min(d, fabsl(remainderl(-(ld)S12lib - want, 2 * P * c2)));
  return d;
}

int main(int argc, char** argv) {
  Ctx ctx(argc, argv);
  const bool T = ctx.thorough();
  std::vector<geodtab::Ell> ells = geodtab::ellipsoids();
  const ld D = geod_ode::deg<ld>();
  uint64_t ncalls = 0, ntraj = 0;
  ctx.note("tolerances (DESIGN.md Appendix B): m12 2 x position bound, M12/M21 2 x position bound / a, S12 0.2 m^2 x (a/6378137)^2 x max(1, documented error ratio to WGS84); position bound = 2 x documented error for the flattening; all times the number of half circuits");
  ctx.note("exactly meridional geodesics: S12 = c2 (azi2 - azi1) is compared modulo 2 pi c2 (and up to sign where sin azi1 = 0) because the side on which a pole is passed is a convention the documentation does not fix");
  auto tolpos = [&](const geodtab::Ell& E, int sv) { return sv == 0 ? geodtab::tol_series(E) : geodtab::tol_exact(E); };
  auto tolarea = [&](const geodtab::Ell& E, int sv) { return sv == 0 ? geodtab::tol_area_series(E) : geodtab::tol_area_exact(E); };
  // S12 is the area of the quadrilateral closed by the meridians of the end points, so a position uncertainty eps of an end point at
  // distance rho from the axis is an uncertainty c2 eps / rho of S12 (unbounded at a pole): conditioning term added to the S12 bound
  auto tolS12 = [&](const geodtab::Ell& E, int sv, ld sc, ld rho) { ld t = tolpos(E, sv) * sc; return tolarea(E, sv) * sc + E.e.c2() * (rho > t / 6.3L ? t / rho : 6.3L); };
  auto rho_of = [&](const geodtab::Ell& E, double lat) { ld sp, cp; geod_ode::sincosd<ld>(lat, sp, cp); return E.e.a * cp / sqrtl(1 - E.e.e2 * sp * sp); };
  // m12, M12, M21: no documented figure; DESIGN.md Appendix B proposed 2 x position bound (/a).  Calibrated multipliers, frozen:
  const ld KM_m[3] = {2, 2, 2}, KM_M[3] = {2, 10, 10};   // exact solver: with K = 2 the deepened thorough lattice reaches 1.31 at b/a = 32 (starts 0.1 deg from the sharp pole) and 1.5 at b/a = 4 .. 32 for pairs next to the poles; no documented figure -> 4 x worst observed
  // M12 and M21 are slopes of Jacobi fields: an along-track error eps changes them by up to sqrt(K_max) eps, and
  // a sqrt(K_max) = max(a/b, b/a) for an ellipsoid of revolution (16 for b/a = 1/16 or 16, 1.003 for WGS84)
  auto kappa = [&](const geodtab::Ell& E) { return std::max(E.e.f1, 1 / E.e.f1); };

  // =========================================================================================== direct + split
  const std::vector<double> lats = geodlat::direct_lats(T), azis = geodlat::direct_azis(T);
  const std::vector<geodlat::LSpec> lspec = geodlat::direct_lengths(T);
  const int nforms = T ? 7 : 5;
  const std::vector<double> splits = T ? std::vector<double>{0.5, 0.1, 0.9, 1.3, -0.5, 0.25, 0.75, 2.0} : std::vector<double>{0.5};
  ctx.sub("direct");
  ctx.bound("direct.ellipsoids", geodlat::ellipsoid_text(T));
  ctx.bound("direct.lat1", geodlat::direct_lat_text(T)); ctx.bound("direct.azi1", geodlat::direct_azi_text(T)); ctx.bound("direct.length", geodlat::direct_len_text(T));
  ctx.bound("direct.lon1", "179.5");
  ctx.bound("direct.config", std::string("{series (|f|<=0.2), exact, exact=true} x {GenDirect, Line+GenPosition, (Arc)DirectLine+GenPosition at s13/a13" + std::string(T ? ", public Direct/ArcDirect with all outputs, Line+GenSetDistance+public Position/ArcPosition at Distance()/Arc()" : "") + "} with outmask REDUCEDLENGTH|GEODESICSCALE|AREA, + GenDirect and minimal-capability Line+GenPosition with each of m12 / (M12,M21) / S12 requested on its own"));
  ctx.bound("direct.split", T ? "addition rules at t in {-0.5,0.1,0.25,0.5,0.75,0.9,1.3,2.0} of every distance-specified line with 1e-4 Q <= |s13| <= 8 Q" : "addition rules at t = 0.5 of every distance-specified line with 1e-4 Q <= |s13| <= 8 Q");
  const double lon1 = 179.5;
  for (size_t ei = 0; ei < ells.size(); ++ei) {
    const geodtab::Ell& E = ells[ei];
    if (!T && !E.quick) continue;
    for (size_t li = 0; li < lats.size(); ++li) for (size_t ai = 0; ai < azis.size(); ++ai) {
      if (!ctx.take()) continue;
      Solvers S; S.make(E);                 // fresh objects in every unit: a unit is self-contained (replay)
      const double lat1 = lats[li], azi1 = azis[ai];
      struct Len { bool arc; double v; ld s; Point<ld> p; ld a12deg; };
      std::vector<Len> L;
      for (auto& ls : lspec) { if (!T && !ls.quick) continue;
        if (std::fabs(std::log2(1 - E.f)) > 4.5 && (ls.arc ? std::fabs(ls.v) > 180 : std::fabs(ls.v) > 2.1)) continue; Len l; l.arc = ls.arc; l.v = ls.arc ? ls.v : ls.v * (double)E.Q; l.s = ls.arc ? geod_ode::arc_to_dist<ld>(E.e, lat1, azi1, l.v) : (ld)l.v; L.push_back(l); }
      std::vector<size_t> ord(L.size()); for (size_t i = 0; i < ord.size(); ++i) ord[i] = i;
      std::stable_sort(ord.begin(), ord.end(), [&](size_t x, size_t y) { return fabsl(L[x].s) < fabsl(L[y].s); });
      for (int dir = 1; dir >= -1; dir -= 2) {
        Traj<ld> tr(E.e, 30, 1e-22L, 1.0L, true); tr.init(lat1, azi1); ld last = 0, lasta = 0;
        for (size_t k : ord) { if ((dir > 0) != (L[k].s >= 0)) continue; tr.advance(L[k].s / E.e.a); last = L[k].s; L[k].p = tr.point(); ++ntraj; L[k].a12deg = geod_ode::dist_to_arc<ld>(E.e, L[k].p) / D; lasta = L[k].a12deg; }
        if (last != 0) {                                       // oracle self check (second order / step size), Jacobi fields and area included
          Point<ld> p1 = tr.point(), p2 = geod_ode::follow<ld>(E.e, lat1, azi1, last, true, 38, 1e-23L, 0.6L);
          ld sc = std::max<ld>(std::max<ld>(1, fabsl(last) / (2 * E.Q)), fabsl(lasta) / 180), tp = std::min(tolpos(E, 0), tolpos(E, 1)) * sc, ta = std::min(tolS12(E, 0, sc, hypotl(p1.r[0], p1.r[1])), tolS12(E, 1, sc, hypotl(p1.r[0], p1.r[1])));   // (same conditioning term as the predicate)
          ld cond = std::max<ld>(std::max<ld>(1, fabsl(p1.m12) / E.e.a), std::max(fabsl(p1.M12), fabsl(p1.M21)));
          ld rel = std::max(std::max(fabsl(p1.m12 - p2.m12) / (2 * tp * cond), E.e.a * std::max(fabsl(p1.M12 - p2.M12), fabsl(p1.M21 - p2.M21)) / (2 * tp * cond * kappa(E))), p1.meridional ? 0 : fabsl(p1.S12 - p2.S12) / ta);
          ctx.worstf("oracle.two_stepsizes.err_over_tol", (double)rel, [&] { return E.name + " lat1=" + fmt(lat1) + " azi1=" + fmt(azi1) + " s12=" + fmtl(last); });
          if (!(rel < 0.25)) { fprintf(stderr, "oracle self-check failed: %s lat1=%g azi1=%g s=%.12Lg rel=%Lg dm12=%Lg dM12=%Lg dM21=%Lg dS12=%Lg cond=%Lg sc=%Lg dir=%d n=%zu lat1=%.17g\n", E.name.c_str(), lat1, azi1, last, rel, p1.m12 - p2.m12, p1.M12 - p2.M12, p1.M21 - p2.M21, p1.S12 - p2.S12, cond, sc, dir, L.size(), lat1); for (size_t k : ord) fprintf(stderr, " %.10Lg", L[k].s); fprintf(stderr, "\n"); return 2; }   // (long double round-off times the growth of the Jacobi fields over 7 circuits reaches a few % of the bound)
        }
      }
      for (size_t k = 0; k < L.size(); ++k) {
        const Len& l = L[k]; const Point<ld>& p = l.p;
        const ld sc = std::max<ld>(std::max<ld>(1, fabsl(l.s) / (2 * E.Q)), fabsl(l.a12deg) / 180);
        for (int sv = 0; sv < 3; ++sv) {
          if (sv == 0 && !E.series) continue;
          const ld cond = std::max<ld>(std::max<ld>(1, fabsl(p.m12) / E.e.a), std::max(fabsl(p.M12), fabsl(p.M21)));     // growth of the Jacobi fields (> 1 on prolate ellipsoids)
          const ld tm = KM_m[sv] * tolpos(E, sv) * sc * cond, tM = KM_M[sv] * tolpos(E, sv) * sc * cond * kappa(E) / E.e.a, tS = tolS12(E, sv, sc, hypotl(p.r[0], p.r[1])); const char* svn = svname(sv);
          for (int form = 0; form < nforms; ++form) {
            Ctx::Case cs(ctx);
            DOut o = S.d(sv, form, l.arc, lat1, lon1, azi1, l.v); ++ncalls;
            auto key = [&](const char* k2) { return "e" + std::to_string(ei) + "/la" + std::to_string(li) + "/az" + std::to_string(ai) + "/L" + std::to_string(k) + "/" + svn + "/f" + std::to_string(form) + "/" + k2; };
            auto where = [&] { return E.name + " lat1=" + fx(lat1) + " lon1=179.5 azi1=" + fx(azi1) + (l.arc ? " a12=" : " s12=") + fx(l.v) + " " + svn + " form=" + std::to_string(form); };
            auto bad = [&](const char* kind, const std::string& msg) { ctx.fail(key(kind), where() + ": " + msg, {{"kind", kind}, {"ell", E.name}, {"solver", svn}, {"form", std::to_string(form)}, {"mode", l.arc ? "arc" : "dist"}}); };
            bool fin = true; for (double x : {o.m12, o.M12, o.M21, o.S12}) if (!std::isfinite(x) || x == SENT) fin = false;
            if (!fin) { bad("nonfinite", "m12=" + fmt(o.m12) + " M12=" + fmt(o.M12) + " M21=" + fmt(o.M21) + " S12=" + fmt(o.S12)); continue; }
            ld em = fabsl((ld)o.m12 - p.m12), e12 = fabsl((ld)o.M12 - p.M12), e21 = fabsl((ld)o.M21 - p.M21);
            ctx.worstf(std::string("direct.m12.err_over_tol.") + svn, (double)(em / tm), where);
            ctx.worstf(std::string("direct.M12.err_over_tol.") + svn, (double)(e12 / tM), where);
            ctx.worstf(std::string("direct.M21.err_over_tol.") + svn, (double)(e21 / tM), where);
            if (!(em <= tm)) bad("m12", "m12 " + fx(o.m12) + " true " + fmtl(p.m12) + " tol " + fmtl(tm));
            if (!(e12 <= tM)) bad("M12", "M12 " + fx(o.M12) + " true " + fmtl(p.M12) + " tol " + fmtl(tM));
            if (!(e21 <= tM)) bad("M21", "M21 " + fx(o.M21) + " true " + fmtl(p.M21) + " tol " + fmtl(tM));
            bool conv; ld eS = area_err(E, p, azi1, (double)((ld)o.lon2 - (ld)lon1), o.S12, conv, fabs(o.lat2) == 90);
            if (conv) ctx.count("direct.S12.meridional_or_pole_end_compared_by_convention");
            ctx.worstf(std::string("direct.S12.err_over_tol.") + svn, (double)(eS / tS), where);
            if (!(eS <= tS)) bad("S12", "S12 " + fx(o.S12) + " true " + fmtl(p.S12) + " (difference " + fmtl(eS) + " m^2, tol " + fmtl(tS) + ")");
            if (ctx.want_sample() && form == 0 && k + 1 == L.size()) ctx.sample(where() + " -> m12=" + fmt(o.m12) + " M12=" + fmt(o.M12) + " M21=" + fmt(o.M21) + " S12=" + fmt(o.S12) + " | oracle m12=" + fmtl(p.m12) + " S12=" + fmtl(p.S12));
          }
          // ---- addition rules at split points (points 1, 2, 3 on one geodesic; 2 at t s13)
          if (l.arc || fabsl(l.s) < 1e-4L * E.Q * 0.999L || fabsl(l.s) > 8.001L * E.Q) continue;
          const ld tm_ = tm, tM_ = tM;
          for (size_t ti = 0; ti < splits.size(); ++ti) {
            Ctx::Case cs(ctx);
            const double s13 = l.v, s12 = splits[ti] * s13, s23 = s13 - s12;
            DOut a = S.d(sv, 1, false, lat1, lon1, azi1, s12), c = S.d(sv, 1, false, lat1, lon1, azi1, s13);
            DOut b = S.d(sv, 0, false, a.lat2, a.lon2, a.azi2, s23); ncalls += 3;
            auto key = [&](const char* k2) { return "e" + std::to_string(ei) + "/la" + std::to_string(li) + "/az" + std::to_string(ai) + "/L" + std::to_string(k) + "/" + svn + "/t" + std::to_string(ti) + "/" + k2; };
            auto where = [&] { return E.name + " lat1=" + fx(lat1) + " azi1=" + fx(azi1) + " s13=" + fx(s13) + " t=" + fmt(splits[ti]) + " " + svn; };
            auto bad = [&](const char* kind, const std::string& msg) { ctx.fail(key(kind), where() + ": " + msg, {{"kind", kind}, {"ell", E.name}, {"solver", svn}}); };
            const ld m12 = a.m12, M12 = a.M12, M21 = a.M21, m23 = b.m12, M23 = b.M12, M32 = b.M21, m13 = c.m12, M13 = c.M12, M31 = c.M21;
            // split points outside [-0.3, 1.3] s13 make a segment longer than s13: the half-circuit factor follows the longest segment
            const ld tt = splits[ti], ft0 = std::max(fabsl(tt), fabsl(1 - tt)), ft = ft0 > 1.3L ? ft0 : 1;
            const ld tm = tm_ * ft, tM = tM_ * ft;
            // a13 = a12 + a23, S13 = S12 + S23
            ld ea = fabsl((ld)c.a12 - ((ld)a.a12 + (ld)b.a12)) * D * E.e.b;       // (b d sigma <= ds)
            ld tpos = 3 * tolpos(E, sv) * sc * ft;
            ctx.worstf(std::string("split.a13.err_over_tol.") + svn, (double)(ea / (tpos * std::max<ld>(1, E.e.b / E.e.a))), where);
            if (!(ea <= tpos * std::max<ld>(1, E.e.b / E.e.a))) bad("add-a13", "a13 " + fx(c.a12) + " != a12 + a23 = " + fx(a.a12) + " + " + fx(b.a12));
            if (!p.meridional) {
              ld eS = fabsl((ld)c.S12 - ((ld)a.S12 + (ld)b.S12));
              const ld tS3 = tolS12(E, sv, sc * ft, std::min(rho_of(E, a.lat2), rho_of(E, c.lat2)));
              ctx.worstf(std::string("split.S13.err_over_tol.") + svn, (double)(eS / (3 * tS3)), where);
              if (!(eS <= 3 * tS3)) bad("add-S13", "S13 " + fx(c.S12) + " != S12 + S23 = " + fx(a.S12) + " + " + fx(b.S12));
            }
            // m13 = m12 M23 + m23 M21
            ld rm = fabsl(m13 - (m12 * M23 + m23 * M21)), bm = tm * (1 + fabsl(M23) + fabsl(M21)) + tM * (fabsl(m12) + fabsl(m23));
            ctx.worstf(std::string("split.m13.err_over_tol.") + svn, (double)(rm / bm), where);
            if (!(rm <= bm)) bad("add-m13", "m13 " + fx(c.m12) + " != m12 M23 + m23 M21 = " + fmtl(m12 * M23 + m23 * M21));
            // M13 = M12 M23 - (1 - M12 M21) m23/m12 ;  M31 = M32 M21 - (1 - M23 M32) m12/m23
            if (fabsl(m12) > 1e-3L * E.e.a && fabsl(m23) > 1e-3L * E.e.a) {
              ld r1 = fabsl(M13 - (M12 * M23 - (1 - M12 * M21) * m23 / m12));
              ld b1 = tM * (1 + fabsl(M23) + fabsl(M12)) + tM * (fabsl(M21) + fabsl(M12)) * fabsl(m23 / m12) + fabsl(1 - M12 * M21) * (tm / fabsl(m12)) * (1 + fabsl(m23 / m12));
              ld r2 = fabsl(M31 - (M32 * M21 - (1 - M23 * M32) * m12 / m23));
              ld b2 = tM * (1 + fabsl(M21) + fabsl(M32)) + tM * (fabsl(M23) + fabsl(M32)) * fabsl(m12 / m23) + fabsl(1 - M23 * M32) * (tm / fabsl(m23)) * (1 + fabsl(m12 / m23));
              ctx.worstf(std::string("split.M13.err_over_tol.") + svn, (double)(r1 / b1), where);
              ctx.worstf(std::string("split.M31.err_over_tol.") + svn, (double)(r2 / b2), where);
              if (!(r1 <= b1)) bad("add-M13", "M13 " + fx(c.M12) + " != " + fmtl(M12 * M23 - (1 - M12 * M21) * m23 / m12));
              if (!(r2 <= b2)) bad("add-M31", "M31 " + fx(c.M21) + " != " + fmtl(M32 * M21 - (1 - M23 * M32) * m12 / m23));
            } else ctx.count("split.M_rules_skipped_small_m");
          }
        }
      }
    }
  }

  // =========================================================================================== inverse
  ctx.sub("inverse");
  ctx.bound("inverse.pairs", T ? "the C02 pair lattice (models/geod_lattice.hpp: grid 13500 from 3 anchor meridians + astroid 25x25 and strip from 10 base latitudes 7150 + short 2464 + equatorial 45) per ellipsoid, 33 ellipsoids"
                               : "the C02 pair lattice with the 5x5 astroid grid, 8 ellipsoids");
  ctx.bound("inverse.config", "{series, exact, exact=true} x {GenInverse, InverseLine + GenPosition(Distance())}; ends swapped for the reversal rules; midpoint M of the returned geodesic: S12(A,B) = S12(A,M) + S12(M,B) from three GenInverse calls");
  for (size_t ei = 0; ei < ells.size(); ++ei) {
    const geodtab::Ell& E = ells[ei];
    if (!T && !E.quick) continue;
    const std::vector<geodlat::Pair> pairs = geodlat::inverse_pairs(E, T ? 1 : 0);
    for (size_t pi = 0; pi < pairs.size(); ++pi) {
      if (!ctx.take()) continue;
      Solvers S; S.make(E);                 // fresh objects in every unit
      const geodlat::Pair& P = pairs[pi];
      const bool pole1 = fabs(P.lat1) == 90, pole2 = fabs(P.lat2) == 90;
      const ld l12 = fabsl(remainderl((ld)P.lon2 - (ld)P.lon1, 360.0L));
      const bool antilat = Math::AngRound(P.lat1) == -Math::AngRound(P.lat2) && !pole1, lon180 = l12 == 180 && !pole1 && !pole2;   // rounded: see C02
      const bool freeazi = (pole1 && pole2 && P.lat1 == -P.lat2) || (E.f == 0 && P.lat1 == -P.lat2 && l12 == 180);
      for (int sv = 0; sv < 3; ++sv) {
        if (sv == 0 && !E.series) continue;
        ld tm = KM_m[sv] * tolpos(E, sv), tM = KM_M[sv] * tolpos(E, sv) * kappa(E) / E.e.a; const ld tS = tolS12(E, sv, 1, std::min(rho_of(E, P.lat1), rho_of(E, P.lat2))); const char* svn = svname(sv);
        IOut base;
        for (int form = 0; form < 2; ++form) {
          Ctx::Case cs(ctx);
          IOut R = S.i(sv, form, P.lat1, P.lon1, P.lat2, P.lon2); ++ncalls;
          if (form == 0) base = R;
          auto key = [&](const char* k2) { return "e" + std::to_string(ei) + "/p" + std::to_string(pi) + "/" + svn + "/f" + std::to_string(form) + "/" + k2; };
          auto where = [&] { return E.name + " " + fx(P.lat1) + " " + fx(P.lon1) + " " + fx(P.lat2) + " " + fx(P.lon2) + " fam=" + P.fam + " " + svn + (form ? " InverseLine" : " Inverse"); };
          auto bad = [&](const char* kind, const std::string& msg) {
            char inp[160]; snprintf(inp, sizeof inp, "%.12g %.12g %.12g %.12g", P.lat1, P.lon1, P.lat2, P.lon2);
            const bool nearanti = R.a12 >= 179.9 || l12 >= 179.9L;
            ctx.fail(key((std::string(kind) + ":" + msg.substr(0, 3)).c_str()), where() + ": " + msg, {{"kind", kind}, {"ell", E.name}, {"solver", svn}, {"family", std::string(1, P.fam)}, {"input", inp}, {"regime", geodlat::pair_regime(E, P, R.a12)}, {"form", form ? "InverseLine" : "Inverse"}});
          };
          bool fin = true; for (double x : {R.s12, R.azi1, R.azi2, R.m12, R.M12, R.M21, R.S12}) if (!std::isfinite(x) || x == SENT) fin = false;
          if (!fin) { bad("nonfinite", "m12=" + fmt(R.m12) + " M12=" + fmt(R.M12) + " M21=" + fmt(R.M21) + " S12=" + fmt(R.S12)); continue; }
          // the quantities of the geodesic the library returned: follow (azi1, s12) with the oracle
          Traj<ld> tf(E.e, 30, 1e-22L, 1.0L, true); tf.init(P.lat1, R.azi1); tf.advance((ld)R.s12 / E.e.a); Point<ld> p = tf.point(); ++ntraj;
          { ld cond = std::max<ld>(std::max<ld>(1, fabsl(p.m12) / E.e.a), std::max(fabsl(p.M12), fabsl(p.M21))); tm = KM_m[sv] * tolpos(E, sv) * cond; tM = KM_M[sv] * tolpos(E, sv) * cond * kappa(E) / E.e.a; }
          ld em = fabsl((ld)R.m12 - p.m12), e12 = fabsl((ld)R.M12 - p.M12), e21 = fabsl((ld)R.M21 - p.M21);
          ctx.worstf(std::string("inverse.m12.err_over_tol.") + svn, (double)(em / tm), where);
          ctx.worstf(std::string("inverse.M12.err_over_tol.") + svn, (double)(e12 / tM), where);
          ctx.worstf(std::string("inverse.M21.err_over_tol.") + svn, (double)(e21 / tM), where);
          // nearly antipodal pairs: an excess of up to 128 x the bound is classed separately (known_findings.d/C03.json: the exact
          // solver's s12 is off by up to 2.5 um there, and m12, M12, M21 follow)
          const bool nearanti = R.a12 >= 179.9 || l12 >= 179.9L;
          auto acc = [&](const char* kind, ld err, ld tol) { return (nearanti && err <= 128 * tol) ? "antipodal-accuracy" : kind; };
          if (!(em <= tm)) bad(acc("m12", em, tm), "m12 " + fx(R.m12) + " true " + fmtl(p.m12) + " tol " + fmtl(tm));
          if (!(e12 <= tM)) bad(acc("M12", e12, tM), "M12 " + fx(R.M12) + " true " + fmtl(p.M12) + " tol " + fmtl(tM));
          if (!(e21 <= tM)) bad(acc("M21", e21, tM), "M21 " + fx(R.M21) + " true " + fmtl(p.M21) + " tol " + fmtl(tM));
          if (!freeazi) {
            bool conv; ld eS = area_err(E, p, R.azi1, (double)((ld)R.lon2 - (ld)P.lon1), R.S12, conv, pole2);
            if (conv) ctx.count("inverse.S12.meridional_or_pole_end_compared_by_convention");
            ctx.worstf(std::string("inverse.S12.err_over_tol.") + svn, (double)(eS / tS), where);
            if (!(eS <= tS)) bad(acc("S12", eS, tS), "S12 " + fx(R.S12) + " true " + fmtl(p.S12) + " (difference " + fmtl(eS) + " m^2, tol " + fmtl(tS) + ")");
          } else ctx.count("inverse.S12.skipped_free_azimuth");
          if (ctx.want_sample() && form == 0 && P.fam == 'a') ctx.sample(where() + " -> m12=" + fmt(R.m12) + " M12=" + fmt(R.M12) + " S12=" + fmt(R.S12) + " | oracle m12=" + fmtl(p.m12) + " S12=" + fmtl(p.S12));
        }
        // ---- midpoint additivity, oracle-free and well conditioned: the end points are given exactly, so S12(A,B) is well defined even
        //      next to a pole.  M = midpoint of the returned geodesic (InverseLine + Position(s12/2)); S12(A,B) = S12(A,M) + S12(M,B),
        //      all three from GenInverse.  The meridian of M cancels; what remains is the sliver A-M-B (M is within the position bound
        //      of the geodesic: area <= s12 tolpos / 2) and the conditioning at M alone (c2 tolpos / rho(M)).
        if (l12 != 180) {
          Ctx::Case cs(ctx);
          double laM = SENT, loM = SENT; S.mid(sv, P.lat1, P.lon1, P.lat2, P.lon2, laM, loM);
          IOut a = S.i(sv, 0, P.lat1, P.lon1, laM, loM), b = S.i(sv, 0, laM, loM, P.lat2, P.lon2); ncalls += 3;
          const ld tp = tolpos(E, sv), rM = rho_of(E, laM);
          const ld tl = 3 * tolarea(E, sv) + E.e.c2() * (rM > tp / 6.3L ? tp / rM : 6.3L) + fabsl((ld)base.s12) * tp / 2;
          ld e = fabsl((ld)base.S12 - ((ld)a.S12 + (ld)b.S12));
          auto where = [&] { return E.name + " " + fx(P.lat1) + " " + fx(P.lon1) + " " + fx(P.lat2) + " " + fx(P.lon2) + " fam=" + P.fam + " " + svn + " M=(" + fx(laM) + "," + fx(loM) + ")"; };
          if (!std::isfinite((double)e)) e = INFINITY;
          ctx.worstf(std::string("midpoint.S12.err_over_tol.") + svn, (double)(e / tl), where);
          if (!(e <= tl)) {
            char inp[160]; snprintf(inp, sizeof inp, "%.12g %.12g %.12g %.12g", P.lat1, P.lon1, P.lat2, P.lon2);
            const bool nearanti = base.a12 >= 179.9 || l12 >= 179.9L;
            ctx.fail("e" + std::to_string(ei) + "/p" + std::to_string(pi) + "/" + svn + "/midS12", where() + ": S12(A,B) = " + fx(base.S12) + " but S12(A,M) + S12(M,B) = " + fx(a.S12) + " + " + fx(b.S12) + " (difference " + fmtl(e) + " m^2, tol " + fmtl(tl) + ")",
                     {{"kind", (nearanti && e <= 128 * tl) ? "antipodal-accuracy" : "midpoint-S12"}, {"ell", E.name}, {"solver", svn}, {"family", std::string(1, P.fam)}, {"input", inp}, {"regime", geodlat::pair_regime(E, P, base.a12)}});
          }
        } else ctx.count("midpoint.skipped_lon12_180");
        // ---- reversal: m12 unchanged, M12 <-> M21, S12 negated (documented alternatives where the geodesic is not unique)
        {
          Ctx::Case cs(ctx);
          IOut V = S.i(sv, 0, P.lat2, P.lon2, P.lat1, P.lon1); ++ncalls;
          auto where = [&] { return E.name + " " + fx(P.lat1) + " " + fx(P.lon1) + " " + fx(P.lat2) + " " + fx(P.lon2) + " fam=" + P.fam + " " + svn; };
          ld em = fabsl((ld)V.m12 - base.m12) / (2 * tm);
          ld eM = std::max(fabsl((ld)V.M12 - base.M21), fabsl((ld)V.M21 - base.M12)) / (2 * tM);
          if (antilat) eM = std::min(eM, std::max(fabsl((ld)V.M12 - base.M12), fabsl((ld)V.M21 - base.M21)) / (2 * tM));
          ld eS = fabsl((ld)V.S12 + base.S12) / (2 * tS);
          if (antilat || lon180) eS = std::min(eS, fabsl((ld)V.S12 - base.S12) / (2 * tS));
          if (freeazi) eS = 0;
          ctx.worstf(std::string("reversal.m12.err_over_tol.") + svn, (double)em, where);
          ctx.worstf(std::string("reversal.M.err_over_tol.") + svn, (double)eM, where);
          ctx.worstf(std::string("reversal.S12.err_over_tol.") + svn, (double)eS, where);
          ld e = std::max(em, std::max(eM, eS));
          if (!(e <= 1)) {
            char inp[160]; snprintf(inp, sizeof inp, "%.12g %.12g %.12g %.12g", P.lat1, P.lon1, P.lat2, P.lon2);
            ctx.fail("e" + std::to_string(ei) + "/p" + std::to_string(pi) + "/" + svn + "/reversal", where() + ": reversed segment m12=" + fx(V.m12) + " M12=" + fx(V.M12) + " M21=" + fx(V.M21) + " S12=" + fx(V.S12) + " vs forward m12=" + fx(base.m12) + " M12=" + fx(base.M12) + " M21=" + fx(base.M21) + " S12=" + fx(base.S12),
                     {{"kind", em > 1 ? "reversal-m12" : (eM > 1 ? "reversal-M" : "reversal-S12")}, {"ell", E.name}, {"solver", svn}, {"family", std::string(1, P.fam)}, {"input", inp}, {"regime", geodlat::pair_regime(E, P, base.a12)}});
          }
        }
      }
    }
  }

  // =========================================================================================== polygons
  ctx.sub("polygon");
  ctx.bound("polygon.points", T ? "lat in {-50, 10, 65} x lon in {-170, -60, 20, 130} + lat 35 x lon in {-125, -15, 65, 155} (16 points; no edge nearly antipodal; edges straddle +-180; pole-enclosing polygons included)"
                                : "lat in {-50, 10} x lon in {-170, -60, 20, 130} (8 points; edges straddle +-180; pole-enclosing polygons included)");
  ctx.bound("polygon.space", T ? "all 560 triangles and all 1820 4-subsets as quadrilaterals, both orientations, per ellipsoid (33) and solver" : "all 56 triangles of the first 8 points, both orientations, per ellipsoid (8) and solver");
  for (size_t ei = 0; ei < ells.size(); ++ei) {
    const geodtab::Ell& E = ells[ei];
    if (!T && !E.quick) continue;
    for (int sv = 0; sv < 3; ++sv) {
      if (sv == 0 && !E.series) continue;
      if (!ctx.take()) continue;
      Solvers S; S.make(E);
      const char* svn = svname(sv); const ld tS = tolarea(E, sv), A0 = E.e.area(), P2 = geod_ode::pi<ld>();
      // EllipsoidArea against the closed form
      {
        Ctx::Case cs(ctx);
        double A = S.area(sv); double u = mc::err_ulps(A, A0);
        ctx.worst(std::string("EllipsoidArea.ulps.") + svn, u, E.name);
        if (!(u <= 4)) ctx.fail("e" + std::to_string(ei) + "/" + svn + "/area", E.name + " " + svn + ": EllipsoidArea " + fx(A) + " closed form " + fmtl(A0), {{"kind", "EllipsoidArea"}, {"ell", E.name}, {"solver", svn}});
      }
      std::vector<geodlat::Pt> pts;
      for (double la : {-50.0, 10.0, 65.0}) for (double lo : {-170.0, -60.0, 20.0, 130.0}) pts.push_back({la, lo});
      if (!T) pts.resize(8);
      else for (double lo : {-125.0, -15.0, 65.0, 155.0}) pts.push_back({35.0, lo});
      const size_t n = pts.size();
      std::vector<double> Sl(n * n, 0); std::vector<ld> So(n * n, 0), xyz(3 * n);
      for (size_t i = 0; i < n; ++i) { ld N[3], Ev[3]; E.e.frame(pts[i].lat, pts[i].lon, &xyz[3 * i], N, Ev); }
      for (size_t i = 0; i < n; ++i) for (size_t j = 0; j < n; ++j) if (i != j) {
        Ctx::Case cs(ctx);
        IOut R = S.i(sv, 0, pts[i].lat, pts[i].lon, pts[j].lat, pts[j].lon); ++ncalls;
        Traj<ld> tf(E.e, 30, 1e-22L, 1.0L, true); tf.init(pts[i].lat, R.azi1); tf.advance((ld)R.s12 / E.e.a); Point<ld> p = tf.point(); ++ntraj;
        Sl[i * n + j] = R.S12; So[i * n + j] = p.S12;
      }
      auto polygon = [&](const std::vector<size_t>& v, const std::string& id) {
        Ctx::Case cs(ctx);
        ld sl = 0, so = 0; for (size_t q = 0; q < v.size(); ++q) { size_t i = v[q], j = v[(q + 1) % v.size()]; sl += Sl[i * n + j]; so += So[i * n + j]; }
        ld ref = -so; std::string how = "sum of oracle edge areas";
        if (E.f == 0 && v.size() == 3) {                       // sphere: solid angle of the triangle (Van Oosterom-Strackee), independent closed form
          const ld *a = &xyz[3 * v[0]], *b = &xyz[3 * v[1]], *c = &xyz[3 * v[2]];
          ld det = a[0] * (b[1] * c[2] - b[2] * c[1]) - a[1] * (b[0] * c[2] - b[2] * c[0]) + a[2] * (b[0] * c[1] - b[1] * c[0]);
          ld den = 1 + (a[0] * b[0] + a[1] * b[1] + a[2] * b[2]) + (b[0] * c[0] + b[1] * c[1] + b[2] * c[2]) + (c[0] * a[0] + c[1] * a[1] + c[2] * a[2]);
          ref = 2 * atan2l(det, den) * E.e.a * E.e.a; how = "spherical solid-angle formula";
        }
        // area (counter-clockwise positive) = -sum S12  modulo half the ellipsoid area
        ld tl = 0; for (size_t q = 0; q < v.size(); ++q) tl += tolS12(E, sv, 1, std::min(rho_of(E, pts[v[q]].lat), rho_of(E, pts[v[(q + 1) % v.size()]].lat)));
        ld d = fabsl(remainderl(-sl - ref, A0 / 2));
        ctx.worstf(std::string("polygon.closure.err_over_tol.") + svn, (double)(d / tl), [&] { return E.name + " polygon " + id; });
        if (!(d <= tl)) ctx.fail("e" + std::to_string(ei) + "/" + svn + "/poly" + id, E.name + " " + svn + " polygon " + id + ": -sum S12 = " + fmtl(-sl) + " but area (" + how + ") = " + fmtl(ref) + " modulo " + fmtl(A0 / 2), {{"kind", "polygon"}, {"ell", E.name}, {"solver", svn}});
        // orientation reversal negates the sum
        ld sr = 0; for (size_t q = 0; q < v.size(); ++q) { size_t i = v[(q + 1) % v.size()], j = v[q]; sr += Sl[i * n + j]; }
        ld dr = fabsl(sl + sr);
        ctx.worstf(std::string("polygon.reversal.err_over_tol.") + svn, (double)(dr / (2 * tl)), [&] { return E.name + " polygon " + id; });
        if (!(dr <= 2 * tl)) ctx.fail("e" + std::to_string(ei) + "/" + svn + "/polyrev" + id, E.name + " " + svn + " polygon " + id + ": sum S12 " + fmtl(sl) + " reversed " + fmtl(sr), {{"kind", "polygon-reversal"}, {"ell", E.name}, {"solver", svn}});
      };
      for (size_t i = 0; i < n; ++i) for (size_t j = i + 1; j < n; ++j) for (size_t k = j + 1; k < n; ++k) {
        polygon({i, j, k}, std::to_string(i) + "-" + std::to_string(j) + "-" + std::to_string(k));
        if (T) for (size_t m = k + 1; m < n; ++m) polygon({i, j, k, m}, std::to_string(i) + "-" + std::to_string(j) + "-" + std::to_string(k) + "-" + std::to_string(m));
      }
    }
  }
  // =========================================================================================== DST table rows
  // GeodesicExact chooses the number of DST terms of the area integral from a table narr[] indexed by the third flattening n in steps
  // of 0.01 (row j = 100 + ceil(100 n) for n > 0, 100 + floor(100 n) for n < 0, 100 for n = 0).  TABLE-ROW COVERAGE: one ellipsoid at the
  // middle of every row the ODE oracle reaches (|n| <= 0.94, i.e. 1/32 < b/a < 32), generic geodesics (neither meridional nor equatorial),
  // S12 of direct / line / inverse judged against the area oracle with the S12 bound used everywhere else in this check.
  ctx.sub("dst-rows");
  ctx.bound("dst-rows.rows", "n = 0 and n = +-(k - 0.5)/100 for k = 1..94 (189 of the 201 rows of narr[]; quarter meridian 1e7 m), both tiers");
  ctx.bound("dst-rows.geodesics", T ? "(lat1, azi1, s12/Q) in {(20,5,0.7), (-35,40,1.3), (50,100,0.5), (-10,170,1.6), (-60,2,1.9), (5,-75,1.0)} x {exact, exact=true, series if |f|<=0.2} x {GenDirect, Line+GenPosition, Inverse of the end point}"
                                       : "(lat1, azi1, s12/Q) in {(20,5,0.7), (-35,40,1.3)} x {exact, exact=true, series if |f|<=0.2} x {GenDirect, Line+GenPosition, Inverse of the end point}");
  for (int k = 95; k <= 100; ++k) { ctx.list("dst-rows.not_covered", "n in (" + fmt((k - 1) / 100.0) + "," + fmt(k / 100.0) + "] and its negative: b/a beyond the reach of the ODE oracle"); }
  {
    struct G { double lat1, azi1, sq; };
    const std::vector<G> gs = T ? std::vector<G>{{20, 5, 0.7}, {-35, 40, 1.3}, {50, 100, 0.5}, {-10, 170, 1.6}, {-60, 2, 1.9}, {5, -75, 1.0}} : std::vector<G>{{20, 5, 0.7}, {-35, 40, 1.3}};
    for (int row = -94; row <= 94; ++row) {
      if (!ctx.take()) continue;
      const double n = row == 0 ? 0.0 : (row > 0 ? (row - 0.5) / 100 : (row + 0.5) / 100), f = 2 * n / (1 + n);
      geodtab::Ell E; { char nm[64]; snprintf(nm, sizeof nm, "n=%.3f", n); E.name = nm; }
      { geod_ode::Ellipsoid<ld> e1(1.0, f); E.a = (double)(1e7L / e1.quarter_meridian()); }
      E.f = f; E.quick = true; E.series = std::fabs(f) <= 0.2; E.e = geod_ode::Ellipsoid<ld>(E.a, f); E.Q = E.e.quarter_meridian();
      Solvers S; S.make(E);
      for (size_t gi = 0; gi < gs.size(); ++gi) {
        const double lat1 = gs[gi].lat1, azi1 = gs[gi].azi1, s12 = gs[gi].sq * (double)E.Q, lon1g = 33.25;
        Point<ld> p = geod_ode::follow<ld>(E.e, lat1, azi1, (ld)s12, true); ++ntraj;
        const ld a12deg = geod_ode::dist_to_arc<ld>(E.e, p) / D;
        const ld sc = std::max<ld>(std::max<ld>(1, fabsl((ld)s12) / (2 * E.Q)), fabsl(a12deg) / 180);
        for (int sv = 0; sv < 3; ++sv) {
          if (sv == 0 && !E.series) continue;
          const ld tS = tolS12(E, sv, sc, hypotl(p.r[0], p.r[1])); const char* svn = svname(sv);
          for (int form = 0; form < 3; ++form) {
            Ctx::Case cs(ctx);
            double Sl; bool conv = false; ld eS;
            if (form < 2) { DOut o = S.d(sv, form, false, lat1, lon1g, azi1, s12); ++ncalls; Sl = o.S12; eS = area_err(E, p, azi1, (double)((ld)o.lon2 - (ld)lon1g), o.S12, conv, fabs(o.lat2) == 90); }
            else {
              // inverse between the start and the library's own end point; compared with the oracle along the returned geodesic
              DOut o = S.d(sv, 0, false, lat1, lon1g, azi1, s12); IOut R = S.i(sv, 0, lat1, lon1g, o.lat2, o.lon2); ncalls += 2; Sl = R.S12;
              if (R.a12 > 179) { ctx.count("dst-rows.inverse_skipped_not_the_same_geodesic"); continue; }
              Point<ld> q = geod_ode::follow<ld>(E.e, lat1, R.azi1, (ld)R.s12, true); ++ntraj;
              eS = area_err(E, q, R.azi1, (double)((ld)o.lon2 - (ld)lon1g), R.S12, conv, fabs(o.lat2) == 90);
            }
            auto where = [&] { return E.name + " f=" + fx(f) + " a=" + fx(E.a) + " lat1=" + fmt(lat1) + " azi1=" + fmt(azi1) + " s12=" + fx(s12) + " " + svn + " form=" + std::to_string(form); };
            ctx.worstf(std::string("dst-rows.S12.err_over_tol.") + svn, (double)(eS / tS), where);
            if (!(eS <= tS)) ctx.fail("row" + std::to_string(row) + "/g" + std::to_string(gi) + "/" + svn + "/f" + std::to_string(form), where() + ": S12 " + fx(Sl) + " true " + fmtl(p.S12) + " (difference " + fmtl(eS) + " m^2, tol " + fmtl(tS) + ")",
                                     {{"kind", "S12-row"}, {"ell", E.name}, {"solver", svn}, {"form", std::to_string(form)}});
          }
        }
      }
    }
  }
  ctx.count("calls", ncalls); ctx.count("oracle_trajectories", ntraj);
  return ctx.finish();
}
