// models/geod_lattice.hpp -- the input lattices shared by C01, C02 and C03 (DESIGN.md section 3).  Every value is
// chosen from the branch structure of Geodesic.cpp / GeodesicLine.cpp (and the Exact twins): AngRound threshold 1/16,
// tiny_ at the poles, signed zeros, the meridional / equatorial / short-line / astroid / bisection cases of GenInverse.
#pragma once
#include "models/geod_tables.hpp"
#include <vector>
#include <cmath>

namespace geodlat {

// ---------------------------------------------------------------- direct problem (C01, C03)
inline std::vector<double> direct_lats() {
  return {-90, -90 + 1e-9, -60, -1 / 32.0, -1e-20, -0.0, 0.0, std::nextafter(1 / 16.0, 0.0), 1 / 16.0, 30, 45, 89.9, 90};
}
inline std::vector<double> direct_azis() { return {0.0, -0.0, 1e-17, 1 / 32.0, 30, 45, 90 - 1e-12, 90, 135, 180, -180, 270, 10000}; }
inline std::vector<double> direct_lons() { return {0, 179.5, -180, 540}; }
struct LSpec { bool arc; double v; bool quick; };          // distances in units of the quarter meridian, arcs in degrees
inline std::vector<LSpec> direct_lengths() {
  return {
    {false, 0, true}, {false, 1e-10, true}, {false, -1e-10, false}, {false, 1e-4, false}, {false, -1e-4, true},
    {false, 0.5, false}, {false, -0.5, true}, {false, 1, true}, {false, -1, false}, {false, 2, false}, {false, -2, true},
    {false, 2 * (1 + 5e-8), true}, {false, -2 * (1 + 5e-8), false}, {false, 8, true}, {false, -8, false}, {false, 29.2, false}, {false, -29.2, true},
    {true, 0, false}, {true, 1e-9, true}, {true, -1e-9, false}, {true, 30, false}, {true, -30, true}, {true, 90, true}, {true, -90, false},
    {true, 180, true}, {true, -180, false}, {true, 360, false}, {true, -360, true}, {true, 720.5, true}, {true, -720.5, false}};
}
inline const char* direct_lat_text() { return "{-90,-90+1e-9,-60,-1/32,-1e-20,-0,+0,1/16-ulp,1/16,30,45,89.9,90} (13)"; }
inline const char* direct_azi_text() { return "{0,-0,1e-17,1/32,30,45,90-1e-12,90,135,180,-180,270,10000} (13)"; }
inline const char* direct_len_text(bool T) {
  return T ? "s12/Q in {0,+-1e-10,+-1e-4,+-0.5,+-1,+-2,+-2(1+5e-8),+-8,+-29.2} (17), a12 in {0,+-1e-9,+-30,+-90,+-180,+-360,+-720.5} deg (13)"
           : "s12/Q in {0,1e-10,-1e-4,-0.5,1,-2,2(1+5e-8),8,-29.2} (9), a12 in {1e-9,-30,90,180,-360,720.5} deg (6)";
}

// ---------------------------------------------------------------- inverse problem (C02, C03)
struct Pt { double lat, lon; };
struct Pair { double lat1, lon1, lat2, lon2; char fam; };   // fam: g grid, a astroid, s short, e equatorial

inline std::vector<double> grid_lats() { return {-90, -89.9999, -45, -1 / 32.0, 0, 30, 45.5, 89.999999, 90}; }
inline std::vector<double> grid_lons() { return {0, 1e-12, 1, 90, 179, 179.5, 179.99, 180 - 1e-9, 180, -180, 181, 360.5}; }

// antipodal neighbourhood of (lat1, 0): (x, y) in units of the astroid scales  f pi cos(beta1)  and  f pi cos^2(beta1)
inline Pt astroid_point(const geodtab::Ell& E, double lat1, double x, double y) {
  double f1 = 1 - E.f, phi = lat1 * M_PI / 180, bet = std::atan2(f1 * std::sin(phi), std::cos(phi)), cb = std::cos(bet);
  double af = std::fabs(E.f) > 1e-6 ? std::fabs(E.f) : 1e-6;                // the sphere gets a token neighbourhood
  double lamscale = af * cb * 180, betscale = lamscale * cb;
  Pt p; p.lat = -lat1 + y * betscale; p.lon = 180 + x * lamscale;
  if (p.lat > 90) p.lat = 90; if (p.lat < -90) p.lat = -90;
  return p;
}

inline std::vector<Pair> inverse_pairs(const geodtab::Ell& E, bool T) {
  std::vector<Pair> v;
  // (a) + (e) generic grid from the anchor meridian lon1 = 0 (contains the meridional pairs lon12 in {0, 180, -180})
  for (double la1 : grid_lats()) for (double la2 : grid_lats()) for (double lo2 : grid_lons()) v.push_back({la1, 0, la2, lo2, 'g'});
  // (b) astroid grid
  const double eps = std::ldexp(1.0, -52), tol1 = 200 * eps, xthresh = 1000 * std::sqrt(eps);
  std::vector<double> xs, ys;
  int n = T ? 9 : 5;
  for (int i = 0; i < n; ++i) { xs.push_back(-2.5 + 3.0 * i / (n - 1)); ys.push_back(-1.5 + 3.0 * i / (n - 1)); }
  for (double la1 : {-0.5, -30.0, -60.0, -89.0}) {
    for (double x : xs) for (double y : ys) { Pt p = astroid_point(E, la1, x, y); v.push_back({la1, 0, p.lat, p.lon, 'a'}); }
    for (double x : {-1 - xthresh / 2, -1 + xthresh / 2}) for (double y : {0.0, tol1 / 2, -tol1 / 2}) { Pt p = astroid_point(E, la1, x, y); v.push_back({la1, 0, p.lat, p.lon, 'a'}); }
  }
  // (c) short lines: 8 compass offsets x separations from 5 bases
  const double R = E.a;
  for (Pt b : {Pt{0, 0}, Pt{30, 0}, Pt{-45.5, 100}, Pt{90 - 1e-7, 0}, Pt{-89.9, 179.9999}})
    for (int k = 0; k < 8; ++k) for (double s : {0.0, 1e-9, 3e-8, 1e-7, 1e-6, 1e-3, 1.0, 1e3}) {
      double th = k * M_PI / 4, c = std::cos(b.lat * M_PI / 180);
      double dlat = s * std::cos(th) / R * 180 / M_PI, dlon = s * std::sin(th) / (R * (c > 1e-12 ? c : 1e-12)) * 180 / M_PI;
      double la2 = b.lat + dlat; if (la2 > 90) la2 = 90; if (la2 < -90) la2 = -90;
      v.push_back({b.lat, b.lon, la2, b.lon + dlon, 's'});
    }
  // (d) equatorial pairs around the end of the equatorial regime lon12 = (1-f) 180
  for (double d : {0.0, 1e-9, -1e-9, 1e-3, -1e-3}) v.push_back({0, 0, 0, (1 - E.f) * 180 + d, 'e'});
  v.push_back({0, 0, 0, 179.9, 'e'}); v.push_back({0, 0, 0, 180, 'e'}); v.push_back({-0.0, 0, 0.0, 179.5, 'e'});
  return v;
}

// point set for the metric check over all ordered pairs and all triples
inline std::vector<Pt> metric_points(const geodtab::Ell& E, bool T) {
  std::vector<Pt> v;
  for (double la : grid_lats()) for (double lo : {0.0, 1.0, 90.0, 179.0, 179.99, 181.0}) v.push_back({la, lo});
  for (double la1 : {-30.0, -60.0}) for (double x : {-2.0, -1.0, 0.0}) for (double y : {-1.0, 0.0, 1.0}) v.push_back(astroid_point(E, la1, x, y));
  for (int k = 0; k < 8; ++k) { double th = k * M_PI / 4; v.push_back({30 + std::cos(th) / E.a * 180 / M_PI, std::sin(th) / (E.a * std::cos(M_PI / 6)) * 180 / M_PI}); }
  v.push_back({0, (1 - E.f) * 180 - 1e-3}); v.push_back({0, (1 - E.f) * 180 + 1e-3});
  v.push_back({30, 360}); v.push_back({-45, -359});                          // coincident with (30,0) and (-45,1)
  if (!T) { std::vector<Pt> w; for (size_t i = 0; i < v.size(); i += 2) w.push_back(v[i]); w.push_back({30, 360}); return w; }
  return v;
}

}  // namespace geodlat
