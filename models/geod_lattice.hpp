// models/geod_lattice.hpp -- the input lattices shared by C01, C02 and C03 (DESIGN.md section 3).  Every value is
// chosen from the branch structure of Geodesic.cpp / GeodesicLine.cpp (and the Exact twins): AngRound threshold 1/16,
// tiny_ at the poles, signed zeros, the meridional / equatorial / short-line / astroid / bisection cases of GenInverse.
#pragma once
#include "models/geod_tables.hpp"
#include <vector>
#include <cmath>

namespace geodlat {

// ---------------------------------------------------------------- direct problem (C01, C03)
// T = thorough tier.  The quick lists are prefixes of the thorough ones (quick is a sub-lattice).
inline std::vector<double> direct_lats(bool T = false) {
  std::vector<double> v = {-90, -90 + 1e-9, -60, -1 / 32.0, -1e-20, -0.0, 0.0, std::nextafter(1 / 16.0, 0.0), 1 / 16.0, 30, 45, 89.9, 90};
  // thorough: both sides of the AngRound threshold on the other hemisphere, the cbet1 < -sbet1 switch at 45, tiny_ side of the poles
  if (T) for (double x : {-89.9, -45.0, -1 / 16.0, 1e-9, std::nextafter(1 / 16.0, 1.0), 60.0, 89.9999999, 90 - 1e-13, -75.0, -std::nextafter(1 / 16.0, 0.0), 5e-324, 15.0}) v.push_back(x);
  return v;
}
inline std::vector<double> direct_azis(bool T = false) {
  std::vector<double> v = {0.0, -0.0, 1e-17, 1 / 32.0, 30, 45, 90 - 1e-12, 90, 135, 180, -180, 270, 10000};
  // thorough: AngRound threshold 1/16, the other side of 90 and 180, all quadrants, a large negative multiple turn
  if (T) for (double x : {-1 / 32.0, 1 / 16.0, 60.0, 90 + 1e-12, 120.0, 180 - 1e-10, -135.0, -7245.5, -90.0, 1e-300, 179.999999999999, -45.5}) v.push_back(x);
  return v;
}
inline std::vector<double> direct_lons(bool T = false) {
  std::vector<double> v = {0, 179.5, -180, 540};
  if (T) for (double x : {-0.0, 1e-13, -359.5, 89.99999999999999}) v.push_back(x);
  return v;
}
struct LSpec { bool arc; double v; bool quick; };          // distances in units of the quarter meridian, arcs in degrees
inline std::vector<LSpec> direct_lengths(bool T = false) {
  std::vector<LSpec> v = {
    {false, 0, true}, {false, 1e-10, true}, {false, -1e-10, false}, {false, 1e-4, false}, {false, -1e-4, true},
    {false, 0.5, false}, {false, -0.5, true}, {false, 1, true}, {false, -1, false}, {false, 2, false}, {false, -2, true},
    {false, 2 * (1 + 5e-8), true}, {false, -2 * (1 + 5e-8), false}, {false, 8, true}, {false, -8, false}, {false, 29.2, false}, {false, -29.2, true},
    {true, 0, false}, {true, 1e-9, true}, {true, -1e-9, false}, {true, 30, false}, {true, -30, true}, {true, 90, true}, {true, -90, false},
    {true, 180, true}, {true, -180, false}, {true, 360, false}, {true, -360, true}, {true, 720.5, true}, {true, -720.5, false}};
  if (T) {
    // second level: 1e-7 Q (1 m), the half-way points of the first level, one full circuit and just beyond, 16.5 Q;
    // arcs on both sides of 90 and 180 (cbet2 == 0 / csig12 <= 0 switches), 270, 540, 1 arc second
    for (double x : {1e-7, 0.01, 0.25, 1.5, 3.0, 4.0, 4 * (1 + 1e-9), 16.5}) { v.push_back({false, x, false}); v.push_back({false, -x, false}); }
    for (double x : {1 / 3600.0, 45.0, 90 - 1e-7, 90 + 1e-7, 180 - 1e-7, 180 + 1e-7, 270.0, 540.0}) { v.push_back({true, x, false}); v.push_back({true, -x, false}); }
  }
  return v;
}
inline const char* direct_lat_text(bool T = false) {
  return T ? "{-90,-90+1e-9,-60,-1/32,-1e-20,-0,+0,1/16-ulp,1/16,30,45,89.9,90} + {-89.9,-75,-45,-1/16,-(1/16-ulp),5e-324,1e-9,1/16+ulp,15,60,89.9999999,90-1e-13} (25)"
           : "{-90,-90+1e-9,-60,-1/32,-1e-20,-0,+0,1/16-ulp,1/16,30,45,89.9,90} (13)";
}
inline const char* direct_azi_text(bool T = false) {
  return T ? "{0,-0,1e-17,1/32,30,45,90-1e-12,90,135,180,-180,270,10000} + {-1/32,1/16,60,90+1e-12,120,180-1e-10,179.999999999999,-135,-90,-45.5,1e-300,-7245.5} (25)"
           : "{0,-0,1e-17,1/32,30,45,90-1e-12,90,135,180,-180,270,10000} (13)";
}
inline const char* direct_len_text(bool T) {
  return T ? "s12/Q in {0,+-1e-10,+-1e-7,+-1e-4,+-0.01,+-0.25,+-0.5,+-1,+-1.5,+-2,+-2(1+5e-8),+-3,+-4,+-4(1+1e-9),+-8,+-16.5,+-29.2} (33), a12 in {0,+-1e-9,+-1/3600,+-30,+-45,+-90-1e-7,+-90,+-90+1e-7,+-180-1e-7,+-180,+-180+1e-7,+-270,+-360,+-540,+-720.5} deg (29)"
           : "s12/Q in {0,1e-10,-1e-4,-0.5,1,-2,2(1+5e-8),8,-29.2} (9), a12 in {1e-9,-30,90,180,-360,720.5} deg (6)";
}
inline const char* ellipsoid_text(bool T) {
  return T ? "all 33: a=6378137 f in {0,+-1/298.257223563,+-0.005,+-1/150,+-0.01,+-0.02,+-0.05,+-0.1,+-0.15,+-0.2}; (a=1,f=1/150); (a=1e9,f=-1/150); b/a in {1/32,1/16,1/8,1/4,1/2,0.99,1.01,2,4,8,16,32} with quarter meridian 1e7 m"
           : "8: wgs84, f=+-0.02, f=+-0.1 (a=6378137); b/a in {1/2, 2, 1/16} with quarter meridian 1e7 m";
}

// ---------------------------------------------------------------- inverse problem (C02, C03)
struct Pt { double lat, lon; };
struct Pair { double lat1, lon1, lat2, lon2; char fam; };   // fam: g grid, a astroid, s short, e equatorial

inline std::vector<double> grid_lats(bool T = false) {
  std::vector<double> v = {-90, -89.9999, -45, -1 / 32.0, 0, 30, 45.5, 89.999999, 90};
  if (T) for (double x : {-60.0, -1 / 16.0, -1e-12, 1 / 32.0, 45.0, 75.0}) v.push_back(x);
  return v;
}
inline std::vector<double> grid_lons(bool T = false) {
  std::vector<double> v = {0, 1e-12, 1, 90, 179, 179.5, 179.99, 180 - 1e-9, 180, -180, 181, 360.5};
  if (T) for (double x : {-1e-12, 1 / 16.0, 28.0, 29.0, 135.0, 175.0, -179.999999, -90.0}) v.push_back(x);   // 28/29 deg: the lam12 < 0.5 rad short-line test
  return v;
}

// antipodal neighbourhood of (lat1, 0): (x, y) in units of the astroid scales  f pi cos(beta1)  and  f pi cos^2(beta1)
inline Pt astroid_point(const geodtab::Ell& E, double lat1, double x, double y) {
  double f1 = 1 - E.f, phi = lat1 * M_PI / 180, bet = std::atan2(f1 * std::sin(phi), std::cos(phi)), cb = std::cos(bet);
  double af = std::fabs(E.f) > 1e-6 ? std::fabs(E.f) : 1e-6;                // the sphere gets a token neighbourhood
  double lamscale = af * cb * 180, betscale = lamscale * cb;
  Pt p; p.lat = -lat1 + y * betscale; p.lon = 180 + x * lamscale;
  if (p.lat > 90) p.lat = 90; if (p.lat < -90) p.lat = -90;
  return p;
}

// level 0 = quick, 1 = thorough (C03), 2 = thorough (C02: nine anchor meridians, 73x73 astroid grid, 32 bearings); 0 c 1 c 2
inline std::vector<Pair> inverse_pairs(const geodtab::Ell& E, int level) {
  const bool T = level >= 1;
  std::vector<Pair> v;
  // (a) + (e) generic grid from the anchor meridian lon1 = 0 (contains the meridional pairs lon12 in {0, 180, -180});
  //     thorough: denser alphabets and two further anchor meridians whose sums with the offsets are inexact in double
  for (double lo1 : (level >= 2 ? std::vector<double>{0, 100.1, -179.75, 359.9, -540.5, 45.3, -90.7, 179.9, -0.2} : (T ? std::vector<double>{0, 100.1, -179.75} : std::vector<double>{0})))
    for (double la1 : grid_lats(T)) for (double la2 : grid_lats(T)) for (double lo2 : grid_lons(T)) v.push_back({la1, lo1, la2, lo1 + lo2, 'g'});
  // (b) astroid grid: quick 5x5, thorough 25x25 on [-2.5,0.5]x[-1.5,1.5] (contains the 5x5 grid), strip around x = -1
  const double eps = std::ldexp(1.0, -52), tol1 = 200 * eps, xthresh = 1000 * std::sqrt(eps);
  std::vector<double> xs, ys;
  int n = level >= 2 ? 73 : (T ? 25 : 5);
  for (int i = 0; i < n; ++i) { xs.push_back(-2.5 + 3.0 * i / (n - 1)); ys.push_back(-1.5 + 3.0 * i / (n - 1)); }
  std::vector<double> bases = {-0.5, -30.0, -60.0, -89.0};
  if (T) for (double x : {-1e-9, -1 / 32.0, -10.0, -45.0, -75.0, -89.99}) bases.push_back(x);
  std::vector<double> sx = {-1 - xthresh / 2, -1 + xthresh / 2};
  if (T) for (double x : {-1 - 2 * xthresh, -1 - xthresh, -1.0, -1 + xthresh, -1 + 2 * xthresh, -0.5, -1e-3, 0.0}) sx.push_back(x);
  std::vector<double> sy = {0.0, tol1 / 2, -tol1 / 2};
  if (T) for (double y : {tol1, -tol1, 2 * tol1, -2 * tol1, 1e-8, -1e-8}) sy.push_back(y);
  for (double la1 : bases) {
    for (double x : xs) for (double y : ys) { Pt p = astroid_point(E, la1, x, y); v.push_back({la1, 0, p.lat, p.lon, 'a'}); }
    for (double x : sx) for (double y : sy) { Pt p = astroid_point(E, la1, x, y); v.push_back({la1, 0, p.lat, p.lon, 'a'}); }
  }
  // (c) short lines: compass offsets x separations from the bases
  const double R = E.a;
  std::vector<Pt> sb = {Pt{0, 0}, Pt{30, 0}, Pt{-45.5, 100}, Pt{90 - 1e-7, 0}, Pt{-89.9, 179.9999}};
  if (T) for (Pt b : {Pt{1 / 16.0, -180}, Pt{-1e-10, 179.9999999}, Pt{60, 359}, Pt{89.99, -120}, Pt{-90, 45}, Pt{45, 1e-9}}) sb.push_back(b);
  std::vector<double> seps = {0.0, 1e-9, 3e-8, 1e-7, 1e-6, 1e-3, 1.0, 1e3};
  if (T) for (double x : {3e-9, 1e-5, 0.03, 30.0, 2e4, 3e5}) seps.push_back(x);
  const int nb = level >= 2 ? 32 : (T ? 16 : 8);
  for (Pt b : sb)
    for (int k = 0; k < nb; ++k) for (double s : seps) {
      // bearings: quick k*45 deg; thorough adds the odd multiples of 22.5 deg after them
      double th = (k < 8 ? k * M_PI / 4 : (k < 16 ? (2 * (k - 8) + 1) * M_PI / 8 : (2 * (k - 16) + 1) * M_PI / 16)), c = std::cos(b.lat * M_PI / 180);
      double dlat = s * std::cos(th) / R * 180 / M_PI, dlon = s * std::sin(th) / (R * (c > 1e-12 ? c : 1e-12)) * 180 / M_PI;
      double la2 = b.lat + dlat; if (la2 > 90) la2 = 90; if (la2 < -90) la2 = -90;
      v.push_back({b.lat, b.lon, la2, b.lon + dlon, 's'});
    }
  // (d) equatorial pairs around the end of the equatorial regime lon12 = (1-f) 180
  for (double d : {0.0, 1e-9, -1e-9, 1e-3, -1e-3}) v.push_back({0, 0, 0, (1 - E.f) * 180 + d, 'e'});
  v.push_back({0, 0, 0, 179.9, 'e'}); v.push_back({0, 0, 0, 180, 'e'}); v.push_back({-0.0, 0, 0.0, 179.5, 'e'});
  if (T) {
    for (double d : {1e-12, -1e-12, 1e-6, -1e-6, 1.0, -1.0}) v.push_back({0, 0, 0, (1 - E.f) * 180 + d, 'e'});
    // nearly equatorial pairs around the same longitude (AngRound folds |lat| < ~1e-17 to 0; 1e-10 stays)
    for (double la : {1e-10, -1e-10, 1e-3}) for (double d : {0.0, 1e-9, -1e-9, 1e-3}) { v.push_back({la, 0, la, (1 - E.f) * 180 + d, 'e'}); v.push_back({la, 0, -la, (1 - E.f) * 180 + d, 'e'}); }
    for (double lo : {1e-9, 28.6, 28.7, 90.0, 135.0, 179.0, 179.999999}) v.push_back({0, 0, 0, lo, 'e'});
  }
  // (g) tiny latitudes (AngRound of the latitudes in GenInverse folds |lat| below about 1e-17 deg onto the equator; squares of smaller
  //     values underflow): the equatorial answer is expected in closed form
  {
    std::vector<double> tl = T ? std::vector<double>{5e-324, -5e-324, 1e-310, -1e-310, 1e-200, -1e-200, 1e-160, -1e-160, 1e-155, -1e-155, 1e-100, -1e-100, 1e-20, -1e-20}
                               : std::vector<double>{5e-324, -1e-160, 1e-155};
    std::vector<double> ll = T ? std::vector<double>{1, 90, 179, 179.9} : std::vector<double>{1, 90};
    for (double t : tl) for (double lo : ll) {
      v.push_back({t, 0, 0.0, lo, 't'}); v.push_back({t, 0, t, lo, 't'});
      if (T) { v.push_back({t, 0, -0.0, lo, 't'}); v.push_back({t, 0, 1e-9, lo, 't'}); }
    }
  }
  // (f) both ends next to a pole (opposite poles and the same pole): the region where the two formulas for alp12 in GenInverse
  //     (half-angle formula / difference of the azimuths) hand over; well separated in longitude so the geodesic is far from meridional
  {
    std::vector<double> ds = T ? std::vector<double>{0.01, 0.3, 0.001, 5.0} : std::vector<double>{0.01, 0.3};
    std::vector<double> ls = T ? std::vector<double>{45, 134, 1, 90} : std::vector<double>{45, 134};
    for (double d1 : ds) for (double d2 : ds) for (double lo : ls) {
      if (!T && d1 != d2) continue;
      v.push_back({-90 + d1, 0, 90 - d2, lo, 'p'});
      if (T || d1 == 0.3) v.push_back({90 - d1, 0, 90 - d2, lo, 'p'});
      if (T) v.push_back({-90 + d1, 10, -90 + d2, 10 - lo, 'p'});
    }
  }
  return v;
}

// input class used in failure records (known findings are keyed by it):
//  equatorial-conjugate-shortline: both points within 0.001 deg of the equator, lon12 < 0.5 rad (so InverseStart's short-line test
//     cbet2 lam12 < 0.5 passes) and lon12/(1-f) within 1e-6 of 180 deg (so the spherical longitude omg12 is pi): only possible for b/a < 0.16
//  near-antipodal: a12 or |lon12| >= 179.9 deg
//  nearly-equatorial-steep: see below
inline const char* pair_regime(const geodtab::Ell& E, const Pair& P, double a12) {
  long double l12 = fabsl(remainderl((long double)P.lon2 - (long double)P.lon1, 360.0L));
  // equatorial-conjugate-ulp: both points ON the equator, lon12 beyond the equatorial conjugate distance (1-f)180 by at most 1e-12 deg
  if (E.f > 0 && P.lat1 == 0 && P.lat2 == 0 && l12 > (1 - (long double)E.f) * 180 && l12 - (1 - (long double)E.f) * 180 <= 1e-12L) return "equatorial-conjugate-ulp";
  if (E.f > 0 && std::fabs(P.lat1) <= 1e-3 && std::fabs(P.lat2) <= 1e-3 && l12 < 28.6L && fabsl(l12 / (1 - (long double)E.f) - 180) <= 180e-6L)
    return "equatorial-conjugate-shortline";
  // nearly-equatorial-steep: both points within 0.001 deg of the equator but not both on it, longitude difference beyond (1-f)180 - 2 (oblate) or 170 deg (prolate):
  //     lambda12(alp1) changes by O(1) over |cos alp1| < 1e-15, the bisection stops on its ABSOLUTE interval test tolb_
  {
    double m1 = std::fabs(P.lat1), m2 = std::fabs(P.lat2);
    if (m1 <= 1e-3 && m2 <= 1e-3 && (m1 != 0 || m2 != 0) && l12 >= (E.f > 0 ? (1 - (long double)E.f) * 180 - 2 : 170.0L)) return "nearly-equatorial-steep";
  }
  if (a12 >= 179.9 || l12 >= 179.9L) return "near-antipodal";
  return "general";
}

// point set for the metric check over all ordered pairs and all triples
inline std::vector<Pt> metric_points(const geodtab::Ell& E, bool T) {
  std::vector<Pt> v;
  for (double la : grid_lats()) for (double lo : {0.0, 1.0, 90.0, 179.0, 179.99, 181.0}) v.push_back({la, lo});
  for (double la1 : {-30.0, -60.0}) for (double x : {-2.0, -1.0, 0.0}) for (double y : {-1.0, 0.0, 1.0}) v.push_back(astroid_point(E, la1, x, y));
  for (int k = 0; k < 8; ++k) { double th = k * M_PI / 4; v.push_back({30 + std::cos(th) / E.a * 180 / M_PI, std::sin(th) / (E.a * std::cos(M_PI / 6)) * 180 / M_PI}); }
  v.push_back({0, (1 - E.f) * 180 - 1e-3}); v.push_back({0, (1 - E.f) * 180 + 1e-3});
  v.push_back({30, 360}); v.push_back({-45, -359});                          // coincident with (30,0) and (-45,1)
  if (T) {                                                                   // second level (appended: the quick set is unchanged)
    for (double la : {-60.0, -0.5, 1 / 16.0, 75.0}) for (double lo : {0.0, 45.0, 135.0, 180.0, -90.0, -179.5}) v.push_back({la, lo});
    for (double la1 : {-0.5, -89.0}) for (double x : {-2.0, -1.0, 0.0}) for (double y : {-1.0, 0.0, 1.0}) v.push_back(astroid_point(E, la1, x, y));
    for (int k = 0; k < 8; ++k) { double th = k * M_PI / 4; v.push_back({-89.9999 + 1e-8 * std::cos(th), 1e-8 * std::sin(th) / std::cos(89.9999 * M_PI / 180)}); }   // about 1 mm x a/6378137
    v.push_back({90, 77}); v.push_back({-90, -13});                           // the poles once more, other longitudes
  }
  if (!T) { std::vector<Pt> w; for (size_t i = 0; i < v.size(); i += 2) w.push_back(v[i]); w.push_back({30, 360}); return w; }
  return v;
}

}  // namespace geodlat
