// models/utm_rules.hpp -- reference model of the UTM/UPS *rules* (not of the projections), written from
//   * DMA TM8358.2 (UTM: 6-degree zones numbered from 180W, central meridian 6*zone-183, k0 = 0.9996, false easting
//     500 000 m, false northing 0 m north / 10 000 000 m south; UPS: k0 = 0.994, false easting and northing 2 000 000 m;
//     UTM between 80S and 84N; zone 32 widened to 3E..12E in band V (56N..64N); zones 31/33/35/37 widened in band X
//     (72N..84N) to 0..9, 9..21, 21..33, 33..42 E, zones 32/34/36 absent there),
//   * the documentation comments of include/GeographicLib/UTMUPS.hpp (zonespec pseudo-zones, "closed on the lower end,
//     open on the upper", legal rectangles of Reverse, mgrslimits shrink by 100 km, DecodeZone/EncodeZone grammar,
//     EPSG 326zz / 327zz / 32661 / 32761).
// Everything here is decided by exact comparisons of doubles with small integers; no floating-point arithmetic that
// could round, and nothing is taken from src/UTMUPS.cpp.
#pragma once
#include "mc/exact.hpp"
#include <cmath>
#include <string>
#include <cctype>

namespace utmref {

enum { INVALID = -4, MATCH = -3, UTM = -2, STANDARD = -1, UPS = 0 };

// ---- latitude bands: 20 bands C..X (I and O omitted), 8 degrees each starting at 80S, closed on the southern edge;
// X is 12 degrees high (72..84).  Beyond the UTM latitude range the end bands are extended (C southwards, X northwards).
static const char* const BANDS = "CDEFGHJKLMNPQRSTUVWX";
inline int band_index(double lat) {          // 0..19
  int b = 0;
  while (b < 19 && lat >= -80 + 8 * (b + 1)) ++b;     // comparisons with integers: exact
  return b;
}
inline double band_south(int b) { return -80 + 8 * b; }
inline double band_north(int b) { return b == 19 ? 84 : -72 + 8 * b; }

// ---- 6-degree zone of a longitude: zone z covers [6z-186, 6z-180); longitude taken modulo 360 into [-180, 180)
inline int lon_zone(double lon_normalised) {
  int z = 1;
  while (z < 60 && lon_normalised >= -180 + 6 * z) ++z;
  return z;
}

// the UTM zone of (lat, lon) with the zones extended to the poles, including the Norway and Svalbard exceptions
inline int utm_zone(double lat, double lon) {
  double l = mc::lon_norm(lon);
  int z = lon_zone(l), b = band_index(lat);
  if (b == 17) {                               // band V, 56N <= lat < 64N: 31V is [0,3), 32V is [3,12)
    if (l >= 3 && l < 6) return 32;
  } else if (b == 19) {                        // band X, 72N <= lat: 31X [0,9) 33X [9,21) 35X [21,33) 37X [33,42)
    if (l >= 0 && l < 9) return 31;
    if (l >= 9 && l < 21) return 33;
    if (l >= 21 && l < 33) return 35;
    if (l >= 33 && l < 42) return 37;
  }
  return z;
}

struct Zone { bool throws; int zone; };
// UTMUPS::StandardZone as documented (zonespec).  lat, lon finite or NaN; |lat| <= 90.
inline Zone standard_zone(double lat, double lon, int setzone) {
  if (setzone < -4 || setzone > 60) return {true, 0};
  if (setzone >= 0 || setzone == INVALID) return {false, setzone};
  if (std::isnan(lat) || std::isnan(lon)) return {false, INVALID};
  if (setzone == UTM) return {false, utm_zone(lat, lon)};
  // STANDARD, and MATCH when there is no zone to match
  if (lat >= -80 && lat < 84) return {false, utm_zone(lat, lon)};
  return {false, UPS};
}

// ---- standard parameters
static const double WGS84_A = 6378137.0;
static const double WGS84_F = 1 / 298.257223563;
static const double UTM_K0 = 0.9996, UPS_K0 = 0.994;
inline double central_meridian(int zone) { return 6.0 * zone - 183.0; }
inline double false_easting(bool utm) { return utm ? 500000.0 : 2000000.0; }
inline double false_northing(bool utm, bool northp) { return utm ? (northp ? 0.0 : 10000000.0) : 2000000.0; }
static const double UTM_SHIFT = 10000000.0;

// ---- legal rectangles (metres), closed on all four sides (UTMUPS::Reverse documentation)
struct Rect { double xmin, xmax, ymin, ymax; };
inline Rect rectangle(bool utm, bool northp, bool mgrslimits) {
  const double km = 1000.0;
  Rect r;
  if (utm) {
    r.xmin = 0 * km; r.xmax = 1000 * km;
    if (northp) { r.ymin = -9100 * km; r.ymax = 9600 * km; } else { r.ymin = 900 * km; r.ymax = 19600 * km; }
  } else if (northp) { r.xmin = r.ymin = 1200 * km; r.xmax = r.ymax = 2800 * km; }
  else { r.xmin = r.ymin = 700 * km; r.xmax = r.ymax = 3300 * km; }
  if (mgrslimits) { r.xmin += 100 * km; r.ymin += 100 * km; r.xmax -= 100 * km; r.ymax -= 100 * km; }
  return r;
}
inline bool inside(const Rect& r, double x, double y) { return x >= r.xmin && x <= r.xmax && y >= r.ymin && y <= r.ymax; }
// distance to the nearest edge line (for the documented "within 5 nm of the edge" exemption)
inline double edge_distance(const Rect& r, double x, double y) {
  double d = std::fabs(x - r.xmin);
  d = std::fmin(d, std::fabs(x - r.xmax)); d = std::fmin(d, std::fabs(y - r.ymin)); d = std::fmin(d, std::fabs(y - r.ymax));
  return d;
}

// ---- zone strings (DecodeZone documentation): [1-2 digit zone 1..60] + n | s | north | south (any case); UPS = hemisphere
// alone; "inv" / "invalid" (any case) -> INVALID.  Nothing else: no sign, no blanks, no third digit, no zone 0.
struct ZoneStr { bool ok; int zone; bool northp; };
inline std::string lower(std::string s) { for (auto& c : s) if (c >= 'A' && c <= 'Z') c = char(c - 'A' + 'a'); return s; }
inline ZoneStr decode_zone(const std::string& s) {
  ZoneStr bad{false, 0, false};
  size_t i = 0; int z = 0;
  while (i < s.size() && s[i] >= '0' && s[i] <= '9') { if (i >= 2) return bad; z = 10 * z + (s[i] - '0'); ++i; }
  std::string h = lower(s.substr(i));
  if (i == 0 && (h == "inv" || h == "invalid")) return {true, INVALID, false};
  if (i > 0 && (z < 1 || z > 60)) return bad;
  bool n = h == "n" || h == "north", so = h == "s" || h == "south";
  if (!n && !so) return bad;
  return {true, z, n};
}
struct ZoneEnc { bool throws; std::string s; };
inline ZoneEnc encode_zone(int zone, bool northp, bool abbrev) {
  if (zone == INVALID) return {false, abbrev ? "inv" : "invalid"};
  if (zone < 0 || zone > 60) return {true, ""};
  std::string s;
  if (zone != UPS) { s += char('0' + zone / 10); s += char('0' + zone % 10); }
  s += abbrev ? (northp ? "n" : "s") : (northp ? "north" : "south");
  return {false, s};
}

// ---- EPSG: WGS 84 / UTM zone zzN = 32600 + zz, zzS = 32700 + zz, UPS North = 32661, UPS South = 32761
inline void decode_epsg(int epsg, int& zone, bool& northp) {
  zone = INVALID; northp = false;
  if (epsg >= 32601 && epsg <= 32660) { zone = epsg - 32600; northp = true; }
  else if (epsg == 32661) { zone = UPS; northp = true; }
  else if (epsg >= 32701 && epsg <= 32760) { zone = epsg - 32700; northp = false; }
  else if (epsg == 32761) { zone = UPS; northp = false; }
}
inline int encode_epsg(int zone, bool northp) {
  if (zone < 0 || zone > 60) return -1;
  if (zone == UPS) return northp ? 32661 : 32761;
  return (northp ? 32600 : 32700) + zone;
}

}  // namespace utmref
