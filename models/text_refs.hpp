// models/text_refs.hpp -- reference models of the small text utilities, written from the documentation comments in
// include/GeographicLib/Utility.hpp (val, nummatch, fract, ParseLine).  Same three-valued answers as
// models/dms_grammar.hpp: ACCEPT(value) / REJECT / SILENT.
#pragma once
#include <string>
#include <cmath>
#include <cstdlib>
#include <climits>

namespace tref {

enum Verdict { ACCEPT = 0, REJECT = 1, SILENT = 2 };
struct Num { Verdict v = REJECT; double value = 0; const char* why = ""; };

inline bool is_ws(unsigned char c) { return c == ' ' || c == '\t' || c == '\n' || c == '\v' || c == '\f' || c == '\r'; }
inline std::string trim(const std::string& s) {
  size_t b = 0, e = s.size();
  while (b < e && is_ws(s[b])) ++b;
  while (e > b && is_ws(s[e - 1])) --e;
  return s.substr(b, e - b);
}
inline std::string upper(std::string s) { for (auto& c : s) if (c >= 'a' && c <= 'z') c = char(c - 'a' + 'A'); return s; }
inline std::string lower(std::string s) { for (auto& c : s) if (c >= 'A' && c <= 'Z') c = char(c - 'A' + 'a'); return s; }
inline bool digits(const std::string& s, size_t b, size_t e) { if (b >= e) return false; for (size_t i = b; i < e; ++i) if (s[i] < '0' || s[i] > '9') return false; return true; }

// "Match "nan" and "inf" (and variants thereof) ...  return appropriate special value or 0 if none is found.  White
// space is not allowed at the beginning or end of s."   Exactly [+-](nan|inf) in any case is decided; other strings that
// contain NAN / INF / 1.# are the undocumented "variants" (SILENT); everything else is 0.
inline Num nummatch(const std::string& s) {
  Num r; std::string U = upper(s), V = U; int sg = 1;
  if (!V.empty() && (V[0] == '+' || V[0] == '-')) { if (V[0] == '-') sg = -1; V.erase(0, 1); }
  if (V == "NAN") { r.v = ACCEPT; r.value = NAN; return r; }
  if (V == "INF") { r.v = ACCEPT; r.value = sg * INFINITY; return r; }
  if (U.find("NAN") != std::string::npos || U.find("INF") != std::string::npos || U.find("1.#") != std::string::npos) { r.v = SILENT; r.why = "nan/inf variant"; return r; }
  r.v = ACCEPT; r.value = 0; return r;
}

// val<double>: "White space at the beginning and end of s is ignored ... inf and nan are recognized ...
// GeographicErr if s is not readable as a T".  Readable as a double = a decimal floating literal
//   [+-] ( digits [ . [digits] ] | . digits ) [ (e|E) [+-] digits ]
inline Num val_double(const std::string& s0) {
  Num r; std::string s = trim(s0);
  Num nm = nummatch(s);
  if (nm.v == SILENT) return nm;
  if (nm.v == ACCEPT && nm.value != 0) return nm;
  size_t i = 0, n = s.size();
  if (i < n && (s[i] == '+' || s[i] == '-')) ++i;
  if (i + 1 < n && s[i] == '0' && (s[i + 1] == 'x' || s[i + 1] == 'X')) { r.v = SILENT; r.why = "hexadecimal prefix"; return r; }
  size_t d0 = i; while (i < n && s[i] >= '0' && s[i] <= '9') ++i;
  size_t nint = i - d0, nfrac = 0;
  if (i < n && s[i] == '.') { ++i; size_t f0 = i; while (i < n && s[i] >= '0' && s[i] <= '9') ++i; nfrac = i - f0; }
  if (nint + nfrac == 0) { r.why = "no digits"; return r; }
  if (i < n && (s[i] == 'e' || s[i] == 'E')) {
    ++i; if (i < n && (s[i] == '+' || s[i] == '-')) ++i;
    size_t e0 = i; while (i < n && s[i] >= '0' && s[i] <= '9') ++i;
    if (i == e0) { r.why = "exponent without digits"; return r; }
  }
  if (i != n) { r.why = "extra text"; return r; }
  r.v = ACCEPT; r.value = strtod(s.c_str(), nullptr);
  if (std::isinf(r.value)) { r.v = SILENT; r.why = "overflow"; }
  return r;
}
inline Num val_int(const std::string& s0) {
  Num r; std::string s = trim(s0);
  size_t i = 0, n = s.size();
  if (i < n && (s[i] == '+' || s[i] == '-')) ++i;
  if (!digits(s, i, n)) { r.why = "not an integer"; return r; }
  if (n - i > 9) { r.v = SILENT; r.why = "possible overflow"; return r; }
  r.v = ACCEPT; r.value = (double)strtol(s.c_str(), nullptr, 10); return r;
}
// val<bool>: 0 / 1 or one of the documented words, case ignored, "" is false.
inline Num val_bool(const std::string& s0) {
  Num r; std::string t = lower(trim(s0));
  if (t.empty()) { r.v = ACCEPT; r.value = 0; return r; }
  if (t == "0") { r.v = ACCEPT; r.value = 0; return r; }
  if (t == "1") { r.v = ACCEPT; r.value = 1; return r; }
  { // other spellings of the numbers 0 and 1 ("01", "+1", "-0"): "a string representing 0 or 1" -- undecided
    size_t i = 0; if (t[0] == '+' || t[0] == '-') i = 1;
    if (digits(t, i, t.size())) { size_t j = i; while (j + 1 < t.size() && t[j] == '0') ++j; if (j + 1 == t.size() && (t[j] == '0' || t[j] == '1')) { r.v = SILENT; r.why = "non-canonical 0/1"; return r; } }
  }
  for (const char* w : {"false", "f", "nil", "no", "n", "off"}) if (t == w) { r.v = ACCEPT; r.value = 0; return r; }
  for (const char* w : {"true", "t", "yes", "y", "on"}) if (t == w) { r.v = ACCEPT; r.value = 1; return r; }
  r.why = "not a bool"; return r;
}
// fract: "Read a simple fraction, e.g., 3/4" -- numerator / denominator, each readable as a double; without '/' a
// plain number.
inline Num fract(const std::string& s) {
  size_t d = s.find('/');
  if (d == std::string::npos) return val_double(s);
  Num a = val_double(s.substr(0, d)), b = val_double(s.substr(d + 1));
  Num r;
  if (d == 0 || d + 1 == s.size()) { r.why = "empty numerator or denominator"; return r; }
  if (a.v == REJECT || b.v == REJECT) { r.why = "numerator or denominator not a number"; return r; }
  if (a.v == SILENT || b.v == SILENT) { r.v = SILENT; r.why = "silent operand"; return r; }
  if (b.value == 0 || std::isnan(a.value) || std::isnan(b.value) || std::isinf(a.value) || std::isinf(b.value)) { r.v = SILENT; r.why = "zero or non-finite operand"; return r; }
  r.v = ACCEPT; r.value = a.value / b.value; return r;
}

struct Line { bool found; std::string key, value; };
// ParseLine as documented: comment removed, trimmed, split at `equals` (or the first white space), both parts trimmed;
// empty key -> value "" and false.
inline Line parse_line(const std::string& line, char equals, char comment) {
  Line r{false, "", ""};
  std::string l = line;
  if (comment) { size_t n = l.find(comment); if (n != std::string::npos) l = l.substr(0, n); }
  l = trim(l);
  if (l.empty()) return r;
  size_t n = std::string::npos;
  if (equals) n = l.find(equals); else for (size_t i = 0; i < l.size(); ++i) if (is_ws(l[i])) { n = i; break; }
  std::string key = trim(n == std::string::npos ? l : l.substr(0, n));
  if (key.empty()) return r;
  r.found = true; r.key = key;
  if (n != std::string::npos) r.value = trim(l.substr(n + 1));
  return r;
}

}  // namespace tref
