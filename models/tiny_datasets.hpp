// models/tiny_datasets.hpp -- valid miniature data sets, generated in memory, for the classes that read files:
//   Geoid           tiny.pgm                 4 x 3 raster (the smallest the reader accepts is 2 x 3)
//   MagneticModel   tiny.wmm + tiny.wmm.cof  N = M = 2, NumModels 2 (+ secular variation) + NumConstants 1
//   GravityModel    tiny.egm + tiny.egm.cof  N = M = 3 model, N = M = 1 correction
// written from the file-format descriptions in Geoid.hpp / MagneticModel.hpp / GravityModel.hpp /
// SphericalEngine.hpp (coeff::readcoeffs).  The harness writes them at run time under /verif/build/tmp/.
// Used by C13 (fault enumeration starts from these images); C19/C20 may reuse them.
#pragma once
#include <string>
#include <cstring>
#include <cmath>

namespace tiny {

inline std::string le32(int v) { std::string s(4, '\0'); memcpy(&s[0], &v, 4); return s; }
inline std::string le64(double d) { std::string s(8, '\0'); memcpy(&s[0], &d, 8); return s; }
inline int Csz(int N, int M) { return (M + 1) * (2 * N - M + 2) / 2; }
// a coefficient block as read by SphericalEngine::coeff::readcoeffs
inline std::string coeff_block(int N, int M, double scale, bool zero_first) {
  std::string s = le32(N) + le32(M);
  if (N < 0) return s;
  int nc = Csz(N, M), ns = nc - (N + 1);
  for (int k = 0; k < nc; ++k) s += le64(k == 0 && zero_first ? 0.0 : scale * (1.0 + 0.37 * k) * ((k % 3) ? 1 : -1));
  for (int k = 0; k < ns; ++k) s += le64(scale * (0.5 + 0.21 * k) * ((k % 2) ? 1 : -1));
  return s;
}

inline std::string geoid_image() {
  std::string h = "P5\n# Geoid file in PGM format for the GeographicLib::Geoid class\n# Description tiny\n# DateTime 2020-01-01 00:00:00\n"
                  "# MaxBilinearError 0.1\n# RMSBilinearError 0.01\n# MaxCubicError 0.05\n# RMSCubicError 0.005\n"
                  "# Offset -108\n# Scale 0.003\n# Origin 90N 0E\n# AREA_OR_POINT Point\n4 3\n65535\n";
  for (int i = 0; i < 12; ++i) { unsigned v = 30000 + 911 * i; h += char(v >> 8); h += char(v & 0xff); }
  return h;
}
// a w x h raster (w even, h odd) with a non-linear height field, so that different cells interpolate to different values
inline std::string geoid_image_wh(int w, int h) {
  std::string s = "P5\n# Geoid file in PGM format for the GeographicLib::Geoid class\n# Description tiny " + std::to_string(w) + "x" + std::to_string(h) + "\n# DateTime 2020-01-01 00:00:00\n"
                  "# MaxBilinearError 0.1\n# RMSBilinearError 0.01\n# MaxCubicError 0.05\n# RMSCubicError 0.005\n"
                  "# Offset -108\n# Scale 0.003\n# Origin 90N 0E\n# AREA_OR_POINT Point\n" + std::to_string(w) + " " + std::to_string(h) + "\n65535\n";
  for (int iy = 0; iy < h; ++iy) for (int ix = 0; ix < w; ++ix) {
    unsigned v = 20000u + 977u * (unsigned)ix + 1531u * (unsigned)iy + 211u * (unsigned)((ix * ix + 3 * iy * iy + ix * iy) % 17);
    if (iy == 0 || iy == h - 1) v = 20000u + 1531u * (unsigned)iy;          // a single value at each pole
    s += char(v >> 8); s += char(v & 0xff);
  }
  return s;
}
inline std::string wmm_meta() {
  return "WMMF-2\n# A tiny magnetic model for fault enumeration\nName tiny\nDescription Tiny Magnetic Model\nURL http://example.org\n"
         "Publisher nobody\nReleaseDate 2020-01-01\nConversionDate 2020-01-02\nDataVersion 1\nRadius 6371200\nNumModels 2\nNumConstants 1\n"
         "Epoch 2020\nDeltaEpoch 5\nMinTime 2020\nMaxTime 2030\nMinHeight -1000\nMaxHeight 850000\nType linear\nNormalization schmidt\n"
         "ByteOrder little\nID TINYWMM1\n";
}
inline std::string wmm_cof() {
  std::string s = "TINYWMM1";
  for (int i = 0; i < 4; ++i) s += coeff_block(2, 2, 100.0 * (i + 1), true);
  return s;
}
inline std::string egm_meta() {
  return "EGMF-1\n# A tiny gravity model for fault enumeration\nName tiny\nPublisher nobody\nDescription Tiny Gravity Model\nURL http://example.org\n"
         "ReleaseDate 2020-01-01\nConversionDate 2020-01-02\nDataVersion 1\nModelRadius 6378136.3\nModelMass 3986004.415e8\n"
         "AngularVelocity 7292115e-11\nReferenceRadius 6378137\nReferenceMass 3986004.418e8\nFlattening 1/298.257223563\n"
         "HeightOffset -0.53\nCorrectionMultiplier 1000\nNormalization full\nByteOrder little\nID TINYEGM1\n";
}
inline std::string egm_cof() {
  // realistic magnitudes: C[0] = 0 (degree 0), C20-like term negative and ~1e-3/sqrt5, others ~1e-6
  std::string s = "TINYEGM1";
  int N = 3, M = 3, nc = Csz(N, M), ns = nc - (N + 1);
  s += le32(N) + le32(M);
  for (int k = 0; k < nc; ++k) s += le64(k == 0 ? 0.0 : k == 1 ? 0.0 : k == 2 ? -0.484165e-3 : 1e-6 * (1 + 0.3 * k) * ((k % 2) ? 1 : -1));
  for (int k = 0; k < ns; ++k) s += le64(1e-6 * (0.4 + 0.2 * k) * ((k % 2) ? -1 : 1));
  s += coeff_block(1, 1, 0.25, false);
  return s;
}

}  // namespace tiny
