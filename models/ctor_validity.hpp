// models/ctor_validity.hpp -- when must a GeographicLib constructor (or a validating setter) throw?
//
// Written from the @param / @exception text of the public headers and from the property statement of C13
// ("constructors reject non-finite or out-of-range ellipsoid and projection parameters"), NOT from the
// constructors' code.  Each predicate returns
//     VALID    the documentation allows these arguments: construction must succeed (no exception at all)
//     INVALID  the documentation (or the "non-finite" clause of the property) forbids them: GeographicErr
//     SILENT   the documentation does not decide (derived quantity overflows/underflows, unspecified
//              threshold, behaviour stated only in a source comment): either outcome is accepted, but it
//              must still be a clean one (return, GeographicErr or bad_alloc)
// A row the unchanged library contradicts is adjudicated in the harness (props/C13_ctor.cpp), not here.
#pragma once
#include <cmath>
#include <limits>

namespace ctorv {

enum V { VALID = 0, INVALID = 1, SILENT = 2 };
inline const char* name(V v) { return v == VALID ? "valid" : v == INVALID ? "invalid" : "silent"; }
inline V both(V x, V y) { return (x == INVALID || y == INVALID) ? INVALID : (x == SILENT || y == SILENT) ? SILENT : VALID; }
inline bool fin(double x) { return std::isfinite(x); }
// name of the documented rule that decided the last INVALID verdict (for reports and known-finding keys)
inline const char*& rule() { static const char* r = ""; return r; }
inline V inv(const char* why) { rule() = why; return INVALID; }

// "a or (1 - f) a is not positive" + non-finite rejected.  (1 - f) a that over/underflows in double although a
// and f are individually legal is not decided by the documentation.
inline V ellipsoid(double a, double f) {
  if (!(fin(a) && a > 0)) return inv("equatorial-radius");
  if (!(fin(f) && f < 1)) return inv("flattening");
  double b = a * (1 - f);
  if (!(fin(b) && b > 0)) return SILENT;
  return VALID;
}
// AuxLatitude::axes(a, b): "a or b is not positive"
inline V axes(double a, double b) { return (fin(a) && a > 0 && fin(b) && b > 0) ? VALID : inv("semi-axes"); }
// "k0 is not positive"
inline V scale(double k) { return (fin(k) && k > 0) ? VALID : inv("scale"); }
// "stdlat is not in [-90, 90]"
inline V lat_closed(double lat) { return (std::fabs(lat) <= 90) ? VALID : inv("latitude-range"); }
// "lat is not in (-90, 90)"  (Albers SetScale) / "(-90, 90]" (PolarStereographic SetScale)
inline V lat_open(double lat) { return (std::fabs(lat) < 90) ? VALID : inv("latitude-range"); }
inline V lat_ps(double lat) { return (lat > -90 && lat <= 90) ? VALID : inv("latitude-range"); }

// ---- ellipsoid-only classes: Geodesic, GeodesicExact, Geocentric, Ellipsoid, Rhumb, AuxLatitude, DAuxLatitude
inline V af(double a, double f) { return ellipsoid(a, f); }
// ---- TransverseMercator(a, f, k0, exact, extendp): + "extendp not allowed if !exact" (TransverseMercator.hpp)
inline V tm(double a, double f, double k0, bool exact, bool extendp) {
  V v = both(ellipsoid(a, f), scale(k0));
  if (extendp && !exact) return inv("extendp-without-exact");
  if (exact && v == VALID && !(f > 0)) return SILENT;      // the exact method is Lee's, documented for f > 0 only in TransverseMercatorExact
  return v;
}
// ---- TransverseMercatorExact(a, f, k0, extendp): "a, f, or k0 is not positive"
inline V tmexact(double a, double f, double k0) {
  if (!(fin(f) && f > 0)) return inv("flattening-not-positive");
  return both(ellipsoid(a, f), scale(k0));
}
// ---- PolarStereographic(a, f, k0)
inline V ps(double a, double f, double k0) { return both(ellipsoid(a, f), scale(k0)); }
// ---- LambertConformalConic / AlbersEqualArea, one parallel
inline V conic1(double a, double f, double stdlat, double k0) { return both(both(ellipsoid(a, f), scale(k0)), lat_closed(stdlat)); }
// ---- two parallels in degrees.  LCC: "or if either stdlat1 or stdlat2 is a pole and stdlat1 is not equal
// stdlat2".  Albers: "or if stdlat1 and stdlat2 are opposite poles".
inline V lcc2(double a, double f, double l1, double l2, double k1) {
  V v = both(both(ellipsoid(a, f), scale(k1)), both(lat_closed(l1), lat_closed(l2)));
  if (v != INVALID && (std::fabs(l1) == 90 || std::fabs(l2) == 90) && l1 != l2) return inv("pole-and-different-parallel");
  return v;
}
inline V albers2(double a, double f, double l1, double l2, double k1) {
  V v = both(both(ellipsoid(a, f), scale(k1)), both(lat_closed(l1), lat_closed(l2)));
  if (v != INVALID && std::fabs(l1) == 90 && std::fabs(l2) == 90 && l1 != l2) return inv("opposite-poles");
  return v;
}
// ---- two parallels by sine and cosine: the latitude must be in [-90, 90] (cos >= 0); a pair that is not a
// (scaled) sine/cosine pair -- |sin| > 1, cos > 1, both zero, non-finite -- is invalid; pairs inside the unit
// square that are not normalised are not addressed by the documentation.
inline V sincos_pair(double s, double c) {
  if (!(fin(s) && fin(c))) return inv("sincos-not-finite");
  if (std::signbit(c) && c != 0) return inv("latitude-range");          // latitude outside [-90, 90]
  if (std::signbit(c)) return SILENT;                      // cos = -0: the documentation does not say
  if (s == 0 && c == 0) return inv("sincos-both-zero");
  if (std::fabs(s) > 1 || c > 1) return inv("sincos-above-one");
  double r = std::hypot(s, c);
  if (std::fabs(r - 1) > 1e-9) return SILENT;
  return VALID;
}
inline V lcc2sc(double a, double f, double s1, double c1, double s2, double c2, double k1) {
  V v = both(both(ellipsoid(a, f), scale(k1)), both(sincos_pair(s1, c1), sincos_pair(s2, c2)));
  if (v != INVALID && (c1 == 0 || c2 == 0) && !(c1 == c2 && s1 == s2)) return inv("pole-and-different-parallel");
  return v;
}
inline V albers2sc(double a, double f, double s1, double c1, double s2, double c2, double k1) {
  V v = both(both(ellipsoid(a, f), scale(k1)), both(sincos_pair(s1, c1), sincos_pair(s2, c2)));
  if (v != INVALID && c1 == 0 && c2 == 0 && s1 * s2 <= 0) return inv("opposite-poles");
  return v;
}
// ---- SetScale(lat, k)
inline V lcc_setscale(double lat, double k) { return both(scale(k), lat_closed(lat)); }       // + "incompatible polar latitude" decided by the object: see harness
inline V albers_setscale(double lat, double k) { return both(scale(k), lat_open(lat)); }
inline V ps_setscale(double lat, double k) { return both(scale(k), lat_ps(lat)); }
// ---- NormalGravity(a, GM, omega, f_J2, geometricp): a > 0, f < 1 (geometric); "no restrictions on GM or
// omega" other than being finite (property: non-finite rejected); physical form (J2) has further restrictions
// that the header gives only qualitatively -> SILENT unless a is invalid.
inline V normalgravity(double a, double GM, double omega, double fJ2, bool geometricp) {
  if (!(fin(a) && a > 0)) return inv("equatorial-radius");
  if (!fin(GM) || !fin(omega) || !fin(fJ2)) return inv("non-finite-parameter");
  if (!geometricp) return SILENT;
  if (!(fJ2 < 1)) return inv("flattening");
  double b = a * (1 - fJ2), w2 = omega * omega, aw2 = (omega * a) * (omega * a);
  if (!(fin(b) && b > 0) || !fin(w2) || !fin(aw2)) return SILENT;
  return VALID;
}
// ---- EllipticFunction(k2, alpha2[, kp2, alphap2]): k2, alpha2 in (-inf, 1]; kp2, alphap2 in [0, inf).
// NaN is accepted on purpose ("needed for GeodesicExact", source comment) -> SILENT; so is -inf / +inf at the
// open ends.
inline V ell_le1(double x) { return std::isnan(x) ? SILENT : x > 1 ? inv("parameter-above-one") : std::isinf(x) ? SILENT : VALID; }
inline V ell_ge0(double x) { return std::isnan(x) ? SILENT : x < 0 ? inv("complement-negative") : std::isinf(x) ? SILENT : VALID; }
inline V elliptic2(double k2, double alpha2) { return both(ell_le1(k2), ell_le1(alpha2)); }
inline V elliptic4(double k2, double alpha2, double kp2, double alphap2) { return both(both(ell_le1(k2), ell_le1(alpha2)), both(ell_ge0(kp2), ell_ge0(alphap2))); }
// ---- Intersect(Geodesic(a, f)): "validated for -1/4 <= f <= 1/5 ... sufficiently far outside the range ... an
// exception [is] thrown": inside the validated range construction must succeed, outside it is undecided.
inline V intersect(double a, double f) {
  V v = ellipsoid(a, f);
  if (v != VALID) return v;
  if (!(a >= 1e-150 && a <= 1e150)) return SILENT;       // lengths squared / inverted inside the class over- or underflow: the header is silent about the scale
  return (f >= -0.25 && f <= 0.2) ? VALID : SILENT;
}
// ---- NearestNeighbor(pts, dist, bucket): "bucket is out of bounds" -- 0 <= bucket <= maxbucket (10)
inline V nn_bucket(long long bucket) { return (bucket >= 0 && bucket <= 10) ? VALID : inv("bucket-range"); }
// ---- SphericalHarmonic(C, S, N, a, norm): "N does not satisfy N >= -1", "C or S is not big enough"
inline V sph(long long N, long long csize, long long ssize) {
  if (N < -1) return inv("degree-range");
  long long need_c = (N + 1) * (N + 2) / 2, need_s = need_c - (N + 1);
  if (N >= 0 && (csize < need_c || ssize < need_s)) return inv("arrays-too-small");
  return VALID;
}
// (C, S, N, nmx, mmx, a, norm): "N, nmx, and mmx do not satisfy N >= nmx >= mmx >= -1"
inline V sph3(long long N, long long nmx, long long mmx, long long csize, long long ssize) {
  if (!(N >= nmx && nmx >= mmx && mmx >= -1)) return inv("degree-range");
  if (mmx == -1 && nmx != -1) return SILENT;     // the source comment restricts mmx = -1 to nmx = -1 ("the sums are empty"); the header does not
  if (N < 0) return VALID;
  // storage is column-major over the full (N, N) triangle; the last element used is (nmx, mmx)
  auto idx = [&](long long n, long long m) { return m * N - m * (m - 1) / 2 + n; };
  if (mmx >= 0 && (csize <= idx(nmx, mmx) || (mmx > 0 && ssize <= idx(nmx, mmx) - (N + 1)))) return inv("arrays-too-small");
  return VALID;
}

}  // namespace ctorv
