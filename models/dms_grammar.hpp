// models/dms_grammar.hpp -- reference recogniser for the input language of DMS::Decode.
//
// Written from the documentation comment of DMS::Decode in include/GeographicLib/DMS.hpp (and the two
// sentences of the class comment / GeoCoords.hpp that the comment refers to); nothing is taken from DMS.cpp.
// For a byte string it answers
//     ACCEPT (value, hemisphere flag)  -- the documentation says the string is legal and what it means
//     REJECT                           -- the documentation says (or directly implies) the string is malformed
//     SILENT (reason)                  -- the documentation does not decide; excluded from accept/reject comparison
// Soundness over completeness: whenever two readings of the text are possible the answer is SILENT.
//
// Rules encoded (quotes are from DMS.hpp):
//  R1  "Degrees, minutes, and seconds are indicated by the characters d, ' , " and these components may only be
//      given in this order.  Any (but not all) components may be omitted"
//  R2  "other symbols ... may be substituted; two single quotes can be used instead of ""  -> table SYMBOLS below,
//      generated from the U+xxxx list in the header; "codes with a leading zero byte, e.g., U+00b0, are accepted in
//      their UTF-8 coded form 0xc2 0xb0 and as a single byte 0xb0"; ignored spaces "are removed"
//  R3  "The last component indicator may be omitted and is assumed to be the next smallest unit"
//  R4  "The final component may be a decimal fraction but the non-final components must be integers"
//  R5  ": (colon) may be used to separate these components (numbers must appear before and after each colon)"
//  R6  "The integer parts of the minutes and seconds components must be less than 60" -- with the listed LEGAL
//      examples 4:60.0 and 4:59:60.0 and ILLEGAL 4:60, 4:59:60: a fractional 60.0 (all fraction digits zero) is legal
//  R7  "A single leading sign is permitted.  A hemisphere designator (N, E, W, S) may be added to the beginning or
//      end of the string.  The result is multiplied by the implied sign ... ind is set to LATITUDE / LONGITUDE / NONE"
//  R8  "Leading and trailing whitespace is removed"
//  R9  internal signs: "the string is split immediately before such signs and each piece is decoded according to the
//      above rules and the results added"; designators "must compatible"; "the designator can appear at the
//      beginning or end of the first piece, but must be at the end of all subsequent pieces (a hemisphere designator
//      is not allowed after the initial sign)"
//  R10 "The "exponential" notation is not recognized"
//  R11 class comment: "In addition, handle NANs and infinities on input" -> [+-]nan, [+-]inf (any case)
//
// Documentation-silent classes (SILENT): ASCII white space inside the string; white space next to a removed
// unicode space; colon and d ' " indicators mixed in one piece; a number ending in '.' ("4."); nan/inf look-alikes
// other than R11 (e.g. "1.#INF", "inf+1", "nan0"); numerals above DBL_MAX; an ignored space between the two quotes of a '' pair; runs of
// three or more minute symbols whose pairing changes the verdict.  Lower-case n s e w are treated like the
// upper-case letters (Utility::lookup documents the case folding; DMS.hpp lists "d, D") and the result is tagged
// lowercase_hemi so that a harness can report the assumption.
#pragma once
#include <string>
#include <vector>
#include <cmath>
#include <cstdlib>
#include <cstring>
#include <algorithm>

namespace dmsg {

enum Flag { NONE = 0, LATITUDE = 1, LONGITUDE = 2 };
enum Verdict { ACCEPT = 0, REJECT = 1, SILENT = 2 };

struct Result {
  Verdict verdict = REJECT;
  long double value = 0;        // ACCEPT: sum of the pieces (64-bit significand arithmetic)
  long double mag = 0;          // ACCEPT: sum of |piece| (scale for a round-off tolerance)
  int flag = NONE;
  bool special = false;         // nan / inf
  bool lowercase_hemi = false;  // verdict relies on n s e w == N S E W
  const char* why = "";         // reason for REJECT / SILENT
  int npieces = 0;
  int maxidigits = 0;           // ACCEPT: largest number of significant integer digits in one component (the accuracy of
                                // numerals longer than a double's 15-16 digits is not documented)
};

// ------------------------------------------------------------------ symbol table (R2)
struct Sym { unsigned cp; char canon; const char* klass; };      // canon: d ' " + - or ' ' for "ignored space"
static const Sym CODEPOINTS[] = {
  // degrees
  {'d', 'd', "degree"}, {'D', 'd', "degree"}, {0x00b0, 'd', "degree"}, {0x00ba, 'd', "degree"}, {0x2070, 'd', "degree"},
  {0x02da, 'd', "degree"}, {0x2218, 'd', "degree"}, {'*', 'd', "degree"},
  // minutes
  {'\'', '\'', "minute"}, {'`', '\'', "minute"}, {0x2032, '\'', "minute"}, {0x2035, '\'', "minute"}, {0x00b4, '\'', "minute"},
  {0x2018, '\'', "minute"}, {0x2019, '\'', "minute"}, {0x201b, '\'', "minute"}, {0x02b9, '\'', "minute"}, {0x02ca, '\'', "minute"},
  {0x02cb, '\'', "minute"},
  // seconds
  {'"', '"', "second"}, {0x2033, '"', "second"}, {0x2036, '"', "second"}, {0x02dd, '"', "second"}, {0x201c, '"', "second"},
  {0x201d, '"', "second"}, {0x201f, '"', "second"}, {0x02ba, '"', "second"},
  // plus
  {'+', '+', "plus"}, {0x2795, '+', "plus"}, {0x2064, '+', "plus"},
  // minus
  {'-', '-', "minus"}, {0x2010, '-', "minus"}, {0x2011, '-', "minus"}, {0x2013, '-', "minus"}, {0x2014, '-', "minus"},
  {0x2212, '-', "minus"}, {0x2796, '-', "minus"},
  // ignored spaces
  {0x00a0, ' ', "ignored"}, {0x2007, ' ', "ignored"}, {0x2009, ' ', "ignored"}, {0x200a, ' ', "ignored"}, {0x200b, ' ', "ignored"},
  {0x202f, ' ', "ignored"}, {0x2063, ' ', "ignored"},
};
inline std::string utf8(unsigned cp) {
  std::string s;
  if (cp < 0x80) s += char(cp);
  else if (cp < 0x800) { s += char(0xc0 | (cp >> 6)); s += char(0x80 | (cp & 0x3f)); }
  else { s += char(0xe0 | (cp >> 12)); s += char(0x80 | ((cp >> 6) & 0x3f)); s += char(0x80 | (cp & 0x3f)); }
  return s;
}
struct Alt { std::string bytes; char canon; std::string name; const char* klass; };
// every alternative byte sequence the documentation lists (UTF-8 forms, plus the bare Latin-1 byte for U+00xx)
inline const std::vector<Alt>& alternatives() {
  static std::vector<Alt> v;
  if (v.empty()) {
    for (const Sym& s : CODEPOINTS) {
      char nm[32];
      if (s.cp < 0x80) snprintf(nm, sizeof nm, "%c", char(s.cp)); else snprintf(nm, sizeof nm, "U+%04x", s.cp);
      v.push_back({utf8(s.cp), s.canon, nm, s.klass});
      if (s.cp >= 0x80 && s.cp < 0x100) { snprintf(nm, sizeof nm, "0x%02x", s.cp); v.push_back({std::string(1, char(s.cp)), s.canon, nm, s.klass}); }
    }
  }
  return v;
}

namespace detail {
const char IGN = '\x01', OTHER = '\x02';
inline bool is_ws(unsigned char c) { return c == ' ' || c == '\t' || c == '\n' || c == '\v' || c == '\f' || c == '\r'; }
inline bool is_hemi(char c) { return c == 'N' || c == 'S' || c == 'E' || c == 'W'; }
inline bool is_sign(char c) { return c == '+' || c == '-'; }

// bytes -> canonical characters: 0-9 . : d ' " + - N S E W, ' ' (ASCII white space), IGN, OTHER
inline std::string lex(const std::string& raw, bool& lower_hemi) {
  const std::vector<Alt>& alts = alternatives();
  std::string out; lower_hemi = false;
  size_t i = 0, n = raw.size();
  while (i < n) {
    const Alt* best = nullptr;
    for (const Alt& a : alts) if (a.bytes.size() <= n - i && raw.compare(i, a.bytes.size(), a.bytes) == 0 && (!best || a.bytes.size() > best->bytes.size())) best = &a;
    if (best) { out += best->canon == ' ' ? IGN : best->canon; i += best->bytes.size(); continue; }
    unsigned char c = raw[i++];
    if ((c >= '0' && c <= '9') || c == '.' || c == ':') out += char(c);
    else if (is_ws(c)) out += ' ';
    else if (c == 'N' || c == 'S' || c == 'E' || c == 'W') out += char(c);
    else if (c == 'n' || c == 's' || c == 'e' || c == 'w') { out += char(c - 'a' + 'A'); lower_hemi = true; }
    else out += OTHER;
  }
  return out;
}

struct Num { bool ok; bool has_point; bool trailing_point; bool frac_zero; long double v; long double ipart; int idigits; };
// a number is a run of digits with at most one '.', at least one digit
inline Num number(const std::string& s) {
  Num r{false, false, false, true, 0, 0, 0};
  size_t nd = 0, np = 0, pp = std::string::npos;
  for (size_t i = 0; i < s.size(); ++i) { if (s[i] == '.') { ++np; pp = i; } else if (s[i] >= '0' && s[i] <= '9') ++nd; else return r; }
  if (nd == 0 || np > 1) return r;
  r.ok = true; r.has_point = np == 1; r.trailing_point = np == 1 && pp + 1 == s.size();
  if (np == 1) for (size_t i = pp + 1; i < s.size(); ++i) if (s[i] != '0') r.frac_zero = false;
  std::string t = s; if (t[0] == '.') t = "0" + t;
  r.v = strtold(t.c_str(), nullptr);
  std::string ip = np ? s.substr(0, pp) : s; if (ip.empty()) ip = "0";
  r.ipart = strtold(ip.c_str(), nullptr);
  { size_t z = 0; while (z < ip.size() && ip[z] == '0') ++z; r.idigits = int(ip.size() - z); }
  return r;
}

struct Body { Verdict v; long double val; const char* why; int idigits = 0; };
// R6
inline bool sixty_ok(const Num& x, const char*& why) {
  if (x.ipart < 60) return true;
  if (x.ipart == 60 && x.has_point && !x.trailing_point && x.frac_zero) return true;      // 60.0
  why = "minutes or seconds not less than 60"; return false;
}
// body: the part of a piece without sign and hemisphere; characters 0-9 . : d ' "
inline Body body(const std::string& s) {
  if (s.empty()) return {REJECT, 0, "empty piece"};
  bool colon = s.find(':') != std::string::npos, ind = s.find_first_of("d'\"") != std::string::npos;
  long double comp[3] = {0, 0, 0};
  bool silent_tp = false; int idig = 0;
  if (colon && ind) return {SILENT, 0, "colon and d ' \" mixed"};
  if (colon) {
    std::vector<std::string> parts; size_t p = 0;
    while (true) { size_t q = s.find(':', p); parts.push_back(s.substr(p, q == std::string::npos ? q : q - p)); if (q == std::string::npos) break; p = q + 1; }
    if (parts.size() > 3) return {REJECT, 0, "more than three colon-separated components"};
    for (size_t k = 0; k < parts.size(); ++k) {
      Num x = number(parts[k]);
      if (!x.ok) return {REJECT, 0, "numbers must appear before and after each colon"};
      bool last = k + 1 == parts.size();
      if (!last && x.has_point) return {REJECT, 0, "non-final component not an integer"};
      if (last && x.trailing_point) silent_tp = true;
      const char* why = "";
      if (k >= 1 && !sixty_ok(x, why)) return {REJECT, 0, why};
      comp[k] = x.v; idig = std::max(idig, x.idigits);
    }
  } else {
    // (number indicator)* [number]
    size_t p = 0; int rank = -1; bool any = false;
    while (p < s.size()) {
      size_t q = s.find_first_of("d'\"", p);
      std::string numtxt = s.substr(p, q == std::string::npos ? q : q - p);
      if (q == std::string::npos) {                       // trailing number without indicator (R3)
        Num x = number(numtxt);
        if (!x.ok) return {REJECT, 0, "malformed number"};
        int k = rank + 1;
        if (k > 2) return {REJECT, 0, "text after the seconds component"};
        if (x.trailing_point) silent_tp = true;
        const char* why = "";
        if (k >= 1 && !sixty_ok(x, why)) return {REJECT, 0, why};
        comp[k] = x.v; idig = std::max(idig, x.idigits); any = true; p = s.size();
        break;
      }
      int k = s[q] == 'd' ? 0 : (s[q] == '\'' ? 1 : 2);
      if (numtxt.empty()) return {REJECT, 0, "indicator without a number"};
      Num x = number(numtxt);
      if (!x.ok) return {REJECT, 0, "malformed number"};
      if (k <= rank) return {REJECT, 0, "components repeated or out of order"};
      bool last = q + 1 == s.size();
      if (!last && x.has_point) return {REJECT, 0, "non-final component not an integer"};
      if (last && x.trailing_point) silent_tp = true;
      const char* why = "";
      if (k >= 1 && !sixty_ok(x, why)) return {REJECT, 0, why};
      comp[k] = x.v; idig = std::max(idig, x.idigits); rank = k; any = true; p = q + 1;
    }
    if (!any) return {REJECT, 0, "no components"};
  }
  if (silent_tp) return {SILENT, 0, "number ends in a decimal point"};
  for (int k = 0; k < 3; ++k) if (comp[k] > 1.7976931348623157e308L) return {SILENT, 0, "number overflows double"};
  return {ACCEPT, comp[0] + comp[1] / 60.0L + comp[2] / 3600.0L, "", idig};
}

// merge runs of minute marks into second marks; leftgreedy decides the pairing in odd runs
inline std::string merge_quotes(const std::string& s, bool leftgreedy) {
  std::string o;
  for (size_t i = 0; i < s.size();) {
    if (s[i] != '\'') { o += s[i++]; continue; }
    size_t j = i; while (j < s.size() && s[j] == '\'') ++j;
    size_t k = j - i;
    if (k % 2 == 1 && !leftgreedy) o += '\'';
    for (size_t m = 0; m < k / 2; ++m) o += '"';
    if (k % 2 == 1 && leftgreedy) o += '\'';
    i = j;
  }
  return o;
}

inline Result parse_canon(const std::string& c) {
  Result r;
  if (c.empty()) { r.why = "empty string"; return r; }
  if (c.find(' ') != std::string::npos) { r.verdict = SILENT; r.why = "ASCII white space inside the string"; return r; }
  if (c.find(OTHER) != std::string::npos) { r.why = "character outside the documented alphabet"; return r; }
  // R9: split before internal signs
  std::vector<std::string> pieces; size_t start = 0;
  size_t first_allowed = (is_hemi(c[0]) && c.size() > 1 && is_sign(c[1])) ? 1 : 0;     // position where a sign is not internal
  for (size_t i = 0; i < c.size(); ++i)
    if (is_sign(c[i]) && i != first_allowed && !(i == 0)) { pieces.push_back(c.substr(start, i - start)); start = i; }
  pieces.push_back(c.substr(start));
  long double sum = 0, mag = 0; int flag = NONE; bool silent = false; const char* swhy = "";
  for (size_t k = 0; k < pieces.size(); ++k) {
    std::string s = pieces[k]; int sign = 1; char hemi = 0;
    if (k == 0) {
      if (!s.empty() && is_hemi(s[0])) { hemi = s[0]; s.erase(0, 1); }
      if (!s.empty() && is_sign(s[0])) { if (s[0] == '-') sign = -1; s.erase(0, 1); }
    } else {
      if (s[0] == '-') sign = -1;
      s.erase(0, 1);
    }
    if (!s.empty() && is_hemi(s.back())) {
      if (hemi) { r.verdict = REJECT; r.why = "two hemisphere designators in one piece"; return r; }
      hemi = s.back(); s.pop_back();
    }
    for (char ch : s) if (is_hemi(ch) || is_sign(ch)) { r.verdict = REJECT; r.why = "hemisphere designator or sign inside a piece"; return r; }
    Body b = body(s);
    if (b.v == REJECT) { r.verdict = REJECT; r.why = b.why; return r; }
    if (b.v == SILENT) { silent = true; swhy = b.why; continue; }
    if (hemi) {
      int f = (hemi == 'N' || hemi == 'S') ? LATITUDE : LONGITUDE;
      if (flag != NONE && flag != f) { r.verdict = REJECT; r.why = "incompatible hemisphere designators"; return r; }
      flag = f;
      if (hemi == 'S' || hemi == 'W') sign = -sign;
    }
    sum += sign * b.val; mag += b.val; r.maxidigits = std::max(r.maxidigits, b.idigits);
  }
  if (silent) { r.verdict = SILENT; r.why = swhy; return r; }
  r.verdict = ACCEPT; r.value = sum; r.mag = mag; r.flag = flag; r.npieces = (int)pieces.size();
  return r;
}
inline std::string upper_ascii(std::string s) { for (auto& ch : s) if (ch >= 'a' && ch <= 'z') ch = char(ch - 'a' + 'A'); return s; }
}  // namespace detail

inline Result recognise(const std::string& raw) {
  using namespace detail;
  Result r;
  // R8 on the raw bytes
  size_t b = 0, e = raw.size();
  while (b < e && is_ws(raw[b])) ++b;
  while (e > b && is_ws(raw[e - 1])) --e;
  std::string t = raw.substr(b, e - b);
  // R11
  {
    std::string U = upper_ascii(t);
    std::string V = U; int sg = 1;
    if (!V.empty() && (V[0] == '+' || V[0] == '-')) { if (V[0] == '-') sg = -1; V.erase(0, 1); }
    if (V == "NAN") { r.verdict = ACCEPT; r.special = true; r.value = NAN; r.npieces = 1; return r; }
    if (V == "INF") { r.verdict = ACCEPT; r.special = true; r.value = sg * (long double)INFINITY; r.mag = INFINITY; r.npieces = 1; return r; }
    if (U.find("NAN") != std::string::npos || U.find("INF") != std::string::npos || U.find("1.#") != std::string::npos) {
      r.verdict = SILENT; r.why = "nan/inf look-alike"; return r;
    }
  }
  bool lower = false;
  std::string c = lex(t, lower);
  bool has_ign = c.find(IGN) != std::string::npos;
  if (has_ign) {
    if (t.size() != raw.size() || c.find(' ') != std::string::npos) { r.verdict = SILENT; r.why = "ASCII white space together with an ignored unicode space"; return r; }
    // ignored space between two minute marks: is it still a '' pair?
    for (size_t i = 0; i + 2 < c.size(); ++i) if (c[i] == '\'') { size_t j = i + 1; while (j < c.size() && c[j] == IGN) ++j; if (j > i + 1 && j < c.size() && c[j] == '\'') { r.verdict = SILENT; r.why = "ignored space inside a '' pair"; return r; } }
    c.erase(std::remove(c.begin(), c.end(), IGN), c.end());
  }
  Result a = parse_canon(merge_quotes(c, true));
  if (c.find("'''") != std::string::npos) {
    Result b2 = parse_canon(merge_quotes(c, false));
    bool same = a.verdict == b2.verdict && (a.verdict != ACCEPT || (a.value == b2.value && a.flag == b2.flag));
    if (!same) { Result s; s.verdict = SILENT; s.why = "ambiguous pairing of three or more minute marks"; return s; }
  }
  a.lowercase_hemi = lower;
  return a;
}

// ------------------------------------------------------------------ the documentation's own examples
struct Example { const char* text; bool legal; long double value; int flag; };
inline const std::vector<Example>& doc_examples() {
  static const std::vector<Example> v = {
    // DMS.hpp LEGAL, line 1 (all equivalent)
    {"-20.51125", true, -20.51125L, NONE}, {"20d30'40.5\"S", true, -20.51125L, LATITUDE}, {"-20\xc2\xb0" "30'40.5", true, -20.51125L, NONE},
    {"-20d30.675", true, -20.51125L, NONE}, {"N-20d30'40.5\"", true, -20.51125L, LATITUDE}, {"-20:30:40.5", true, -20.51125L, NONE},
    // line 2
    {"4d0'9", true, 4.0025L, NONE}, {"4d9\"", true, 4.0025L, NONE}, {"4d9''", true, 4.0025L, NONE}, {"4:0:9", true, 4.0025L, NONE},
    {"004:00:09", true, 4.0025L, NONE}, {"4.0025", true, 4.0025L, NONE}, {"4.0025d", true, 4.0025L, NONE}, {"4d0.15", true, 4.0025L, NONE},
    {"04:.15", true, 4.0025L, NONE},
    // line 3 (equivalent to 5 in double precision)
    {"4:59.99999999999999", true, 5.0L, NONE}, {"4:60.0", true, 5.0L, NONE}, {"4:59:59.9999999999999", true, 5.0L, NONE},
    {"4:59:60.0", true, 5.0L, NONE}, {"5", true, 5.0L, NONE},
    // ILLEGAL
    {"4d5\"4'", false, 0, 0}, {"4::5", false, 0, 0}, {"4:5:", false, 0, 0}, {":4:5", false, 0, 0}, {"4d4.5'4\"", false, 0, 0},
    {"-N20.5", false, 0, 0}, {"1.8e2d", false, 0, 0}, {"4:60", false, 0, 0}, {"4:59:60", false, 0, 0},
    // sums
    {"S3-2.5+4.1N", true, -1.4L, LATITUDE},
    {"-070:00:45", true, -70.0125L, NONE}, {"70:01:15W+0:0.5", true, -70.0125L, LONGITUDE}, {"70:01:15W-0:0:30W", true, -70.0125L, LONGITUDE},
    {"W70:01:15+0:0:30E", true, -70.0125L, LONGITUDE},
    {"70:01:15W+0:0:15N", false, 0, 0}, {"W70:01:15+W0:0:15", false, 0, 0},
    // warning paragraph
    {"7.0E1", false, 0, 0}, {"7.0E+1", true, 8.0L, LONGITUDE}, {"8.0E", true, 8.0L, LONGITUDE},
    // "thus 33d10 is interpreted as 33d10'", "5.5' may be written 0:5.5", "50d30'10.3" may be written as 50:30:10.3"
    {"33d10", true, 33.0L + 10.0L / 60, NONE}, {"33d10'", true, 33.0L + 10.0L / 60, NONE}, {"5.5'", true, 5.5L / 60, NONE}, {"0:5.5", true, 5.5L / 60, NONE},
    {"50d30'10.3\"", true, 50.0L + 30.0L / 60 + 10.3L / 3600, NONE}, {"50:30:10.3", true, 50.0L + 30.0L / 60 + 10.3L / 3600, NONE},
    // GeoCoords.hpp
    {"40d30'30\"", true, 40.0L + 30.5L / 60, NONE}, {"40d30'30", true, 40.0L + 30.5L / 60, NONE}, {"40\xc2\xb0" "30'30", true, 40.0L + 30.5L / 60, NONE},
    {"40d30.5'", true, 40.0L + 30.5L / 60, NONE}, {"40d30.5", true, 40.0L + 30.5L / 60, NONE}, {"40:30:30", true, 40.0L + 30.5L / 60, NONE},
    {"40:30.5", true, 40.0L + 30.5L / 60, NONE}, {"40:30+0:0:30", true, 40.0L + 30.5L / 60, NONE}, {"40:31-0:0.5", true, 40.0L + 30.5L / 60, NONE},
    {"-1d30", true, -1.5L, NONE}, {"-1:30-0:0:15", true, -1.5L - 15.0L / 3600, NONE},
    {"N40", true, 40, LATITUDE}, {"W75", true, -75, LONGITUDE}, {"75W", true, -75, LONGITUDE}, {"E-75", true, -75, LONGITUDE}, {"-40S", true, 40, LATITUDE},
    {"N33d26.4'", true, 33.44L, LATITUDE}, {"43d16'12\"E", true, 43.27L, LONGITUDE}, {"43:16:12E", true, 43.27L, LONGITUDE},
  };
  return v;
}
// "" if the recogniser classifies every documented example as documented, else a description of the first mismatch
inline std::string selftest() {
  for (const Example& ex : doc_examples()) {
    Result r = recognise(ex.text);
    if (r.verdict == SILENT) return std::string("doc example '") + ex.text + "' classified SILENT (" + r.why + ")";
    if ((r.verdict == ACCEPT) != ex.legal) return std::string("doc example '") + ex.text + "' classified " + (r.verdict == ACCEPT ? "ACCEPT" : "REJECT");
    if (ex.legal) {
      if (r.flag != ex.flag) return std::string("doc example '") + ex.text + "' flag mismatch";
      if (fabsl(r.value - ex.value) > 2e-15L * fabsl(ex.value)) return std::string("doc example '") + ex.text + "' value mismatch";
    }
  }
  // symbol table sanity: every alternative alone in "4<sym>5" style contexts lexes to its canonical character
  for (const Alt& a : alternatives()) {
    bool lower; std::string c = detail::lex("1" + a.bytes + "2", lower);
    std::string want = std::string("1") + (a.canon == ' ' ? detail::IGN : a.canon) + "2";
    if (c != want) return "symbol " + a.name + " does not lex to its canonical character";
  }
  return "";
}

}  // namespace dmsg
