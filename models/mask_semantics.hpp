// models/mask_semantics.hpp -- reference model of the output-mask / capability semantics of the geodesic and rhumb
// solvers, written from the header documentation (Geodesic.hpp, GeodesicLine.hpp, GeodesicExact.hpp,
// GeodesicLineExact.hpp, Rhumb.hpp), not from the implementation:
//
//  * "Bit masks for what calculations to do.  These masks do double duty.  They signify to the GeodesicLine constructor
//    ... what capabilities should be included ...  They also specify which results to return" (Geodesic.hpp, enum mask).
//  * GeodesicLine constructor: LATITUDE and AZIMUTH are "added automatically"; LONG_UNROLL is a flag of the call, not a
//    capability.
//  * GeodesicLine::Position: "The GeodesicLine object must have been constructed with caps |= DISTANCE_IN; otherwise
//    Math::NaN() is returned and no parameters are set.  Requesting a value which the GeodesicLine object is not
//    capable of computing is not an error; the corresponding argument will not be altered."
//  * default constructor: "If GeodesicLine::Position is called on the resulting object, it returns immediately (without
//    doing any calculations)"; inspectors return NaN.
//  * Geodesic::GenDirect / GenInverse: "outmask a bitor'ed combination of Geodesic::mask values specifying which of the
//    following parameters should be set"; the function value a12 is always returned.
//  * Rhumb::GenDirect: LATITUDE -> lat2, LONGITUDE -> lon2, AREA -> S12, LONG_UNROLL modifies lon2;
//    Rhumb::GenInverse: DISTANCE -> s12, AZIMUTH -> azi12, AREA -> S12.
//
// Output quantities are numbered; M12 and M21 are one quantity (GEODESICSCALE), azi1/azi2 of the inverse likewise.
#pragma once

namespace masksem {

enum Quantity { Q_LAT = 0, Q_LON, Q_AZI, Q_DIST, Q_REDLEN, Q_SCALE, Q_AREA, NQ };
static const char* const QNAME[NQ] = {"LATITUDE", "LONGITUDE", "AZIMUTH", "DISTANCE", "REDUCEDLENGTH", "GEODESICSCALE", "AREA"};

// the documented output bit of each quantity (enum mask: 1U<<7 ... 1U<<14), the input capability and the unroll flag
static const unsigned OUTBIT[NQ] = {1U << 7, 1U << 8, 1U << 9, 1U << 10, 1U << 12, 1U << 13, 1U << 14};
static const unsigned BIT_DISTANCE_IN = 1U << 11, BIT_LONG_UNROLL = 1U << 15;
static const unsigned OUT_ALL_BITS = 0x7F80U;                 // "ALL" without the capability bits and without LONG_UNROLL

// documented enumerator values: output bit | capability bits.  Series classes (Geodesic, GeodesicLine): CAP_C1 = 1,
// CAP_C1p = 2, CAP_C2 = 4, CAP_C3 = 8, CAP_C4 = 16; exact classes: CAP_E = 1, CAP_D = 4, CAP_H = 8, CAP_C4 = 16.
struct EnumValues { unsigned NONE, LATITUDE, LONGITUDE, AZIMUTH, DISTANCE, STANDARD, DISTANCE_IN, REDUCEDLENGTH, GEODESICSCALE, AREA, LONG_UNROLL, ALL; };
static const EnumValues SERIES_ENUM = {0, 1U << 7, 1U << 8 | 8, 1U << 9, 1U << 10 | 1, (1U << 7) | (1U << 8 | 8) | (1U << 9) | (1U << 10 | 1),
                                       1U << 11 | 1 | 2, 1U << 12 | 1 | 4, 1U << 13 | 1 | 4, 1U << 14 | 16, 1U << 15, 0x7F80U | 0x1FU};
static const EnumValues EXACT_ENUM = {0, 1U << 7, 1U << 8 | 8, 1U << 9, 1U << 10 | 1, (1U << 7) | (1U << 8 | 8) | (1U << 9) | (1U << 10 | 1),
                                      1U << 11 | 1, 1U << 12 | 4, 1U << 13 | 4, 1U << 14 | 16, 1U << 15, 0x7F80U | 0x1FU};
// Rhumb::mask / RhumbLine::mask
struct RhumbEnumValues { unsigned NONE, LATITUDE, LONGITUDE, AZIMUTH, DISTANCE, AREA, LONG_UNROLL, ALL; };
static const RhumbEnumValues RHUMB_ENUM = {0, 1U << 7, 1U << 8, 1U << 9, 1U << 10, 1U << 14, 1U << 15, 0x7F80U};

// ---- line objects ------------------------------------------------------------------------------------------------
// capabilities a line effectively has: those it was constructed with plus the ones added automatically
inline unsigned line_caps(unsigned caps) { return caps | OUTBIT[Q_LAT] | OUTBIT[Q_AZI] | BIT_LONG_UNROLL; }
// the line can locate the point: initialised, and the length is an arc length or the line accepts distances
inline bool line_locates(bool initialised, unsigned caps, bool arcmode) { return initialised && (arcmode || (caps & BIT_DISTANCE_IN)); }
// function value of GenPosition is NaN exactly when the point cannot be located
inline bool line_returns_nan(bool initialised, unsigned caps, bool arcmode) { return !line_locates(initialised, caps, arcmode); }
// output q is written  <=>  point located  and  q in outmask  and  q in (caps U always-available)
inline bool line_writes(Quantity q, unsigned outmask, bool initialised, unsigned caps, bool arcmode) {
  return line_locates(initialised, caps, arcmode) && (outmask & OUTBIT[q]) && (line_caps(caps) & OUTBIT[q]);
}
// lon2 is unrolled <=> LONG_UNROLL in outmask (always available)
inline bool unrolled(unsigned outmask) { return (outmask & BIT_LONG_UNROLL) != 0; }
// what Capabilities() reports: "the computational capabilities that this object was constructed with.  LATITUDE and
// AZIMUTH are always included"; Capabilities(testcaps): "true if the GeodesicLine object has all these capabilities"
inline bool line_has(unsigned caps, unsigned testcaps) { testcaps &= OUT_ALL_BITS; return (line_caps(caps) & testcaps) == testcaps; }
// SetArc: "The distance s13 is only set if the GeodesicLine object has been constructed with caps |= DISTANCE";
// SetDistance: "only useful if ... DISTANCE_IN" (a13 is NaN otherwise)
inline bool setarc_sets_s13(unsigned caps) { return (caps & OUTBIT[Q_DIST]) != 0; }
inline bool setdistance_sets_a13(unsigned caps) { return (caps & BIT_DISTANCE_IN) != 0; }

// ---- Geodesic::GenDirect / GenInverse -------------------------------------------------------------------------------
inline bool direct_writes(Quantity q, unsigned outmask) { return (outmask & OUTBIT[q]) != 0; }
// the inverse problem has no lat2/lon2 outputs; Q_AZI stands for (azi1, azi2), Q_SCALE for (M12, M21)
inline bool inverse_writes(Quantity q, unsigned outmask) { return q != Q_LAT && q != Q_LON && (outmask & OUTBIT[q]) != 0; }

// ---- Rhumb ---------------------------------------------------------------------------------------------------------
// direct / RhumbLine::GenPosition outputs: lat2 (Q_LAT), lon2 (Q_LON), S12 (Q_AREA); inverse: s12 (Q_DIST), azi12 (Q_AZI), S12
inline bool rhumb_direct_writes(Quantity q, unsigned outmask) { return (q == Q_LAT || q == Q_LON || q == Q_AREA) && (outmask & OUTBIT[q]) != 0; }
inline bool rhumb_inverse_writes(Quantity q, unsigned outmask) { return (q == Q_DIST || q == Q_AZI || q == Q_AREA) && (outmask & OUTBIT[q]) != 0; }

}  // namespace masksem

namespace masksem {
// ---- line constructors that register point 3 (Geodesic.hpp: "This function sets point 3 of the GeodesicLine to
// correspond to point 2 of the inverse/direct geodesic problem") --------------------------------------------------------
// DirectLine: the distance is the defining datum (DISTANCE_IN is supplied automatically: the line is specified by s12),
//   the arc length is always known.  ArcDirectLine: the arc is the datum, the distance only with the DISTANCE capability.
// InverseLine: the arc is always known; the distance whenever the line deals in distances at all (DISTANCE or DISTANCE_IN).
inline bool directline_has_s13(unsigned) { return true; }
inline bool directline_has_a13(unsigned) { return true; }
inline bool arcdirectline_has_s13(unsigned caps) { return (caps & OUTBIT[Q_DIST]) != 0; }
inline bool inverseline_has_s13(unsigned caps) { return (caps & (OUTBIT[Q_DIST] | BIT_DISTANCE_IN)) != 0; }
// capabilities of the returned lines: DirectLine adds DISTANCE_IN; InverseLine adds DISTANCE when DISTANCE_IN is present
inline unsigned directline_caps(unsigned caps) { return caps | BIT_DISTANCE_IN; }
inline unsigned inverseline_caps(unsigned caps) { return (caps & BIT_DISTANCE_IN) ? (caps | OUTBIT[Q_DIST]) : caps; }
}  // namespace masksem
