// models/C15_tol.hpp -- tolerance schedule of the C15 harness, in units of eps = 2^-52 (DESIGN.md Appendix B).
// "documented x 2" where the documentation gives a figure; otherwise calibrated once to 4 x the worst error observed on
// the unchanged tree (floor 16 eps) and frozen.  Tolerances are scheduled per REGIME (ellipsoid: small |f| <= 1/150,
// moderate 0.1 < b/a <= 2, extreme b/a <= 0.1 or b/a > 2; elliptic parameters: moderate, alpha2-large-negative, alpha2-near-one,
// extreme, tiny-complement, kp2-below-1e-100; Carlson arguments: compact, spread, extreme -- defined in props/C15.cpp) so that
// the bound used for terrestrial ellipsoids and ordinary parameters is not diluted by the corners of the lattices.
// The observed worst values are reported in evidence/C15.json (worst{}), as observed/tolerance.
#pragma once
#include <string>
#include <cstring>
struct C15TolRow { const char* pred; const char* regime; double eps; };
static const C15TolRow C15_TOL[] = {
  // predicate, regime, tolerance/eps            // worst observed on the unchanged tree (thorough tier), in eps
  {"aux.degrees.exact", "extreme", 2048},                                // observed 467 eps
  {"aux.degrees.exact", "moderate", 32},                                 // observed 4.53 eps
  {"aux.degrees.exact", "small", 16},                                    // observed 3.85 eps
  {"aux.degrees.series", "small", 16},                                   // observed 3.97 eps
  {"aux.exact.closed", "extreme", 16},                                   // observed 0.564 eps
  {"aux.exact.closed", "moderate", 16},                                  // observed 0 eps
  {"aux.exact.closed", "small", 16},                                     // observed 0.79 eps
  {"aux.exact.newton", "extreme", 8192},                                 // observed 2.01e+03 eps
  {"aux.exact.newton", "moderate", 16},                                  // observed 3.95 eps
  {"aux.exact.newton", "small", 16},                                     // observed 2.8 eps
  {"aux.radii", "*", 16},                                                // observed 1.06 eps
  {"aux.roundtrip", "extreme", 16384},                                   // observed 3.05e+03 eps
  {"aux.roundtrip", "moderate", 16},                                     // observed 2.5 eps
  {"aux.roundtrip", "small", 16},                                        // observed 1.88 eps
  {"aux.series", "small", 16},                                           // observed 3.49 eps
  {"aux.series_vs_exact", "small", 16},                                  // observed 3.65 eps
  {"carlson.RC", "compact", 16},                                         // observed 0.601 eps
  {"carlson.RC", "extreme", 16},                                         // observed 0.757 eps
  {"carlson.RC", "spread", 16},                                          // observed 0.469 eps
  {"carlson.RD", "compact", 16},                                         // observed 1.07 eps
  {"carlson.RD", "extreme", 16},                                         // observed 2.01 eps
  {"carlson.RD", "spread", 16},                                          // observed 3.21 eps
  {"carlson.RF", "compact", 16},                                         // observed 0.601 eps
  {"carlson.RF", "extreme", 16},                                         // observed 1.61 eps
  {"carlson.RF", "spread", 16},                                          // observed 2.34 eps
  {"carlson.RF2", "compact", 16},                                        // observed 0.601 eps
  {"carlson.RF2", "extreme", 16},                                        // observed 1.62 eps
  {"carlson.RF2", "spread", 16},                                         // observed 0.719 eps
  {"carlson.RG", "compact", 16},                                         // observed 1.19 eps
  {"carlson.RG", "extreme", 512},                                        // observed 114 eps
  {"carlson.RG", "spread", 16},                                          // observed 2.21 eps
  {"carlson.RG2", "compact", 16},                                        // observed 1.19 eps
  {"carlson.RG2", "extreme", 512},                                       // observed 114 eps
  {"carlson.RG2", "spread", 16},                                         // observed 1.69 eps
  {"carlson.RJ", "compact", 16},                                         // observed 1.69 eps
  {"carlson.RJ", "extreme", 16},                                         // observed 2.3 eps
  {"carlson.RJ", "spread", 32},                                          // observed 4.03 eps
  {"ellint.D", "alpha2-large-negative", 16},                             // observed 1.11 eps
  {"ellint.D", "alpha2-near-one", 16},                                   // observed 1.11 eps
  {"ellint.D", "extreme", 16},                                           // observed 2.52 eps
  {"ellint.D", "kp2-below-1e-100", 16},                                  // observed 1.59 eps
  {"ellint.D", "moderate", 16},                                          // observed 2.94 eps
  {"ellint.D", "tiny-complement", 16},                                   // observed 3.48 eps
  {"ellint.E", "alpha2-large-negative", 16},                             // observed 3.81 eps
  {"ellint.E", "alpha2-near-one", 16},                                   // observed 3.81 eps
  {"ellint.E", "extreme", 32},                                           // observed 7.32 eps
  {"ellint.E", "kp2-below-1e-100", 512},                                 // observed 85 eps
  {"ellint.E", "moderate", 32},                                          // observed 4.51 eps
  {"ellint.E", "tiny-complement", 16},                                   // observed 2.02 eps
  {"ellint.Ed", "extreme", 32},                                          // observed 4.3 eps
  {"ellint.Ed", "kp2-below-1e-100", 256},                                // observed 46.4 eps
  {"ellint.Ed", "moderate", 16},                                         // observed 2.06 eps
  {"ellint.Ed", "tiny-complement", 16},                                  // observed 1.75 eps
  {"ellint.Einv", "extreme", 64},                                        // observed 8.65 eps
  {"ellint.Einv", "kp2-below-1e-100", 64},                          // known finding (Newton divergence); other arguments observed <= 8 eps
  {"ellint.Einv", "moderate", 16},                                       // observed 2.64 eps
  {"ellint.Einv", "tiny-complement", 16},                                // observed 2.65 eps
  {"ellint.F", "alpha2-large-negative", 16},                             // observed 0.642 eps
  {"ellint.F", "alpha2-near-one", 16},                                   // observed 0.642 eps
  {"ellint.F", "extreme", 16},                                           // observed 0.799 eps
  {"ellint.F", "kp2-below-1e-100", 16},                                  // observed 0.421 eps
  {"ellint.F", "moderate", 16},                                          // observed 2.38 eps
  {"ellint.F", "tiny-complement", 16},                                   // observed 1.18 eps
  {"ellint.G", "alpha2-large-negative", 16384},                          // observed 2.93e+03 eps
  {"ellint.G", "alpha2-near-one", 131072},                               // observed 3.11e+04 eps
  {"ellint.G", "extreme", 256},                                          // observed 56.9 eps
  {"ellint.G", "kp2-below-1e-100", 512},                                 // observed 85 eps
  {"ellint.G", "moderate", 64},                                          // observed 12.3 eps
  {"ellint.G", "tiny-complement", 256},                                  // observed 34 eps
  {"ellint.H", "alpha2-large-negative", 16384},                          // observed 2.56e+03 eps
  {"ellint.H", "alpha2-near-one", 131072},                               // observed 3.11e+04 eps
  {"ellint.H", "extreme", 256},                                          // observed 45.1 eps
  {"ellint.H", "kp2-below-1e-100", 128},                                 // observed 32 eps
  {"ellint.H", "moderate", 64},                                          // observed 9.09 eps
  {"ellint.H", "tiny-complement", 128},                                  // observed 29 eps
  {"ellint.Pi", "alpha2-large-negative", 16384},                         // observed 2.53e+03 eps
  {"ellint.Pi", "alpha2-near-one", 131072},                              // observed 1.84e+04 eps
  {"ellint.Pi", "extreme", 16},                                          // observed 2.88 eps
  {"ellint.Pi", "kp2-below-1e-100", 16},                                 // observed 0.421 eps
  {"ellint.Pi", "moderate", 16},                                         // observed 2.66 eps
  {"ellint.Pi", "tiny-complement", 16},                                  // observed 1.18 eps
  {"ellipsoid.crossclass", "extreme", 16},                               // observed 1.1 eps
  {"ellipsoid.crossclass", "moderate", 32},                              // observed 4.31 eps
  {"ellipsoid.crossclass", "small", 16},                                 // observed 1.95 eps
  {"ellipsoid.curvature", "extreme", 16},                                // observed 1.57 eps
  {"ellipsoid.curvature", "moderate", 16},                               // observed 1.83 eps
  {"ellipsoid.curvature", "small", 16},                                  // observed 2.66 eps
  {"ellipsoid.latitude", "extreme", 1024},                               // observed 241 eps
  {"ellipsoid.latitude", "moderate", 16},                                // observed 2.56 eps
  {"ellipsoid.latitude", "small", 16},                                   // observed 2.25 eps
  {"ellipsoid.measure", "extreme", 2048},                                // observed 504 eps
  {"ellipsoid.measure", "moderate", 16},                                 // observed 1.71 eps
  {"ellipsoid.measure", "small", 16},                                    // observed 2.25 eps
  {"ellipsoid.shape", "*", 16},                                          // observed 0.533 eps
  {"jacobi", "extreme", 256},                                            // observed 51.9 eps
  {"jacobi", "kp2-below-1e-100", 64},                                 // known finding (am inaccurate for tiny k'); sncndn observed <= 1 eps
  {"jacobi", "moderate", 16},                                            // observed 0.824 eps
  {"jacobi", "tiny-complement", 32768},                                  // observed 7.6e+03 eps
  // derivative outputs (subcheck auxlat-derivative), calibrated on the thorough lattice of the unchanged tree
  {"aux.derivative", "small", 16},                                       // observed 4.5 eps
  {"aux.derivative", "moderate", 16},                                    // observed 3.8 eps
  {"aux.derivative", "extreme", 16384},                                  // observed 3.5e+03 eps (xi, b/a = 100); mu, chi 252 (b/a = 0.01)
  {"daux.coincident", "small", 16},                                      // observed 1.3 eps
  {"daux.coincident", "moderate", 64},                                   // observed 13.3 eps (DIsometric, b/a = 1/4)
  {"daux.coincident", "extreme", 1024},                                  // observed 255 eps (DRectifying, b/a = 0.01); DIsometric on b/a <= 0.1: known finding
  {"daux.dconvert", "small", 128},                                       // observed 29.2 eps (chi -> phi)
  {"*", "*", 64},
};
inline double C15tol(const std::string& pred, const std::string& regime0) {
  // the regime kp2-below-1e-24 (1e-100 <= k'^2 < 1e-24, added with the deep thorough tier) uses the rows calibrated for kp2-below-1e-100
  const std::string regime = regime0 == "kp2-below-1e-24" ? "kp2-below-1e-100" : regime0;
  double star = -1, any = 64;
  for (const C15TolRow& r : C15_TOL) {
    if (pred == r.pred && regime == r.regime) return r.eps;
    if (pred == r.pred && !strcmp(r.regime, "*")) star = r.eps;
    if (!strcmp(r.pred, "*") && !strcmp(r.regime, "*")) any = r.eps;
  }
  return star >= 0 ? star : any;
}
static const double TOL_TM_NM = 10;               // TransverseMercator central meridian: documented 5 nm (x 2)
