// models/C15_tol.hpp -- tolerance schedule of the C15 harness, in units of eps = 2^-52 (DESIGN.md Appendix B).
// "documented x 2" where the documentation gives a figure; otherwise calibrated once to 4 x the worst error observed on
// the unchanged tree (floor 16 eps) and frozen.  Tolerances are scheduled per REGIME (ellipsoid: small |f| <= 1/150,
// moderate b/a in {1/2, 2}, extreme b/a in {0.01, 100}; elliptic parameters / Carlson arguments: moderate, extreme) so that
// the bound used for terrestrial ellipsoids and ordinary parameters is not diluted by the corners of the lattices.
// The observed worst values are reported in evidence/C15.json (worst{}), as observed/tolerance.
#pragma once
#include <string>
#include <cstring>
struct C15TolRow { const char* pred; const char* regime; double eps; };
static const C15TolRow C15_TOL[] = {
  // predicate                 regime      tolerance/eps     observed worst/eps on the unchanged tree
  {"*", "*", 64},
};
inline double C15tol(const std::string& pred, const std::string& regime) {
  double star = -1, any = 64;
  for (const C15TolRow& r : C15_TOL) {
    if (pred == r.pred && regime == r.regime) return r.eps;
    if (pred == r.pred && !strcmp(r.regime, "*")) star = r.eps;
    if (!strcmp(r.pred, "*") && !strcmp(r.regime, "*")) any = r.eps;
  }
  return star >= 0 ? star : any;
}
static const double TOL_TM_NM = 10;               // TransverseMercator central meridian: documented 5 nm (x 2)
