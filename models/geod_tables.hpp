// models/geod_tables.hpp -- reference tables for C01/C02/C03, written from the documentation:
//   * the ellipsoid alphabets of DESIGN.md section 3 (E_series, E_exact),
//   * the documented accuracy tables of Geodesic.hpp (series, by |f|) and GeodesicExact.hpp (by b/a),
//   * the tolerance schedule of DESIGN.md Appendix B (2 x documented).
#pragma once
#include "oracle/geod_ode.hpp"
#include <string>
#include <vector>
#include <cmath>

namespace geodtab {

typedef long double ld;

struct Ell {
  std::string name;
  double a, f;
  bool quick;          // member of the quick sub-lattice
  bool series;         // the series solver is documented for it (|f| <= 0.2)
  ld Q;                // quarter meridian (oracle quadrature)
  geod_ode::Ellipsoid<ld> e;
};

inline double wgs84_a() { return 6378137.0; }
inline double wgs84_f() { return 1 / 298.257223563; }

// E_series (a = WGS84 a; f values of the documented series-error table) + two scale-invariance members,
// E_exact (b/a values of the GeodesicExact table inside the documented range [0.01,100], quarter meridian 10 000 km)
inline std::vector<Ell> ellipsoids() {
  std::vector<Ell> v;
  auto add = [&](const std::string& n, double a, double f, bool quick) {
    Ell x; x.name = n; x.a = a; x.f = f; x.quick = quick; x.series = std::fabs(f) <= 0.2;
    x.e = geod_ode::Ellipsoid<ld>(a, f); x.Q = x.e.quarter_meridian(); v.push_back(x);
  };
  const double A = wgs84_a(), F = wgs84_f();
  add("wgs84", A, F, true);
  add("sphere", A, 0.0, false);
  add("f=-1/298", A, -F, false);
  add("f=0.01", A, 0.01, false);   add("f=-0.01", A, -0.01, false);
  add("f=0.02", A, 0.02, true);    add("f=-0.02", A, -0.02, true);
  add("f=0.05", A, 0.05, false);   add("f=-0.05", A, -0.05, false);
  add("f=0.1", A, 0.1, true);      add("f=-0.1", A, -0.1, true);
  add("f=0.2", A, 0.2, false);     add("f=-0.2", A, -0.2, false);
  add("a=1,f=1/150", 1.0, 1 / 150.0, false);
  add("a=1e9,f=-1/150", 1e9, -1 / 150.0, false);
  struct BA { const char* n; double ba; bool q; } bas[] = {{"b/a=1/2", 0.5, true}, {"b/a=2", 2.0, true}, {"b/a=1/16", 1 / 16.0, true},
                                                           {"b/a=16", 16.0, false}, {"b/a=0.99", 0.99, false}, {"b/a=1.01", 1.01, false}};
  for (auto& b : bas) {
    double f = 1 - b.ba;
    geod_ode::Ellipsoid<ld> e1(1.0, f);
    double a = (double)(1e7L / e1.quarter_meridian());
    add(b.n, a, f, b.q);
  }
  // thorough-only additions inside the documented ranges: further flattenings between the rows of the series table and the
  // remaining rows 1/32 .. 32 of the GeodesicExact table (1/64 and 64 are out of reach of the oracle's quadrature)
  add("f=1/150", A, 1 / 150.0, false);   add("f=-1/150", A, -1 / 150.0, false);
  add("f=0.005", A, 0.005, false);       add("f=-0.005", A, -0.005, false);
  add("f=0.15", A, 0.15, false);         add("f=-0.15", A, -0.15, false);
  struct BA2 { const char* n; double ba; } bas2[] = {{"b/a=1/4", 0.25}, {"b/a=4", 4.0}, {"b/a=1/8", 0.125}, {"b/a=8", 8.0}, {"b/a=1/32", 1 / 32.0}, {"b/a=32", 32.0}};
  for (auto& b : bas2) {
    double f = 1 - b.ba;
    geod_ode::Ellipsoid<ld> e1(1.0, f);
    double a = (double)(1e7L / e1.quarter_meridian());
    add(b.n, a, f, false);
  }
  return v;
}

// documented maximum error (metres) of the series solver, Geodesic.hpp: 15 nm WGS84; table by |f| for a = WGS84 a
inline ld series_doc_m(double f, double a) {
  double af = std::fabs(f); ld nm;
  if (af <= wgs84_f() * (1 + 1e-12)) nm = 15;
  else if (af <= 0.01) nm = 25;
  else if (af <= 0.02) nm = 30;
  else if (af <= 0.05) nm = 10e3L;
  else if (af <= 0.1) nm = 1.5e6L;
  else nm = 300e6L;
  return nm * 1e-9L * (ld)a / (ld)wgs84_a();
}
// documented maximum error (metres) of the exact solver, GeodesicExact.hpp: table by b/a for Q = 10 000 km,
// "about 40 nm" for WGS84.  Between rows the larger neighbouring row is used.
inline ld exact_doc_m(double f, ld Q) {
  static const double ba[] = {1 / 128.0, 1 / 64.0, 1 / 32.0, 1 / 16.0, 1 / 8.0, 1 / 4.0, 1 / 2.0, 1, 2, 4, 8, 16, 32, 64, 128};
  static const double nm[] = {387, 345, 269, 210, 115, 69, 36, 15, 25, 96, 318, 985, 2352, 6008, 19024};
  double r = 1 - f; ld v = 0;
  for (int i = 0; i < 15; ++i) {
    if (r == ba[i]) { v = nm[i]; break; }
    if (i + 1 < 15 && r > ba[i] && r < ba[i + 1]) { v = std::fmax(nm[i], nm[i + 1]); break; }
  }
  if (v == 0) v = r < ba[0] ? nm[0] : nm[14];
  if (v < 40) v = 40;
  return v * 1e-9L * Q / 1e7L;
}
// Appendix B: bound = 2 x documented
inline ld tol_series(const Ell& E) { return 2 * series_doc_m(E.f, E.a); }
inline ld tol_exact(const Ell& E) { return 2 * exact_doc_m(E.f, E.Q); }

// S12: PolygonArea.hpp documents 0.1 m^2 per vertex (WGS84); Appendix B: 0.2 m^2 per edge, scaled by (a/6378137)^2 and by the
// ratio of the documented position error to the WGS84 figure (series: 15 nm; exact: 40 nm) where that ratio exceeds 1.
// The area scale is taken as the authalic radius squared c2 (= a^2 for a sphere; a^2 alone is meaningless for b/a = 16).
inline ld area_scale(const Ell& E) { geod_ode::Ellipsoid<ld> w(wgs84_a(), wgs84_f()); return E.e.c2() / w.c2(); }
inline ld tol_area_series(const Ell& E) {
  ld r = series_doc_m(E.f, E.a) / (15e-9L * (ld)E.a / (ld)wgs84_a());
  return 0.2L * area_scale(E) * (r > 1 ? r : 1);
}
inline ld tol_area_exact(const Ell& E) {
  ld r = exact_doc_m(E.f, E.Q) / (40e-9L * E.Q / 1e7L);
  return 0.2L * area_scale(E) * (r > 1 ? r : 1);
}

}  // namespace geodtab
