// models/mgrs_ref.hpp -- reference model of the MGRS lettering, ranges, digit extraction and string grammar, written from
//   * DMA TM8358.1 chapter 3 / NGA.STND.0037: letters I and O never used; UTM 100 km column letters A-H, J-R, S-Z for
//     zone sets 1, 2, 3 (zone mod 3), first column = easting 100..200 km; row letters A-V repeating every 2000 km of
//     northing from the equator, starting at A in odd zones and at F in even zones; latitude bands C..X of 8 degrees
//     from 80S (X 12 degrees); UPS: A/B (south, west/east of the 0-180 meridian), Y/Z (north); UPS column letters
//     additionally omit D, E, M, N, V, W, the eastern half starts at A at easting 2000 km, the western half ends at Z at
//     easting 2000 km; UPS row letters start at A at the southern edge of the grid,
//   * the documentation comments of include/GeographicLib/MGRS.hpp: legal ranges (UTM easting [100,900] km, northing
//     [-9000,9500] km "north" / [1000,19500] km "south"; UPS [1300,2700] km north, [800,3200] km south), upper edges
//     closed and moved just inside, digits = truncation of the coordinate (floor(10^6 x) and digit extraction), hemisphere
//     folding across the equator, precision -1..11, "INVALID", string grammar of Reverse and of Decode.
// Digit extraction is decided in exact arithmetic (mc/exact.hpp); nothing is taken from src/MGRS.cpp.
#pragma once
#include "mc/exact.hpp"
#include <string>
#include <cstring>

namespace mgrsref {

static const char* const L24 = "ABCDEFGHJKLMNPQRSTUVWXYZ";          // the alphabet without I and O
static const char* const UPSCOL = "ABCFGHJKLPQRSTUXYZ";             // ... also without D E M N V W
static const long long M11 = 100000000000LL;                         // micrometres per 100 km
static const long long UM = 1000000LL;                               // micrometres per metre

inline int idx24(char c) { if (c >= 'a' && c <= 'z') c = char(c - 'a' + 'A'); const char* p = c ? strchr(L24, c) : nullptr; return p ? int(p - L24) : -1; }
inline int idxups(char c) { if (c >= 'a' && c <= 'z') c = char(c - 'a' + 'A'); const char* p = c ? strchr(UPSCOL, c) : nullptr; return p ? int(p - UPSCOL) : -1; }

// ---- UTM letters.  col = 0..7 (easting [100 km*(col+1), +100 km)); rowabs = row counted from the equator, negative south
inline char utm_col_letter(int zone, int col) { return L24[((zone - 1) % 3) * 8 + col]; }
inline int utm_col_index(int zone, char c) { int i = idx24(c); int base = ((zone - 1) % 3) * 8; return (i >= base && i < base + 8) ? i - base : -1; }
inline char utm_row_letter(int zone, int rowabs) { int r = ((rowabs % 20) + 20) % 20; if (zone % 2 == 0) r = (r + 5) % 20; return L24[r]; }
// row letter -> row modulo 20 (from the equator), or -1
inline int utm_row_mod20(int zone, char c) { int i = idx24(c); if (i < 0 || i >= 20) return -1; if (zone % 2 == 0) i = (i + 15) % 20; return i; }
static const char* const BANDS = "CDEFGHJKLMNPQRSTUVWX";
inline int band_of_letter(char c) { int i = idx24(c); return (i >= 2 && i <= 21) ? i - 2 : -1; }        // C..X -> 0..19

// ---- UPS letters.  Indices xh, yh = floor(coordinate / 100 km) in the UPS grid (false origin 2000 km)
inline int ups_min(bool northp) { return northp ? 13 : 8; }
inline int ups_max(bool northp) { return northp ? 27 : 32; }
inline char ups_band(bool northp, bool east) { return northp ? (east ? 'Z' : 'Y') : (east ? 'B' : 'A'); }
inline char ups_col_letter(int xh) { return xh >= 20 ? UPSCOL[xh - 20] : UPSCOL[18 - (20 - xh)]; }
inline char ups_row_letter(bool northp, int yh) { return L24[yh - ups_min(northp)]; }
// letter -> xh for the given half, or -1 when the letter is not used in that half of that hemisphere
inline int ups_col_index(bool northp, bool east, char c) {
  int i = idxups(c); if (i < 0) return -1;
  int xh = east ? 20 + i : 20 - (18 - i);
  return (xh >= ups_min(northp) && xh < ups_max(northp) && (east ? xh >= 20 : xh < 20)) ? xh : -1;
}
inline int ups_row_index(bool northp, char c) { int i = idx24(c); if (i < 0) return -1; int yh = ups_min(northp) + i; return yh < ups_max(northp) ? yh : -1; }

// ---- legal ranges of MGRS::Forward in units of 100 km (both ends inclusive)
struct Range { int xmin, xmax, ymin, ymax; };
inline Range range(bool utm, bool northp) {
  if (utm) return northp ? Range{1, 9, -90, 95} : Range{1, 9, 10, 195};
  return northp ? Range{13, 27, 13, 27} : Range{8, 32, 8, 32};
}

// ---- the 100 km block and the in-block offset (micrometres) of a legal coordinate, after hemisphere folding
struct Cell { bool throws; bool northp; int xh, yh; long long fx, fy; double yn; };   // yn = northing in the numbering of the folded hemisphere
// zone in [0,60]; x, y finite
inline Cell locate(int zone, bool northp, double x, double y) {
  bool utm = zone != 0;
  Range R = range(utm, northp);
  Cell c{false, northp, 0, 0, 0, 0, y};
  if (!(x >= R.xmin * 100000.0 && x <= R.xmax * 100000.0 && y >= R.ymin * 100000.0 && y <= R.ymax * 100000.0)) { c.throws = true; return c; }
  // hemisphere folding of a UTM northing continued across the equator: the documented shift of 10^7 m is applied in
  // double arithmetic (one correctly rounded addition; the subtraction is exact), the result is the coordinate that is
  // truncated.  A southern northing of exactly 10^7 m (given, or produced by the rounding of the shift) stays southern.
  double yy = y;
  if (utm) {
    if (northp && y < 0) { c.northp = false; yy = y + 10000000.0; }
    else if (!northp && y > 10000000.0) { c.northp = true; yy = y - 10000000.0; }
  }
  // truncation to micrometres, exactly; a coordinate on a closed upper edge is taken just inside
  long long ix = (x == R.xmax * 100000.0) ? R.xmax * M11 - 1 : mc::floor_div_exact(x, UM, 0, 1);
  bool yedge = (y == R.ymax * 100000.0) || (utm && !c.northp && yy == 10000000.0);
  long long iy = yedge ? (long long)(yy / 100000.0) * M11 - 1 : mc::floor_div_exact(yy, UM, 0, 1);
  c.yn = yy;
  c.xh = int(ix / M11); c.yh = int(iy / M11); c.fx = ix % M11; c.fy = iy % M11;
  return c;
}
inline long long ipow10(int e) { long long r = 1; while (e-- > 0) r *= 10; return r; }
inline std::string digits(long long fx, long long fy, int prec) {
  if (prec <= 0) return "";
  long long d = ipow10(11 - prec), ex = fx / d, ny = fy / d;
  std::string s(2 * prec, '0');
  for (int i = prec - 1; i >= 0; --i) { s[i] = char('0' + ex % 10); ex /= 10; s[prec + i] = char('0' + ny % 10); ny /= 10; }
  return s;
}
// the string for a located cell; band = latitude band letter (UTM only)
inline std::string compose(int zone, const Cell& c, char band, int prec) {
  std::string s;
  if (zone != 0) {
    s += char('0' + zone / 10); s += char('0' + zone % 10); s += band;
    if (prec < 0) return s;
    s += utm_col_letter(zone, c.xh - 1);
    s += utm_row_letter(zone, c.northp ? c.yh : c.yh - 100);
  } else {
    s += ups_band(c.northp, c.xh >= 20);
    if (prec < 0) return s;
    s += ups_col_letter(c.xh);
    s += ups_row_letter(c.northp, c.yh);
  }
  return s + digits(c.fx, c.fy, prec);
}

// ---- string grammar of MGRS::Reverse
//   "INV..."                          -> INVALID marker
//   [zone 1..60, one or two digits] band-letter                         -> grid zone designation
//   [zone] band-letter column-letter row-letter 2p digits, 0 <= p <= 11 -> full reference
// letters in either case.  Whether the block exists in the band (UTM) is a geometric question decided by the harness.
struct Parsed {
  int kind;                // 0 malformed, 1 INVALID marker, 2 grid zone only, 3 full reference
  int zone; bool northp; int band;      // band: UTM 0..19; UPS: 0 = west, 1 = east
  int col;                 // UTM 0..7; UPS xh
  int row;                 // UTM: row modulo 20 from the equator; UPS yh
  int prec; long long e, n;             // digit values
};
inline bool isdig(char c) { return c >= '0' && c <= '9'; }
inline char up(char c) { return (c >= 'a' && c <= 'z') ? char(c - 'a' + 'A') : c; }
inline Parsed parse(const std::string& s) {
  Parsed bad{0, 0, false, 0, 0, 0, 0, 0, 0}, p = bad;
  size_t n = s.size();
  if (n >= 3 && up(s[0]) == 'I' && up(s[1]) == 'N' && up(s[2]) == 'V') { p.kind = 1; return p; }
  size_t i = 0; int z = 0;
  while (i < n && isdig(s[i])) { if (i >= 2) return bad; z = 10 * z + (s[i] - '0'); ++i; }
  if (i > 0 && (z < 1 || z > 60)) return bad;
  if (i >= n) return bad;
  p.zone = z;
  char b = up(s[i++]);
  if (z > 0) { p.band = band_of_letter(b); if (p.band < 0) return bad; p.northp = p.band >= 10; }
  else { if (b == 'A' || b == 'B') p.northp = false; else if (b == 'Y' || b == 'Z') p.northp = true; else return bad; p.band = (b == 'B' || b == 'Z') ? 1 : 0; }
  if (i == n) { p.kind = 2; p.prec = -1; return p; }
  if (n - i < 2) return bad;
  char cl = s[i++], rl = s[i++];
  if (z > 0) { p.col = utm_col_index(z, cl); p.row = utm_row_mod20(z, rl); }
  else { p.col = ups_col_index(p.northp, p.band == 1, cl); p.row = ups_row_index(p.northp, rl); }
  if (p.col < 0 || p.row < 0) return bad;
  size_t nd = n - i;
  if (nd % 2 || nd > 22) return bad;
  for (size_t k = i; k < n; ++k) if (!isdig(s[k])) return bad;
  p.prec = int(nd / 2);
  for (int k = 0; k < p.prec; ++k) { p.e = p.e * 10 + (s[i + k] - '0'); p.n = p.n * 10 + (s[i + p.prec + k] - '0'); }
  p.kind = 3;
  return p;
}
// exact position (centre or SW corner) of the square: (h*10^p + d + c/2) * 10^(5-p) metres, rounded once
inline double square_coord(int h, long long d, int prec, bool centre) {
  __float128 num = (__float128)((long long)h * ipow10(prec) + d) * 2 + (centre ? 1 : 0);
  return (double)(num * (__float128)100000 / ((__float128)2 * (__float128)ipow10(prec)));
}

// ---- grammar of MGRS::Decode: 0-2 digits, 1 or 3 letters (not I, O), then (after 3 letters) an even number of digits
struct Split { bool ok; std::string gridzone, block, easting, northing; };
inline bool isalpha24(char c) { return idx24(c) >= 0; }
inline Split decode(const std::string& s) {
  Split bad{false, "", "", "", ""};
  size_t n = s.size();
  if (n >= 3 && up(s[0]) == 'I' && up(s[1]) == 'N' && up(s[2]) == 'V') return Split{true, s.substr(0, 3), "", "", ""};
  size_t p0 = 0; while (p0 < n && isdig(s[p0])) ++p0;
  if (p0 > 2 || p0 == n) return bad;
  size_t p1 = p0; while (p1 < n && isalpha24(s[p1])) ++p1;
  if (!(p1 == p0 + 1 || p1 == p0 + 3)) return bad;
  if (p1 == p0 + 1 && p1 < n) return bad;
  for (size_t k = p1; k < n; ++k) if (!isdig(s[k])) return bad;
  if ((n - p1) % 2) return bad;
  Split r{true, s.substr(0, p0 + 1), s.substr(p0 + 1, p1 - (p0 + 1)), s.substr(p1, (n - p1) / 2), s.substr(p1 + (n - p1) / 2)};
  return r;
}

}  // namespace mgrsref
