import json,sys
pid=sys.argv[1]; n=sys.argv[2]; tag=sys.argv[3]
focus=sys.argv[4] if len(sys.argv)>4 else ''
hints={
 'default':"an unusual input, a boundary value, a particular configuration/flag combination, a multi-step sequence of operations, or two cooperating sites that each look fine alone",
}
for l in open('/verif/properties.jsonl'):
    p=json.loads(l)
    if p['id']==pid: break
wt='/tmp/wt-%s%s'%(pid,tag)
print(f'''You are a careful C++ engineer playing the role of a "bug seeder". You work ONLY inside the git worktree {wt} (a checkout of the GeographicLib C++ library, https://geographiclib.sourceforge.io). Do not read or write anything under /verif or /repo. There is no network.

A semantic property of the library is stated below. Produce {n} different, realistic code changes to the library (each as a separate patch against the unmodified worktree) that BREAK this property while the library still compiles and the library's existing test suite still passes. Each change should look like something a maintainer could plausibly introduce (an off-by-one at a boundary, a wrong sign or index in a rarely used branch, a changed constant/threshold/tolerance, a reordered check, a "simplification" or performance tweak, a swapped argument, a table entry typo, a caching/memo optimisation, an assignment moved above a validity check …), and should need something specific to manifest — {hints['default']} — not something ordinary use would expose at once. Prefer variety: touch different functions/files/branches relevant to the property; make at least one of them subtle (small numerical effect just above the documented accuracy, or only on a rarely taken code path). {focus}

PROPERTY
--------
Title: {p['title']}

Statement: {p['statement']}

Quantifier: {p['quantifier']['text']}

How to work
-----------
1. Build and test the unmodified worktree once: `cmake -G Ninja -S {wt} -B {wt}/_b -DCMAKE_BUILD_TYPE=RelWithDebInfo >/dev/null && cmake --build {wt}/_b -j8 && cmake --build {wt}/_b --target testprograms -j8 && ctest --test-dir {wt}/_b -j8` (all 194 tests must pass; note the `testprograms` target is needed for 4 of them).
2. For each change i = 1..{n}: start from a clean tree (`git -C {wt} checkout -- .`), make the change, rebuild (both targets), run ctest (all 194 must still pass — if a test fails, the change is not acceptable, pick another), save the patch with `mkdir -p {wt}/out/mutant<i> && git -C {wt} diff > {wt}/out/mutant<i>/patch.diff`, and write a demonstration `{wt}/out/mutant<i>/demo.cpp`: a small stand-alone program, compiled e.g. with `g++ -std=c++17 -O1 -I{wt}/include -I{wt}/_b/include {wt}/out/mutant<i>/demo.cpp {wt}/src/*.cpp -o {wt}/out/mutant<i>/demo && {wt}/out/mutant<i>/demo` (compiling the library sources directly so that it always reflects the current tree), that exits non-zero WITH the change and exits 0 WITHOUT it. The demo must judge the result against an independent expectation (a closed form, a defining identity, a round trip, a documented value, a brute-force computation) — not against numbers copied from the unmodified library unless nothing else is possible. Run it both ways and record what you observed. Also write `{wt}/out/mutant<i>/meta.json`: {{"property": "{pid}", "summary": "...", "files_changed": [...], "needs_to_manifest": "which input / configuration / sequence", "tests_pass": true, "demo_cmd": "<the exact one-line shell command that builds and runs the demo>", "demo_with_change": "observed", "demo_without_change": "observed"}}.
3. Finish with a clean tree (`git -C {wt} checkout -- .`); leave the out/ directory and the configured _b directory in place (the demo needs _b/include/GeographicLib/Config.h).

Final report: for each mutant a 3-line description (what, where, what it needs to manifest, demo result).''')
