// mc/fault.hpp -- engine E4 "fault enumeration": the reusable pieces.
//
//   1. special-value alphabets for floating-point and integer arguments         (fault::specials, int_specials)
//   2. outcome capture: a library call is classified as one of
//        ok | GeographicErr | bad_alloc | foreign exception | signal | sanitizer report | timeout/hang | exit
//      in-process (fault::guarded, exceptions only) or in a forked child (fault::Isolator) so that a fatal
//      outcome -- ASan/UBSan report, SIGSEGV, abort, endless loop -- is DATA for the check, not a harness failure
//   3. enumerators: all strings over an alphabet up to a length, all single edits of a string, all truncations
//      of a file image, header-integer / header-byte / metadata-key corruptions of a file image
//   4. an optional allocation cap (define FAULT_ALLOC_CAP_BYTES before including): operator new throws
//      std::bad_alloc for requests above the cap, as a machine with that much memory would; without it ASan
//      turns a huge request into a fatal "allocation-size-too-big" report and a hostile header could make the
//      harness touch tens of gigabytes.
//
// Nothing here draws random numbers; all enumerations are in a fixed, documented order.
// Include from the single translation unit of a harness, after mc/ctx.hpp.
//
// Fork isolation in a nutshell
// ----------------------------
//   fault::Isolator iso(fault::tmp_dir("C13"), "files");      // directory for the stderr capture file
//   iso.run(n,
//       [&](size_t i, fault::Report& rep) {                    // CHILD: run case i on the library, judge it
//         ... rep.fail(key, msg, fields); rep.sig(h); rep.data("text"); ...   // may also simply throw / crash
//       },
//       [&](size_t i, const fault::Result& r) {                // PARENT: called for i = 0..n-1 in order
//         mc::Ctx::Case cs(ctx); ctx.sig(r.oc);
//         for (auto& f : r.fails) ctx.fail(f.key, f.msg, f.fields);
//         if (r.fatal()) ctx.fail(...);                        // sanitizer/signal/hang/foreign exception
//       });
// Cases are run in batches inside one child (a fork under ASan costs ~1.6 ms); the child records the index of
// the case it is executing in shared memory, so when it dies the parent knows which case was fatal, reports it,
// and forks a new child for the remaining cases.  Every case gets a watchdog (ITIMER_REAL, default 2 s); a
// case that times out is re-run alone with 60 s before it is called a hang.
#pragma once
#include <GeographicLib/Constants.hpp>
#include <cstdint>
#include <cstdio>
#include <cstdlib>
#include <cstring>
#include <cmath>
#include <climits>
#include <cerrno>
#include <string>
#include <vector>
#include <limits>
#include <new>
#include <typeinfo>
#include <exception>
#include <functional>
#include <memory>
#include <algorithm>
#include <unistd.h>
#include <fcntl.h>
#include <signal.h>
#include <sys/mman.h>
#include <sys/stat.h>
#include <sys/time.h>
#include <sys/wait.h>

extern "C" void __sanitizer_set_death_callback(void (*)(void)) __attribute__((weak));

#ifdef FAULT_ALLOC_CAP_BYTES
// Replaceable allocation functions: requests above the cap fail the way a machine with that much memory fails.
// malloc/free stay intercepted by ASan, so heap overflows / use-after-free are still detected.
inline void* fault_alloc_(std::size_t n) {
  if (n > (std::size_t)(FAULT_ALLOC_CAP_BYTES)) throw std::bad_alloc();
  void* p = std::malloc(n ? n : 1);
  if (!p) throw std::bad_alloc();
  return p;
}
void* operator new(std::size_t n) { return fault_alloc_(n); }
void* operator new[](std::size_t n) { return fault_alloc_(n); }
void* operator new(std::size_t n, const std::nothrow_t&) noexcept { return n > (std::size_t)(FAULT_ALLOC_CAP_BYTES) ? nullptr : std::malloc(n ? n : 1); }
void* operator new[](std::size_t n, const std::nothrow_t&) noexcept { return n > (std::size_t)(FAULT_ALLOC_CAP_BYTES) ? nullptr : std::malloc(n ? n : 1); }
void operator delete(void* p) noexcept { std::free(p); }
void operator delete[](void* p) noexcept { std::free(p); }
void operator delete(void* p, std::size_t) noexcept { std::free(p); }
void operator delete[](void* p, std::size_t) noexcept { std::free(p); }
void operator delete(void* p, const std::nothrow_t&) noexcept { std::free(p); }
void operator delete[](void* p, const std::nothrow_t&) noexcept { std::free(p); }
#endif

namespace fault {

// ------------------------------------------------------------------------------------------- outcomes
enum Outcome { OK = 0, GEOERR, BADALLOC, FOREIGN, SIGNAL, SANITIZER, TIMEOUT, HANG, EXITED, LOST };
inline const char* name(Outcome o) {
  static const char* n[] = {"ok", "GeographicErr", "bad_alloc", "foreign-exception", "signal", "sanitizer",
                            "timeout", "hang", "exit", "lost"};
  return n[int(o)];
}
// outcomes the error contract allows for a call that is permitted to fail
inline bool clean(Outcome o) { return o == OK || o == GEOERR || o == BADALLOC; }

// What a call did, exceptions only (in-process).  `what` is e.what(); for a foreign exception it is
// "<mangled type>: <what>".
struct Thrown { Outcome oc = OK; std::string what; bool threw() const { return oc != OK; } };
template <class F> inline Thrown guarded(F&& f) {
  Thrown t;
  try { f(); }
  catch (const GeographicLib::GeographicErr& e) { t.oc = GEOERR; t.what = e.what(); }
  catch (const std::bad_alloc& e) { t.oc = BADALLOC; t.what = e.what(); }
  catch (const std::exception& e) { t.oc = FOREIGN; t.what = std::string(typeid(e).name()) + ": " + e.what(); }
  catch (...) { t.oc = FOREIGN; t.what = "non-std exception"; }
  return t;
}

// ------------------------------------------------------------------------------------------- special values
struct Special { const char* name; double v; };
inline double ulp_up(double x) { return std::nextafter(x, INFINITY); }
inline double ulp_dn(double x) { return std::nextafter(x, -INFINITY); }
// Floating-point specials.  The quick list is a prefix-free SUBSET of the thorough list (same axis, fewer values).
inline std::vector<Special> specials(bool thorough) {
  const double inf = INFINITY, dm = std::numeric_limits<double>::denorm_min(), mx = std::numeric_limits<double>::max();
  std::vector<Special> q = {
    {"nan", NAN}, {"+inf", inf}, {"-inf", -inf}, {"-0", -0.0}, {"+denorm_min", dm}, {"+max", mx}, {"-max", -mx},
    {"90+ulp", ulp_up(90.0)}, {"-180", -180.0}, {"1e308", 1e308},
  };
  if (!thorough) return q;
  std::vector<Special> t = q;
  const Special more[] = {
    {"+0", 0.0}, {"-denorm_min", -dm}, {"+90", 90.0}, {"-90", -90.0}, {"-(90+ulp)", -ulp_up(90.0)},
    {"90-ulp", ulp_dn(90.0)}, {"-(90-ulp)", -ulp_dn(90.0)}, {"+180", 180.0}, {"+360", 360.0}, {"-360", -360.0},
    {"-1e308", -1e308}, {"+min_normal", std::numeric_limits<double>::min()}, {"1e-320", 1e-320},
    {"2^31", 2147483648.0}, {"-2^31-1", -2147483649.0}, {"2^63", 9223372036854775808.0}, {"1e19", 1e19},
    {"1e10", 1e10}, {"-1e10", -1e10}, {"-1", -1.0}, {"1+ulp", ulp_up(1.0)},
  };
  for (auto& s : more) t.push_back(s);
  return t;
}
// class of a value for known-finding keys: nan | inf | huge (|x| >= 2^31) | tiny (0 < |x| < 1e-300) | zero | finite
inline const char* value_class(double v) {
  if (std::isnan(v)) return "nan";
  if (std::isinf(v)) return "inf";
  if (v == 0) return "zero";
  if (std::fabs(v) >= 2147483648.0) return "huge";
  if (std::fabs(v) < 1e-300) return "tiny";
  return "finite";
}
// Integer specials (for zone / precision / count / mask arguments).
inline std::vector<long long> int_specials(bool thorough) {
  // 11/12 and 18/19: the precision / length limits of MGRS, Georef, OSGB (11) and Geohash (18)
  std::vector<long long> q = {INT_MIN, -2, -1, 0, 1, 2, 3, 11, 12, 18, 19, 61, 65535, INT_MAX};
  if (!thorough) return q;
  for (long long v : {(long long)INT_MIN + 1, -5LL, -4LL, -3LL, 4LL, 5LL, 10LL, 13LL, 60LL, 1LL << 30, (long long)INT_MAX - 1})
    q.push_back(v);
  return q;
}

// ------------------------------------------------------------------------------------------- string enumerators
// every string over `alphabet` of length 0..maxlen, shortest first, then in alphabet order (odometer).
// f(const std::string&).  Count = sum_{l<=maxlen} |A|^l.
template <class F> inline void for_each_string(const std::string& alphabet, int maxlen, F&& f) {
  const size_t A = alphabet.size();
  for (int len = 0; len <= maxlen; ++len) {
    std::vector<size_t> idx(len, 0);
    std::string s(len, A ? alphabet[0] : ' ');
    while (true) {
      f(s);
      int p = len - 1;
      while (p >= 0 && ++idx[p] == A) { idx[p] = 0; s[p] = alphabet[0]; --p; }
      if (p < 0) break;
      s[p] = alphabet[idx[p]];
    }
  }
}
inline uint64_t count_strings(size_t A, int maxlen) { uint64_t n = 0, p = 1; for (int l = 0; l <= maxlen; ++l) { n += p; p *= A; } return n; }
// the i-th string of the enumeration above (random access, so that a unit can start anywhere)
inline std::string nth_string(const std::string& alphabet, uint64_t i) {
  const uint64_t A = alphabet.size(); uint64_t p = 1; int len = 0;
  while (i >= p) { i -= p; p *= A; ++len; }
  std::string s(len, ' ');
  for (int k = len - 1; k >= 0; --k) { s[k] = alphabet[i % A]; i /= A; }
  return s;
}
// all 256 byte values as an alphabet
inline std::string all_bytes() { std::string a(256, '\0'); for (int i = 0; i < 256; ++i) a[i] = char(i); return a; }
// every single-edit neighbour of s: deletions (n), substitutions (n*|A|), insertions ((n+1)*|A|), adjacent
// transpositions (n-1); identical results (substituting a character by itself) are skipped.
inline std::vector<std::string> single_edits(const std::string& s, const std::string& alphabet) {
  std::vector<std::string> out;
  const size_t n = s.size();
  for (size_t i = 0; i < n; ++i) out.push_back(s.substr(0, i) + s.substr(i + 1));
  for (size_t i = 0; i < n; ++i) for (char c : alphabet) if (c != s[i]) { std::string t = s; t[i] = c; out.push_back(t); }
  for (size_t i = 0; i <= n; ++i) for (char c : alphabet) out.push_back(s.substr(0, i) + c + s.substr(i));
  for (size_t i = 0; i + 1 < n; ++i) if (s[i] != s[i + 1]) { std::string t = s; std::swap(t[i], t[i + 1]); out.push_back(t); }
  return out;
}
// printable rendering of an arbitrary byte string for keys and messages (\xNN for non-printables)
inline std::string show(const std::string& s) {
  std::string o;
  for (unsigned char c : s) {
    if (c >= 0x20 && c < 0x7f && c != '\\') o += char(c);
    else { char b[8]; snprintf(b, sizeof b, "\\x%02x", c); o += b; }
  }
  return o;
}

// ------------------------------------------------------------------------------------------- file-fault enumerators
// A fault is a transformation of a valid file image (one file of possibly several that make up a data set).
struct FileFault {
  std::string kind;      // truncate | int-field | byte | key-delete | key-dup | key-value | append | replace
  std::string field;     // name of the field / key touched ("" for truncations)
  std::string detail;    // value written, as text
  std::string image;     // the faulty file image
  std::string id() const { return kind + (field.empty() ? "" : ":" + field) + (detail.empty() ? "" : "=" + detail); }
};
// every truncation length 0 .. n-1 (n itself is the valid file) -- optionally also with `step` > 1 inside
// [lo, hi) for bulk payload regions (every length is still visited at the region's ends)
inline void truncations(const std::string& img, std::vector<FileFault>& out, size_t step = 1, size_t lo = 0, size_t hi = 0) {
  for (size_t l = 0; l < img.size(); ++l) {
    if (step > 1 && l > lo + 8 && l + 8 < hi && (l - lo) % step != 0) continue;
    out.push_back({"truncate", "", std::to_string(l), img.substr(0, l)});
  }
}
inline const std::vector<long long>& header_int_values() {
  static const std::vector<long long> v = {-1, 0, 1, 2, 65535, 1LL << 30, INT_MAX, INT_MIN, 46340, 46341, 23170, 32767};
  return v;
}
// a little-endian 4-byte integer at `offset` is replaced by each value of header_int_values() (binary files)
inline void int_field_faults(const std::string& img, size_t offset, const std::string& field, std::vector<FileFault>& out,
                             const std::vector<long long>& values = header_int_values()) {
  for (long long v : values) {
    std::string t = img; int32_t w = (int32_t)v; memcpy(&t[offset], &w, 4);
    if (t != img) out.push_back({"int-field", field, std::to_string(v), t});
  }
}
// a text integer token occupying [offset, offset+len) is replaced by each value (text files)
inline void text_int_faults(const std::string& img, size_t offset, size_t len, const std::string& field, std::vector<FileFault>& out,
                            const std::vector<long long>& values = header_int_values()) {
  for (long long v : values) {
    std::string t = img.substr(0, offset) + std::to_string(v) + img.substr(offset + len);
    if (t != img) out.push_back({"int-field", field, std::to_string(v), t});
  }
}
inline const std::vector<int>& header_byte_values() { static const std::vector<int> v = {0x00, ' ', '\n', '-', '9', 0xFF}; return v; }
// every byte of [lo, hi) replaced by each of header_byte_values()
inline void byte_faults(const std::string& img, size_t lo, size_t hi, std::vector<FileFault>& out) {
  for (size_t p = lo; p < hi && p < img.size(); ++p)
    for (int b : header_byte_values()) {
      if ((unsigned char)img[p] == (unsigned char)b) continue;
      std::string t = img; t[p] = char(b);
      char d[32]; snprintf(d, sizeof d, "0x%02x", b);
      out.push_back({"byte", "@" + std::to_string(p), d, t});
    }
}
inline const std::vector<std::string>& bad_values() { static const std::vector<std::string> v = {"", "nan", "-1", "1e999", "abc", "0", "inf", "2147483647", "2147483648", "-2147483648", "1e10"}; return v; }
// Line-oriented metadata ("Key value" lines as in .wmm/.egm, or "# Key value" PGM comments).  For every line
// index in [first, last): the line deleted, the line duplicated, and its value (the text after the key and
// blanks) replaced by each of bad_values().  key_prefix is skipped when locating the key ("# " for PGM).
inline void metadata_faults(const std::string& img, size_t first_line, size_t last_line, const std::string& key_prefix,
                            std::vector<FileFault>& out) {
  std::vector<std::string> lines; size_t p = 0, body = img.size();
  // split into lines up to last_line; the rest (possibly binary) is kept verbatim
  while (lines.size() < last_line) {
    size_t q = img.find('\n', p);
    if (q == std::string::npos) { break; }
    lines.push_back(img.substr(p, q - p)); p = q + 1;
  }
  body = p;
  auto join = [&](const std::vector<std::string>& ls) { std::string t; for (auto& l : ls) { t += l; t += '\n'; } return t + img.substr(body); };
  for (size_t i = first_line; i < lines.size(); ++i) {
    std::string l = lines[i];
    size_t k0 = l.compare(0, key_prefix.size(), key_prefix) == 0 ? key_prefix.size() : 0;
    while (k0 < l.size() && (l[k0] == ' ' || l[k0] == '\t')) ++k0;
    size_t k1 = l.find_first_of(" \t", k0); if (k1 == std::string::npos) k1 = l.size();
    std::string key = l.substr(k0, k1 - k0);
    if (key.empty()) key = "line" + std::to_string(i);
    { auto ls = lines; ls.erase(ls.begin() + i); out.push_back({"key-delete", key, "", join(ls)}); }
    { auto ls = lines; ls.insert(ls.begin() + i, l); out.push_back({"key-dup", key, "", join(ls)}); }
    for (auto& v : bad_values()) {
      auto ls = lines; ls[i] = l.substr(0, k1) + (v.empty() ? "" : " " + v);
      if (ls[i] != l) out.push_back({"key-value", key, v.empty() ? "<empty>" : v, join(ls)});
    }
  }
}
inline void append_faults(const std::string& img, std::vector<FileFault>& out) {
  out.push_back({"append", "", "0x00", img + std::string(1, '\0')});
  out.push_back({"append", "", "0x0a", img + "\n"});
  out.push_back({"append", "", "8 bytes", img + std::string(8, '\x01')});
}

// ------------------------------------------------------------------------------------------- files
inline std::string verif_dir() { const char* d = getenv("VERIF_DIR"); return d && *d ? d : "/verif"; }
inline void mkdirs(const std::string& path) {
  for (size_t p = 1; p <= path.size(); ++p)
    if (p == path.size() || path[p] == '/') { std::string d = path.substr(0, p); if (mkdir(d.c_str(), 0777) != 0 && errno != EEXIST) { perror(("mkdir " + d).c_str()); exit(2); } }
}
// a private directory /verif/build/tmp/<prop>/<pid> (never /tmp); removed by rm_tmp_dir
inline std::string tmp_dir(const std::string& prop) {
  std::string d = verif_dir() + "/build/tmp/" + prop + "/" + std::to_string((long)getpid());
  mkdirs(d); return d;
}
inline void write_file(const std::string& path, const std::string& bytes) {
  FILE* f = fopen(path.c_str(), "wb"); if (!f) { perror(("write " + path).c_str()); exit(2); }
  if (!bytes.empty() && fwrite(bytes.data(), 1, bytes.size(), f) != bytes.size()) { perror("fwrite"); exit(2); }
  fclose(f);
}
inline std::string read_file(const std::string& path, size_t maxb = size_t(-1)) {
  std::string s; FILE* f = fopen(path.c_str(), "rb"); if (!f) return s;
  char b[4096]; size_t n; while (s.size() < maxb && (n = fread(b, 1, sizeof b, f)) > 0) s.append(b, n);
  fclose(f); return s;
}
inline void rm_tmp_dir(const std::string& d) {
  if (d.find("/build/tmp/") == std::string::npos) return;      // refuse anything else
  std::string cmd = "rm -rf '" + d + "'"; int rc = system(cmd.c_str()); (void)rc;
}

// does an open known finding of the running check (ctx.known) with "kind" = kind match these fields?  (Used with
// Isolator::skip_confirm.)  On replay no known findings are loaded, so a replay always does the full confirmation.
inline bool matches_known(const mc::Ctx& ctx, const std::string& kind, const mc::Fields& fields) {
  for (auto& k : ctx.known) {
    if (k.sub != "*" && k.sub != ctx.cur_sub) continue;
    bool ok = true, haskind = false;
    for (auto& m : k.match) {
      if (m.first == "kind") { haskind = true; if (m.second != kind) { ok = false; break; } continue; }
      bool f = false; for (auto& fv : fields) if (fv.first == m.first && fv.second == m.second) { f = true; break; }
      if (!f) { ok = false; break; }
    }
    if (ok && haskind) return true;
  }
  return false;
}

// ------------------------------------------------------------------------------------------- fork isolation
struct Fail { std::string key, msg; mc::Fields fields; };

namespace detail {
struct SlotHdr { volatile uint32_t state; volatile uint32_t len; volatile uint32_t overflow; volatile uint32_t oc; };   // state: 0 untouched, 1 running, 2 done
struct ShHdr { volatile int64_t cur; volatile int32_t san_died; volatile int32_t pad; };
inline volatile int32_t*& san_flag() { static volatile int32_t* p = nullptr; return p; }
inline void on_sanitizer_death() { if (san_flag()) *san_flag() = 1; }
inline std::string esc(const std::string& s) {        // keeps records one per line, fields tab-separated
  std::string o; for (char c : s) { if (c == '\n') o += "\\n"; else if (c == '\t') o += "\\t"; else if (c == '\\') o += "\\\\"; else o += c; } return o;
}
inline std::string unesc(const std::string& s) {
  std::string o; for (size_t i = 0; i < s.size(); ++i) { if (s[i] == '\\' && i + 1 < s.size()) { char c = s[++i]; o += c == 'n' ? '\n' : c == 't' ? '\t' : c; } else o += s[i]; } return o;
}
}  // namespace detail

// CHILD side: what the body of a case reports.  Everything is serialised into the case's shared-memory slot.
class Report {
  char* buf_; size_t cap_; detail::SlotHdr* h_;
  void put(const std::string& rec) {
    size_t n = h_->len;
    if (n + rec.size() + 1 > cap_) { h_->overflow = 1; return; }
    memcpy(buf_ + n, rec.data(), rec.size()); buf_[n + rec.size()] = '\n'; h_->len = uint32_t(n + rec.size() + 1);
  }
 public:
  Report(detail::SlotHdr* h, char* buf, size_t cap) : buf_(buf), cap_(cap), h_(h) {}
  // a predicate failure (becomes ctx.fail in the parent)
  void fail(const std::string& key, const std::string& msg, const mc::Fields& fields) {
    std::string r = "F\t" + detail::esc(key) + "\t" + detail::esc(msg);
    for (auto& f : fields) r += "\t" + detail::esc(f.first) + "=" + detail::esc(f.second);
    put(r);
  }
  void sig(uint64_t h) { put("S\t" + std::to_string(h)); }                     // outcome feature for the case signature
  void data(const std::string& text) { put("D\t" + detail::esc(text)); }       // free text for the parent
  void count(const std::string& name, uint64_t n = 1) { put("C\t" + detail::esc(name) + "\t" + std::to_string(n)); }
};

// PARENT side: what happened to one case.
struct Result {
  Outcome oc = LOST;          // OK/GEOERR/BADALLOC/FOREIGN: how the body ended (exception escaping the body);
                              // SIGNAL/SANITIZER/HANG/EXITED: the child died in this case
  int sig = 0;                // signal number for SIGNAL
  int exit_code = 0;
  std::string what;           // exception text, or the first line of the sanitizer report
  std::string check;          // canonical sanitizer check name (signed-integer-overflow, heap-buffer-overflow, ...)
  std::string where;          // source position reported by the sanitizer, "File.cpp:123"
  std::string func;           // innermost library function in the sanitizer's stack trace, e.g. "SphericalEngine::coeff::Csize"
  bool slow = false;          // exceeded the per-case watchdog but finished when re-run alone
  bool overflow = false;      // the body reported more than fits in a slot
  std::vector<Fail> fails; std::vector<uint64_t> sigs; std::vector<std::string> data;
  std::vector<std::pair<std::string, uint64_t>> counts;
  bool fatal() const { return !clean(oc); }
  std::string describe() const {
    std::string s = name(oc);
    if (oc == SIGNAL) s += " " + std::to_string(sig);
    if (!check.empty()) s += " [" + check + "]";
    if (!where.empty()) s += " at " + where;
    if (!func.empty()) s += " in " + func;
    if (!what.empty()) s += ": " + what;
    return s;
  }
};

// canonical name of a sanitizer finding from its report text; also extracts the source position and the
// innermost library function of the stack trace (needs UBSAN_OPTIONS=print_stacktrace=1, which bin/check sets)
inline void parse_sanitizer(const std::string& err, Result& r) {
  auto base = [](std::string p) {        // "/a/b/File.cpp:12:3" -> "File.cpp:12"
    size_t sl = p.rfind('/'); if (sl != std::string::npos) p = p.substr(sl + 1);
    size_t c1 = p.find(':'); if (c1 == std::string::npos) return p;
    size_t c2 = p.find(':', c1 + 1); return c2 == std::string::npos ? p : p.substr(0, c2);
  };
  {  // first stack frame "#k 0x... in FUNC(args) /path/File.cpp:L:C" whose path is a library source or header
    size_t q = 0;
    while ((q = err.find(" in ", q)) != std::string::npos) {
      size_t eol = err.find('\n', q); if (eol == std::string::npos) eol = err.size();
      std::string line = err.substr(q + 4, eol - q - 4);
      size_t sp = line.rfind(' ');
      if (sp != std::string::npos && line.find('#') == std::string::npos &&
          (line.find("/src/", sp) != std::string::npos || line.find("/GeographicLib/", sp) != std::string::npos)) {
        std::string fn = line.substr(0, sp);
        size_t par = fn.find('('); if (par != std::string::npos) fn = fn.substr(0, par);
        size_t lt = fn.find('<'); if (lt != std::string::npos) fn = fn.substr(0, lt);
        size_t sp2 = fn.rfind(' '); if (sp2 != std::string::npos) fn = fn.substr(sp2 + 1);      // drop a return type
        if (fn.compare(0, 15, "GeographicLib::") == 0) fn = fn.substr(15);
        r.func = fn; if (r.where.empty()) r.where = base(line.substr(sp + 1));
        break;
      }
      q = eol;
    }
  }
  size_t p = err.find("runtime error: ");
  if (p != std::string::npos) {
    size_t ls = err.rfind('\n', p); ls = ls == std::string::npos ? 0 : ls + 1;
    size_t le = err.find('\n', p); if (le == std::string::npos) le = err.size();
    std::string msg = err.substr(p + 15, le - p - 15);
    r.what = msg; r.where = base(err.substr(ls, p - ls > 2 ? p - ls - 2 : 0));   // UBSan: position of the failing expression
    static const char* tab[][2] = {
      {"signed integer overflow", "signed-integer-overflow"}, {"is outside the range of representable values", "float-cast-overflow"},
      {"out of bounds for type", "array-index-out-of-bounds"}, {"shift exponent", "shift"}, {"left shift of", "shift"},
      {"division by zero", "integer-divide-by-zero"}, {"null pointer", "null"}, {"misaligned address", "alignment"},
      {"load of value", "invalid-enum-or-bool"}, {"negation of", "signed-integer-overflow"}, {"applying non-zero offset", "pointer-overflow"},
      {"applying zero offset to null", "pointer-overflow"}, {"pointer index expression", "pointer-overflow"},
      {"variable length array bound", "vla-bound"}, {"execution reached", "unreachable-or-missing-return"},
      {"which does not point to an object of type", "vptr"}, {"passing zero to", "builtin"},
    };
    r.check = "undefined-behavior";
    for (auto& t : tab) if (msg.find(t[0]) != std::string::npos) { r.check = t[1]; break; }
    return;
  }
  p = err.find("ERROR: AddressSanitizer: ");
  if (p != std::string::npos) {
    size_t s = p + 25, e = err.find_first_of(" \n", s);
    r.check = err.substr(s, e == std::string::npos ? std::string::npos : e - s);
    size_t le = err.find('\n', p); r.what = err.substr(p + 7, (le == std::string::npos ? err.size() : le) - p - 7);
    // first frame that is in the library or the harness
    size_t q = p;
    while ((q = err.find(" in ", q)) != std::string::npos) {
      size_t eol = err.find('\n', q); if (eol == std::string::npos) eol = err.size();
      std::string line = err.substr(q, eol - q);
      size_t sp = line.rfind(' ');
      if (sp != std::string::npos && (line.find("/src/") != std::string::npos || line.find("GeographicLib/") != std::string::npos)) { r.where = base(line.substr(sp + 1)); break; }
      q = eol;
    }
    if (r.what.size() > 160) r.what.resize(160);
    return;
  }
  p = err.find("Sanitizer");
  r.check = "unknown-report"; r.what = p == std::string::npos ? err.substr(0, 160) : err.substr(p, 160);
}

class Isolator {
  std::string dir_, errpath_;
  int errfd_ = -1;
  char* shm_ = nullptr; size_t shm_bytes_ = 0;
 public:
  double case_timeout_s = 2.0;      // per-case watchdog
  double retry_timeout_s = 60.0;    // a timed-out case is re-run alone with this much before it is called a hang
  size_t slot_bytes = 6144;         // capacity of one case's report
  size_t batch = 256;               // cases per child at most
  uint64_t forks = 0, slow_cases = 0;
  // Optional: when set and true for case i, a case that exceeds the watchdog is reported as HANG at once, without the
  // 60 s solo re-run.  Meant for cases that match an OPEN KNOWN hang finding (the re-run only serves to tell "slow"
  // from "hang" for a new anomaly; every confirmed hang costs a minute of wall time on every run).
  std::function<bool(size_t)> skip_confirm;

  Isolator(const std::string& dir, const std::string& tag) : dir_(dir) {
    mkdirs(dir_);
    errpath_ = dir_ + "/stderr-" + tag + ".txt";
    errfd_ = open(errpath_.c_str(), O_RDWR | O_CREAT | O_TRUNC, 0666);
    if (errfd_ < 0) { perror(("open " + errpath_).c_str()); exit(2); }
  }
  ~Isolator() { if (errfd_ >= 0) close(errfd_); if (shm_) munmap(shm_, shm_bytes_); unlink(errpath_.c_str()); }
  Isolator(const Isolator&) = delete; Isolator& operator=(const Isolator&) = delete;

 private:
  detail::ShHdr* hdr() { return reinterpret_cast<detail::ShHdr*>(shm_); }
  detail::SlotHdr* slot(size_t i) { return reinterpret_cast<detail::SlotHdr*>(shm_ + sizeof(detail::ShHdr) + i * (sizeof(detail::SlotHdr) + slot_bytes)); }
  char* slot_buf(size_t i) { return reinterpret_cast<char*>(slot(i)) + sizeof(detail::SlotHdr); }
  void ensure_shm(size_t m) {
    size_t need = sizeof(detail::ShHdr) + m * (sizeof(detail::SlotHdr) + slot_bytes);
    if (need <= shm_bytes_) return;
    if (shm_) munmap(shm_, shm_bytes_);
    shm_ = (char*)mmap(nullptr, need, PROT_READ | PROT_WRITE, MAP_SHARED | MAP_ANONYMOUS, -1, 0);
    if (shm_ == MAP_FAILED) { perror("mmap"); exit(2); }
    shm_bytes_ = need;
  }
  static void arm(double secs) {
    struct itimerval it; memset(&it, 0, sizeof it);
    it.it_value.tv_sec = (time_t)secs; it.it_value.tv_usec = (suseconds_t)((secs - (time_t)secs) * 1e6);
    setitimer(ITIMER_REAL, &it, nullptr);
  }
  void parse_slot(size_t i, Result& r) {
    detail::SlotHdr* h = slot(i); r.overflow = h->overflow != 0;
    std::string txt(slot_buf(i), h->len);
    size_t p = 0;
    while (p < txt.size()) {
      size_t q = txt.find('\n', p); if (q == std::string::npos) q = txt.size();
      std::string line = txt.substr(p, q - p); p = q + 1;
      std::vector<std::string> parts; size_t a = 0;
      while (true) { size_t b = line.find('\t', a); parts.push_back(line.substr(a, b == std::string::npos ? b : b - a)); if (b == std::string::npos) break; a = b + 1; }
      if (parts[0] == "F" && parts.size() >= 3) {
        Fail f; f.key = detail::unesc(parts[1]); f.msg = detail::unesc(parts[2]);
        for (size_t k = 3; k < parts.size(); ++k) { size_t e = parts[k].find('='); if (e != std::string::npos) f.fields.push_back({detail::unesc(parts[k].substr(0, e)), detail::unesc(parts[k].substr(e + 1))}); }
        r.fails.push_back(f);
      } else if (parts[0] == "S" && parts.size() >= 2) r.sigs.push_back(strtoull(parts[1].c_str(), nullptr, 10));
      else if (parts[0] == "D" && parts.size() >= 2) r.data.push_back(detail::unesc(parts[1]));
      else if (parts[0] == "C" && parts.size() >= 3) r.counts.push_back({detail::unesc(parts[1]), strtoull(parts[2].c_str(), nullptr, 10)});
      else if (parts[0] == "W" && parts.size() >= 2) r.what = detail::unesc(parts[1]);
    }
  }
  // run cases [from, to) of the current chunk in a child; returns the wait status
  template <class Body> int child_run(size_t base, size_t from, size_t to, Body& body, double timeout) {
    if (ftruncate(errfd_, 0) != 0) {}
    lseek(errfd_, 0, SEEK_SET);
    hdr()->cur = -1; hdr()->san_died = 0;
    fflush(nullptr);
    ++forks;
    pid_t pid = fork();
    if (pid < 0) { perror("fork"); exit(2); }
    if (pid == 0) {
      dup2(errfd_, 2);
      detail::san_flag() = &hdr()->san_died;
      if (__sanitizer_set_death_callback) __sanitizer_set_death_callback(detail::on_sanitizer_death);
      signal(SIGALRM, SIG_DFL); signal(SIGABRT, SIG_DFL);
      for (size_t i = from; i < to; ++i) {
        detail::SlotHdr* h = slot(i);
        h->len = 0; h->overflow = 0; h->oc = OK; h->state = 1; hdr()->cur = (int64_t)i;
        arm(timeout);
        Report rep(h, slot_buf(i), slot_bytes);
        Thrown t = guarded([&] { body(base + i, rep); });
        arm(0);
        h->oc = t.oc;
        if (t.threw()) { std::string w = "W\t" + detail::esc(t.what.substr(0, 300)); size_t n = h->len; if (n + w.size() + 1 <= slot_bytes) { memcpy(slot_buf(i) + n, w.data(), w.size()); slot_buf(i)[n + w.size()] = '\n'; h->len = uint32_t(n + w.size() + 1); } }
        h->state = 2;
      }
      _exit(0);
    }
    int st = 0;
    while (waitpid(pid, &st, 0) < 0 && errno == EINTR) {}
    return st;
  }
  std::string captured_stderr() {
    std::string s; char b[4096]; lseek(errfd_, 0, SEEK_SET); ssize_t n;
    while (s.size() < 65536 && (n = read(errfd_, b, sizeof b)) > 0) s.append(b, n);
    return s;
  }
  void classify_death(int st, Result& r) {
    std::string err = captured_stderr();
    bool san = hdr()->san_died || err.find("Sanitizer") != std::string::npos || err.find("runtime error:") != std::string::npos;
    if (WIFSIGNALED(st)) {
      r.sig = WTERMSIG(st);
      if (r.sig == SIGALRM) { r.oc = TIMEOUT; return; }
      r.oc = SIGNAL; r.what = err.substr(0, 200);
      if (san) { r.oc = SANITIZER; parse_sanitizer(err, r); }
      return;
    }
    r.exit_code = WIFEXITED(st) ? WEXITSTATUS(st) : -1;
    if (san) { r.oc = SANITIZER; parse_sanitizer(err, r); }
    else { r.oc = EXITED; r.what = "exit code " + std::to_string(r.exit_code) + " " + err.substr(0, 200); }
  }

 public:
  // Run cases 0..n-1.  body(i, Report&) runs in a forked child (several cases per child); sink(i, const Result&)
  // runs in the parent, once per case, in increasing order of i.
  template <class Body, class Sink> void run(size_t n, Body&& body, Sink&& sink) {
    for (size_t base = 0; base < n; base += batch) {
      size_t m = std::min(batch, n - base);
      ensure_shm(m);
      for (size_t i = 0; i < m; ++i) { slot(i)->state = 0; slot(i)->len = 0; slot(i)->overflow = 0; }
      size_t next = 0;
      while (next < m) {
        int st = child_run(base, next, m, body, case_timeout_s);
        size_t i = next;
        for (; i < m && slot(i)->state == 2; ++i) { Result r; r.oc = (Outcome)slot(i)->oc; parse_slot(i, r); sink(base + i, r); }
        if (i == m) { next = m; break; }
        // the child died while executing case i (state 1), or before starting it (state 0: died between cases)
        Result r; parse_slot(i, r); r.fails.clear();
        classify_death(st, r);
        if (r.oc == TIMEOUT && skip_confirm && skip_confirm(base + i)) {
          r.oc = HANG; r.what = "no result within the " + std::to_string((int)case_timeout_s) + " s watchdog (matches an open known hang finding: not re-run with " + std::to_string((int)retry_timeout_s) + " s)";
          sink(base + i, r); next = i + 1; continue;
        }
        if (r.oc == TIMEOUT) {
          slot(i)->state = 0; slot(i)->len = 0;
          int st2 = child_run(base, i, i + 1, body, retry_timeout_s);
          if (slot(i)->state == 2) { Result r2; r2.oc = (Outcome)slot(i)->oc; parse_slot(i, r2); r2.slow = true; ++slow_cases; sink(base + i, r2); next = i + 1; continue; }
          Result r3; classify_death(st2, r3);
          if (r3.oc == TIMEOUT) { r3.oc = HANG; r3.what = "no result within " + std::to_string((int)retry_timeout_s) + " s when run alone"; }
          sink(base + i, r3); next = i + 1; continue;
        }
        sink(base + i, r); next = i + 1;
      }
    }
  }
};

}  // namespace fault
