// mc/interfere_tables.hpp -- call alphabets for engine E2x (mc/interfere.hpp), one table function per property.
// Conventions: a call named "X@slot..." constructs its object(s) in the static slot (same address in every call);
// a call named "shared:..." uses an object created once by the set's setup() (so it is shared by the calls of a
// sequence); static factory objects (Geodesic::WGS84(), TransverseMercator::UTM(), ...) are shared by nature.
// Arguments are chosen to collide: the same arguments on different ellipsoids/variants, the same start with
// different distances, the same position at different times, values equal in magnitude and opposite in sign.
#pragma once
#include "mc/interfere.hpp"
#include "models/tiny_datasets.hpp"
#include <GeographicLib/Math.hpp>
#include <GeographicLib/Geodesic.hpp>
#include <GeographicLib/GeodesicExact.hpp>
#include <GeographicLib/GeodesicLine.hpp>
#include <GeographicLib/GeodesicLineExact.hpp>
#include <GeographicLib/Rhumb.hpp>
#include <GeographicLib/UTMUPS.hpp>
#include <GeographicLib/MGRS.hpp>
#include <GeographicLib/TransverseMercator.hpp>
#include <GeographicLib/TransverseMercatorExact.hpp>
#include <GeographicLib/Geocentric.hpp>
#include <GeographicLib/LocalCartesian.hpp>
#include <GeographicLib/PolygonArea.hpp>
#include <GeographicLib/DMS.hpp>
#include <GeographicLib/GeoCoords.hpp>
#include <GeographicLib/PolarStereographic.hpp>
#include <GeographicLib/LambertConformalConic.hpp>
#include <GeographicLib/AlbersEqualArea.hpp>
#include <GeographicLib/AuxLatitude.hpp>
#include <GeographicLib/Ellipsoid.hpp>
#include <GeographicLib/EllipticFunction.hpp>
#include <GeographicLib/Gnomonic.hpp>
#include <GeographicLib/AzimuthalEquidistant.hpp>
#include <GeographicLib/CassiniSoldner.hpp>
#include <GeographicLib/Intersect.hpp>
#include <GeographicLib/Geohash.hpp>
#include <GeographicLib/GARS.hpp>
#include <GeographicLib/Georef.hpp>
#include <GeographicLib/OSGB.hpp>
#include <GeographicLib/SphericalHarmonic.hpp>
#include <GeographicLib/SphericalHarmonic1.hpp>
#include <GeographicLib/SphericalHarmonic2.hpp>
#include <GeographicLib/NormalGravity.hpp>
#include <GeographicLib/MagneticModel.hpp>
#include <GeographicLib/MagneticCircle.hpp>
#include <GeographicLib/GravityModel.hpp>
#include <GeographicLib/GravityCircle.hpp>
#include <GeographicLib/Geoid.hpp>
#include <sys/stat.h>
#include <fstream>

namespace ift {
using namespace GeographicLib;
using ifr::Out; using ifr::Set; using ifr::At;
typedef Math::real real;
static const double NaN = std::numeric_limits<double>::quiet_NaN();

struct Ell { const char* n; double a, f; };
static const Ell W = {"WGS84", 6378137, 1 / 298.257223563}, SPH = {"sphere", 6378137, 0}, E150 = {"f=1/150", 6378137, 1 / 150.0},
                 P150 = {"f=-1/150", 6378137, -1 / 150.0}, E50 = {"a=6.4e6,f=1/50", 6.4e6, 1 / 50.0}, E10 = {"f=1/10", 6378137, 0.1},
                 CL66 = {"Clarke66", 6378206.4, 1 / 294.9786982};
static std::string num(double x) { char b[40]; snprintf(b, sizeof b, "%.10g", x); return b; }
static std::string tup(std::initializer_list<double> v) { std::string r = "("; bool first = true; for (double x : v) { if (!first) r += ","; r += num(x); first = false; } return r + ")"; }

// ------------------------------------------------------------------------------------------ geodesic family
// which: 1 = direct position outputs (C01), 2 = inverse distance/azimuth outputs (C02), 4 = m12/M12/M21/S12 of both (C03)
struct GShared { Geodesic* gw; Geodesic* gx; GeodesicExact* ew; GeodesicExact* e150; GeodesicLine* lw; GeodesicLineExact* lx; };
static GShared& gsh() { static GShared g = {}; return g; }
static void put_direct(Out& o, int which, double a12, double lat2, double lon2, double azi2, double s12, double m12, double M12, double M21, double S12) {
  if (which & 1) o << a12 << lat2 << lon2 << azi2 << s12;
  if (which & 4) o << m12 << M12 << M21 << S12;
}
static void put_inverse(Out& o, int which, double a12, double s12, double azi1, double azi2, double m12, double M12, double M21, double S12) {
  if (which & 2) o << a12 << s12 << azi1 << azi2;
  if (which & 4) o << m12 << M12 << M21 << S12;
}
template <class G> static void gen_direct(const G& g, bool arc, const double* p, Out& o, int which) {
  double lat2 = NaN, lon2 = NaN, azi2 = NaN, s12 = NaN, m12 = NaN, M12 = NaN, M21 = NaN, S12 = NaN;
  double a12 = g.GenDirect(p[0], p[1], p[2], arc, p[3], G::ALL | G::LONG_UNROLL, lat2, lon2, azi2, s12, m12, M12, M21, S12);
  put_direct(o, which, a12, lat2, lon2, azi2, s12, m12, M12, M21, S12);
}
template <class G> static void gen_inverse(const G& g, const double* p, Out& o, int which) {
  double s12 = NaN, azi1 = NaN, azi2 = NaN, m12 = NaN, M12 = NaN, M21 = NaN, S12 = NaN;
  double a12 = g.GenInverse(p[0], p[1], p[2], p[3], G::ALL, s12, azi1, azi2, m12, M12, M21, S12);
  put_inverse(o, which, a12, s12, azi1, azi2, m12, M12, M21, S12);
}
template <class L> static void line_pos(const L& l, bool arc, double s, Out& o, int which) {
  double lat2 = NaN, lon2 = NaN, azi2 = NaN, s12 = NaN, m12 = NaN, M12 = NaN, M21 = NaN, S12 = NaN;
  double a12 = l.GenPosition(arc, s, L::ALL | L::LONG_UNROLL, lat2, lon2, azi2, s12, m12, M12, M21, S12);
  put_direct(o, which, a12, lat2, lon2, azi2, s12, m12, M12, M21, S12);
}

static Set geod_set(int which, bool T) {
  Set S; S.name = which == 1 ? "geodesic-direct" : which == 2 ? "geodesic-inverse" : "geodesic-scales-area";
  S.setup = [] {
    GShared& g = gsh();
    g.gw = new Geodesic(W.a, W.f); g.gx = new Geodesic(E150.a, E150.f, true);
    g.ew = new GeodesicExact(W.a, W.f); g.e150 = new GeodesicExact(E150.a, E150.f);
    g.lw = new GeodesicLine(g.gw->Line(30, 10, 45)); g.lx = new GeodesicLineExact(g.e150->Line(30, 10, 45));
  };
  struct Cfg { Ell e; int kind; };     // 0 series, 1 Geodesic(exact=true), 2 GeodesicExact
  std::vector<Cfg> cfg = {{W, 0}, {SPH, 0}, {E150, 0}, {P150, 0}, {W, 1}, {E150, 1}, {W, 2}, {SPH, 2}, {E150, 2}, {E50, 2}};
  static const double D[3][4] = {{30, 10, 45, 3e6}, {30, 10, 45, 7.5e6}, {-20, 370, 120, 1.2e7}};
  static const double A1[4] = {30, 10, 45, 40};
  static const double I[4][4] = {{30, 10, 46.3, 37.6}, {10, 20, 40, 20}, {-30, 0, 29.9, 179.5}, {0, 0, 0, 90}};
  const bool dir = which & 5, inv = which & 6;
  for (const Cfg& c : cfg) {
    const std::string cn = std::string(c.kind == 0 ? "Geodesic" : c.kind == 1 ? "Geodesic[exact]" : "GeodesicExact") + "(" + c.e.n + ")@slot";
    const Ell e = c.e; const int kind = c.kind;
    if (dir) for (int d = 0; d < 3; ++d) {
      const double* p = D[d];
      S.add(cn + ".GenDirect" + tup({p[0], p[1], p[2], p[3]}), [=](Out& o) {
        if (kind == 2) { At<GeodesicExact> g(e.a, e.f); gen_direct(*g, false, p, o, which); }
        else { At<Geodesic> g(e.a, e.f, kind == 1); gen_direct(*g, false, p, o, which); } });
      if (d != 1 || T) S.add(cn + ".Line" + tup({p[0], p[1], p[2]}) + ".GenPosition(" + num(p[3]) + ")", [=](Out& o) {
        if (kind == 2) { At<GeodesicExact> g(e.a, e.f); GeodesicLineExact l = g->Line(p[0], p[1], p[2]); line_pos(l, false, p[3], o, which); }
        else { At<Geodesic> g(e.a, e.f, kind == 1); GeodesicLine l = g->Line(p[0], p[1], p[2]); line_pos(l, false, p[3], o, which); } });
    }
    if (dir) S.add(cn + ".GenDirect[arc]" + tup({A1[0], A1[1], A1[2], A1[3]}), [=](Out& o) {
      if (kind == 2) { At<GeodesicExact> g(e.a, e.f); gen_direct(*g, true, A1, o, which); }
      else { At<Geodesic> g(e.a, e.f, kind == 1); gen_direct(*g, true, A1, o, which); } });
    if (inv) for (int d = 0; d < 4; ++d) {
      if (d == 3 && !T && kind != 2) continue;
      const double* p = I[d];
      S.add(cn + ".GenInverse" + tup({p[0], p[1], p[2], p[3]}), [=](Out& o) {
        if (kind == 2) { At<GeodesicExact> g(e.a, e.f); gen_inverse(*g, p, o, which); }
        else { At<Geodesic> g(e.a, e.f, kind == 1); gen_inverse(*g, p, o, which); } });
    }
  }
  // shared objects: one series solver, one exact solver through the wrapper, two exact solvers, two lines
  if (dir) {
    S.add("shared:Geodesic(WGS84).GenDirect" + tup({D[0][0], D[0][1], D[0][2], D[0][3]}), [=](Out& o) { gen_direct(*gsh().gw, false, D[0], o, which); });
    S.add("shared:Geodesic[exact](f=1/150).GenDirect" + tup({D[0][0], D[0][1], D[0][2], D[0][3]}), [=](Out& o) { gen_direct(*gsh().gx, false, D[0], o, which); });
    S.add("shared:GeodesicExact(WGS84).GenDirect" + tup({D[0][0], D[0][1], D[0][2], D[0][3]}), [=](Out& o) { gen_direct(*gsh().ew, false, D[0], o, which); });
    S.add("shared:GeodesicExact(f=1/150).GenDirect" + tup({D[1][0], D[1][1], D[1][2], D[1][3]}), [=](Out& o) { gen_direct(*gsh().e150, false, D[1], o, which); });
    S.add("shared:GeodesicLine(WGS84;30,10,45).GenPosition(3e6)", [=](Out& o) { line_pos(*gsh().lw, false, 3e6, o, which); });
    S.add("shared:GeodesicLine(WGS84;30,10,45).GenPosition[arc](40)", [=](Out& o) { line_pos(*gsh().lw, true, 40, o, which); });
    S.add("shared:GeodesicLineExact(f=1/150;30,10,45).GenPosition(7.5e6)", [=](Out& o) { line_pos(*gsh().lx, false, 7.5e6, o, which); });
    S.add("shared:GeodesicLineExact(f=1/150;30,10,45).GenPosition(3e6)", [=](Out& o) { line_pos(*gsh().lx, false, 3e6, o, which); });
  }
  if (inv) for (int d = 0; d < 3; ++d) {
    const double* p = I[d];
    S.add("shared:Geodesic(WGS84).GenInverse" + tup({p[0], p[1], p[2], p[3]}), [=](Out& o) { gen_inverse(*gsh().gw, p, o, which); });
    S.add("shared:GeodesicExact(WGS84).GenInverse" + tup({p[0], p[1], p[2], p[3]}), [=](Out& o) { gen_inverse(*gsh().ew, p, o, which); });
    S.add("shared:Geodesic[exact](f=1/150).GenInverse" + tup({p[0], p[1], p[2], p[3]}), [=](Out& o) { gen_inverse(*gsh().gx, p, o, which); });
  }
  return S;
}
static std::vector<Set> tables_C01(bool T) { return {geod_set(1, T)}; }
static std::vector<Set> tables_C02(bool T) { return {geod_set(2, T)}; }
static std::vector<Set> tables_C03(bool T) { return {geod_set(4, T)}; }

// ------------------------------------------------------------------------------------------ rhumb + masks (C09, C12)
struct RShared { Rhumb* rs; Rhumb* rx; Rhumb* rx10; Geodesic* gw; GeodesicExact* ew; };
static RShared& rsh() { static RShared r = {}; return r; }
static void rh_direct(const Rhumb& r, const double* p, unsigned mask, Out& o) {
  double lat2 = NaN, lon2 = NaN, S12 = NaN; r.GenDirect(p[0], p[1], p[2], p[3], mask, lat2, lon2, S12); o << lat2 << lon2 << S12; }
static void rh_inverse(const Rhumb& r, const double* p, unsigned mask, Out& o) {
  double s12 = NaN, azi = NaN, S12 = NaN; r.GenInverse(p[0], p[1], p[2], p[3], mask, s12, azi, S12); o << s12 << azi << S12; }
static void rh_line(const Rhumb& r, const double* p, unsigned mask, Out& o) {
  RhumbLine l = r.Line(p[0], p[1], p[2]); double lat2 = NaN, lon2 = NaN, S12 = NaN; l.GenPosition(p[3], mask, lat2, lon2, S12); o << lat2 << lon2 << S12; }
static Set rhumb_set(bool masks, bool T) {
  Set S; S.name = masks ? "rhumb-geodesic-masks" : "rhumb";
  S.setup = [] { RShared& r = rsh(); r.rs = new Rhumb(W.a, W.f, false); r.rx = new Rhumb(W.a, W.f, true); r.rx10 = new Rhumb(E10.a, E10.f, true);
                 r.gw = new Geodesic(W.a, W.f); r.ew = new GeodesicExact(W.a, W.f); };
  struct Cfg { Ell e; bool exact; };
  std::vector<Cfg> cfg = {{W, false}, {W, true}, {E10, false}, {E10, true}, {E150, false}, {E150, true}, {P150, true}};
  static const double D[2][4] = {{10, 5, 33.7, 7e6}, {10, 5, 90, 4e6}};
  static const double I[2][4] = {{10, 5, 70, 45}, {35, -20, 35, 22}};
  const unsigned ALL = Rhumb::ALL;
  std::vector<std::pair<const char*, unsigned>> mk = {{"ALL", ALL}};
  if (masks) { mk.push_back({"AREA", Rhumb::AREA}); mk.push_back({"LATITUDE|LONGITUDE", Rhumb::LATITUDE | Rhumb::LONGITUDE}); }
  for (const Cfg& c : cfg) {
    const Ell e = c.e; const bool ex = c.exact;
    const std::string cn = std::string("Rhumb(") + e.n + (ex ? ",exact" : ",series") + ")@slot";
    for (auto& m : mk) {
      const unsigned mask = m.second; const std::string mn = std::string("[") + m.first + "]";
      for (int d = 0; d < 2; ++d) {
        const double* p = D[d];
        S.add(cn + ".GenDirect" + mn + tup({p[0], p[1], p[2], p[3]}), [=](Out& o) { At<Rhumb> r(e.a, e.f, ex); rh_direct(*r, p, mask, o); });
        if (d == 0 || T) S.add(cn + ".Line.GenPosition" + mn + tup({p[0], p[1], p[2], p[3]}), [=](Out& o) { At<Rhumb> r(e.a, e.f, ex); rh_line(*r, p, mask, o); });
      }
      const unsigned imask = mask == ALL ? ALL : mask == Rhumb::AREA ? Rhumb::AREA : (Rhumb::DISTANCE | Rhumb::AZIMUTH);
      for (int d = 0; d < 2; ++d) {
        const double* p = I[d];
        S.add(cn + ".GenInverse" + mn + tup({p[0], p[1], p[2], p[3]}), [=](Out& o) { At<Rhumb> r(e.a, e.f, ex); rh_inverse(*r, p, imask, o); });
      }
    }
  }
  // shared solver objects: the order of the first uses of one object is part of every sequence
  struct Sh { const char* n; Rhumb* RShared::*p; };
  for (Sh sh : {Sh{"Rhumb(WGS84,series)", &RShared::rs}, Sh{"Rhumb(WGS84,exact)", &RShared::rx}, Sh{"Rhumb(f=1/10,exact)", &RShared::rx10}}) {
    Rhumb* RShared::*mp = sh.p; const std::string cn = std::string("shared:") + sh.n;
    S.add(cn + ".GenDirect[ALL]" + tup({D[0][0], D[0][1], D[0][2], D[0][3]}), [=](Out& o) { rh_direct(*(rsh().*mp), D[0], ALL, o); });
    S.add(cn + ".GenDirect[LATITUDE|LONGITUDE]" + tup({D[0][0], D[0][1], D[0][2], D[0][3]}), [=](Out& o) { rh_direct(*(rsh().*mp), D[0], Rhumb::LATITUDE | Rhumb::LONGITUDE, o); });
    S.add(cn + ".Line.GenPosition[ALL]" + tup({D[0][0], D[0][1], D[0][2], D[0][3]}), [=](Out& o) { rh_line(*(rsh().*mp), D[0], ALL, o); });
    S.add(cn + ".Line.GenPosition[AREA]" + tup({D[1][0], D[1][1], D[1][2], D[1][3]}), [=](Out& o) { rh_line(*(rsh().*mp), D[1], Rhumb::AREA, o); });
    S.add(cn + ".GenInverse[ALL]" + tup({I[0][0], I[0][1], I[0][2], I[0][3]}), [=](Out& o) { rh_inverse(*(rsh().*mp), I[0], ALL, o); });
    S.add(cn + ".GenInverse[DISTANCE]" + tup({I[0][0], I[0][1], I[0][2], I[0][3]}), [=](Out& o) { rh_inverse(*(rsh().*mp), I[0], Rhumb::DISTANCE, o); });
  }
  if (masks) {
    // geodesic lines with reduced capabilities and reduced masks, shared solvers
    static const double P[4] = {30, 10, 45, 3e6};
    struct GM { const char* n; unsigned caps, out; };
    for (GM g : {GM{"caps=ALL,out=ALL", Geodesic::ALL, Geodesic::ALL}, GM{"caps=DISTANCE_IN|LATITUDE,out=LATITUDE", Geodesic::DISTANCE_IN | Geodesic::LATITUDE, Geodesic::LATITUDE},
                 GM{"caps=DISTANCE_IN|AREA,out=AREA", Geodesic::DISTANCE_IN | Geodesic::AREA, Geodesic::AREA},
                 GM{"caps=DISTANCE_IN|GEODESICSCALE,out=GEODESICSCALE", Geodesic::DISTANCE_IN | Geodesic::GEODESICSCALE, Geodesic::GEODESICSCALE},
                 GM{"caps=DISTANCE_IN|REDUCEDLENGTH|LONGITUDE,out=REDUCEDLENGTH|LONGITUDE|LONG_UNROLL", Geodesic::DISTANCE_IN | Geodesic::REDUCEDLENGTH | Geodesic::LONGITUDE, Geodesic::REDUCEDLENGTH | Geodesic::LONGITUDE | Geodesic::LONG_UNROLL}}) {
      const unsigned caps = g.caps, out = g.out;
      S.add(std::string("shared:Geodesic(WGS84).Line(30,10,45;") + g.n + ").GenPosition(3e6)", [=](Out& o) {
        GeodesicLine l = rsh().gw->Line(P[0], P[1], P[2], caps); double v[8]; for (double& x : v) x = NaN;
        double a12 = l.GenPosition(false, P[3], out, v[0], v[1], v[2], v[3], v[4], v[5], v[6], v[7]); o << a12; for (double x : v) o << x; });
      S.add(std::string("shared:GeodesicExact(WGS84).Line(30,10,45;") + g.n + ").GenPosition(3e6)", [=](Out& o) {
        GeodesicLineExact l = rsh().ew->Line(P[0], P[1], P[2], caps); double v[8]; for (double& x : v) x = NaN;
        double a12 = l.GenPosition(false, P[3], out, v[0], v[1], v[2], v[3], v[4], v[5], v[6], v[7]); o << a12; for (double x : v) o << x; });
      S.add(std::string("shared:Geodesic(WGS84).GenDirect(30,10,45,3e6;out=") + g.n + ")", [=](Out& o) {
        double v[8]; for (double& x : v) x = NaN;
        double a12 = rsh().gw->GenDirect(P[0], P[1], P[2], false, P[3], out, v[0], v[1], v[2], v[3], v[4], v[5], v[6], v[7]); o << a12; for (double x : v) o << x; });
      S.add(std::string("shared:GeodesicExact(WGS84).GenDirect(30,10,45,3e6;out=") + g.n + ")", [=](Out& o) {
        double v[8]; for (double& x : v) x = NaN;
        double a12 = rsh().ew->GenDirect(P[0], P[1], P[2], false, P[3], out, v[0], v[1], v[2], v[3], v[4], v[5], v[6], v[7]); o << a12; for (double x : v) o << x; });
    }
  }
  return S;
}
static std::vector<Set> tables_C09(bool T) { return {rhumb_set(false, T)}; }
static std::vector<Set> tables_C12(bool T) { return {rhumb_set(true, T)}; }

// one std::string shared by the calls of a sequence that write a code into a caller-supplied string (a result must not
// depend on what the string held before)
static std::string& gout() { static std::string s; return s; }
static void add_shared_out_mgrs(Set& S) {
  static const double XY[][4] = {{31, 1, 448251.8, 5411932.7}, {0, 1, 2e6 + 13, 2e6 + 7}, {38, 1, 444800.1, 3684700.9}};
  for (auto& q : XY) for (int prec : {11, 5, 2, 0, -1}) {
    const int zone = (int)q[0]; const bool np = q[1] != 0; const double x = q[2], y = q[3];
    S.add("shared-out:MGRS::Forward(" + std::to_string(zone) + (np ? "n," : "s,") + num(x) + "," + num(y) + ",prec=" + std::to_string(prec) + ")", [=](Out& o) { MGRS::Forward(zone, np, x, y, prec, gout()); o << gout(); });
  }
  S.add("shared-out:MGRS::Forward(31n,NaN,5e6,prec=5)", [](Out& o) { MGRS::Forward(31, true, NaN, 5e6, 5, gout()); o << gout(); });
}
// ------------------------------------------------------------------------------------------ UTM/UPS, MGRS (C04, C05)
static Set utm_set(bool T) {
  Set S; S.name = "utmups";
  static const double LL[][2] = {{52.3, 3.1}, {-33.9, 151.2}, {0, 0}, {84, 6}, {86, 40}, {-85, -120}, {60, 5}, {72, 20}, {-79.999, 179.999}};
  for (auto& p : LL) for (int setzone : {int(UTMUPS::STANDARD), int(UTMUPS::MATCH), 31, int(UTMUPS::UPS), int(UTMUPS::UTM)}) {
    if (!T && setzone == UTMUPS::MATCH) continue;
    const double lat = p[0], lon = p[1];
    S.add("UTMUPS::Forward" + tup({lat, lon}) + "[setzone=" + std::to_string(setzone) + "]", [=](Out& o) {
      int zone = -99; bool northp = false; double x = NaN, y = NaN, gamma = NaN, k = NaN;
      UTMUPS::Forward(lat, lon, zone, northp, x, y, gamma, k, setzone); o << zone << northp << x << y << gamma << k; });
  }
  // the same integer longitude cell in different latitude bands (Norway / Svalbard exceptions apply to one of them only)
  static const double ZZ[][2] = {{60, 4.5}, {66, 4.5}, {55.9, 4.5}, {80, 30.5}, {70, 30.5}, {75, 9.5}, {71.9, 9.5}, {-60, 4.5}, {60, 364.5}, {84, 30.5}};
  for (auto& p : ZZ) { const double lat = p[0], lon = p[1];
    S.add("UTMUPS::StandardZone" + tup({lat, lon}) + "+Forward", [=](Out& o) { o << UTMUPS::StandardZone(lat, lon) << UTMUPS::StandardZone(lat, lon, UTMUPS::UTM);
      int zone = -99; bool northp = false; double x = NaN, y = NaN; UTMUPS::Forward(lat, lon, zone, northp, x, y); o << zone << northp << x << y; }); }
  static const double XY[][4] = {{31, 1, 5e5, 5.8e6}, {31, 0, 5e5, 5.8e6}, {0, 1, 2e6, 2e6}, {0, 0, 2.3e6, 1.7e6}, {56, 0, 3.3e5, 6.25e6}, {31, 1, 1.7e5, 0}, {32, 1, 5e5, 5.8e6}};
  for (auto& q : XY) {
    const int zone = (int)q[0]; const bool np = q[1] != 0; const double x = q[2], y = q[3];
    S.add("UTMUPS::Reverse(" + std::to_string(zone) + (np ? "n," : "s,") + num(x) + "," + num(y) + ")", [=](Out& o) {
      double lat = NaN, lon = NaN, gamma = NaN, k = NaN; UTMUPS::Reverse(zone, np, x, y, lat, lon, gamma, k); o << lat << lon << gamma << k; });
    S.add("UTMUPS::Transfer(" + std::to_string(zone) + (np ? "n," : "s,") + num(x) + "," + num(y) + " -> standard)", [=](Out& o) {
      double xo = NaN, yo = NaN; int zo = -99; UTMUPS::Transfer(zone, np, x, y, UTMUPS::STANDARD, zone == 0 ? np : !np, xo, yo, zo); o << xo << yo << zo; });
  }
  for (const char* z : {"31n", "31s", "ups", "n", "60S", "utm"}) {
    const std::string zs = z;
    S.add("UTMUPS::DecodeZone(" + zs + ")", [=](Out& o) { int zone = -99; bool np = false; UTMUPS::DecodeZone(zs, zone, np); o << zone << np << UTMUPS::EncodeZone(zone == -1 || zone == -2 ? 31 : zone, np); });
  }
  return S;
}
static Set mgrs_set(bool T) {
  Set S; S.name = "mgrs";
  static const double XY[][4] = {{31, 1, 448251.8, 5411932.7}, {31, 0, 448251.8, 5411932.7}, {0, 1, 2e6 + 13, 2e6 + 7}, {0, 0, 2.3e6, 1.7e6}, {56, 0, 334873.2, 6250935.9}, {32, 1, 448251.8, 5411932.7}, {31, 1, 5e5, 9.3e6}};
  for (auto& q : XY) for (int prec : {0, 5, 11, -1, 2}) {
    if (!T && prec == 2) continue;
    const int zone = (int)q[0]; const bool np = q[1] != 0; const double x = q[2], y = q[3];
    S.add("MGRS::Forward(" + std::to_string(zone) + (np ? "n," : "s,") + num(x) + "," + num(y) + ",prec=" + std::to_string(prec) + ")", [=](Out& o) {
      std::string m; MGRS::Forward(zone, np, x, y, prec, m); o << m; });
  }
  for (const char* m : {"31UDQ4825111932", "31UDQ", "31U", "ZAH0000000000", "BAN0000000000", "56HLH3487350935", "38SMB4484", "31UDQ48251193275", "A", "32UMV4825111932"}) {
    const std::string ms = m;
    for (bool centerp : {true, false}) S.add("MGRS::Reverse(" + ms + (centerp ? ",center" : ",corner") + ")", [=](Out& o) {
      int zone = -99, prec = -99; bool np = false; double x = NaN, y = NaN; MGRS::Reverse(ms, zone, np, x, y, prec, centerp); o << zone << np << x << y << prec; });
  }
  S.add("MGRS::Check()", [=](Out& o) { MGRS::Check(); o << 1.0; });
  add_shared_out_mgrs(S);
  return S;
}
static std::vector<Set> tables_C04(bool T) { return {utm_set(T)}; }
static std::vector<Set> tables_C05(bool T) { return {mgrs_set(T)}; }

// ------------------------------------------------------------------------------------------ transverse Mercator (C06)
struct TShared { TransverseMercator* ts; TransverseMercator* tx; TransverseMercatorExact* te; };
static TShared& tsh() { static TShared t = {}; return t; }
template <class TM> static void tm_fwd(const TM& t, double lon0, double lat, double lon, Out& o) { double x = NaN, y = NaN, g = NaN, k = NaN; t.Forward(lon0, lat, lon, x, y, g, k); o << x << y << g << k; }
template <class TM> static void tm_rev(const TM& t, double lon0, double x, double y, Out& o) { double lat = NaN, lon = NaN, g = NaN, k = NaN; t.Reverse(lon0, x, y, lat, lon, g, k); o << lat << lon << g << k; }
static Set tm_set(bool T) {
  Set S; S.name = "transverse-mercator";
  S.setup = [] { TShared& t = tsh(); t.ts = new TransverseMercator(W.a, W.f, 0.9996); t.tx = new TransverseMercator(E150.a, E150.f, 1, true, false); t.te = new TransverseMercatorExact(E10.a, E10.f, 1, true); };
  struct Cfg { const char* n; Ell e; double k0; int kind; bool ext; };   // kind 0 series, 1 wrapper exact, 2 TMExact
  std::vector<Cfg> cfg = {{"TransverseMercator(WGS84,0.9996)", W, 0.9996, 0, false}, {"TransverseMercator(Airy,0.9996012717)", {"Airy", 6377563.396, 1 / 299.3249646}, 0.9996012717, 0, false},
                          {"TransverseMercator(f=1/150,1)", E150, 1, 0, false}, {"TransverseMercator(f=-1/150,1)", P150, 1, 0, false},
                          {"TransverseMercator(WGS84,0.9996,exact)", W, 0.9996, 1, false}, {"TransverseMercator(f=1/150,1,exact,extendp)", E150, 1, 1, true},
                          {"TransverseMercatorExact(WGS84,0.9996)", W, 0.9996, 2, false}, {"TransverseMercatorExact(f=1/150,1)", E150, 1, 2, false},
                          {"TransverseMercatorExact(f=1/10,1)", E10, 1, 2, false}, {"TransverseMercatorExact(f=1/10,1,extendp)", E10, 1, 2, true}};
  static const double F[][2] = {{0, 5}, {0, 60}, {52, 3}, {-5, 30}, {52, -3}};
  static const double R[][2] = {{3.2e5, 5.7e6}, {5.5e5, 0}, {-3.2e5, 5.7e6}};
  for (const Cfg& c : cfg) {
    const Ell e = c.e; const double k0 = c.k0; const int kind = c.kind; const bool ext = c.ext; const std::string cn = std::string(c.n) + "@slot";
    for (auto& p : F) {
      const double lat = p[0], lon = p[1];
      S.add(cn + ".Forward(0," + num(lat) + "," + num(lon) + ")", [=](Out& o) {
        if (kind == 2) { At<TransverseMercatorExact> t(e.a, e.f, k0, ext); tm_fwd(*t, 0, lat, lon, o); }
        else { At<TransverseMercator> t(e.a, e.f, k0, kind == 1, ext); tm_fwd(*t, 0, lat, lon, o); } });
    }
    for (auto& p : R) {
      if (!T && &p != &R[0] && &p != &R[1]) continue;
      const double x = p[0], y = p[1];
      S.add(cn + ".Reverse(0," + num(x) + "," + num(y) + ")", [=](Out& o) {
        if (kind == 2) { At<TransverseMercatorExact> t(e.a, e.f, k0, ext); tm_rev(*t, 0, x, y, o); }
        else { At<TransverseMercator> t(e.a, e.f, k0, kind == 1, ext); tm_rev(*t, 0, x, y, o); } });
    }
  }
  S.add("static:TransverseMercator::UTM().Forward(3,52,6)", [](Out& o) { tm_fwd(TransverseMercator::UTM(), 3, 52, 6, o); });
  S.add("static:TransverseMercator::UTM().Forward(0,0,5)", [](Out& o) { tm_fwd(TransverseMercator::UTM(), 0, 0, 5, o); });
  S.add("static:TransverseMercatorExact::UTM().Forward(0,0,5)", [](Out& o) { tm_fwd(TransverseMercatorExact::UTM(), 0, 0, 5, o); });
  S.add("static:TransverseMercatorExact::UTM().Reverse(0,3.2e5,5.7e6)", [](Out& o) { tm_rev(TransverseMercatorExact::UTM(), 0, 3.2e5, 5.7e6, o); });
  S.add("shared:TransverseMercator(WGS84,0.9996).Forward(0,52,3)", [](Out& o) { tm_fwd(*tsh().ts, 0, 52, 3, o); });
  S.add("shared:TransverseMercator(WGS84,0.9996).Forward(0,-52,3)", [](Out& o) { tm_fwd(*tsh().ts, 0, -52, 3, o); });
  S.add("shared:TransverseMercator(f=1/150,1,exact).Forward(0,0,5)", [](Out& o) { tm_fwd(*tsh().tx, 0, 0, 5, o); });
  S.add("shared:TransverseMercator(f=1/150,1,exact).Reverse(0,3.2e5,5.7e6)", [](Out& o) { tm_rev(*tsh().tx, 0, 3.2e5, 5.7e6, o); });
  S.add("shared:TransverseMercatorExact(f=1/10,1,extendp).Forward(0,0,5)", [](Out& o) { tm_fwd(*tsh().te, 0, 0, 5, o); });
  S.add("shared:TransverseMercatorExact(f=1/10,1,extendp).Forward(0,0,60)", [](Out& o) { tm_fwd(*tsh().te, 0, 0, 60, o); });
  return S;
}
static std::vector<Set> tables_C06(bool T) { return {tm_set(T)}; }

// ------------------------------------------------------------------------------------------ geocentric / local cartesian (C07)
static Set cart_set(bool T) {
  Set S; S.name = "geocentric-localcartesian";
  std::vector<Ell> es = {W, SPH, E150, P150, E10, {"f=-1", 6378137, -1.0}};
  static const double G[][3] = {{48.25, 11.5, 1200}, {-90, 0, 0}, {0, 180, -5000}, {48.25, 11.5, 0}};
  static const double X[][3] = {{4e6, 1e6, 4.8e6}, {0, 0, 1e3}, {1e4, 0, 1}, {0, 0, 0}, {-2e7, 3e7, 1e3}};
  for (const Ell& e0 : es) {
    const Ell e = e0; const std::string cn = std::string("Geocentric(") + e.n + ")@slot";
    for (auto& p : G) { const double la = p[0], lo = p[1], h = p[2];
      S.add(cn + ".Forward" + tup({la, lo, h}), [=](Out& o) { At<Geocentric> g(e.a, e.f); double X, Y, Z; std::vector<real> M(9, NaN); g->Forward(la, lo, h, X, Y, Z, M); o << X << Y << Z; for (double m : M) o << m; }); }
    for (auto& p : X) { const double x = p[0], y = p[1], z = p[2];
      S.add(cn + ".Reverse" + tup({x, y, z}), [=](Out& o) { At<Geocentric> g(e.a, e.f); double la, lo, h; std::vector<real> M(9, NaN); g->Reverse(x, y, z, la, lo, h, M); o << la << lo << h; for (double m : M) o << m; }); }
    for (int q = 0; q < (T ? 4 : 2); ++q) { const double la0 = G[q][0], lo0 = G[q][1], h0 = G[q][2];
      S.add("LocalCartesian" + tup({la0, lo0, h0}) + "(" + e.n + ")@slot.Forward(48.3,11.6,800)+Reverse(1e4,-2e4,3e3)", [=](Out& o) {
        At<Geocentric> g(e.a, e.f); LocalCartesian l(la0, lo0, h0, *g); double x, y, z, la, lo, h; std::vector<real> M(9, NaN);
        l.Forward(48.3, 11.6, 800, x, y, z, M); o << x << y << z; for (double m : M) o << m; l.Reverse(1e4, -2e4, 3e3, la, lo, h, M); o << la << lo << h; for (double m : M) o << m; }); }
  }
  S.add("static:Geocentric::WGS84().Forward(48.25,11.5,1200)", [](Out& o) { double X, Y, Z; Geocentric::WGS84().Forward(48.25, 11.5, 1200, X, Y, Z); o << X << Y << Z; });
  S.add("static:Geocentric::WGS84().Reverse(4e6,1e6,4.8e6)", [](Out& o) { double la, lo, h; Geocentric::WGS84().Reverse(4e6, 1e6, 4.8e6, la, lo, h); o << la << lo << h; });
  S.add("LocalCartesian(48.25,11.5,1200)[default earth].Forward(48.3,11.6,800)", [](Out& o) { LocalCartesian l(48.25, 11.5, 1200); double x, y, z; l.Forward(48.3, 11.6, 800, x, y, z); o << x << y << z; });
  return S;
}
static std::vector<Set> tables_C07(bool T) { return {cart_set(T)}; }

// ------------------------------------------------------------------------------------------ polygon area (C08)
static Set poly_set(bool T) {
  Set S; S.name = "polygon-area";
  static const double P1[][2] = {{0, 0}, {0, 90}, {90, 0}}, P2[][2] = {{52, 0}, {41, -74}, {-23, -43}, {-26, 28}}, P3[][2] = {{89, 0}, {89, 90}, {89, 180}, {89, -90}}, P4[][2] = {{-10, 179}, {10, 179}, {10, -179}, {-10, -179}};
  struct Poly { const char* n; const double (*p)[2]; int np; };
  std::vector<Poly> polys = {{"octant", P1, 3}, {"cities", P2, 4}, {"polar-cap", P3, 4}, {"antimeridian", P4, 4}};
  for (const Poly& pl : polys) for (const Ell& e0 : {W, SPH, E150, E10}) for (int kind = 0; kind < 3; ++kind) for (bool polyline : {false, true}) {
    if (polyline && !T && kind != 0) continue;
    const Ell e = e0; const Poly P = pl;
    S.add(std::string(kind == 0 ? "PolygonArea" : kind == 1 ? "PolygonAreaExact" : "PolygonAreaRhumb") + "(" + e.n + (polyline ? ",polyline" : "") + ")@slot{" + P.n + "}.Compute+TestPoint+TestEdge", [=](Out& o) {
      double per = NaN, area = NaN, per2 = NaN, area2 = NaN, per3 = NaN, area3 = NaN; unsigned n = 0;
      if (kind == 0) { At<Geodesic> g(e.a, e.f); PolygonArea p(*g, polyline); for (int i = 0; i < P.np; ++i) p.AddPoint(P.p[i][0], P.p[i][1]); n = p.Compute(false, true, per, area); p.TestPoint(5, 5, true, false, per2, area2); p.TestEdge(30, 1e6, false, true, per3, area3); }
      else if (kind == 1) { At<GeodesicExact> g(e.a, e.f); PolygonAreaExact p(*g, polyline); for (int i = 0; i < P.np; ++i) p.AddPoint(P.p[i][0], P.p[i][1]); n = p.Compute(false, true, per, area); p.TestPoint(5, 5, true, false, per2, area2); p.TestEdge(30, 1e6, false, true, per3, area3); }
      else { At<Rhumb> g(e.a, e.f, true); PolygonAreaRhumb p(*g, polyline); for (int i = 0; i < P.np; ++i) p.AddPoint(P.p[i][0], P.p[i][1]); n = p.Compute(false, true, per, area); p.TestPoint(5, 5, true, false, per2, area2); p.TestEdge(30, 1e6, false, true, per3, area3); }
      o << n << per << area << per2 << area2 << per3 << area3; });
  }
  return S;
}
static std::vector<Set> tables_C08(bool T) { return {poly_set(T)}; }

// ------------------------------------------------------------------------------------------ text I/O (C10)
static Set text_set(bool T) {
  Set S; S.name = "text-io";
  for (const char* s : {"40d30'45.5\"N", "-148:15:00", "4.5W", "40:30.5S", "100.5", "nan", "90N", "0.1\"E", "179:59:59.9999999999E"}) {
    const std::string ss = s;
    S.add("DMS::Decode(" + ss + ")", [=](Out& o) { DMS::flag f; double v = DMS::Decode(ss, f); o << v << (int)f; });
  }
  for (double a : {40.5126388889, -148.25, 0.0, 359.99999999999, -0.000001, 89.99999999999999}) for (int tr : {0, 1, 2}) for (int prec : {0, 4, 10}) {
    if (!T && prec == 10 && tr != 2) continue;
    S.add("DMS::Encode(" + num(a) + ",trailing=" + std::to_string(tr) + ",prec=" + std::to_string(prec) + ")", [=](Out& o) {
      o << DMS::Encode(a, DMS::component(tr), prec, DMS::LATITUDE) << DMS::Encode(a, DMS::component(tr), prec, DMS::LONGITUDE) << DMS::Encode(a, DMS::component(tr), prec, DMS::AZIMUTH, ':'); });
  }
  for (const char* a : {"40:30N 148:15W", "148:15W 40:30N", "40.5 -148.25", "-148.25E 40.5S"}) {
    const std::string as = a;
    S.add("DMS::DecodeLatLon(" + as + ")", [=](Out& o) { double la, lo; std::string s1 = as.substr(0, as.find(' ')), s2 = as.substr(as.find(' ') + 1); DMS::DecodeLatLon(s1, s2, la, lo); o << la << lo; });
  }
  for (const char* g : {"33.3 44.4", "31n 448251 5411932", "31UDQ4825111932", "n 2000000 2000000", "448251 5411932 31s", "40:30N 148:15W", "18TWN0050", "-33.3 544.4"}) {
    const std::string gs = g;
    S.add("GeoCoords(" + gs + ").reps", [=](Out& o) { GeoCoords c(gs); o << c.Latitude() << c.Longitude() << c.Easting() << c.Northing() << c.Zone() << c.Northp() << c.Convergence() << c.Scale()
                                                        << c.GeoRepresentation(3) << c.DMSRepresentation(2, true, ':') << c.MGRSRepresentation(2) << c.UTMUPSRepresentation(1) << c.AltUTMUPSRepresentation(true, 1) << c.AltMGRSRepresentation(0); });
  }
  add_shared_out_mgrs(S);
  return S;
}
static std::vector<Set> tables_C10(bool T) { return {text_set(T)}; }

// ------------------------------------------------------------------------------------------ polar stereographic / LCC / Albers (C11)
static Set proj_set(bool T) {
  Set S; S.name = "ps-lcc-albers";
  std::vector<Ell> es = {W, CL66, E50, P150, SPH};
  static const double F[][2] = {{40, 10}, {-35, -120}, {89, 45}};
  for (const Ell& e0 : es) {
    const Ell e = e0; const std::string en = e.n;
    for (double k0 : {0.994, 1.0}) for (bool np : {true, false}) {
      if (!T && !np && k0 == 1.0) continue;
      S.add("PolarStereographic(" + en + "," + num(k0) + ")@slot.Forward(" + (np ? "north" : "south") + ",70,30)+Reverse(1e6,-2e6)", [=](Out& o) {
        At<PolarStereographic> p(e.a, e.f, k0); double x, y, g, k, la, lo; p->Forward(np, np ? 70 : -70, 30, x, y, g, k); o << x << y << g << k; p->Reverse(np, 1e6, -2e6, la, lo, g, k); o << la << lo << g << k; });
    }
    S.add("PolarStereographic(" + en + ",1)@slot.SetScale(60,1).Forward(north,60,30)", [=](Out& o) { At<PolarStereographic> p(e.a, e.f, 1.0); p->SetScale(60, 1); double x, y, g, k; p->Forward(true, 60, 30, x, y, g, k); o << p->CentralScale() << x << y << g << k; });
    struct LC { const char* n; double l1, l2; };
    for (LC c : {LC{"40,60", 40, 60}, LC{"33,45", 33, 45}, LC{"50,70", 50, 70}, LC{"10,-5", 10, -5}, LC{"30", 30, 30}, LC{"-30,30", -30, 30}}) for (auto& p : F) {
      if (!T && &p == &F[2]) continue;
      const double l1 = c.l1, l2 = c.l2, lat = p[0], lon = p[1];
      S.add("LambertConformalConic(" + en + "," + c.n + ",k1=1)@slot.Forward(0," + num(lat) + "," + num(lon) + ")+Reverse", [=](Out& o) {
        At<LambertConformalConic> q(e.a, e.f, l1, l2, 1.0); double x, y, g, k, la, lo; q->Forward(0, lat, lon, x, y, g, k); o << q->OriginLatitude() << q->CentralScale() << x << y << g << k; q->Reverse(0, 1e5, 2e5, la, lo, g, k); o << la << lo << g << k; });
      S.add("AlbersEqualArea(" + en + "," + c.n + ",k1=1)@slot.Forward(0," + num(lat) + "," + num(lon) + ")+Reverse", [=](Out& o) {
        At<AlbersEqualArea> q(e.a, e.f, l1, l2, 1.0); double x, y, g, k, la, lo; q->Forward(0, lat, lon, x, y, g, k); o << q->OriginLatitude() << q->CentralScale() << x << y << g << k; q->Reverse(0, 1e5, 2e5, la, lo, g, k); o << la << lo << g << k; });
    }
    if (T || &e0 == &es[0] || &e0 == &es[1]) for (LC c : {LC{"75,85", 75, 85}, LC{"-78,-88", -78, -88}})
      S.add("AlbersEqualArea(" + en + "," + c.n + ",k1=1)@slot.Forward(0,80,10)", [=](Out& o) { At<AlbersEqualArea> q(e.a, e.f, c.l1, c.l2, 1.0); double x, y, g, k; q->Forward(0, c.l1 > 0 ? 80 : -80, 10, x, y, g, k); o << q->OriginLatitude() << q->CentralScale() << x << y << g << k; });
  }
  S.add("static:PolarStereographic::UPS().Forward(north,85,10)", [](Out& o) { double x, y, g, k; PolarStereographic::UPS().Forward(true, 85, 10, x, y, g, k); o << x << y << g << k; });
  S.add("static:LambertConformalConic::Mercator().Forward(0,40,10)", [](Out& o) { double x, y, g, k; LambertConformalConic::Mercator().Forward(0, 40, 10, x, y, g, k); o << x << y << g << k; });
  S.add("static:AlbersEqualArea::CylindricalEqualArea().Forward(0,40,10)", [](Out& o) { double x, y, g, k; AlbersEqualArea::CylindricalEqualArea().Forward(0, 40, 10, x, y, g, k); o << x << y << g << k; });
  S.add("static:AlbersEqualArea::AzimuthalEqualAreaNorth().Forward(0,40,10)", [](Out& o) { double x, y, g, k; AlbersEqualArea::AzimuthalEqualAreaNorth().Forward(0, 40, 10, x, y, g, k); o << x << y << g << k; });
  S.add("static:AlbersEqualArea::AzimuthalEqualAreaSouth().Reverse(0,1e5,2e5)", [](Out& o) { double la, lo, g, k; AlbersEqualArea::AzimuthalEqualAreaSouth().Reverse(0, 1e5, 2e5, la, lo, g, k); o << la << lo << g << k; });
  return S;
}
static std::vector<Set> tables_C11(bool T) { return {proj_set(T)}; }

// ------------------------------------------------------------------------------------------ auxiliary latitudes, ellipsoid, elliptic functions (C15)
static Set aux_set(bool T) {
  Set S; S.name = "auxlat-ellipsoid-elliptic";
  std::vector<Ell> es = {W, E150, P150, E10, {"f=-1/10", 6378137, -0.1}, {"b/a=1/20", 6378137, 0.95}};
  for (const Ell& e0 : es) {
    const Ell e = e0; const std::string en = e.n;
    for (int from : {AuxLatitude::PHI, AuxLatitude::MU, AuxLatitude::CHI, AuxLatitude::XI}) for (int to : {AuxLatitude::PHI, AuxLatitude::BETA, AuxLatitude::MU, AuxLatitude::CHI, AuxLatitude::XI}) for (bool exact : {false, true}) {
      if (from == to) continue;
      if (!T && !exact && (from != AuxLatitude::PHI)) continue;
      S.add("AuxLatitude(" + en + ")@slot.Convert(" + std::to_string(from) + "->" + std::to_string(to) + (exact ? ",exact" : ",series") + ";35.2,-67.5,1e-8)", [=](Out& o) {
        At<AuxLatitude> a(e.a, e.f); for (double z : {35.2, -67.5, 1e-8}) o << a->Convert(from, to, z, exact); });
    }
    S.add("Ellipsoid(" + en + ")@slot.measures", [=](Out& o) { At<Ellipsoid> q(e.a, e.f); o << q->QuarterMeridian() << q->Area() << q->Volume() << q->MeridianDistance(35.2) << q->RectifyingLatitude(35.2) << q->InverseRectifyingLatitude(35.2)
      << q->AuthalicLatitude(-67.5) << q->InverseAuthalicLatitude(-67.5) << q->ConformalLatitude(35.2) << q->InverseConformalLatitude(35.2) << q->IsometricLatitude(35.2) << q->InverseIsometricLatitude(35.2)
      << q->CircleRadius(35.2) << q->CircleHeight(35.2) << q->MeridionalCurvatureRadius(35.2) << q->TransverseCurvatureRadius(35.2) << q->NormalCurvatureRadius(35.2, 30); });
  }
  S.add("static:Ellipsoid::WGS84().measures", [](Out& o) { const Ellipsoid& q = Ellipsoid::WGS84(); o << q.QuarterMeridian() << q.Area() << q.MeridianDistance(35.2) << q.AuthalicLatitude(-67.5) << q.InverseRectifyingLatitude(35.2) << q.IsometricLatitude(35.2); });
  static const double KA[][2] = {{0.5, 0}, {0.5, 0.3}, {0.7, 0.3}, {0.7, -2}, {0.7, 0}, {-3, 0.3}, {-3, 0}, {0.3, 0.6}, {0.1, 0.8}, {1 - 1e-12, 0.5}};
  for (auto& p : KA) { const double k2 = p[0], a2 = p[1];
    S.add("EllipticFunction" + tup({k2, a2}) + "@slot.complete+incomplete", [=](Out& o) { At<EllipticFunction> f(k2, a2); o << f->K() << f->E() << f->D() << f->KE() << f->Pi() << f->G() << f->H();
      for (double phi : {0.5, 2.0, -4.0, 3.5}) o << f->F(phi) << f->E(phi) << f->D(phi) << f->Pi(phi) << f->G(phi) << f->H(phi);
      o << f->deltaF(0.6, 0.8, 0.9) << f->deltaE(0.6, 0.8, 0.9) << f->deltaD(0.6, 0.8, 0.9) << f->deltaPi(0.6, 0.8, 0.9) << f->deltaG(0.6, 0.8, 0.9) << f->deltaH(0.6, 0.8, 0.9) << f->Einv(1.3) << f->am(0.7) << f->Ed(200); }); }
  for (double x : {0.0, 0.5, 2.0, 1e-300, 1e300}) S.add("EllipticFunction::RF/RD/RG/RJ/RC(" + num(x) + ",1.5,3)", [=](Out& o) { o << EllipticFunction::RF(x, 1.5, 3) << EllipticFunction::RD(x, 1.5, 3) << EllipticFunction::RG(x, 1.5, 3) << EllipticFunction::RJ(x, 1.5, 3, 0.7) << EllipticFunction::RC(x, 1.5) << EllipticFunction::RF(x, 1.5) << EllipticFunction::RG(x, 1.5); });
  return S;
}
static std::vector<Set> tables_C15(bool T) { return {aux_set(T)}; }

// ------------------------------------------------------------------------------------------ Math primitives (C16)
static Set math_set(bool T) {
  Set S; S.name = "math-primitives";
  static const double ES[] = {0.0818191908426, -0.0818191908426, 0.3, -0.3, 0.9, -1.5, 0};
  static const double TAU[] = {0.5, -0.5, 100, 3e9, 1e10, 1e300, 71};
  for (double es : ES) for (double tau : TAU) {
    if (!T && (tau == -0.5 || tau == 1e300) && std::fabs(es) != 0.3) continue;
    S.add("Math::tauf(" + num(tau) + ",es=" + num(es) + ")", [=](Out& o) { o << Math::tauf(tau, es); });
    S.add("Math::taupf(" + num(tau) + ",es=" + num(es) + ")", [=](Out& o) { o << Math::taupf(tau, es) << Math::eatanhe(tau > 1 ? 1.0 : tau, es); });
  }
  for (double x : {30.0, 45.0, 1e-10, 179.99999999999997, 720.5, -0.0, 1e20, 540.0})
    S.add("Math::angle-functions(" + num(x) + ")", [=](Out& o) { double s, c; Math::sincosd(x, s, c); double e; double d = Math::AngDiff(x, 33.3, e); o << Math::sind(x) << Math::cosd(x) << Math::tand(x) << s << c << Math::AngNormalize(x) << d << e << Math::AngRound(x) << Math::LatFix(x) << Math::atan2d(s, c) << Math::atand(x);
      double s2, c2; Math::sincosde(x, 1e-9, s2, c2); o << s2 << c2; });
  S.add("Math::pi/degree", [](Out& o) { o << Math::pi() << Math::degree() << (double)Math::pi<float>() << (double)Math::pi<long double>() << (double)Math::degree<long double>(); });
  for (double v : {1e16, 3.0, -1e-9}) S.add("Accumulator(" + num(v) + ")+=1,+=-v", [=](Out& o) { Accumulator<> a(v); a += 1; o << a(-v) << a(); a += -v; o << a(); a *= 3; o << a(); });
  S.add("Math::sum(1e16,1)", [](Out& o) { double t; double s = Math::sum(1e16, 1.0, t); o << s << t; });
  return S;
}
static std::vector<Set> tables_C16(bool T) { return {math_set(T)}; }

// ------------------------------------------------------------------------------------------ constructions on geodesics (C17)
static Set constr_set(bool T) {
  Set S; S.name = "geodesic-constructions";
  struct Cfg { Ell e; bool exact; };
  std::vector<Cfg> cfg = {{W, false}, {W, true}, {SPH, false}, {E150, false}, {E150, true}, {E10, true}};
  for (const Cfg& c : cfg) {
    const Ell e = c.e; const bool ex = c.exact; const std::string gn = std::string("Geodesic(") + e.n + (ex ? ",exact" : "") + ")@slot";
    S.add("Gnomonic(" + gn + ").Forward(48,2,50,10)+Reverse", [=](Out& o) { At<Geodesic> g(e.a, e.f, ex); Gnomonic p(*g); double x, y, az, rk, la, lo; p.Forward(48, 2, 50, 10, x, y, az, rk); o << x << y << az << rk; p.Reverse(48, 2, 3e5, -2e5, la, lo, az, rk); o << la << lo << az << rk; });
    S.add("AzimuthalEquidistant(" + gn + ").Forward(48,2,50,10)+Reverse", [=](Out& o) { At<Geodesic> g(e.a, e.f, ex); AzimuthalEquidistant p(*g); double x, y, az, rk, la, lo; p.Forward(48, 2, 50, 10, x, y, az, rk); o << x << y << az << rk; p.Reverse(48, 2, 3e5, -2e5, la, lo, az, rk); o << la << lo << az << rk; });
    S.add("CassiniSoldner(48,2;" + gn + ").Forward(50,10)+Reverse", [=](Out& o) { At<Geodesic> g(e.a, e.f, ex); CassiniSoldner p(48, 2, *g); double x, y, az, rk, la, lo; p.Forward(50, 10, x, y, az, rk); o << x << y << az << rk; p.Reverse(3e5, -2e5, la, lo, az, rk); o << la << lo << az << rk; });
    S.add("CassiniSoldner(-30,100;" + gn + ").Forward(-28,103)", [=](Out& o) { At<Geodesic> g(e.a, e.f, ex); CassiniSoldner p(-30, 100, *g); double x, y, az, rk; p.Forward(-28, 103, x, y, az, rk); o << x << y << az << rk; });
    S.add("Intersect(" + gn + ").Closest+Next+Segment", [=](Out& o) { At<Geodesic> g(e.a, e.f, ex); Intersect in(*g); int c = -9;
      Intersect::Point p = in.Closest(0, 0, 45, 10, 20, -60, Intersect::Point(0, 0), &c); o << p.first << p.second << c;
      Intersect::Point n = in.Next(10, 5, 30, 100, &c); o << n.first << n.second << c; int sm = -9;
      Intersect::Point s = in.Segment(0, 0, 40, 50, 40, 0, 0, 50, sm, &c); o << s.first << s.second << sm << c; });
    if (T || ex) S.add("Intersect(" + gn + ").All(maxdist=2.5e7)", [=](Out& o) { At<Geodesic> g(e.a, e.f, ex); Intersect in(*g); std::vector<int> c;
      std::vector<Intersect::Point> v = in.All(0, 0, 45, 10, 20, -60, 2.5e7, c); o << v.size(); for (auto& p : v) o << p.first << p.second; for (int q : c) o << q; });
  }
  return S;
}
static std::vector<Set> tables_C17(bool T) { return {constr_set(T)}; }

// ------------------------------------------------------------------------------------------ grid codes (C18)
static Set grid_set(bool T) {
  Set S; S.name = "grid-codes";
  static const double LL[][2] = {{57.64911, 10.40744}, {-33.9, 151.2}, {0, 0}, {89.9999, -179.9999}, {52.2, -1.5}};
  for (auto& p : LL) { const double lat = p[0], lon = p[1];
    for (int len : {1, 6, 12, 18}) S.add("Geohash::Forward" + tup({lat, lon}) + "[len=" + std::to_string(len) + "]+Reverse", [=](Out& o) { std::string g; Geohash::Forward(lat, lon, len, g); double la, lo; int l; Geohash::Reverse(g, la, lo, l, true); o << g << la << lo << l; });
    for (int prec : {0, 1, 2}) S.add("GARS::Forward" + tup({lat, lon}) + "[prec=" + std::to_string(prec) + "]+Reverse", [=](Out& o) { std::string g; GARS::Forward(lat, lon, prec, g); double la, lo; int l; GARS::Reverse(g, la, lo, l, false); o << g << la << lo << l; });
    for (int prec : {-1, 0, 2, 11}) S.add("Georef::Forward" + tup({lat, lon}) + "[prec=" + std::to_string(prec) + "]+Reverse", [=](Out& o) { std::string g; Georef::Forward(lat, lon, prec, g); double la, lo; int l; Georef::Reverse(g, la, lo, l, true); o << g << la << lo << l; });
  }
  S.add("OSGB::Forward(52.2,-1.5)", [](Out& o) { double x, y, g, k; OSGB::Forward(52.2, -1.5, x, y, g, k); o << x << y << g << k; });
  S.add("OSGB::Reverse(434000,256000)", [](Out& o) { double la, lo, g, k; OSGB::Reverse(434000, 256000, la, lo, g, k); o << la << lo << g << k; });
  S.add("OSGB::Forward(58.5,-6.2)", [](Out& o) { double x, y; OSGB::Forward(58.5, -6.2, x, y); o << x << y; });
  for (int prec : {0, 2, 5, 11}) S.add("OSGB::GridReference(434123.4,256789.1,prec=" + std::to_string(prec) + ")+GridReference^-1", [=](Out& o) { std::string g; OSGB::GridReference(434123.4, 256789.1, prec, g); double x, y; int p; OSGB::GridReference(g, x, y, p, true); o << g << x << y << p; });
  S.add("OSGB::GridReference^-1(SP 34 56)", [](Out& o) { double x, y; int p; OSGB::GridReference("SP 34 56", x, y, p, false); o << x << y << p; });
  for (int prec : {11, 3, 0, -1}) S.add("shared-out:Georef::Forward(57.64911,10.40744,prec=" + std::to_string(prec) + ")", [=](Out& o) { Georef::Forward(57.64911, 10.40744, prec, gout()); o << gout(); });
  for (int prec : {2, 1, 0}) S.add("shared-out:GARS::Forward(57.64911,10.40744,prec=" + std::to_string(prec) + ")", [=](Out& o) { GARS::Forward(57.64911, 10.40744, prec, gout()); o << gout(); });
  for (int len : {18, 7, 1}) S.add("shared-out:Geohash::Forward(57.64911,10.40744,len=" + std::to_string(len) + ")", [=](Out& o) { Geohash::Forward(57.64911, 10.40744, len, gout()); o << gout(); });
  for (int prec : {11, 4, 0}) S.add("shared-out:OSGB::GridReference(434123.4,256789.1,prec=" + std::to_string(prec) + ")", [=](Out& o) { OSGB::GridReference(434123.4, 256789.1, prec, gout()); o << gout(); });
  S.add("shared-out:Georef::Forward(NaN,10,prec=2)", [](Out& o) { Georef::Forward(NaN, 10, 2, gout()); o << gout(); });
  S.add("OSGB::CentralScale+Origin", [](Out& o) { o << OSGB::CentralScale() << OSGB::OriginLatitude() << OSGB::OriginLongitude() << OSGB::FalseNorthing() << OSGB::FalseEasting() << OSGB::EquatorialRadius() << OSGB::Flattening(); });
  return S;
}
static std::vector<Set> tables_C18(bool T) { return {grid_set(T)}; }

// ------------------------------------------------------------------------------------------ harmonic sums, gravity, magnetic (C19)
struct MShared { MagneticModel* mm; GravityModel* gm; std::string dir; };
static MShared& msh() { static MShared m = {}; return m; }
static void writef(const std::string& p, const std::string& c) { std::ofstream f(p, std::ios::binary); f.write(c.data(), c.size()); }
static std::vector<double> coeffs(int n, double scale, int salt) { std::vector<double> v(n); for (int i = 0; i < n; ++i) v[i] = scale * (1 + 0.37 * ((i * 7 + salt) % 11)) * (((i + salt) % 3) ? 1 : -1) / (1 + i % 5); return v; }
static Set harm_set(bool T) {
  Set S; S.name = "harmonic-gravity-magnetic";
  // the data files are written by the parent (no library call involved) before any child is forked
  const char* vd = getenv("VERIF_DIR");
  std::string dir = std::string(vd ? vd : "/verif") + "/build/tmp"; mkdir(dir.c_str(), 0777); dir += "/interfere-" + std::to_string((long)getpid()); mkdir(dir.c_str(), 0777);
  writef(dir + "/tiny.wmm", tiny::wmm_meta()); writef(dir + "/tiny.wmm.cof", tiny::wmm_cof());
  writef(dir + "/tiny.egm", tiny::egm_meta()); writef(dir + "/tiny.egm.cof", tiny::egm_cof());
  msh().dir = dir;
  S.setup = [] { MShared& m = msh(); m.mm = new MagneticModel("tiny", m.dir); m.gm = new GravityModel("tiny", m.dir); };
  for (int N : {2, 3, 8, 12, 13, 20, 40}) for (int norm : {0, 1}) {
    if (!T && norm == 1 && N != 8 && N != 12) continue;
    S.add("SphericalHarmonic(N=" + std::to_string(N) + (norm ? ",SCHMIDT" : ",FULL") + ").value+gradient+Circle", [=](Out& o) {
      int nc = (N + 1) * (N + 2) / 2, ns = nc - (N + 1); std::vector<double> C = coeffs(nc, 1, N), Sv = coeffs(ns, 0.5, N + 1);
      SphericalHarmonic h(C, Sv, N, 1.0, norm ? SphericalHarmonic::SCHMIDT : SphericalHarmonic::FULL); double gx, gy, gz;
      o << h(0.3, -0.4, 1.1) << h(0.3, -0.4, 1.1, gx, gy, gz) << gx << gy << gz; CircularEngine c = h.Circle(0.5, 1.1, true); o << c(33.0) << c(33.0, gx, gy, gz) << gx << gy << gz;
      CircularEngine c0 = h.Circle(0.5, 1.1, false); o << c0(33.0); });
    if (N <= 13) S.add("SphericalHarmonic1+2(N=" + std::to_string(N) + (norm ? ",SCHMIDT" : ",FULL") + ").value+Circle", [=](Out& o) {
      int nc = (N + 1) * (N + 2) / 2, ns = nc - (N + 1); int N1 = N / 2, nc1 = (N1 + 1) * (N1 + 2) / 2, ns1 = nc1 - (N1 + 1);
      std::vector<double> C = coeffs(nc, 1, N), Sv = coeffs(ns, 0.5, N + 1), C1 = coeffs(nc1, 0.1, N + 2), S1 = coeffs(ns1, 0.05, N + 3), C2 = coeffs(nc1, 0.2, N + 4), S2 = coeffs(ns1, 0.07, N + 5);
      unsigned nm = norm ? SphericalHarmonic1::SCHMIDT : SphericalHarmonic1::FULL;
      SphericalHarmonic1 h1(C, Sv, N, C1, S1, N1, 1.0, nm); SphericalHarmonic2 h2(C, Sv, N, C1, S1, N1, C2, S2, N1, 1.0, nm); double gx, gy, gz;
      o << h1(0.3, 0.3, -0.4, 1.1) << h1(0.3, 0.3, -0.4, 1.1, gx, gy, gz) << gx << gy << gz << h2(0.3, 0.7, 0.3, -0.4, 1.1);
      CircularEngine c1 = h1.Circle(0.3, 0.5, 1.1, false); o << c1(33.0); CircularEngine c1g = h1.Circle(0.3, 0.5, 1.1, true); o << c1g(33.0, gx, gy, gz) << gx << gy << gz;
      CircularEngine c2 = h2.Circle(0.3, 0.7, 0.5, 1.1, false); o << c2(33.0); });
  }
  for (int q = 0; q < 4; ++q) {
    S.add(std::string("NormalGravity[") + (q == 0 ? "WGS84()" : q == 1 ? "GRS80()" : q == 2 ? "a,GM,omega,f=-1/150" : "a,GM,omega,J2=1.5e-3") + "].constants+field", [=](Out& o) {
      NormalGravity own = q == 2 ? NormalGravity(6378137, 3.986004418e14, 7.292115e-5, -1 / 150.0, true) : NormalGravity(6378137, 3.986004418e14, 7.292115e-5, 1.5e-3, false);
      const NormalGravity& g = q == 0 ? NormalGravity::WGS84() : q == 1 ? NormalGravity::GRS80() : own; double gx, gy, gz, gY, gZ;
      o << g.Flattening() << g.DynamicalFormFactor() << g.DynamicalFormFactor(4) << g.EquatorialGravity() << g.PolarGravity() << g.GravityFlattening() << g.SurfacePotential() << g.SurfaceGravity(35)
        << g.U(4e6, 1e6, 5e6, gx, gy, gz) << gx << gy << gz << g.Phi(4e6, 1e6, gx, gy); g.Gravity(35, 1000, gY, gZ); o << gY << gZ; });
  }
  S.add("NormalGravity::J2ToFlattening/FlatteningToJ2", [](Out& o) { for (double J2 : {1.08263e-3, -0.001, 0.1}) o << NormalGravity::J2ToFlattening(6378137, 3.986004418e14, 7.292115e-5, J2); for (double f : {1 / 298.257223563, -0.01}) o << NormalGravity::FlatteningToJ2(6378137, 3.986004418e14, 7.292115e-5, f); });
  // shared model objects: same position at times in different epoch intervals, different positions at the same time
  static const double TM[] = {2022, 2027, 2032, 2020};
  static const double PP[][3] = {{35, 10, 1000}, {-60, 200, 0}};
  for (double t : TM) for (auto& p : PP) {
    if (!T && t == 2020 && &p == &PP[1]) continue;
    const double lat = p[0], lon = p[1], h = p[2];
    S.add("shared:MagneticModel(tiny)(" + num(t) + "," + num(lat) + "," + num(lon) + "," + num(h) + ")+rates", [=](Out& o) { double Bx, By, Bz, Bxt, Byt, Bzt; (*msh().mm)(t, lat, lon, h, Bx, By, Bz, Bxt, Byt, Bzt); o << Bx << By << Bz << Bxt << Byt << Bzt; });
    S.add("shared:MagneticModel(tiny).Circle(" + num(t) + "," + num(lat) + "," + num(h) + ")(" + num(lon) + ")", [=](Out& o) { MagneticCircle c = msh().mm->Circle(t, lat, h); double Bx, By, Bz, Bxt, Byt, Bzt; c(lon, Bx, By, Bz, Bxt, Byt, Bzt); o << Bx << By << Bz << Bxt << Byt << Bzt; });
  }
  S.add("MagneticModel(tiny)@fresh(2027,35,10,1000)", [](Out& o) { MagneticModel m("tiny", msh().dir); double Bx, By, Bz; m(2027, 35, 10, 1000, Bx, By, Bz); o << Bx << By << Bz; });
  for (auto& p : PP) { const double lat = p[0], lon = p[1], h = p[2];
    S.add("shared:GravityModel(tiny).all" + tup({lat, lon, h}), [=](Out& o) { const GravityModel& g = *msh().gm; double gx, gy, gz, dx, dy, dz, Dg01, xi, eta;
      o << g.Gravity(lat, lon, h, gx, gy, gz) << gx << gy << gz << g.Disturbance(lat, lon, h, dx, dy, dz) << dx << dy << dz << g.GeoidHeight(lat, lon); g.SphericalAnomaly(lat, lon, h, Dg01, xi, eta); o << Dg01 << xi << eta; });
    for (unsigned caps : {unsigned(GravityModel::ALL), unsigned(GravityModel::DISTURBING_POTENTIAL), unsigned(GravityModel::GEOID_HEIGHT), unsigned(GravityModel::GRAVITY)}) {
      S.add("shared:GravityModel(tiny).Circle(" + num(lat) + "," + num(h) + ",caps=" + std::to_string(caps) + ")(" + num(lon) + ")", [=](Out& o) { GravityCircle c = msh().gm->Circle(lat, caps & GravityModel::GEOID_HEIGHT && !(caps & GravityModel::GRAVITY) ? 0 : h, caps); double gx = NaN, gy = NaN, gz = NaN;
        if (c.Capabilities(GravityModel::GRAVITY)) { o << c.Gravity(lon, gx, gy, gz) << gx << gy << gz; }
        if (c.Capabilities(GravityModel::DISTURBING_POTENTIAL)) o << c.T(lon);
        if (c.Capabilities(GravityModel::GEOID_HEIGHT)) o << c.GeoidHeight(lon); });
    }
  }
  return S;
}
static std::vector<Set> tables_C19(bool T) { return {harm_set(T)}; }

}  // namespace ift
