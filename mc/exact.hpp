// mc/exact.hpp -- exact "containing cell" arithmetic used by the grid-code and MGRS references.
// Everything here is decided by exact comparisons in __float128 (113-bit significand): a product of a
// double (53 bits) and an integer below 2^59 is exact, and is compared against exact integers.
#pragma once
#include <quadmath.h>
#include <cmath>
#include <cstdint>

namespace mc {

typedef __float128 f128;

// floor((x*N + B) / span) for double x, integers 0 < N < 2^59, 0 < span < 2^20, |B| < 2^62, decided exactly.
inline long long floor_div_exact(double x, long long N, long long B, long long span) {
  f128 A = (f128)x * (f128)N;                 // exact
  long long kb = B / span, rb = B % span;     // B = kb*span + rb
  if (rb < 0) { rb += span; --kb; }           // 0 <= rb < span
  // want floor((A + rb)/span): candidate then exact correction with predicate  A >= q*span - rb
  f128 qf = floorq((A + (f128)rb) / (f128)span);
  long long q = (long long)qf;
  auto ge = [&](long long qq) { return A >= (f128)qq * (f128)span - (f128)rb; };   // exact: rhs is an integer < 2^100
  while (!ge(q)) --q;
  while (ge(q + 1)) ++q;
  return kb + q;
}

// longitude reduced to [-180, 180) exactly (IEEE remainder is exact)
inline double lon_norm(double lon) {
  double r = std::remainder(lon, 360.0);
  if (r == 180) r = -180;
  return r;
}

// index of the cell containing x among N equal cells covering [origin, origin+span) -- exact
inline long long cell_index(double x, long long N, long long origin, long long span) {
  return floor_div_exact(x, N, -origin * N, span);
}

}  // namespace mc
