// mc/ctx.hpp -- common run-time of every harness: sharding, unit/case accounting, edge
// signatures, violation recording with known-finding classification, replay selection,
// deadline handling and the JSON result consumed by bin/check.
//
// Include from exactly one translation unit per harness.
#pragma once
#include <cstdint>
#include <cstdio>
#include <cstdlib>
#include <cstring>
#include <cmath>
#include <string>
#include <vector>
#include <map>
#include <set>
#include <unordered_set>
#include <chrono>
#include <utility>
#include <sstream>
#include <limits>
#include <signal.h>

namespace mc {

// ---------------------------------------------------------------- edge signatures
struct Cov {
  static constexpr unsigned BITS = 16, N = 1u << BITS;
  unsigned char cur[N];           // edges seen in the current case
  unsigned char all[N];           // edges seen in the whole run
  unsigned touched[N]; unsigned ntouched;
  uint64_t sig; bool on;
  uint64_t edges_all;
};
inline Cov& cov() { static Cov c; return c; }
inline uint64_t mix64(uint64_t x) {
  x ^= x >> 33; x *= 0xff51afd7ed558ccdULL; x ^= x >> 33; x *= 0xc4ceb9fe1a85ec53ULL; x ^= x >> 33; return x;
}
inline void cov_hit(uint64_t pc) {
  Cov& c = cov();
  if (!c.on) return;
  uint64_t h = mix64(pc);
  unsigned i = unsigned(h) & (Cov::N - 1);
  if (c.cur[i]) return;
  c.cur[i] = 1; c.touched[c.ntouched++] = i; c.sig += h | 1;   // order-independent
  if (!c.all[i]) { c.all[i] = 1; ++c.edges_all; }
}
}  // namespace mc

// the harness is position independent: hash the pc relative to the load address so that signatures are the same
// in every shard process (ASLR)
extern "C" char __executable_start;
extern "C" __attribute__((no_sanitize("address", "undefined", "thread")))
void __sanitizer_cov_trace_pc() { mc::cov_hit((uint64_t)__builtin_return_address(0) - (uint64_t)&__executable_start); }

namespace mc {

inline std::string jesc(const std::string& s) {
  std::string o; o.reserve(s.size() + 2);
  for (unsigned char ch : s) {
    switch (ch) {
    case '"': o += "\\\""; break;
    case '\\': o += "\\\\"; break;
    case '\n': o += "\\n"; break;
    case '\r': o += "\\r"; break;
    case '\t': o += "\\t"; break;
    default:
      if (ch < 0x20 || ch >= 0x7f) { char b[8]; snprintf(b, sizeof b, "\\u%04x", ch); o += b; }
      else o += char(ch);
    }
  }
  return o;
}
inline std::string fmt(double x) { char b[64]; snprintf(b, sizeof b, "%.17g", x); return b; }
inline std::string fmtl(long double x) { char b[80]; snprintf(b, sizeof b, "%.21Lg", x); return b; }
inline std::string hexf(double x) { char b[64]; snprintf(b, sizeof b, "%a", x); return b; }
inline std::string fmti(long long x) { return std::to_string(x); }
// value shown both ways so that a replay can be typed in exactly
inline std::string fx(double x) { return fmt(x) + "(" + hexf(x) + ")"; }
inline uint64_t bits(double x) { uint64_t u; memcpy(&u, &x, 8); return u; }
inline uint32_t bitsf(float x) { uint32_t u; memcpy(&u, &x, 4); return u; }
inline bool same_bits(double a, double b) { return bits(a) == bits(b); }

typedef std::vector<std::pair<std::string, std::string>> Fields;

struct Ctx {
  std::string tier = "quick", out, replay_sub, cur_sub;
  long long replay_unit = -1;
  int shard = 0, nshards = 1, seed = 0;
  double deadline_s = 300; bool deadline_hit = false;
  std::chrono::steady_clock::time_point t0;
  uint64_t unit = 0; bool sub_active = true;
  bool exhaustive = true;
  struct Known { int idx; std::string sub; Fields match; };
  std::vector<Known> known;
  struct KnownHit { uint64_t count = 0; std::string sample; };
  std::map<int, KnownHit> known_hits;
  struct Viol { std::string sub, key, msg; uint64_t unit; Fields fields; };
  std::vector<Viol> viols;
  std::map<std::string, uint64_t> counters;
  struct Mx { double value; std::string where; };
  std::map<std::string, Mx> maxes;
  std::unordered_set<uint64_t> sigs;
  std::vector<std::string> samples, notes;
  std::map<std::string, std::string> bounds;
  std::map<std::string, std::vector<std::string>> lists;
  struct SubStat { uint64_t units = 0, cases = 0, fails = 0, samples = 0; };
  std::map<std::string, SubStat> subs;
  SubStat* ss = nullptr;
  uint64_t viol_total = 0;
  uint64_t extra_sig = 0;

  Ctx(int argc, char** argv) {
    // a harness that feeds a child process through a pipe must get EPIPE, not die, when the child exits first
    // (seen once as a shard killed by SIGPIPE on a heavily loaded machine)
    ::signal(SIGPIPE, SIG_IGN);
    t0 = std::chrono::steady_clock::now();
    std::string knownfile;
    for (int i = 1; i < argc; ++i) {
      std::string a = argv[i];
      auto next = [&]() -> std::string { if (i + 1 >= argc) { fprintf(stderr, "missing value for %s\n", a.c_str()); exit(2); } return argv[++i]; };
      if (a == "--tier") tier = next();
      else if (a == "--seed") seed = atoi(next().c_str());
      else if (a == "--shard") { std::string s = next(); sscanf(s.c_str(), "%d/%d", &shard, &nshards); }
      else if (a == "--out") out = next();
      else if (a == "--known") knownfile = next();
      else if (a == "--deadline") deadline_s = atof(next().c_str());
      else if (a == "--replay-sub") replay_sub = next();
      else if (a == "--replay-unit") replay_unit = atoll(next().c_str());
      else { fprintf(stderr, "unknown argument %s\n", a.c_str()); exit(2); }
    }
    if (!knownfile.empty()) load_known(knownfile);
    memset(&cov(), 0, sizeof(Cov));
  }
  bool thorough() const { return tier == "thorough"; }
  bool replaying() const { return replay_unit >= 0; }
  double elapsed() const { return std::chrono::duration<double>(std::chrono::steady_clock::now() - t0).count(); }

  void load_known(const std::string& f) {
    FILE* fp = fopen(f.c_str(), "r"); if (!fp) return;
    char* line = nullptr; size_t cap = 0; ssize_t n;
    while ((n = getline(&line, &cap, fp)) > 0) {
      std::string s(line, n); while (!s.empty() && (s.back() == '\n' || s.back() == '\r')) s.pop_back();
      if (s.empty()) continue;
      std::vector<std::string> parts; size_t p = 0;
      while (true) { size_t q = s.find('\t', p); parts.push_back(s.substr(p, q == std::string::npos ? q : q - p)); if (q == std::string::npos) break; p = q + 1; }
      if (parts.size() < 2) continue;
      Known k; k.idx = atoi(parts[0].c_str()); k.sub = parts[1];
      for (size_t i = 2; i < parts.size(); ++i) { size_t e = parts[i].find('='); if (e != std::string::npos) k.match.push_back({parts[i].substr(0, e), parts[i].substr(e + 1)}); }
      known.push_back(k);
    }
    free(line); fclose(fp);
  }

  // ---- enumeration structure
  void sub(const std::string& name) {
    cur_sub = name; unit = 0; ss = &subs[name];
    sub_active = replay_sub.empty() || replay_sub == name;
  }
  // one unit of work.  Units are numbered in enumeration order inside a subcheck; unit u is executed by
  // shard u % nshards; on replay only the requested unit runs.  After the deadline every unit is skipped
  // and the run is marked non-exhaustive.
  bool take() {
    uint64_t u = unit++;
    if (!sub_active) return false;
    if (replaying()) { if ((long long)u != replay_unit) return false; ++ss->units; cur_unit = u; return true; }
    if (u % (uint64_t)nshards != (uint64_t)shard) return false;
    if (deadline_hit) return false;
    if ((ss->units & 63) == 0 && elapsed() > deadline_s * 0.85) {
      deadline_hit = true; exhaustive = false;
      note("deadline reached in subcheck " + cur_sub + " at unit " + std::to_string(u) + "; later units skipped");
      return false;
    }
    ++ss->units; cur_unit = u;
    return true;
  }
  uint64_t cur_unit = 0;

  // ---- cases and signatures
  void begin_case() { Cov& c = cov(); c.sig = 0; c.ntouched = 0; c.on = true; extra_sig = 0; }
  void sig(uint64_t h) { extra_sig += mix64(h) | 1; }           // harness-defined outcome feature
  void end_case() {
    Cov& c = cov(); c.on = false;
    for (unsigned i = 0; i < c.ntouched; ++i) c.cur[c.touched[i]] = 0;
    uint64_t s = mix64(c.sig + 0x9e3779b97f4a7c15ULL * extra_sig + std::hash<std::string>()(cur_sub));
    if (sigs.size() < 400000) sigs.insert(s);
    ++ss->cases; ++counters["cases"];
  }
  struct Case { Ctx& c; Case(Ctx& c_) : c(c_) { c.begin_case(); } ~Case() { c.end_case(); } };

  void count(const std::string& name, uint64_t n = 1) { counters[name] += n; }
  void worst(const std::string& name, double v, const std::string& where) {
    if (!(v == v)) return;
    auto it = maxes.find(name);
    if (it == maxes.end()) maxes[name] = {v, where};
    else if (v > it->second.value) it->second = {v, where};
  }
  template <class F> void worstf(const std::string& name, double v, F where) {
    if (!(v == v)) return;
    auto it = maxes.find(name);
    if (it == maxes.end() || v > it->second.value) maxes[name] = {v, where()};
  }
  void sample(const std::string& text) { if (ss->samples < 2 && shard == (seed % nshards)) { samples.push_back(cur_sub + ": " + text); ++ss->samples; } }
  bool want_sample() const { return ss->samples < 2 && shard == (seed % nshards); }
  void note(const std::string& s) { for (auto& n : notes) if (n == s) return; notes.push_back(s); }
  void bound(const std::string& k, const std::string& v) { bounds[k] = v; }
  void bound(const std::string& k, long long v) { bounds[k] = std::to_string(v); }
  void list(const std::string& k, const std::string& v) { auto& l = lists[k]; if (l.size() < 100) { for (auto& x : l) if (x == v) return; l.push_back(v); } }
  void not_exhaustive(const std::string& why) { exhaustive = false; note(why); }

  // ---- violations
  void fail(const std::string& key, const std::string& msg, const Fields& fields = {}) {
    ++ss->fails;
    if (!replaying()) for (auto& k : known) {
      if (k.sub != "*" && k.sub != cur_sub) continue;
      bool ok = true;
      for (auto& m : k.match) { bool f = false; for (auto& fv : fields) if (fv.first == m.first && fv.second == m.second) { f = true; break; } if (!f) { ok = false; break; } }
      if (ok) { auto& h = known_hits[k.idx]; if (!h.count) h.sample = key; ++h.count; return; }
    }
    ++viol_total;
    std::string kind; for (auto& fv : fields) if (fv.first == "kind") kind = fv.second;
    uint64_t& n = counters["fail:" + cur_sub + "/" + kind];
    if ((++n <= 4 && viols.size() < 200) || (replaying() && viols.size() < 100000)) viols.push_back({cur_sub, key, msg, cur_unit, fields});
  }

  int finish() {
    counters["edges_hit"] += cov().edges_all;
    std::string o = "{\n";
    auto kvs = [&](const std::map<std::string, uint64_t>& m) { std::string s = "{"; bool f = true; for (auto& kv : m) { if (!f) s += ","; f = false; s += "\"" + jesc(kv.first) + "\":" + std::to_string(kv.second); } return s + "}"; };
    o += "\"counters\":" + kvs(counters) + ",\n";
    o += "\"maxes\":{"; { bool f = true; for (auto& kv : maxes) { if (!f) o += ","; f = false; o += "\"" + jesc(kv.first) + "\":{\"value\":" + (std::isfinite(kv.second.value) ? fmt(kv.second.value) : std::string("1e999")) + ",\"where\":\"" + jesc(kv.second.where) + "\"}"; } } o += "},\n";
    o += "\"sigs\":["; { bool f = true; for (auto s : sigs) { if (!f) o += ","; f = false; o += std::to_string(s >> 11); } } o += "],\n";
    auto strs = [&](const std::vector<std::string>& v) { std::string s = "["; bool f = true; for (auto& x : v) { if (!f) s += ","; f = false; s += "\"" + jesc(x) + "\""; } return s + "]"; };
    o += "\"samples\":" + strs(samples) + ",\n\"notes\":" + strs(notes) + ",\n";
    o += "\"bounds\":{"; { bool f = true; for (auto& kv : bounds) { if (!f) o += ","; f = false; o += "\"" + jesc(kv.first) + "\":\"" + jesc(kv.second) + "\""; } } o += "},\n";
    o += "\"lists\":{"; { bool f = true; for (auto& kv : lists) { if (!f) o += ","; f = false; o += "\"" + jesc(kv.first) + "\":" + strs(kv.second); } } o += "},\n";
    o += "\"subs\":{"; { bool f = true; for (auto& kv : subs) { if (!f) o += ","; f = false; o += "\"" + jesc(kv.first) + "\":{\"units\":" + std::to_string(kv.second.units) + ",\"cases\":" + std::to_string(kv.second.cases) + ",\"fails\":" + std::to_string(kv.second.fails) + "}"; } } o += "},\n";
    o += "\"known_hits\":{"; { bool f = true; for (auto& kv : known_hits) { if (!f) o += ","; f = false; o += "\"" + std::to_string(kv.first) + "\":{\"count\":" + std::to_string(kv.second.count) + ",\"sample\":\"" + jesc(kv.second.sample) + "\"}"; } } o += "},\n";
    o += "\"violations\":["; { bool f = true; for (auto& v : viols) { if (!f) o += ","; f = false;
        o += "{\"sub\":\"" + jesc(v.sub) + "\",\"unit\":" + std::to_string(v.unit) + ",\"key\":\"" + jesc(v.key) + "\",\"msg\":\"" + jesc(v.msg) + "\",\"fields\":{";
        bool g = true; for (auto& fv : v.fields) { if (!g) o += ","; g = false; o += "\"" + jesc(fv.first) + "\":\"" + jesc(fv.second) + "\""; }
        o += "}}"; } } o += "],\n";
    o += "\"violations_total\":" + std::to_string(viol_total) + ",\n";
    o += std::string("\"exhaustive\":") + (exhaustive ? "true" : "false") + ",\n";
    o += "\"wall_s\":" + fmt(elapsed()) + "\n}\n";
    if (out.empty()) { fputs(o.c_str(), stdout); }
    else { FILE* fp = fopen(out.c_str(), "w"); if (!fp) { perror("out"); return 2; } fputs(o.c_str(), fp); fclose(fp); }
    return 0;
  }
};

// ---------------------------------------------------------------- crash containment
// A library call that dies with SIGSEGV/SIGBUS/SIGFPE/SIGABRT is turned into an outcome (it is data for the
// check, not a harness failure).  Use:  if (mc::crashed([&]{ ...call... })) ...
}  // namespace mc
#include <csetjmp>
#include <csignal>
namespace mc {
inline sigjmp_buf& crash_jmp() { static sigjmp_buf b; return b; }
inline volatile sig_atomic_t& crash_armed() { static volatile sig_atomic_t a = 0; return a; }
inline volatile sig_atomic_t& crash_sig() { static volatile sig_atomic_t a = 0; return a; }
inline void crash_handler(int sig) {
  if (crash_armed()) { crash_armed() = 0; crash_sig() = sig; siglongjmp(crash_jmp(), 1); }
  signal(sig, SIG_DFL); raise(sig);
}
inline void crash_install() {
  static bool done = false; if (done) return; done = true;
  static char altstack[1 << 16];
  stack_t ss; ss.ss_sp = altstack; ss.ss_size = sizeof altstack; ss.ss_flags = 0; sigaltstack(&ss, nullptr);
  struct sigaction sa; memset(&sa, 0, sizeof sa); sa.sa_handler = crash_handler; sa.sa_flags = SA_NODEFER | SA_ONSTACK;
  sigemptyset(&sa.sa_mask);
  for (int s : {SIGSEGV, SIGBUS, SIGFPE, SIGABRT, SIGILL}) sigaction(s, &sa, nullptr);
}
// returns 0 if f ran to completion (or threw: exceptions pass through), else the signal number
template <class F> inline int crashed(F f) {
  crash_install();
  if (sigsetjmp(crash_jmp(), 1)) return crash_sig();
  crash_armed() = 1;
  try { f(); } catch (...) { crash_armed() = 0; throw; }
  crash_armed() = 0;
  return 0;
}

// ulp distance helpers
inline double ulp_of(double x) { x = std::fabs(x); if (!std::isfinite(x)) return NAN; double n = std::nextafter(x, INFINITY); return n - x; }
inline double err_ulps(double got, long double ref) {
  if (std::isnan(got) && std::isnan((double)ref)) return 0;
  if (std::isnan(got) != std::isnan((double)ref)) return INFINITY;
  if (std::isinf(got) || std::isinf((double)ref)) return (got == (double)ref) ? 0 : INFINITY;
  double r = (double)ref; double u = ulp_of(r == 0 ? std::numeric_limits<double>::min() : r);
  return (double)(fabsl((long double)got - ref) / u);
}

}  // namespace mc
