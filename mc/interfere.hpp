// mc/interfere.hpp -- engine E2x: exhaustive exploration of CALL HISTORIES OF THE PROCESS.
//
// The library's solver/projection objects are documented as immutable after construction and its functions as pure:
// the value a call returns may depend on its object and arguments only.  A memo keyed too coarsely, a function-local
// static, a lazily built table, a thread_local scratch value, a cache keyed on an object's address ... all break
// that, and none of them is visible to a check that judges calls one at a time in a fixed order.
//
// Space explored: an ALPHABET of calls (table, per property) built so that keys collide -- the same arguments on
// different ellipsoids / variants, different arguments on the same object, objects constructed at the SAME ADDRESS
// (placement new into one static slot), calls on SHARED objects created by the set's setup().  For every sequence of
// length 2 (quick) and 3 (thorough) over the alphabet -- all ordered pairs / triples, repetitions included -- the
// sequence is executed in a FRESH PROCESS (fork: no state survives from other sequences) and every output of its last
// call(s) is compared BITWISE with the output of the same call executed alone in a fresh process (after the same
// setup()).  Oracle: differential, no tolerance.  On a correct library a difference is impossible (same binary, same
// inputs, deterministic arithmetic), so the check cannot raise a false alarm; a difference is a history dependence.
#pragma once
#include "mc/ctx.hpp"
#include <functional>
#include <new>
#include <unistd.h>
#include <sys/wait.h>
#include <signal.h>
#include <exception>

namespace ifr {

struct Out {
  std::vector<double> d; std::string s;
  Out& operator<<(double x) { d.push_back(x); return *this; }
  Out& operator<<(const std::string& t) { s += t; s += '\x1f'; return *this; }
  bool same(const Out& o) const {
    if (s != o.s || d.size() != o.d.size()) return false;
    for (size_t i = 0; i < d.size(); ++i) if (!mc::same_bits(d[i], o.d[i])) return false;
    return true;
  }
  std::string show() const {
    std::string r = "[";
    for (size_t i = 0; i < d.size(); ++i) { if (i) r += ", "; r += mc::fmt(d[i]); }
    if (!s.empty()) { std::string t = s; for (char& c : t) if (c == '\x1f') c = '|'; r += (d.empty() ? "" : "; ") + t; }
    return r + "]";
  }
  std::string diff(const Out& o) const {      // first differing slot
    if (s != o.s) return "string outputs differ";
    for (size_t i = 0; i < d.size() && i < o.d.size(); ++i)
      if (!mc::same_bits(d[i], o.d[i])) return "output #" + std::to_string(i) + " " + mc::fx(d[i]) + " vs alone " + mc::fx(o.d[i]);
    return "different number of outputs";
  }
};

struct Call { std::string name; std::function<void(Out&)> fn; };
struct Set {
  std::string name;
  std::function<void()> setup;        // runs first in every child: creates the shared objects of the set
  std::vector<Call> calls;
  void add(const std::string& n, std::function<void(Out&)> f) { calls.push_back({n, std::move(f)}); }
};

// one static slot: every temporary object of every call is constructed here, so `this` collides between calls
inline void* slot() { alignas(64) static unsigned char buf[1 << 16]; return buf; }
template <class T> struct At {
  T* p;
  template <class... A> explicit At(A&&... a) { p = new (slot()) T(std::forward<A>(a)...); }
  ~At() { p->~T(); }
  At(const At&) = delete;
  T* operator->() const { return p; }
  T& operator*() const { return *p; }
};

struct Result { std::vector<Out> outs; int status = 0; bool ok = false; };   // status: 0 fine, >0 signal, -1 protocol

inline void wr(int fd, const void* p, size_t n) { const char* c = (const char*)p; while (n) { ssize_t k = write(fd, c, n); if (k <= 0) _exit(3); c += k; n -= k; } }
inline bool rd(int fd, void* p, size_t n) { char* c = (char*)p; while (n) { ssize_t k = read(fd, c, n); if (k <= 0) return false; c += k; n -= k; } return true; }

inline Result run_seq(const Set& S, const std::vector<int>& seq) {
  Result R;
  int fds[2];
  if (pipe(fds) != 0) { perror("pipe"); exit(2); }
  pid_t pid = fork();
  if (pid < 0) { perror("fork"); exit(2); }
  if (pid == 0) {
    close(fds[0]);
    alarm(60);
    if (S.setup) S.setup();
    for (int i : seq) {
      Out o;
      try { S.calls[i].fn(o); }
      catch (const std::exception& e) { o << std::string("EXC:") + e.what(); }
      catch (...) { o << std::string("EXC:unknown"); }
      uint32_t nd = o.d.size(), ns = o.s.size();
      wr(fds[1], &nd, 4); if (nd) wr(fds[1], o.d.data(), 8 * (size_t)nd);
      wr(fds[1], &ns, 4); if (ns) wr(fds[1], o.s.data(), ns);
    }
    close(fds[1]);
    _exit(0);
  }
  close(fds[1]);
  for (size_t k = 0; k < seq.size(); ++k) {
    Out o; uint32_t nd, ns;
    if (!rd(fds[0], &nd, 4)) break;
    o.d.resize(nd); if (nd && !rd(fds[0], o.d.data(), 8 * (size_t)nd)) break;
    if (!rd(fds[0], &ns, 4)) break;
    o.s.resize(ns); if (ns && !rd(fds[0], &o.s[0], ns)) break;
    R.outs.push_back(std::move(o));
  }
  close(fds[0]);
  int st = 0; waitpid(pid, &st, 0);
  if (WIFSIGNALED(st)) R.status = WTERMSIG(st);
  else if (!WIFEXITED(st) || WEXITSTATUS(st) != 0) R.status = -1;
  R.ok = R.status == 0 && R.outs.size() == seq.size();
  return R;
}

inline uint64_t hash_outs(const std::vector<Out>& outs) {
  uint64_t h = 1469598103934665603ULL;
  for (auto& o : outs) { for (double x : o.d) h = mc::mix64(h ^ mc::bits(x)); for (unsigned char c : o.s) h = mc::mix64(h ^ c); h = mc::mix64(h + 77); }
  return h;
}

inline std::string seqname(const Set& S, const std::vector<int>& seq) {
  std::string r;
  for (size_t k = 0; k < seq.size(); ++k) { if (k) r += " ; "; r += S.calls[seq[k]].name; }
  return r;
}

// explore one set: unit = first call of the sequence
inline void explore(mc::Ctx& ctx, const Set& S, int depth) {
  const int N = (int)S.calls.size();
  ctx.sub("interfere-" + S.name);
  ctx.bound("interfere-" + S.name + ".alphabet", std::to_string(N) + " calls: " + [&] { std::string r; for (int i = 0; i < N && i < 400; ++i) { if (i) r += " | "; r += S.calls[i].name; } return r; }());
  ctx.bound("interfere-" + S.name + ".depth", "every sequence of " + std::to_string(depth) + " calls over the alphabet (" + std::to_string(depth == 2 ? (long long)N * N : (long long)N * N * N) +
            " sequences, repetitions included), each in a fresh process; outputs of every call compared bitwise with the same call alone in a fresh process");
  std::vector<Out> solo; std::vector<int> solo_status; bool have = false;
  auto ensure_solo = [&] {
    if (have) return; have = true;
    solo.resize(N); solo_status.assign(N, 0);
    for (int i = 0; i < N; ++i) {
      Result r = run_seq(S, {i});
      solo_status[i] = r.ok ? 0 : (r.status ? r.status : -1);
      if (r.ok) solo[i] = r.outs[0];
    }
  };
  auto judge = [&](const std::vector<int>& seq, const Result& r) {
    const std::string sn = seqname(S, seq);
    for (size_t k = 0; k < seq.size(); ++k) {
      const int c = seq[k];
      if (k >= r.outs.size()) {
        if (solo_status[c] == 0) {
          // only a failure if every call of the sequence is fine alone (else the crash is that call's own, reported below)
          bool all_ok = true; for (int q : seq) all_ok = all_ok && solo_status[q] == 0;
          if (all_ok) ctx.fail(S.name + "|" + sn + "|crash", "sequence [" + sn + "] in a fresh process died (status " + std::to_string(r.status) + ") at call #" + std::to_string(k + 1) +
                               " although every call returns when executed alone", {{"kind", "history-dependent-crash"}, {"set", S.name}, {"call", S.calls[c].name}});
        }
        break;
      }
      if (solo_status[c] != 0) continue;
      if (!r.outs[k].same(solo[c])) {
        std::string before; for (size_t q = 0; q < k; ++q) { if (q) before += " ; "; before += S.calls[seq[q]].name; }
        ctx.fail(S.name + "|" + sn + "|" + std::to_string(k),
                 "in a fresh process, after [" + before + "] the call " + S.calls[c].name + " returns " + r.outs[k].show() + " but alone it returns " + solo[c].show() + " (" + r.outs[k].diff(solo[c]) + ")",
                 {{"kind", k == 0 ? "first-call-not-reproducible" : "history-dependent-output"}, {"set", S.name}, {"call", S.calls[c].name}, {"after", before}});
        break;     // later calls of a polluted history are not judged
      }
    }
  };
  uint64_t nseq = 0, nforks = 0; std::set<uint64_t> outcomes;
  for (int i = 0; i < N; ++i) {
    if (!ctx.take()) continue;
    ensure_solo();
    if (solo_status[i] != 0)
      ctx.fail(S.name + "|" + S.calls[i].name + "|solo", "call " + S.calls[i].name + " alone in a fresh process died (status " + std::to_string(solo_status[i]) + ")",
               {{"kind", "solo-crash"}, {"set", S.name}, {"call", S.calls[i].name}});
    for (int j = 0; j < N; ++j) {
      if (depth == 2) {
        mc::Ctx::Case cs(ctx);
        Result r = run_seq(S, {i, j}); ++nseq; ++nforks;
        uint64_t h = hash_outs(r.outs);
        ctx.sig(h); outcomes.insert(h);
        judge({i, j}, r);
      } else {
        for (int k = 0; k < N; ++k) {
          mc::Ctx::Case cs(ctx);
          Result r = run_seq(S, {i, j, k}); ++nseq; ++nforks;
          uint64_t h = hash_outs(r.outs);
          ctx.sig(h); outcomes.insert(h);
          judge({i, j, k}, r);
        }
      }
    }
  }
  ctx.count("states", outcomes.size());      // distinct observable outcomes (output vectors of a whole sequence)
  ctx.count("transitions", nseq * depth);    // calls executed inside sequences
  ctx.count("traces", nseq);                 // sequences executed on the real code, each in its own process
  ctx.count("sequences", nseq);
  ctx.count("forks", nforks + (have ? N : 0));
}

inline int run(int argc, char** argv, std::vector<Set> (*tables)(bool thorough)) {
  mc::Ctx ctx(argc, argv);
  const bool T = ctx.thorough();
  std::vector<Set> sets = tables(T);
  for (const Set& S : sets) explore(ctx, S, T ? 3 : 2);
  ctx.note("engine E2x (mc/interfere.hpp): every call sequence runs in its own forked process; the parent never calls the library, so a child starts from the pristine process state");
  return ctx.finish();
}

}  // namespace ifr
