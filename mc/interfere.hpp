// mc/interfere.hpp -- engine E2x: exhaustive exploration of CALL HISTORIES OF THE PROCESS.
//
// The library's solver/projection objects are documented as immutable after construction and its functions as pure:
// the value a call returns may depend on its object and arguments only.  A memo keyed too coarsely, a function-local
// static, a lazily built table, a thread_local scratch value, a cache keyed on an object's address ... all break
// that, and none of them is visible to a check that judges calls one at a time in a fixed order.
//
// Space explored: an ALPHABET of calls (table, per property) built so that keys collide -- the same arguments on
// different ellipsoids / variants, different arguments on the same object, objects constructed at the SAME ADDRESS
// (placement new into one static slot), calls on SHARED objects created by the set's setup().  For every sequence of
// length 2 (quick) and 3 (thorough) over the alphabet -- all ordered pairs / triples, repetitions included -- the
// sequence is executed in a FRESH PROCESS (fork: no state survives from other sequences) and every output of its last
// call(s) is compared BITWISE with the output of the same call executed alone in a fresh process (after the same
// setup()).  Oracle: differential, no tolerance.  On a correct library a difference is impossible (same binary, same
// inputs, deterministic arithmetic), so the check cannot raise a false alarm; a difference is a history dependence.
#pragma once
#include "mc/ctx.hpp"
#include <functional>
#include <new>
#include <unistd.h>
#include <sys/wait.h>
#include <signal.h>
#include <exception>

namespace ifr {

struct Out {
  std::vector<double> d; std::string s;
  Out& operator<<(double x) { d.push_back(x); return *this; }
  Out& operator<<(const std::string& t) { s += t; s += '\x1f'; return *this; }
  bool same(const Out& o) const {
    if (s != o.s || d.size() != o.d.size()) return false;
    for (size_t i = 0; i < d.size(); ++i) if (!mc::same_bits(d[i], o.d[i])) return false;
    return true;
  }
  std::string show() const {
    std::string r = "[";
    for (size_t i = 0; i < d.size(); ++i) { if (i) r += ", "; r += mc::fmt(d[i]); }
    if (!s.empty()) { std::string t = s; for (char& c : t) if (c == '\x1f') c = '|'; r += (d.empty() ? "" : "; ") + t; }
    return r + "]";
  }
  std::string diff(const Out& o) const {      // first differing slot
    if (s != o.s) return "string outputs differ";
    for (size_t i = 0; i < d.size() && i < o.d.size(); ++i)
      if (!mc::same_bits(d[i], o.d[i])) return "output #" + std::to_string(i) + " " + mc::fx(d[i]) + " vs alone " + mc::fx(o.d[i]);
    return "different number of outputs";
  }
};

struct Call { std::string name; std::function<void(Out&)> fn; };
struct Set {
  std::string name;
  std::function<void()> setup;        // runs first in every child: creates the shared objects of the set
  std::vector<Call> calls;
  void add(const std::string& n, std::function<void(Out&)> f) { calls.push_back({n, std::move(f)}); }
};

// one static slot: every temporary object of every call is constructed here, so `this` collides between calls
inline void* slot() { alignas(64) static unsigned char buf[1 << 16]; return buf; }
template <class T> struct At {
  T* p;
  template <class... A> explicit At(A&&... a) { p = new (slot()) T(std::forward<A>(a)...); }
  ~At() { p->~T(); }
  At(const At&) = delete;
  T* operator->() const { return p; }
  T& operator*() const { return *p; }
};

struct Result { std::vector<Out> outs; int status = 0; bool ok = false; };   // status: 0 fine, >0 signal, -1 protocol

inline void wr(int fd, const void* p, size_t n) { const char* c = (const char*)p; while (n) { ssize_t k = write(fd, c, n); if (k <= 0) _exit(3); c += k; n -= k; } }
inline bool rd(int fd, void* p, size_t n) { char* c = (char*)p; while (n) { ssize_t k = read(fd, c, n); if (k <= 0) return false; c += k; n -= k; } return true; }

// record on the pipe: depth (1..3), call index, status (0 = returned, else wait status class), outputs
struct Rec { int depth = 0, idx = -1, status = 0; Out out; };
inline void emit(int fd, int depth, int idx, int status, const Out* o) {
  std::string b; int32_t h[3] = {depth, idx, status}; b.append((const char*)h, 12);
  uint32_t nd = o ? o->d.size() : 0, ns = o ? o->s.size() : 0;
  b.append((const char*)&nd, 4); if (nd) b.append((const char*)o->d.data(), 8 * (size_t)nd);
  b.append((const char*)&ns, 4); if (ns) b.append(o->s.data(), ns);
  wr(fd, b.data(), b.size());
}
inline bool recv(int fd, Rec& r) {
  int32_t h[3]; if (!rd(fd, h, 12)) return false;
  r.depth = h[0]; r.idx = h[1]; r.status = h[2]; uint32_t nd, ns;
  if (!rd(fd, &nd, 4)) return false; r.out.d.resize(nd); if (nd && !rd(fd, r.out.d.data(), 8 * (size_t)nd)) return false;
  if (!rd(fd, &ns, 4)) return false; r.out.s.resize(ns); if (ns && !rd(fd, &r.out.s[0], ns)) return false;
  return true;
}
inline int wstatus(int st) { return WIFSIGNALED(st) ? WTERMSIG(st) : (WIFEXITED(st) && WEXITSTATUS(st) == 0) ? 0 : -1; }
inline void do_call(const Set& S, int i, Out& o) {
  alarm(120);
  try { S.calls[i].fn(o); }
  catch (const std::exception& e) { o << std::string("EXC:") + e.what(); }
  catch (...) { o << std::string("EXC:unknown"); }
  alarm(0);
}

// The process tree of all sequences that start with call `first`, to depth `depth`: the child runs setup() and the
// first call; for every second call it forks (the fork inherits exactly the state left by the first call), the
// grandchild runs the second call and forks once more for every third call.  Every process is waited for before the
// next is forked, so at any time one path of the tree is alive and the records on the pipe are in depth-first order.
// sink(rec) is called in the parent for every record.  first < 0: no first call (used for the solo baselines, depth 1
// over all calls: each call alone after setup()).
template <class F> inline void run_tree(const Set& S, int first, int depth, F sink) {
  const int N = (int)S.calls.size();
  int fds[2];
  if (pipe(fds) != 0) { perror("pipe"); exit(2); }
  pid_t pid = fork();
  if (pid < 0) { perror("fork"); exit(2); }
  if (pid == 0) {
    close(fds[0]);
    const int fd = fds[1];
    alarm(120);
    if (S.setup) S.setup();
    alarm(0);
    if (first < 0) {           // solo baselines: every call alone in its own fork of the post-setup state
      for (int i = 0; i < N; ++i) {
        pid_t p1 = fork(); if (p1 < 0) _exit(4);
        if (p1 == 0) { Out o; do_call(S, i, o); emit(fd, 1, i, 0, &o); _exit(0); }
        int st = 0; waitpid(p1, &st, 0); if (wstatus(st) != 0) emit(fd, 1, i, wstatus(st), nullptr);
      }
      _exit(0);
    }
    { Out o; do_call(S, first, o); emit(fd, 1, first, 0, &o); }
    if (depth >= 2) for (int j = 0; j < N; ++j) {
      pid_t p2 = fork(); if (p2 < 0) _exit(4);
      if (p2 == 0) {
        { Out o; do_call(S, j, o); emit(fd, 2, j, 0, &o); }
        if (depth >= 3) for (int k = 0; k < N; ++k) {
          pid_t p3 = fork(); if (p3 < 0) _exit(4);
          if (p3 == 0) { Out o; do_call(S, k, o); emit(fd, 3, k, 0, &o); _exit(0); }
          int st = 0; waitpid(p3, &st, 0); if (wstatus(st) != 0) emit(fd, 3, k, wstatus(st), nullptr);
        }
        _exit(0);
      }
      int st = 0; waitpid(p2, &st, 0); if (wstatus(st) != 0) emit(fd, 2, j, wstatus(st), nullptr);
    }
    _exit(0);
  }
  close(fds[1]);
  Rec r;
  while (recv(fds[0], r)) sink(r);
  close(fds[0]);
  int st = 0; waitpid(pid, &st, 0);
  if (wstatus(st) != 0) { Rec d; d.depth = 1; d.idx = first; d.status = wstatus(st); sink(d); }
}

// one sequence in one fresh process (used by tools and tests)
inline Result run_seq(const Set& S, const std::vector<int>& seq) {
  Result R;
  int fds[2];
  if (pipe(fds) != 0) { perror("pipe"); exit(2); }
  pid_t pid = fork();
  if (pid < 0) { perror("fork"); exit(2); }
  if (pid == 0) {
    close(fds[0]);
    if (S.setup) S.setup();
    for (int i : seq) { Out o; do_call(S, i, o); emit(fds[1], 1, i, 0, &o); }
    _exit(0);
  }
  close(fds[1]);
  Rec r; while (recv(fds[0], r)) R.outs.push_back(r.out);
  close(fds[0]);
  int st = 0; waitpid(pid, &st, 0); R.status = wstatus(st);
  R.ok = R.status == 0 && R.outs.size() == seq.size();
  return R;
}

inline uint64_t hash_out(uint64_t h, const Out& o) {
  for (double x : o.d) h = mc::mix64(h ^ mc::bits(x));
  for (unsigned char c : o.s) h = mc::mix64(h ^ c);
  return mc::mix64(h + 77);
}

// explore one set: unit = first call of the sequence
inline void explore(mc::Ctx& ctx, const Set& S, int depth) {
  const int N = (int)S.calls.size();
  ctx.sub("interfere-" + S.name);
  ctx.bound("interfere-" + S.name + ".alphabet", std::to_string(N) + " calls: " + [&] { std::string r; for (int i = 0; i < N && i < 400; ++i) { if (i) r += " | "; r += S.calls[i].name; } return r; }());
  ctx.bound("interfere-" + S.name + ".depth", "every sequence of " + std::to_string(depth) + " calls over the alphabet (" + std::to_string(depth == 2 ? (long long)N * N : (long long)N * N * N) +
            " sequences, repetitions included), each path in its own process (fork tree: a fork inherits exactly the state left by the calls before it); outputs of every call compared bitwise with the same call alone after setup()");
  std::vector<Out> solo(N); std::vector<int> solo_status(N, -1); bool have = false;
  auto ensure_solo = [&] {
    if (have) return; have = true;
    run_tree(S, -1, 1, [&](const Rec& r) { if (r.idx >= 0 && r.idx < N) { solo_status[r.idx] = r.status; if (r.status == 0) solo[r.idx] = r.out; } });
  };
  uint64_t nseq = 0, ncalls = 0; std::set<uint64_t> outcomes;
  for (int i = 0; i < N; ++i) {
    if (!ctx.take()) continue;
    ensure_solo();
    const std::string ni = S.calls[i].name;
    if (solo_status[i] != 0)
      ctx.fail(S.name + "|" + ni + "|solo", "call " + ni + " alone in a fresh process died (status " + std::to_string(solo_status[i]) + ")", {{"kind", "solo-crash"}, {"set", S.name}, {"call", ni}});
    int cur_j = -1; bool bad1 = false, bad2 = false; uint64_t h1 = 0, h2 = 0;
    run_tree(S, i, depth, [&](const Rec& r) {
      mc::Ctx::Case cs(ctx);
      ++ncalls;
      auto judge = [&](const std::string& before, int c, int pos) -> bool {    // true: this call's output is as when alone
        const std::string nc = S.calls[c].name, sn = before + " ; " + nc;
        if (r.status != 0) {
          if (solo_status[c] == 0) ctx.fail(S.name + "|" + sn + "|crash", "after [" + before + "] the call " + nc + " died (status " + std::to_string(r.status) + ") although it returns when executed alone",
                                            {{"kind", "history-dependent-crash"}, {"set", S.name}, {"call", nc}, {"after", before}});
          return false;
        }
        if (solo_status[c] != 0) return false;
        if (!r.out.same(solo[c])) {
          ctx.fail(S.name + "|" + sn + "|" + std::to_string(pos), "in a fresh process, after [" + before + "] the call " + nc + " returns " + r.out.show() + " but alone it returns " + solo[c].show() + " (" + r.out.diff(solo[c]) + ")",
                   {{"kind", "history-dependent-output"}, {"set", S.name}, {"call", nc}, {"after", before}});
          return false;
        }
        return true;
      };
      if (r.depth == 1) {
        h1 = hash_out(1469598103934665603ULL, r.out);
        if (r.status != 0) { bad1 = true; return; }
        if (solo_status[i] == 0 && !r.out.same(solo[i])) {
          bad1 = true;
          ctx.fail(S.name + "|" + ni + "|first", "call " + ni + " as the first call of a fresh process returns " + r.out.show() + " but in another fresh process " + solo[i].show() + " (" + r.out.diff(solo[i]) + ")",
                   {{"kind", "first-call-not-reproducible"}, {"set", S.name}, {"call", ni}});
        }
        if (depth == 1) { ++nseq; outcomes.insert(h1); }
      } else if (r.depth == 2) {
        cur_j = r.idx; h2 = hash_out(h1, r.out);
        ctx.sig(h2);
        if (depth == 2) { ++nseq; outcomes.insert(h2); }
        bad2 = bad1 || solo_status[i] != 0 ? true : !judge(ni, r.idx, 1);     // a polluted prefix is reported once, not for every extension
        if (bad1 || solo_status[i] != 0) bad2 = true;
      } else if (r.depth == 3) {
        uint64_t h3 = hash_out(h2, r.out); ctx.sig(h3); ++nseq; outcomes.insert(h3);
        if (!bad2 && cur_j >= 0) judge(ni + " ; " + S.calls[cur_j].name, r.idx, 2);
      }
    });
  }
  ctx.count("states", outcomes.size());      // distinct observable outcomes (output vectors of a whole sequence)
  ctx.count("transitions", ncalls);          // calls executed inside sequences (each in the state its prefix left)
  ctx.count("traces", nseq);                 // complete sequences executed on the real code
  ctx.count("sequences", nseq);
}

inline int run(int argc, char** argv, std::vector<Set> (*tables)(bool thorough)) {
  mc::Ctx ctx(argc, argv);
  const bool T = ctx.thorough();
  // quick: all ordered pairs over the base alphabet.  thorough: all ordered triples over the base alphabet (their
  // prefixes are the quick pairs) and all ordered pairs over the wider alphabet tables(true).
  { std::vector<Set> sets = tables(false); for (const Set& S : sets) explore(ctx, S, T ? 3 : 2); }
  if (T) { std::vector<Set> sets = tables(true); for (Set& S : sets) { S.name += "-wide"; explore(ctx, S, 2); } }
  ctx.note("engine E2x (mc/interfere.hpp): every call sequence runs in its own forked process; the parent never calls the library, so a child starts from the pristine process state");
  return ctx.finish();
}

}  // namespace ifr
