// mc/sched/rt.hpp -- interface of the E3 engine: controlled scheduler + happens-before race detector
// driven by ThreadSanitizer *instrumentation* (the library is compiled with -fsanitize=thread but linked
// against mc/sched/rt.cpp instead of libtsan).  See DESIGN.md section 2.4 and Appendix A.
#pragma once
#include <cstdint>
#include <cstddef>
#include <vector>
#include <string>
#include <functional>

namespace sched {

constexpr int MAXF = 4;

struct Race {
  uintptr_t addr; int f1, f2; bool w1, w2; void* pc1; void* pc2;
  std::string describe() const;
};

struct Point {             // a decision point with >= 2 enabled fibres
  int running;             // fibre that was running (-1: none)
  bool running_enabled;
  int nenabled; int enabled[MAXF];   // canonical order: running first (if enabled), then ascending ids
  int chosen;              // index into enabled[]
};

struct Exec {
  std::vector<Point> points;
  std::vector<int> choices;
  std::vector<Race> races;            // distinct (addr-word, pc pair) races of this execution
  bool deadlock = false, horizon = false, diverged = false, foreign_stack = false, exception = false;
  bool pruned = false;                // stopped at a decision point whose state had already been expanded
  bool complete = false;              // ran to the end (all fibres done)
  uint64_t new_states = 0;
  uint64_t trace_hash = 0, events = 0, sched_points = 0;
  int preemptions = 0;
  uint64_t new_shared = 0;            // conflicting words first seen in this execution (=> restart)
  std::string exception_what;
};

// one execution: setup() runs in the explorer context with allocation redirected to the setup arena and access
// tracking off; then nf fibres run body(i) under the schedule given by prefix (then default choices).
Exec run(int nf, const std::function<void()>& setup, const std::function<void(int)>& body,
         const std::vector<int>& prefix);

// run body(i) alone (single fibre i) after setup(): the sequential reference
Exec run_alone(int i, const std::function<void()>& setup, const std::function<void(int)>& body);

void set_teardown(const std::function<void()>& f);   // run (allocation still redirected) after every execution
void points_at_reads(bool on);         // also make reads of shared words scheduling points (default: writes + sync only)
void trace_to(FILE* fp);               // debugging: dump every access event
void reset_shared();                  // forget the shared-word set (new harness body)
size_t shared_words();                // |SharedW| (conflicting words: >= 2 fibres, >= 1 write)
size_t shared_written_examples(std::vector<std::string>& out, size_t max);
std::string symbolize(void* pc);

struct ExploreStats {
  uint64_t schedules = 0, events = 0, points = 0, restarts = 0, pruned = 0;
  uint64_t states = 0;                // distinct global states at decision points (at the last bound completed)
  uint64_t pruned_execs = 0;          // executions cut short because they reached an already expanded state
  int bound_completed = -1; bool capped = false;
  uint64_t max_points = 0, max_events = 0;
};

// iterative context bounding: all schedules with <= bound preemptions.  on_exec is called for every execution
// (return false to stop).  Restarts from scratch whenever an execution enlarges the shared set.
ExploreStats explore(int nf, const std::function<void()>& setup, const std::function<void(int)>& body,
                     int bound, uint64_t max_schedules,
                     const std::function<bool(const Exec&)>& on_exec);

}  // namespace sched
