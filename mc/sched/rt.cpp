// mc/sched/rt.cpp -- own ThreadSanitizer runtime: fibres (ucontext) under an explicit scheduler, a scheduling
// point before every access to a word that two fibres touch with at least one write (and at every
// static-initialisation guard operation), vector-clock happens-before race detection on every execution,
// deterministic per-fibre arena allocation, iterative-context-bounding exploration.
//
// This translation unit is compiled WITHOUT -fsanitize=thread.  The library and the harness bodies are compiled
// with it and call the __tsan_* functions defined here.
#include "mc/sched/rt.hpp"
#include <ucontext.h>
#include <sys/mman.h>
#include <dlfcn.h>
#include <link.h>
#include <unordered_map>
#include <cxxabi.h>
#include <cstdio>
#include <cstdlib>
#include <cstring>
#include <new>
#include <exception>
#include <algorithm>
#include <set>

namespace sched {

// ------------------------------------------------------------------ global state
struct Fibre {
  ucontext_t ctx; char* stack = nullptr; size_t stack_size = 0;
  enum { UNUSED, READY, BLOCKED, DONE } state = UNUSED;
  uintptr_t blocked_on = 0;
  uint32_t vc[MAXF];
  uint64_t progress = 0, hist = 0;
};
struct Arena { char* base = nullptr; size_t size = 0, off = 0, high = 0; };

struct Cell {               // shadow of one 8-byte word
  uintptr_t key;            // word address, 0 = empty
  int8_t wf; uint8_t wmask; uint32_t wclock; void* wpc;
  uint32_t rclock[MAXF]; uint8_t rmask[MAXF]; void* rpc[MAXF];
  uint8_t sum_r[MAXF], sum_w[MAXF];     // per-execution access summary (ignores happens-before) for the shared set
};
struct Guard { uintptr_t addr; int state; int owner; uint32_t vc[MAXF]; };   // state 0 uninit 1 running 2 done
struct SyncVar { uintptr_t addr; uint32_t vc[MAXF]; };

static struct G {
  ucontext_t main_ctx;
  Fibre fib[MAXF]; int nf = 0; int cur = -1;
  bool lib = false;          // library/body code is running: hooks are live, operator new goes to the arenas
  bool in_exec = false;      // between start of setup and end of the execution
  bool tracking = false;     // accesses are recorded (fibres only)
  bool inhook = false;
  Arena arena[MAXF + 1];     // 0 = setup, 1 + i = fibre i
  Cell* shadow = nullptr; size_t shadow_cap = 0, shadow_n = 0;
  uintptr_t* touched = nullptr; size_t ntouched = 0, touched_cap = 0;
  Guard guards[256]; int nguards = 0;
  SyncVar syncs[256]; int nsyncs = 0;
  // exploration-wide
  std::set<uintptr_t>* sharedw = nullptr;
  // current execution
  Exec* ex = nullptr;
  const std::vector<int>* prefix = nullptr;
  const std::function<void(int)>* body = nullptr;
  std::function<void()>* teardown = nullptr;
  bool pending_point = false;
  FILE* trace_fp = nullptr;
  std::unordered_map<uint64_t, int>* visited = nullptr;   // state -> fewest preemptions used when reached
  bool use_visited = false;
  bool points_at_reads = false;
  uint64_t horizon = 20000000;
} g;

// thread-local storage of the (single) OS thread: per-thread in a real execution, hence never shared
static struct { uintptr_t lo, hi; } tls_rng[64]; static int ntls = -1;
static int tls_cb(struct dl_phdr_info* info, size_t, void*) {
  if (info->dlpi_tls_data) for (int i = 0; i < info->dlpi_phnum; ++i) if (info->dlpi_phdr[i].p_type == PT_TLS && ntls < 64) {
    tls_rng[ntls].lo = (uintptr_t)info->dlpi_tls_data; tls_rng[ntls].hi = tls_rng[ntls].lo + info->dlpi_phdr[i].p_memsz; ++ntls; }
  return 0;
}
static inline bool in_tls(uintptr_t a) {
  if (ntls < 0) {
    ntls = 0; dl_iterate_phdr(tls_cb, nullptr);
    // the explorer's own (main) stack: harness closures live there; read-only for the fibres
    FILE* f = fopen("/proc/self/maps", "r"); char line[512];
    while (f && fgets(line, sizeof line, f)) if (strstr(line, "[stack]")) { unsigned long lo, hi; if (sscanf(line, "%lx-%lx", &lo, &hi) == 2 && ntls < 64) { tls_rng[ntls].lo = lo; tls_rng[ntls].hi = hi; ++ntls; } }
    if (f) fclose(f);
  }
  for (int i = 0; i < ntls; ++i) if (a >= tls_rng[i].lo && a < tls_rng[i].hi) return true;
  return false;
}

static const size_t STACK = 1 << 20;
static const size_t ARENA = size_t(1) << 28;

static inline uint64_t mix(uint64_t h, uint64_t x) { h ^= x + 0x9e3779b97f4a7c15ULL + (h << 6) + (h >> 2); return h * 0xff51afd7ed558ccdULL; }

// ------------------------------------------------------------------ arenas
static void arena_init() {
  for (int i = 0; i <= MAXF; ++i) if (!g.arena[i].base) {
    void* p = mmap(nullptr, ARENA, PROT_READ | PROT_WRITE, MAP_PRIVATE | MAP_ANONYMOUS | MAP_NORESERVE, -1, 0);
    if (p == MAP_FAILED) { perror("mmap arena"); abort(); }
    g.arena[i].base = (char*)p; g.arena[i].size = ARENA;
  }
}
static void arena_reset() {
  for (int i = 0; i <= MAXF; ++i) { Arena& a = g.arena[i]; if (a.high) memset(a.base, 0, a.high); a.off = a.high = 0; }
}
static void* arena_alloc(size_t n, size_t align) {
  Arena& a = g.arena[g.cur + 1];
  size_t o = (a.off + align - 1) & ~(align - 1);
  if (o + n > a.size) { fprintf(stderr, "sched: arena exhausted\n"); abort(); }
  a.off = o + n; if (a.off > a.high) a.high = a.off;
  return a.base + o;
}
static bool in_arena(const void* p) {
  for (int i = 0; i <= MAXF; ++i) if ((const char*)p >= g.arena[i].base && (const char*)p < g.arena[i].base + g.arena[i].size) return true;
  return false;
}

// ------------------------------------------------------------------ shadow
static void shadow_init() {
  if (!g.shadow) { g.shadow_cap = 1 << 16; g.shadow = (Cell*)calloc(g.shadow_cap, sizeof(Cell)); g.touched_cap = 1 << 16; g.touched = (uintptr_t*)malloc(g.touched_cap * sizeof(uintptr_t)); }
}
static void shadow_clear() {
  // clear only the used slots
  for (size_t i = 0; i < g.ntouched; ++i) {
    size_t m = g.shadow_cap - 1, h = (size_t)(mix(0, g.touched[i])) & m;
    while (g.shadow[h].key && g.shadow[h].key != g.touched[i]) h = (h + 1) & m;
    // cannot delete individually from open addressing; fall through to a full clear below
  }
  memset(g.shadow, 0, g.shadow_cap * sizeof(Cell)); g.shadow_n = 0; g.ntouched = 0;
}
static void shadow_grow() {
  Cell* old = g.shadow; size_t oc = g.shadow_cap;
  g.shadow_cap *= 4; g.shadow = (Cell*)calloc(g.shadow_cap, sizeof(Cell));
  size_t m = g.shadow_cap - 1;
  for (size_t i = 0; i < oc; ++i) if (old[i].key) { size_t h = (size_t)(mix(0, old[i].key)) & m; while (g.shadow[h].key) h = (h + 1) & m; g.shadow[h] = old[i]; }
  free(old);
}
static Cell* cell(uintptr_t w) {
  if (g.shadow_n * 2 > g.shadow_cap) shadow_grow();
  size_t m = g.shadow_cap - 1, h = (size_t)(mix(0, w)) & m;
  while (g.shadow[h].key && g.shadow[h].key != w) h = (h + 1) & m;
  Cell* c = &g.shadow[h];
  if (!c->key) {
    c->key = w; c->wf = -1; ++g.shadow_n;
    if (g.ntouched == g.touched_cap) { g.touched_cap *= 2; g.touched = (uintptr_t*)realloc(g.touched, g.touched_cap * sizeof(uintptr_t)); }
    g.touched[g.ntouched++] = w;
  }
  return c;
}

// ------------------------------------------------------------------ scheduling
static void yield_to_main() {
  int me = g.cur; bool l = g.lib, h = g.inhook; g.lib = false; g.inhook = false;
  swapcontext(&g.fib[me].ctx, &g.main_ctx);
  g.lib = l; g.inhook = h;
}
struct InHook { bool prev; InHook() { prev = g.inhook; g.inhook = true; } ~InHook() { g.inhook = prev; } };

static void add_race(uintptr_t w, int f1, bool w1, void* pc1, int f2, bool w2, void* pc2) {
  for (auto& r : g.ex->races) if (r.pc1 == pc1 && r.pc2 == pc2) return;
  if (g.ex->races.size() < 64) g.ex->races.push_back({w, f1, f2, w1, w2, pc1, pc2});
}

static inline bool own_stack(uintptr_t a) {
  Fibre& f = g.fib[g.cur];
  return a >= (uintptr_t)f.stack && a < (uintptr_t)f.stack + f.stack_size;
}

// is word w in the shared set, or (conservatively, inside this execution) already conflicting?
static inline bool is_shared(uintptr_t w) { return g.sharedw->count(w) != 0; }

static void apply_access(uintptr_t w, uint8_t mask, bool write, void* pc) {
  int me = g.cur; Fibre& f = g.fib[me];
  Cell* c = cell(w);
  // ---- happens-before race check
  if (c->wf >= 0 && c->wf != me && (c->wmask & mask) && c->wclock > f.vc[c->wf])
    add_race(w, c->wf, true, c->wpc, me, write, pc);
  if (write) for (int o = 0; o < g.nf; ++o)
    if (o != me && (c->rmask[o] & mask) && c->rclock[o] > f.vc[o]) add_race(w, o, false, c->rpc[o], me, true, pc);
  // ---- update
  uint32_t now = f.vc[me];
  if (write) { if (c->wf == me && c->wclock == now) c->wmask |= mask; else { c->wf = (int8_t)me; c->wclock = now; c->wmask = mask; } c->wpc = pc; }
  else { if (c->rclock[me] == now) c->rmask[me] |= mask; else { c->rclock[me] = now; c->rmask[me] = mask; } c->rpc[me] = pc; }
  // ---- conflict summary for the shared set (independent of happens-before and of the schedule)
  if (write) c->sum_w[me] |= mask; else c->sum_r[me] |= mask;
  for (int o = 0; o < g.nf; ++o) if (o != me) {
    bool conflict = write ? ((c->sum_r[o] | c->sum_w[o]) & mask) : (c->sum_w[o] & mask);
    if (conflict && !is_shared(w)) { g.sharedw->insert(w); ++g.ex->new_shared; }
  }
  g.ex->trace_hash = mix(g.ex->trace_hash, (uint64_t)w * 8 + (write ? 4 : 0) + me);
  ++f.progress;
  if (!write && is_shared(w)) f.hist = mix(f.hist, mix(w, *(volatile uint64_t*)w));    // what the fibre has learnt
  if (g.trace_fp) fprintf(g.trace_fp, "%d %c %lx %s\n", me, write ? 'W' : 'R', (unsigned long)w, symbolize(pc).c_str());
  if (++g.ex->events > g.horizon) { g.ex->horizon = true; }
}

static void access(uintptr_t a, size_t n, bool write, void* pc) {
  if (!g.tracking || g.cur < 0 || g.inhook || !n) return;
  if (own_stack(a) || in_tls(a)) return;
  for (int o = 0; o < g.nf; ++o) if (o != g.cur) { Fibre& f = g.fib[o]; if (a >= (uintptr_t)f.stack && a < (uintptr_t)f.stack + f.stack_size) g.ex->foreign_stack = true; }
  g.inhook = true;
  uintptr_t first = a & ~uintptr_t(7), last = (a + n - 1) & ~uintptr_t(7);
  // One scheduling point before a WRITE to a shared word.  Reads are not scheduling points: every explored
  // execution is checked for happens-before races, and for race-free executions interleaving at synchronisation
  // operations and writes is sufficient (CHESS: sync-point scheduling is sound for data-race-free programs);
  // a racy read is reported as a race whichever side of the write it lands on.
  bool point = false;
  if (write || g.points_at_reads) for (uintptr_t w = first; w <= last; w += 8) if (is_shared(w)) { point = true; break; }
  if (point) { ++g.ex->sched_points; yield_to_main(); }
  for (uintptr_t w = first; w <= last; w += 8) {
    uintptr_t lo = std::max(a, w), hi = std::min(a + n, w + 8);
    uint8_t mask = (uint8_t)(((1u << (hi - lo)) - 1) << (lo - w));
    apply_access(w, mask, write, pc);
  }
  g.inhook = false;
}

// ------------------------------------------------------------------ sync objects
static Guard* guard(uintptr_t a, bool create) {
  for (int i = 0; i < g.nguards; ++i) if (g.guards[i].addr == a) return &g.guards[i];
  if (!create) return nullptr;
  if (g.nguards == 256) { fprintf(stderr, "sched: too many guards\n"); abort(); }
  Guard* q = &g.guards[g.nguards++]; memset(q, 0, sizeof *q); q->addr = a; q->owner = -2; return q;
}
static SyncVar* syncvar(uintptr_t a) {
  for (int i = 0; i < g.nsyncs; ++i) if (g.syncs[i].addr == a) return &g.syncs[i];
  if (g.nsyncs == 256) { fprintf(stderr, "sched: too many sync variables\n"); abort(); }
  SyncVar* q = &g.syncs[g.nsyncs++]; memset(q, 0, sizeof *q); q->addr = a; return q;
}
static void vc_join(uint32_t* dst, const uint32_t* src) { for (int i = 0; i < MAXF; ++i) if (src[i] > dst[i]) dst[i] = src[i]; }
static void sync_point() {      // scheduling point at a synchronisation operation
  if (g.cur >= 0 && g.tracking) { ++g.ex->sched_points; yield_to_main(); }
}

}  // namespace sched

using namespace sched;

// ------------------------------------------------------------------ the "runtime" symbols
#define PC __builtin_return_address(0)
extern "C" {
void __tsan_init() {}
void __tsan_func_entry(void*) {}
void __tsan_func_exit() {}
void __tsan_read1(void* a) { access((uintptr_t)a, 1, false, PC); }
void __tsan_read2(void* a) { access((uintptr_t)a, 2, false, PC); }
void __tsan_read4(void* a) { access((uintptr_t)a, 4, false, PC); }
void __tsan_read8(void* a) { access((uintptr_t)a, 8, false, PC); }
void __tsan_read16(void* a) { access((uintptr_t)a, 16, false, PC); }
void __tsan_write1(void* a) { access((uintptr_t)a, 1, true, PC); }
void __tsan_write2(void* a) { access((uintptr_t)a, 2, true, PC); }
void __tsan_write4(void* a) { access((uintptr_t)a, 4, true, PC); }
void __tsan_write8(void* a) { access((uintptr_t)a, 8, true, PC); }
void __tsan_write16(void* a) { access((uintptr_t)a, 16, true, PC); }
void __tsan_unaligned_read2(void* a) { access((uintptr_t)a, 2, false, PC); }
void __tsan_unaligned_read4(void* a) { access((uintptr_t)a, 4, false, PC); }
void __tsan_unaligned_read8(void* a) { access((uintptr_t)a, 8, false, PC); }
void __tsan_unaligned_read16(void* a) { access((uintptr_t)a, 16, false, PC); }
void __tsan_unaligned_write2(void* a) { access((uintptr_t)a, 2, true, PC); }
void __tsan_unaligned_write4(void* a) { access((uintptr_t)a, 4, true, PC); }
void __tsan_unaligned_write8(void* a) { access((uintptr_t)a, 8, true, PC); }
void __tsan_unaligned_write16(void* a) { access((uintptr_t)a, 16, true, PC); }
void __tsan_read_range(void* a, unsigned long n) { access((uintptr_t)a, n, false, PC); }
void __tsan_write_range(void* a, unsigned long n) { access((uintptr_t)a, n, true, PC); }
void __tsan_vptr_update(void** a, void*) { access((uintptr_t)a, 8, true, PC); }
void __tsan_vptr_read(void** a) { access((uintptr_t)a, 8, false, PC); }
void __tsan_read1_pc(void* a, void* pc) { access((uintptr_t)a, 1, false, pc); }
void __tsan_write1_pc(void* a, void* pc) { access((uintptr_t)a, 1, true, pc); }

// atomics: executed in program order on the single OS thread; acquire+release on a per-address clock;
// a scheduling point once the address is known to be touched by two fibres
// mode: 1 = acquire (load), 2 = release (store), 3 = both (read-modify-write).  Loads are not scheduling points
// (a load of a location nobody stores to commutes with everything); stores and RMWs are.
static void atomic_sync(uintptr_t a, int mode) {
  if (!g.tracking || g.cur < 0 || g.inhook) return;
  InHook ih;
  if (mode & 2) sync_point();
  SyncVar* s = syncvar(a); Fibre& f = g.fib[g.cur];
  if (mode & 1) vc_join(f.vc, s->vc);
  if (mode & 2) { vc_join(s->vc, f.vc); ++f.vc[g.cur]; }
  g.ex->trace_hash = mix(g.ex->trace_hash, (uint64_t)a * 8 + 3);
}
unsigned char __tsan_atomic8_load(const volatile unsigned char* a, int) {
  if (g.in_exec) { InHook ih; Guard* q = guard((uintptr_t)a, false); if (q) { if (q->state == 2) { if (g.cur >= 0) vc_join(g.fib[g.cur].vc, q->vc); return 1; } return 0; } }
  atomic_sync((uintptr_t)a, 1); return *a;
}
void __tsan_atomic8_store(volatile unsigned char* a, unsigned char v, int) { atomic_sync((uintptr_t)a, 2); *a = v; }
int __tsan_atomic32_load(const volatile int* a, int) { atomic_sync((uintptr_t)a, 1); return *a; }
void __tsan_atomic32_store(volatile int* a, int v, int) { atomic_sync((uintptr_t)a, 2); *a = v; }
int __tsan_atomic32_fetch_add(volatile int* a, int v, int) { atomic_sync((uintptr_t)a, 3); int o = *a; *a = o + v; return o; }
int __tsan_atomic32_fetch_sub(volatile int* a, int v, int) { atomic_sync((uintptr_t)a, 3); int o = *a; *a = o - v; return o; }
long __tsan_atomic64_load(const volatile long* a, int) { atomic_sync((uintptr_t)a, 1); return *a; }
void __tsan_atomic64_store(volatile long* a, long v, int) { atomic_sync((uintptr_t)a, 2); *a = v; }
long __tsan_atomic64_fetch_add(volatile long* a, long v, int) { atomic_sync((uintptr_t)a, 3); long o = *a; *a = o + v; return o; }
int __tsan_atomic32_compare_exchange_strong(volatile int* a, int* c, int v, int, int) { atomic_sync((uintptr_t)a, 3); if (*a == *c) { *a = v; return 1; } *c = *a; return 0; }
void __tsan_atomic_thread_fence(int) {}
void __tsan_atomic_signal_fence(int) {}

// ---- static-initialisation guards (Itanium ABI).  The real guard byte is never written: the state lives in
// g.guards and is forgotten at the start of every execution, so that first-touch is re-explored every time.
int __cxa_guard_acquire(long long* gp) {
  if (!g.in_exec) {          // outside any execution (harness start-up): plain single-threaded protocol
    if (*(char*)gp) return 0; return 1;
  }
  uintptr_t a = (uintptr_t)gp;
  InHook ih;
  for (;;) {
    Guard* q = guard(a, true);
    if (g.cur >= 0 && g.tracking) {
      // a point before the decision, so that either fibre can get there first
      sync_point();
      q = guard(a, true);
    }
    if (q->state == 2) { if (g.cur >= 0) vc_join(g.fib[g.cur].vc, q->vc); return 0; }
    if (q->state == 0) { q->state = 1; q->owner = g.cur; if (g.ex) g.ex->trace_hash = mix(g.ex->trace_hash, (uint64_t)a * 8 + 1); return 1; }
    // initialisation in progress in another fibre: block (never spin)
    if (q->owner == g.cur) { fprintf(stderr, "sched: recursive static initialisation\n"); abort(); }
    g.fib[g.cur].state = Fibre::BLOCKED; g.fib[g.cur].blocked_on = a;
    yield_to_main();
  }
}
static void guard_finish(long long* gp, bool done) {
  if (!g.in_exec) { if (done) *(char*)gp = 1; return; }
  InHook ih;
  Guard* q = guard((uintptr_t)gp, true);
  if (done) { q->state = 2; if (g.cur >= 0) { Fibre& f = g.fib[g.cur]; for (int i = 0; i < MAXF; ++i) q->vc[i] = f.vc[i]; ++f.vc[g.cur]; } }
  else q->state = 0;
  q->owner = -2;
  for (int i = 0; i < g.nf; ++i) if (g.fib[i].state == Fibre::BLOCKED && g.fib[i].blocked_on == (uintptr_t)gp) g.fib[i].state = Fibre::READY;
  if (g.ex) g.ex->trace_hash = mix(g.ex->trace_hash, (uint64_t)(uintptr_t)gp * 8 + 2);
}
void __cxa_guard_release(long long* gp) { guard_finish(gp, true); }
void __cxa_guard_abort(long long* gp) { guard_finish(gp, false); }

// destructors of function-local statics constructed inside an execution must not pile up in the atexit list
int __cxa_atexit(void (*f)(void*), void* p, void* d) {
  typedef int (*fn)(void (*)(void*), void*, void*);
  static fn real = (fn)dlsym(RTLD_NEXT, "__cxa_atexit");
  if (g.in_exec) return 0;
  return real ? real(f, p, d) : 0;
}

// ---- heap blocks released through free() (exception objects, FILE buffers, ... -- everything that does not come
// from operator new): forget their shadow so that address reuse by another fibre is not a conflict
extern "C" void __libc_free(void*);
extern "C" size_t malloc_usable_size(void*);
void free(void* p) {
  if (p && g.tracking && g.shadow && !g.inhook) {
    InHook ih;
    uintptr_t a = (uintptr_t)p & ~uintptr_t(7), e = (uintptr_t)p + malloc_usable_size(p);
    size_t m = g.shadow_cap - 1;
    if (e - a <= (1u << 20)) for (uintptr_t w = a; w < e; w += 8) {
      size_t h = (size_t)(mix(0, w)) & m;
      while (g.shadow[h].key && g.shadow[h].key != w) h = (h + 1) & m;
      if (g.shadow[h].key) { Cell& c = g.shadow[h]; c.wf = -1; c.wmask = 0; c.wclock = 0; for (int i = 0; i < MAXF; ++i) { c.rclock[i] = 0; c.rmask[i] = 0; c.sum_r[i] = c.sum_w[i] = 0; } }
    }
  }
  __libc_free(p);
}

// ---- bulk memory functions called by instrumented code (clang 14 leaves them as plain calls)
static inline void raw_copy(void* d, const void* s, size_t n) { __asm__ volatile("rep movsb" : "+D"(d), "+S"(s), "+c"(n) : : "memory"); }
void* memcpy(void* d, const void* s, size_t n) {
  if (g.lib && g.cur >= 0 && !g.inhook && n) { access((uintptr_t)s, n, false, PC); access((uintptr_t)d, n, true, PC); }
  raw_copy(d, s, n); return d;
}
void* memmove(void* d, const void* s, size_t n) {
  if (g.lib && g.cur >= 0 && !g.inhook && n) { access((uintptr_t)s, n, false, PC); access((uintptr_t)d, n, true, PC); }
  if ((uintptr_t)d <= (uintptr_t)s || (uintptr_t)d >= (uintptr_t)s + n) raw_copy(d, s, n);
  else { unsigned char* dd = (unsigned char*)d + n - 1; const unsigned char* ss = (const unsigned char*)s + n - 1; __asm__ volatile("std; rep movsb; cld" : "+D"(dd), "+S"(ss), "+c"(n) : : "memory"); }
  return d;
}
void* memset(void* d, int c, size_t n) {
  if (g.lib && g.cur >= 0 && !g.inhook && n) access((uintptr_t)d, n, true, PC);
  void* r = d; __asm__ volatile("rep stosb" : "+D"(d), "+c"(n) : "a"(c) : "memory"); return r;
}
}  // extern "C"

// ------------------------------------------------------------------ allocation: deterministic addresses
// Inside an execution every operator new made by library/body code is served from the arena of the running fibre
// (setup: arena 0), so that addresses do not depend on the interleaving; delete of an arena block is a no-op
// (arenas are wiped between executions), hence no address reuse and no stale-shadow conflicts.
static void* sched_new(size_t n, size_t al) {
  if (g.lib && g.in_exec && !g.inhook) return arena_alloc(n ? n : 1, al < 16 ? 16 : al);
  void* p = al <= 16 ? malloc(n ? n : 1) : aligned_alloc(al, (n + al - 1) / al * al);
  if (!p) throw std::bad_alloc();
  return p;
}
static void sched_delete(void* p) { if (!p || in_arena(p)) return; free(p); }
void* operator new(size_t n) { return sched_new(n, 16); }
void* operator new[](size_t n) { return sched_new(n, 16); }
void* operator new(size_t n, std::align_val_t a) { return sched_new(n, (size_t)a); }
void* operator new[](size_t n, std::align_val_t a) { return sched_new(n, (size_t)a); }
void* operator new(size_t n, const std::nothrow_t&) noexcept { try { return sched_new(n, 16); } catch (...) { return nullptr; } }
void* operator new[](size_t n, const std::nothrow_t&) noexcept { try { return sched_new(n, 16); } catch (...) { return nullptr; } }
void operator delete(void* p) noexcept { sched_delete(p); }
void operator delete[](void* p) noexcept { sched_delete(p); }
void operator delete(void* p, size_t) noexcept { sched_delete(p); }
void operator delete[](void* p, size_t) noexcept { sched_delete(p); }
void operator delete(void* p, std::align_val_t) noexcept { sched_delete(p); }
void operator delete[](void* p, std::align_val_t) noexcept { sched_delete(p); }
void operator delete(void* p, size_t, std::align_val_t) noexcept { sched_delete(p); }
void operator delete[](void* p, size_t, std::align_val_t) noexcept { sched_delete(p); }

// ------------------------------------------------------------------ executions
namespace sched {

static void fibre_main(int id) {
  g.lib = true;
  try { (*g.body)(id); }
  catch (const std::exception& e) { g.lib = false; g.ex->exception = true; g.ex->exception_what = e.what(); }
  catch (...) { g.lib = false; g.ex->exception = true; g.ex->exception_what = "unknown"; }
  g.lib = false;
  g.fib[id].state = Fibre::DONE;
  swapcontext(&g.fib[id].ctx, &g.main_ctx);
  abort();
}

static void prepare(int nf, const std::function<void()>& setup) {
  arena_init(); shadow_init();
  if (!g.sharedw) g.sharedw = new std::set<uintptr_t>();
  arena_reset(); shadow_clear(); g.nguards = 0; g.nsyncs = 0;
  g.nf = nf; g.cur = -1; g.tracking = false; g.in_exec = true;
  g.lib = true; setup(); g.lib = false;
  for (int i = 0; i < MAXF; ++i) {
    Fibre& f = g.fib[i];
    if (i >= nf) { f.state = Fibre::UNUSED; continue; }
    if (!f.stack) {
      f.stack_size = STACK;
      char* p = (char*)mmap(nullptr, STACK + 4096, PROT_READ | PROT_WRITE, MAP_PRIVATE | MAP_ANONYMOUS | MAP_STACK, -1, 0);
      if (p == MAP_FAILED) { perror("mmap stack"); abort(); }
      mprotect(p, 4096, PROT_NONE); f.stack = p + 4096;
    }
    memset(f.vc, 0, sizeof f.vc); f.vc[i] = 1; f.state = Fibre::READY; f.blocked_on = 0; f.progress = 0; f.hist = 0;
    getcontext(&f.ctx); f.ctx.uc_stack.ss_sp = f.stack; f.ctx.uc_stack.ss_size = f.stack_size; f.ctx.uc_link = nullptr;
    makecontext(&f.ctx, (void (*)())fibre_main, 1, i);
  }
}

// Canonical key of the global state at a decision point: everything the future of the execution (values AND race
// reports) can depend on -- per fibre: status, progress, history of values read from shared words, vector clock;
// guards and atomics with their clocks; for every shared word its current contents and its shadow (last write
// epoch, read epochs).  Private memory of a fibre is a function of its progress and read history.
static uint64_t state_key(int running) {
  uint64_t h = mix(0x1234, (uint64_t)(running + 1));
  for (int i = 0; i < g.nf; ++i) { Fibre& f = g.fib[i]; h = mix(h, f.state); h = mix(h, f.progress); h = mix(h, f.hist); h = mix(h, f.blocked_on); for (int k = 0; k < g.nf; ++k) h = mix(h, f.vc[k]); }
  for (int i = 0; i < g.nguards; ++i) { Guard& q = g.guards[i]; h = mix(h, q.addr); h = mix(h, (uint64_t)q.state * 8 + (q.owner + 2)); for (int k = 0; k < g.nf; ++k) h = mix(h, q.vc[k]); }
  for (int i = 0; i < g.nsyncs; ++i) { SyncVar& q = g.syncs[i]; h = mix(h, q.addr); for (int k = 0; k < g.nf; ++k) h = mix(h, q.vc[k]); }
  for (uintptr_t w : *g.sharedw) {
    h = mix(h, *(volatile uint64_t*)w);
    size_t m = g.shadow_cap - 1, x = (size_t)(mix(0, w)) & m;
    while (g.shadow[x].key && g.shadow[x].key != w) x = (x + 1) & m;
    if (g.shadow[x].key) { Cell& c = g.shadow[x]; h = mix(h, ((uint64_t)(uint8_t)c.wf << 40) | ((uint64_t)c.wmask << 32) | c.wclock); for (int k = 0; k < g.nf; ++k) h = mix(h, ((uint64_t)c.rmask[k] << 32) | c.rclock[k]); }
    else h = mix(h, 0x77);
  }
  return h;
}

static Exec drive(const std::function<void(int)>& body, const std::vector<int>& prefix, int only) {
  Exec ex; g.ex = &ex; g.body = &body; g.prefix = &prefix;
  g.tracking = true;
  int running = -1; size_t npt = 0;
  for (;;) {
    int en[MAXF], ne = 0;
    bool running_enabled = running >= 0 && g.fib[running].state == Fibre::READY;
    if (running_enabled) en[ne++] = running;
    for (int i = 0; i < g.nf; ++i) if (i != running && g.fib[i].state == Fibre::READY && (only < 0 || i == only)) en[ne++] = i;
    if (running_enabled && only >= 0 && running != only) { ne = 0; }
    if (!ne) {
      bool alldone = true;
      for (int i = 0; i < g.nf; ++i) if ((only < 0 || i == only) && g.fib[i].state != Fibre::DONE) alldone = false;
      if (!alldone) ex.deadlock = true;
      break;
    }
    int idx = 0;
    if (ne > 1) {
      if (npt < prefix.size()) { idx = prefix[npt]; if (idx < 0 || idx >= ne) { ex.diverged = true; break; } }
      else if (g.use_visited && only < 0) {
        // explicit-state pruning: this state was already expanded with at least the remaining preemption budget
        uint64_t k = state_key(running_enabled ? running : -1);
        auto it = g.visited->find(k);
        if (it != g.visited->end() && it->second <= ex.preemptions) { ex.pruned = true; break; }
        if (it == g.visited->end()) { (*g.visited)[k] = ex.preemptions; ++ex.new_states; } else it->second = ex.preemptions;
      }
      Point p; p.running = running; p.running_enabled = running_enabled; p.nenabled = ne; for (int k = 0; k < ne; ++k) p.enabled[k] = en[k]; p.chosen = idx;
      ex.points.push_back(p); ex.choices.push_back(idx); ++npt;
      if (running_enabled && en[idx] != running) ++ex.preemptions;
    }
    int next = en[idx];
    ex.trace_hash = mix(ex.trace_hash, 0x5c4ed0000ULL + next);
    running = next; g.cur = next;
    swapcontext(&g.main_ctx, &g.fib[next].ctx);
    g.cur = -1;
    if (ex.horizon || ex.foreign_stack) break;
  }
  if (npt < prefix.size() && !ex.diverged && !ex.deadlock && !ex.horizon) ex.diverged = true;
  ex.complete = !ex.pruned && !ex.diverged && !ex.deadlock && !ex.horizon && !ex.foreign_stack;
  g.tracking = false; g.cur = -1;
  if (g.teardown && *g.teardown) { g.lib = true; try { (*g.teardown)(); } catch (...) {} g.lib = false; }
  g.in_exec = false; g.ex = nullptr;
  return ex;
}

Exec run(int nf, const std::function<void()>& setup, const std::function<void(int)>& body, const std::vector<int>& prefix) {
  prepare(nf, setup);
  return drive(body, prefix, -1);
}
Exec run_alone(int i, const std::function<void()>& setup, const std::function<void(int)>& body) {
  prepare(i + 1, setup);
  std::vector<int> none;
  return drive(body, none, i);
}

void set_teardown(const std::function<void()>& f) { if (!g.teardown) g.teardown = new std::function<void()>(); *g.teardown = f; }
void trace_to(FILE* fp) { g.trace_fp = fp; }
void points_at_reads(bool on) { g.points_at_reads = on; }
void reset_shared() { if (!g.sharedw) g.sharedw = new std::set<uintptr_t>(); g.sharedw->clear(); }
size_t shared_words() { return g.sharedw ? g.sharedw->size() : 0; }

std::string symbolize(void* pc) {
  Dl_info info; char buf[512];
  if (dladdr(pc, &info) && info.dli_sname) {
    int st = 0; char* dem = abi::__cxa_demangle(info.dli_sname, nullptr, nullptr, &st);
    snprintf(buf, sizeof buf, "%s+0x%lx", st == 0 && dem ? dem : info.dli_sname, (unsigned long)((char*)pc - (char*)info.dli_saddr));
    free(dem); return buf;
  }
  snprintf(buf, sizeof buf, "%p", pc); return buf;
}
size_t shared_written_examples(std::vector<std::string>& out, size_t max) {
  size_t n = 0;
  if (g.sharedw) for (auto w : *g.sharedw) { if (n++ < max) { Dl_info info; char b[256]; if (dladdr((void*)w, &info) && info.dli_sname) snprintf(b, sizeof b, "%s+0x%lx", info.dli_sname, (unsigned long)(w - (uintptr_t)info.dli_saddr)); else snprintf(b, sizeof b, "%s0x%lx", in_arena((void*)w) ? "arena:" : "", (unsigned long)w); out.push_back(b); } }
  return n;
}
std::string Race::describe() const {
  char b[128]; snprintf(b, sizeof b, "word 0x%lx: fibre %d %s at ", (unsigned long)addr, f1, w1 ? "write" : "read");
  std::string s = b; s += symbolize(pc1); snprintf(b, sizeof b, " <-> fibre %d %s at ", f2, w2 ? "write" : "read"); s += b; s += symbolize(pc2);
  return s;
}

// ------------------------------------------------------------------ exploration (iterative context bounding)
struct Explorer {
  int nf, bound; uint64_t cap;
  const std::function<void()>& setup; const std::function<void(int)>& body;
  const std::function<bool(const Exec&)>& on_exec;
  ExploreStats st; bool stop = false, restart = false;
  void go(const std::vector<int>& prefix) {
    if (stop || restart) return;
    if (st.schedules >= cap) { st.capped = true; stop = true; return; }
    Exec x = run(nf, setup, body, prefix);
    ++st.schedules; st.events += x.events; st.points += x.points.size();
    st.max_points = std::max<uint64_t>(st.max_points, x.points.size()); st.max_events = std::max(st.max_events, x.events);
    st.states += x.new_states; if (x.pruned) ++st.pruned_execs;
    if (!on_exec(x)) { stop = true; return; }
    if (x.new_shared) { restart = true; return; }
    if (x.diverged || x.horizon || x.foreign_stack) { stop = true; return; }
    // branch at every point at or after the end of the prefix
    int pre = 0;
    std::vector<int> cost_before(x.points.size() + 1, 0);
    for (size_t i = 0; i < x.points.size(); ++i) { const Point& p = x.points[i]; cost_before[i] = pre; if (p.running_enabled && p.enabled[p.chosen] != p.running) ++pre; }
    for (size_t i = prefix.size(); i < x.points.size(); ++i) {
      const Point& p = x.points[i];
      for (int alt = 0; alt < p.nenabled; ++alt) {
        if (alt == p.chosen) continue;
        int cost = cost_before[i] + ((p.running_enabled && p.enabled[alt] != p.running) ? 1 : 0);
        if (cost > bound) { ++st.pruned; continue; }
        std::vector<int> np(x.choices.begin(), x.choices.begin() + i); np.push_back(alt);
        go(np);
        if (stop || restart) return;
      }
    }
  }
};

ExploreStats explore(int nf, const std::function<void()>& setup, const std::function<void(int)>& body, int bound,
                     uint64_t max_schedules, const std::function<bool(const Exec&)>& on_exec) {
  ExploreStats total;
  if (!g.visited) g.visited = new std::unordered_map<uint64_t, int>();
  for (int b = 0; b <= bound; ++b) {
    for (;;) {
      Explorer e{nf, b, max_schedules, setup, body, on_exec};
      g.visited->clear(); g.use_visited = true;
      e.go({});
      g.use_visited = false;
      total.restarts += e.restart ? 1 : 0;
      if (e.restart) { b = 0; continue; }         // shared set grew: all bounds again from 0
      total.schedules += e.st.schedules; total.events += e.st.events; total.points += e.st.points; total.pruned += e.st.pruned;
      total.states = e.st.states; total.pruned_execs += e.st.pruned_execs;
      total.max_points = std::max(total.max_points, e.st.max_points); total.max_events = std::max(total.max_events, e.st.max_events);
      if (e.st.capped) total.capped = true;
      if (e.stop) return total;
      total.bound_completed = b;
      break;
    }
  }
  return total;
}

}  // namespace sched
